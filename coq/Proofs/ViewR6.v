(* Proofs/ViewR6.v — C04, arbitrary previous caches, part 6: previous caches whose records
   hold no failed build_file (calm caches).  The KeyError of error_building_file is raised
   only when a failed record is replayed: for calm well-formed caches no lookup raises, and
   the final theorem holds without any statement left.  Also: the empty cache is well formed
   and calm.                                                                              *)
From Coq Require Import List String Ascii NArith ZArith Bool Arith Lia.
From FB.Base Require Import PyVal Fs.
From FB.Gen Require Import JsonUtilGen.
From FB.Spec Require Import Prog Ref.
From FB.Model Require Import Types Monad CreatedFiles BuildDirs SimpleOps Builder Persist Build Run Frame.
From FB.Proofs Require Import FsLemmas CleanLaws JsonLaws CoreLawsChildren ReplayLaws BuildFileLaws
     ViewDefs ViewLemmas ViewScan ViewQueries ViewAnswers ViewInit ViewPres ViewOverlay ViewOverlay2
     ViewXDefs ViewXFail ViewXReach ViewH4 ViewR1 ViewR2 ViewR3 ViewR4 ViewR5.
Import ListNotations.
Open Scope list_scope.
Open Scope m_scope.

(* no failed build_file anywhere in the record *)
Fixpoint calm (o : op) : bool :=
  match o with
  | OSimple _ _ _ => true
  | OBuildFile _ _ _ _ _ subs _ _ raised _ => negb raised && forallb calm subs
  | OSubbuild _ _ _ subs _ _ _ => forallb calm subs
  end.

Definition CalmCache (old : cache) : Prop :=
  (forall p rec, cache_get_file old p = Some rec -> calm rec = true) /\
  (forall k rec, subs_get (c_subs old) k = Some (Some rec) -> calm rec = true).

Definition postc (r : (bool * cfiles) + exn) : Prop :=
  match r with inl (b, cf') => DL cf' | inr e => False end.

Lemma subs_go_calm : forall subs,
  Forall (fun o => forall cf w w' r, wfrec o = true -> calm o = true -> WB w -> DL cf -> is_op_cached o cf w = (w', r) -> postc r) subs ->
  forall cf w w' r, forallb wfrec subs = true -> forallb calm subs = true -> WB w -> DL cf -> GO subs cf w = (w', r) -> postc r.
Proof.
  intros subs H. induction H as [|s rest Hs Hrest IH]; intros cf w w' r Hg Hc HW HD Hgo; cbn [GO] in Hgo.
  - inversion Hgo; subst. exact HD.
  - cbn [forallb] in Hg, Hc. apply andb_true_iff in Hg. destruct Hg as [Hg1 Hg2].
    apply andb_true_iff in Hc. destruct Hc as [Hc1 Hc2].
    apply bind_inv in Hgo. destruct Hgo as [[wa [r1 [E Hgo]]]|[e [E Er]]].
    + pose proof (Hs cf w wa (inl r1) Hg1 Hc1 HW HD E) as P1. destruct r1 as [b1 cf1]. cbn [postc] in P1. cbn [fst snd] in Hgo.
      pose proof (WB_step _ _ _ _ _ HW (is_op_cached_v _ _) (is_op_cached_svb _ _) E) as HWa.
      destruct b1; [apply (IH cf1 wa w' r Hg2 Hc2 HWa P1 Hgo)|inversion Hgo; subst; exact P1].
    + subst r. apply (Hs cf w w' (inr e) Hg1 Hc1 HW HD E).
Qed.

Theorem is_op_cached_calm : forall o cf w w' r, wfrec o = true -> calm o = true -> WB w -> DL cf ->
  is_op_cached o cf w = (w', r) -> postc r.
Proof.
  induction o as [q rt ex|p c f a k subs rt cr ra sf IH|f a k subs rt ra sf IH] using op_ind';
    intros cf w w' r Hg Hc HW HD H; cbn [is_op_cached] in H; cbn [wfrec] in Hg; cbn [calm] in Hc.
  - apply bind_inv in H. destruct H as [[wa [b [Eb H]]]|[e [Eb _]]].
    + inversion H; subst. exact HD.
    + exfalso. apply (simple_noraise _ _ _ _ _ _ _ HW HD Eb).
  - pose proof (subs_go_calm subs IH) as Hgo. fold GO in H.
    apply andb_true_iff in Hc. destruct Hc as [Hc1 Hc3].
    assert (Hra: ra = false) by (destruct ra; [discriminate|reflexivity]).
    apply andb_true_iff in Hg. destruct Hg as [Hg Hg3]. apply andb_true_iff in Hg. destruct Hg as [Hg1 Hg2].
    unfold tgt_ok in Hg2. apply andb_true_iff in Hg2. destruct Hg2 as [Hpok Hplen]. apply Nat.ltb_lt in Hplen.
    apply bind_inv in H. unfold get in H. destruct H as [[w1 [w0 [E H]]]|[e [E _]]]; [|discriminate].
    inversion E; subst w1 w0.
    destruct (cache_has_file (w_new w) p || path_eqb p (w_cachefile w)); [inversion H; subst; exact HD|].
    apply bind_inv in H. destruct H as [[w1 [ve [Ev H]]]|[e [Ev _]]].
    2:{ unfold version_equal, bind, get, ret in Ev. discriminate. }
    pose proof (WB_step _ _ _ _ _ HW (version_equal_v _) (version_equal_svb _) Ev) as HW1.
    destruct (negb ve); [inversion H; subst; exact HD|].
    apply bind_inv in H. destruct H as [[w2 [ok [Eo H]]]|[e [Eo _]]].
    2:{ exfalso. destruct ra; [discriminate|]. unfold is_build_file_cached in Eo. apply bind_inv in Eo.
        destruct Eo as [[w3 [cur [En Eo]]]|[e' [En _]]]; [discriminate|]. apply (noneable_cmp_noraise _ _ _ _ _ Hpok En). }
    assert (HW2: WB w2).
    { destruct ra; [inversion Eo; subst; exact HW1|].
      apply (WB_step _ _ _ _ _ HW1 (is_build_file_cached_v _ _ _) (is_build_file_cached_svb _ _ _) Eo). }
    destruct (negb ok); [inversion H; subst; exact HD|].
    apply bind_inv in H. unfold get in H. destruct H as [[w3 [w0 [E3 H]]]|[e [E3 _]]]; [|discriminate].
    inversion E3; subst w3 w0.
    destruct (ra && lexists (w_fs w2) p); [inversion H; subst; exact HD|].
    destruct sf; [inversion H; subst; exact HD|].
    apply bind_inv in H. destruct H as [[w3 [dres [Ed H]]]|[e [Ed _]]].
    2:{ unfold attempt in Ed. destruct (dirs_to_make (dirname p) (Some cf) w2); discriminate. }
    unfold attempt in Ed. destruct (dirs_to_make (dirname p) (Some cf) w2) as [w4 x] eqn:E4. inversion Ed; subst w4 dres.
    pose proof (WB_step _ _ _ _ _ HW2 (dirs_to_make_v _ _) (dirs_to_make_svb _ _) E4) as HW3.
    destruct x as [ds|e].
    2:{ pose proof (dirs_to_make_oso _ _ _ _ _ (proj1 HW2) E4) as K. cbn in K. rewrite K in H. inversion H; subst. exact HD. }
    apply bind_inv in H. destruct H as [[w4 [rr [Es H]]]|[e [Es Er]]].
    2:{ subst r. apply (Hgo _ _ _ _ Hg3 Hc3 HW3 (DL_started _ _ HD Hplen) Es). }
    pose proof (Hgo _ _ _ _ Hg3 Hc3 HW3 (DL_started _ _ HD Hplen) Es) as P1. destruct rr as [b1 cf1]. cbn [postc] in P1.
    cbn [fst snd] in H. destruct b1; cbn [negb] in H; [|inversion H; subst; exact P1].
    destruct ra.
    + discriminate Hra.
    + inversion H; subst. apply DL_finished. exact P1.
  - pose proof (subs_go_calm subs IH) as Hgo. fold GO in H.
    apply bind_inv in H. destruct H as [[w1 [ve [Ev H]]]|[e [Ev _]]].
    2:{ unfold version_equal, bind, get, ret in Ev. discriminate. }
    pose proof (WB_step _ _ _ _ _ HW (version_equal_v _) (version_equal_svb _) Ev) as HW1.
    destruct (negb ve || sf); [inversion H; subst; exact HD|].
    apply bind_inv in H. unfold get in H. destruct H as [[w2 [w0 [E2 H]]]|[e [E2 _]]]; [|discriminate].
    inversion E2; subst w2 w0.
    destruct (cache_has_subbuild (w_new w1) (subbuild_key f a k)); [inversion H; subst; exact HD|].
    apply (Hgo _ _ _ _ Hg Hc HW1 HD H).
Qed.

Lemma are_subs_cached_calm : forall subs cf w w' r, forallb wfrec subs = true -> forallb calm subs = true -> WB w -> DL cf ->
  are_subs_cached subs cf w = (w', r) -> postc r.
Proof.
  induction subs as [|s rest IH]; intros cf w w' r Hg Hc HW HD H; cbn [are_subs_cached] in H.
  - inversion H; subst. exact HD.
  - cbn [forallb] in Hg, Hc. apply andb_true_iff in Hg. destruct Hg as [Hg1 Hg2].
    apply andb_true_iff in Hc. destruct Hc as [Hc1 Hc2].
    apply bind_inv in H. destruct H as [[wa [r1 [E H]]]|[e [E Er]]].
    + pose proof (is_op_cached_calm s cf w wa (inl r1) Hg1 Hc1 HW HD E) as P1. destruct r1 as [b1 cf1]. cbn [postc] in P1. cbn [fst snd] in H.
      pose proof (WB_step _ _ _ _ _ HW (is_op_cached_v _ _) (is_op_cached_svb _ _) E) as HWa.
      destruct b1; [apply (IH cf1 wa w' r Hg2 Hc2 HWa P1 H)|inversion H; subst; exact P1].
    + subst r. apply (is_op_cached_calm s cf w w' (inr e) Hg1 Hc1 HW HD E).
Qed.

(* ------------------------------------------------------------------ the lookups *)
Theorem lookup_calm_noraise : forall p f a k w wl e, WB w -> WfCache (w_old w) -> CalmCache (w_old w) ->
  build_file_cache_lookup p f a k w <> (wl, inr e).
Proof.
  intros p f a k w wl e HW [HWf _] [HCf _] H. unfold build_file_cache_lookup in H. apply bind_inv in H. unfold get in H.
  destruct H as [[w1 [w0 [E H]]]|[e' [E _]]]; [|discriminate]. inversion E; subst w1 w0.
  destruct (cache_get_file (w_old w) p) as [[q r ex|p' c' f' a' k' subs' r' cr' ra' sf'|f' a' k' subs' r' ra' sf']|] eqn:Eg;
    try (inversion H; fail).
  pose proof (HWf _ _ Eg) as Hg. cbn [wfrec] in Hg. pose proof (HCf _ _ Eg) as Hc. cbn [calm] in Hc.
  apply andb_true_iff in Hc. destruct Hc as [_ Hc3].
  apply andb_true_iff in Hg. destruct Hg as [Hg Hg3]. apply andb_true_iff in Hg. destruct Hg as [Hg1 Hg2].
  unfold tgt_ok in Hg2. apply andb_true_iff in Hg2. destruct Hg2 as [Hpok _].
  destruct ra'; [inversion H|]. destruct (negb (String.eqb f' f)); [inversion H|].
  apply bind_inv in H. destruct H as [[w1 [ve [Ev H]]]|[e' [Ev _]]].
  2:{ unfold version_equal, bind, get, ret in Ev. discriminate. }
  pose proof (WB_step _ _ _ _ _ HW (version_equal_v _) (version_equal_svb _) Ev) as HW1.
  destruct (negb ve); [inversion H|].
  destruct (negb (is_equal a' a)); [inversion H|]. destruct (negb (is_equal k' k)); [inversion H|].
  apply bind_inv in H. destruct H as [[w2 [ok [Eo H]]]|[e' [Eo _]]].
  2:{ exfalso. unfold is_build_file_cached in Eo. apply bind_inv in Eo.
      destruct Eo as [[w3 [cur [En Eo]]]|[e'' [En _]]]; [discriminate|]. apply (noneable_cmp_noraise _ _ _ _ _ Hpok En). }
  pose proof (WB_step _ _ _ _ _ HW1 (is_build_file_cached_v _ _ _) (is_build_file_cached_svb _ _ _) Eo) as HW2.
  destruct (negb ok); [inversion H|].
  apply bind_inv in H. destruct H as [[w3 [rr [Es H]]]|[e' [Es Er]]].
  - destruct (fst rr); inversion H.
  - apply (are_subs_cached_calm _ _ _ _ _ Hg3 Hc3 HW2 DL_empty Es).
Qed.

Theorem sublookup_calm_noraise : forall key f w wl e, WB w -> WfCache (w_old w) -> CalmCache (w_old w) ->
  subbuild_cache_lookup key f w <> (wl, inr e).
Proof.
  intros key f w wl e HW [_ HWf] [_ HCf] H. unfold subbuild_cache_lookup in H. apply bind_inv in H. unfold get in H.
  destruct H as [[w1 [w0 [E H]]]|[e' [E _]]]; [|discriminate]. inversion E; subst w1 w0.
  destruct (subs_get (c_subs (w_old w)) key) as [[[q r ex|p' c' f' a' k' subs' r' cr' ra' sf'|f' a' k' subs' r' ra' sf']|]|] eqn:Eg;
    try (inversion H; fail).
  pose proof (HWf _ _ Eg) as Hg. cbn [wfrec] in Hg. pose proof (HCf _ _ Eg) as Hc. cbn [calm] in Hc.
  destruct ra'; [inversion H|].
  apply bind_inv in H. destruct H as [[w1 [ve [Ev H]]]|[e' [Ev _]]].
  2:{ unfold version_equal, bind, get, ret in Ev. discriminate. }
  pose proof (WB_step _ _ _ _ _ HW (version_equal_v _) (version_equal_svb _) Ev) as HW1.
  destruct (negb ve); [inversion H|].
  apply bind_inv in H. destruct H as [[w3 [rr [Es H]]]|[e' [Es Er]]].
  - destruct (fst rr); inversion H.
  - apply (are_subs_cached_calm _ _ _ _ _ Hg Hc HW1 DL_empty Es).
Qed.

(* ------------------------------------------------------------------ the final theorem for calm caches *)
Theorem noraise_calm : NoRaise CalmCache.
Proof.
  intros T w HR. pose proof (RInv2_WB _ _ _ HR) as HW. destruct HR as (_ & _ & HWf & HCf). split.
  - intros p f a k wl e. apply lookup_calm_noraise; assumption.
  - intros k f wl e. apply sublookup_calm_noraise; assumption.
Qed.

(* For every program whose targets are creatable and shallow, every well-formed calm previous
   cache, every shallow initial tree in which the cache file path is not a directory: every
   query (other than read) asked at any point of a fault-free build answers like POSIX on the
   view of the world it is asked in. *)
Theorem reachable_answers_view_calm : forall w0 cachefile old nm vers pr subs q wq,
  fs_wf (w_fs w0) -> old_ok old cachefile -> WfCache old -> CalmCache old -> w_faults w0 = [] ->
  isdir (w_fs w0) cachefile = false -> maxlen (w_fs w0) < walk_fuel ->
  AllTargets tgtP pr ->
  AskAt pr None subs (start_world w0 cachefile old nm vers) q wq ->
  path_ok (spec_query_path q) = true ->
  (forall p c, q <> QRead p c) ->
  BInv wq /\ yields (exec_query q None) wq (to_res (spec_answer (view_fs wq) q)).
Proof.
  intros. eapply (reachable_answers_view2 CalmCache noraise_calm); eassumption.
Qed.

(* and for all well-formed caches, relative to NoKeyError only *)
Theorem reachable_answers_view_wf : NoKeyError (fun _ => True) -> forall w0 cachefile old nm vers pr subs q wq,
  fs_wf (w_fs w0) -> old_ok old cachefile -> WfCache old -> w_faults w0 = [] ->
  isdir (w_fs w0) cachefile = false -> maxlen (w_fs w0) < walk_fuel ->
  AllTargets tgtP pr ->
  AskAt pr None subs (start_world w0 cachefile old nm vers) q wq ->
  path_ok (spec_query_path q) = true ->
  (forall p c, q <> QRead p c) ->
  BInv wq /\ yields (exec_query q None) wq (to_res (spec_answer (view_fs wq) q)).
Proof.
  intros HK w0 cachefile old nm vers pr subs q wq Hwf Hok HW HF Hnc Hml Hat HA Hp Hnr.
  apply (reachable_answers_view2 (fun _ => True) (noraise_of_nokeyerror _ HK) w0 cachefile old nm vers pr subs q wq); auto.
Qed.

(* the empty cache (first build) *)
Lemma files_get_nil : forall p, files_get [] p = None.
Proof. reflexivity. Qed.

Theorem WfCache_empty : forall nm vers, WfCache (empty_cache nm vers).
Proof. intros nm vers. split; intros x rec H; cbn in H; discriminate. Qed.

Theorem CalmCache_empty : forall nm vers, CalmCache (empty_cache nm vers).
Proof. intros nm vers. split; intros x rec H; cbn in H; discriminate. Qed.

Print Assumptions noraise_calm.
Print Assumptions reachable_answers_view_calm.
Print Assumptions reachable_answers_view_wf.
Print Assumptions WfCache_empty.
