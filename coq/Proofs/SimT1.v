(* Proofs/SimT1.v — item 1 of SimN3's list for next_faithful_statement: faithfulness of a record
   ([follows], [faithful_op], [faithful_sub_at] of Spec/Faithful.v) is invariant under the record
   relation of the simulation (ViewK3.rec_rel: recorded METADATA comparison results may differ in
   timeNs) between two content oracles that answer the recorded comparison results alike.
   [orel kp kp' o o']: rec_rel o o', and at every point where [follows] consults the oracle
   (the result of a recorded read, the comparison result of a build_file record) kp on the
   value of o answers what kp' answers on the value of o'.                                 *)
From Coq Require Import List String Ascii NArith ZArith Bool Arith Lia.
From FB.Base Require Import PyVal Fs.
From FB.Gen Require Import JsonUtilGen.
From FB.Spec Require Import JsonSpec Prog Ref Oracle Faithful.
From FB.Model Require Import Types SimpleOps Builder Persist Core CoreOracle.
From FB.Proofs Require Import FsLemmas CoreLaws4 CoreLawsJson ViewK3.
Import ListNotations.
Local Open Scope list_scope.

(* ------------------------------------------------------------------ the relation *)
(* the two oracles agree on ALL val_rel-related values (the strong, global form) *)
Definition kp_rel (kp kp' : kappa) : Prop :=
  forall p c r r', val_rel r r' -> kp p c r = kp' p c r'.

(* agreement where a simple record is consulted *)
Definition simple_agree (kp kp' : kappa) (q : query) (r r' : pyval) : Prop :=
  match q with QRead p c => kp p c r = kp' p c r' | _ => True end.

Fixpoint orel (kp kp' : kappa) (a b : op) {struct a} : Prop :=
  let all2 :=
    fix go (xs ys : list op) : Prop :=
      match xs, ys with
      | [], [] => True
      | x :: xs', y :: ys' => orel kp kp' x y /\ go xs' ys'
      | _, _ => False
      end in
  match a, b with
  | OSimple q r e, OSimple q' r' e' => q = q' /\ val_rel r r' /\ e = e' /\ simple_agree kp kp' q r r'
  | OBuildFile p c f a1 k1 s r cr ra sf, OBuildFile p' c' f' a1' k1' s' r' cr' ra' sf' =>
      p = p' /\ c = c' /\ f = f' /\ a1 = a1' /\ k1 = k1' /\ all2 s s' /\ r = r' /\ val_rel cr cr' /\ ra = ra' /\ sf = sf' /\
      kp p c cr = kp' p c cr'
  | OSubbuild f a1 k1 s r ra sf, OSubbuild f' a1' k1' s' r' ra' sf' =>
      f = f' /\ a1 = a1' /\ k1 = k1' /\ all2 s s' /\ r = r' /\ ra = ra' /\ sf = sf'
  | _, _ => False
  end.

Definition orels (kp kp' : kappa) : list op -> list op -> Prop :=
  fix go (xs ys : list op) : Prop :=
    match xs, ys with
    | [], [] => True
    | x :: xs', y :: ys' => orel kp kp' x y /\ go xs' ys'
    | _, _ => False
    end.

(* rec_rel between globally agreeing oracles is orel *)
Lemma rec_rel_orel : forall kp kp', kp_rel kp kp' -> forall o o', rec_rel o o' -> orel kp kp' o o'.
Proof.
  intros kp kp' K o.
  induction o as [q r e|p c f a k subs r cr ra sf IH|f a k subs r ra sf IH] using op_ind'; intros o' H; destruct o'; cbn in H; try contradiction.
  - destruct H as (-> & Hv & ->). cbn. repeat split; try assumption. destruct q0; cbn; try exact I. apply K. exact Hv.
  - destruct H as (-> & -> & -> & -> & -> & Hs & -> & Hv & -> & ->). cbn.
    repeat split; try assumption; [|apply K; exact Hv].
    clear Hv. revert subs0 Hs. induction IH as [|x xs Hx _ IHx]; intros [|y ys] Hs; try contradiction; [exact I|].
    destruct Hs as [H1 H2]. split; [exact (Hx y H1)|exact (IHx ys H2)].
  - destruct H as (-> & -> & -> & Hs & -> & -> & ->). cbn.
    repeat split; try assumption.
    revert subs0 Hs. induction IH as [|x xs Hx _ IHx]; intros [|y ys] Hs; try contradiction; [exact I|].
    destruct Hs as [H1 H2]. split; [exact (Hx y H1)|exact (IHx ys H2)].
Qed.

(* ------------------------------------------------------------------ what user code saw *)
Lemma val_rel_bool : forall r r', val_rel r r' ->
  match r with PBool b => Some (PBool b) | _ => None end = match r' with PBool b => Some (PBool b) | _ => None end.
Proof. intros r r' H. destruct H; reflexivity. Qed.
Lemma val_rel_int : forall r r', val_rel r r' ->
  match r with PInt b => Some (PInt b) | _ => None end = match r' with PInt b => Some (PInt b) | _ => None end.
Proof. intros r r' H. destruct H; reflexivity. Qed.
Lemma val_rel_strlist : forall r r', val_rel r r' -> canon_strlist r = canon_strlist r'.
Proof. intros r r' H. destruct H; reflexivity. Qed.
Lemma val_rel_walk : forall r r', val_rel r r' -> canon_walk r = canon_walk r'.
Proof. intros r r' H. destruct H; reflexivity. Qed.

Lemma user_value_rel : forall kp kp' q r r', val_rel r r' -> simple_agree kp kp' q r r' ->
  user_value kp q r = user_value kp' q r'.
Proof.
  intros kp kp' q r r' Hv Ha. destruct q; cbn [user_value].
  - exact (val_rel_bool _ _ Hv).
  - exact (val_rel_bool _ _ Hv).
  - exact (val_rel_bool _ _ Hv).
  - exact (val_rel_strlist _ _ Hv).
  - exact (val_rel_walk _ _ Hv).
  - exact (val_rel_int _ _ Hv).
  - cbn in Ha. rewrite Ha. reflexivity.
Qed.

(* ------------------------------------------------------------------ outputs and claims *)
Lemma orel_outputs : forall kp kp' o o', orel kp kp' o o' -> tree_outputs o = tree_outputs o'.
Proof.
  intros kp kp' o.
  induction o as [q r e|p c f a k subs r cr ra sf IH|f a k subs r ra sf IH] using op_ind'; intros o' H; destruct o'; cbn in H; try contradiction.
  - reflexivity.
  - destruct H as (-> & -> & -> & -> & -> & Hs & -> & Hv & -> & -> & _). cbn [tree_outputs]. f_equal.
    clear Hv. revert subs0 Hs. induction IH as [|x xs Hx _ IHx]; intros [|y ys] Hs; try contradiction; [reflexivity|].
    destruct Hs as [H1 H2]. cbn [flat_map]. rewrite (Hx y H1), (IHx ys H2). reflexivity.
  - destruct H as (-> & -> & -> & Hs & -> & -> & ->). cbn [tree_outputs].
    revert subs0 Hs. induction IH as [|x xs Hx _ IHx]; intros [|y ys] Hs; try contradiction; [reflexivity|].
    destruct Hs as [H1 H2]. cbn [flat_map]. rewrite (Hx y H1), (IHx ys H2). reflexivity.
Qed.

Lemma orels_outputs : forall kp kp' l l', orels kp kp' l l' -> flat_map tree_outputs l = flat_map tree_outputs l'.
Proof.
  intros kp kp' l. induction l as [|x xs IH]; intros [|y ys] H; try contradiction; [reflexivity|].
  destruct H as [H1 H2]. cbn [flat_map]. rewrite (orel_outputs _ _ _ _ H1), (IH ys H2). reflexivity.
Qed.

(* ------------------------------------------------------------------ results of a trace *)
Definition res_rel (kp kp' : kappa) (a b : option (outcome * option string * list op * claims)) : Prop :=
  match a, b with
  | None, None => True
  | Some (o, w, r, c), Some (o', w', r', c') => o = o' /\ w = w' /\ orels kp kp' r r' /\ c = c'
  | _, _ => False
  end.

Lemma bf_end_rel : forall kp kp' p c ns ns' ret_ cr cr' raised out_n bytes_n cl2,
  orels kp kp' ns ns' -> kp p c cr = kp' p c cr' ->
  bf_end kp p c ns ret_ cr raised out_n bytes_n cl2 = bf_end kp' p c ns' ret_ cr' raised out_n bytes_n cl2.
Proof.
  intros. unfold bf_end. rewrite (orels_outputs _ _ _ _ H), H0. reflexivity.
Qed.

Lemma follows_rel : forall kp kp' pr tgt subs subs' w cl, orels kp kp' subs subs' ->
  res_rel kp kp' (follows kp tgt pr subs w cl) (follows kp' tgt pr subs' w cl).
Proof.
  intros kp kp' pr.
  induction pr as [v|e|stale q k IHk|c k IHk|stale p c fname a kw fn IHfn k IHk|stale fname a kw fn IHfn k IHk];
    intros tgt subs subs' w cl HS.
  - cbn. repeat split; assumption.
  - cbn. repeat split; assumption.
  - cbn [follows]. destruct stale; [apply IHk; exact HS|].
    destruct subs as [|x xs], subs' as [|y ys]; try contradiction; [exact I|].
    destruct HS as [H1 H2].
    destruct x, y; cbn in H1; try contradiction; try exact I.
    destruct H1 as (-> & Hv & -> & Ha).
    destruct (query_beq q q1) eqn:Eq; [|exact I]. cbn [negb].
    apply query_beq_eq in Eq. subst q1.
    destruct ex0; [apply IHk; exact H2|].
    rewrite (user_value_rel kp kp' q ret ret0 Hv Ha).
    destruct (user_value kp' q ret0); [apply IHk; exact H2|exact I].
  - cbn [follows]. destruct tgt as [p|]; [|apply IHk; exact HS].
    destruct (path_ok p); [apply IHk; exact HS|]. cbn. repeat split; assumption.
  - cbn [follows]. destruct stale; [apply IHk; exact HS|].
    destruct (sanitize a) as [sa|]; [|apply IHk; exact HS].
    destruct (sanitize kw) as [skw|]; [|apply IHk; exact HS].
    destruct subs as [|x xs], subs' as [|y ys]; try contradiction; [exact I|].
    destruct HS as [H1 H2].
    destruct x as [?q ?r ?e|xp xc xf xa xk xsubs xret xcr xra xsf|? ? ? ? ? ? ?],
             y as [?q ?r ?e|yp yc yf ya yk ysubs yret ycr yra ysf|? ? ? ? ? ? ?]; cbn in H1; try contradiction; try exact I.
    destruct H1 as (-> & -> & -> & -> & -> & Hs & -> & Hv & -> & -> & Hk).
    destruct (path_eqb p yp) eqn:Ep; [|exact I]. cbn [negb].
    apply FsLemmas.path_eqb_eq in Ep. subst yp.
    destruct ysf; [exact I|].
    destruct (mem_path p (fst cl) || existsb (is_ancestor p) (fst cl)); [exact I|].
    pose proof (IHfn p sa skw (Some p) xsubs ysubs None (fst cl ++ [p], snd cl) Hs) as HN.
    destruct (follows kp (Some p) (fn p sa skw) xsubs None (fst cl ++ [p], snd cl)) as [[[[o1 b1] r1] c1]|],
             (follows kp' (Some p) (fn p sa skw) ysubs None (fst cl ++ [p], snd cl)) as [[[[o2 b2] r2] c2]|];
      cbn in HN; try contradiction; [|exact I].
    destruct HN as (-> & -> & Hr & ->).
    destruct r1 as [|? ?], r2 as [|? ?]; try contradiction; [|exact I].
    rewrite (bf_end_rel kp kp' p yc xsubs ysubs yret xcr ycr yra o2 b2 c2 Hs Hk).
    destruct (bf_end kp' p yc ysubs yret ycr yra o2 b2 c2); [apply IHk; exact H2|exact I].
  - cbn [follows]. destruct stale; [apply IHk; exact HS|].
    destruct (sanitize a) as [sa|]; [|apply IHk; exact HS].
    destruct (sanitize kw) as [skw|]; [|apply IHk; exact HS].
    destruct subs as [|x xs], subs' as [|y ys]; try contradiction; [exact I|].
    destruct HS as [H1 H2].
    destruct x as [?q ?r ?e|? ? ? ? ? ? ? ? ? ?|xf xa xk xsubs xret xra xsf],
             y as [?q ?r ?e|? ? ? ? ? ? ? ? ? ?|yf ya yk ysubs yret yra ysf]; cbn in H1; try contradiction; try exact I.
    destruct H1 as (-> & -> & -> & Hs & -> & -> & ->).
    destruct (negb (String.eqb fname yf && pyval_same ya sa && pyval_same yk skw)); [exact I|].
    destruct ysf; [exact I|]. cbv zeta.
    destruct (existsb (py_eq (subbuild_key fname sa skw)) (snd cl)); [exact I|].
    pose proof (IHfn sa skw None xsubs ysubs None (fst cl, snd cl ++ [subbuild_key fname sa skw]) Hs) as HN.
    destruct (follows kp None (fn sa skw) xsubs None (fst cl, snd cl ++ [subbuild_key fname sa skw])) as [[[[o1 b1] r1] c1]|],
             (follows kp' None (fn sa skw) ysubs None (fst cl, snd cl ++ [subbuild_key fname sa skw])) as [[[[o2 b2] r2] c2]|];
      cbn in HN; try contradiction; [|exact I].
    destruct HN as (-> & -> & Hr & ->).
    destruct r1 as [|? ?], r2 as [|? ?]; try contradiction; [|exact I].
    destruct (sb_end yret yra o2); [apply IHk; exact H2|exact I].
Qed.

(* ------------------------------------------------------------------ faithful records *)
Theorem faithful_sub_at_orel : forall kp kp' F o o' sa skw, orel kp kp' o o' ->
  faithful_sub_at kp F o sa skw = faithful_sub_at kp' F o' sa skw.
Proof.
  intros kp kp' F o o' sa skw H.
  destruct o as [?q ?r ?e|? ? ? ? ? ? ? ? ? ?|xf xa xk xsubs xret xra xsf],
           o' as [?q ?r ?e|? ? ? ? ? ? ? ? ? ?|yf ya yk ysubs yret yra ysf]; cbn in H; try contradiction; try reflexivity.
  destruct H as (-> & -> & -> & Hs & -> & -> & ->). unfold faithful_sub_at.
  pose proof (follows_rel kp kp' (ft_sub F yf sa skw) None xsubs ysubs None ([], [subbuild_key yf sa skw]) Hs) as HN.
  destruct (follows kp None (ft_sub F yf sa skw) xsubs None ([], [subbuild_key yf sa skw])) as [[[[o1 b1] r1] c1]|],
           (follows kp' None (ft_sub F yf sa skw) ysubs None ([], [subbuild_key yf sa skw])) as [[[[o2 b2] r2] c2]|];
    cbn in HN; try contradiction; [|reflexivity].
  destruct HN as (-> & -> & Hr & ->).
  destruct r1 as [|? ?], r2 as [|? ?]; try contradiction; reflexivity.
Qed.

Theorem faithful_op_orel : forall kp kp' F o o', orel kp kp' o o' -> faithful_op kp F o = faithful_op kp' F o'.
Proof.
  intros kp kp' F o o' H.
  destruct o as [?q ?r ?e|xp xc xf xa xk xsubs xret xcr xra xsf|xf xa xk xsubs xret xra xsf],
           o' as [?q ?r ?e|yp yc yf ya yk ysubs yret ycr yra ysf|yf ya yk ysubs yret yra ysf];
    try (cbn in H; contradiction); try reflexivity.
  - cbn in H. destruct H as (-> & -> & -> & -> & -> & Hs & -> & Hv & -> & -> & Hk). cbn [faithful_op].
    pose proof (follows_rel kp kp' (ft_file F yf yp ya yk) (Some yp) xsubs ysubs None ([yp], []) Hs) as HN.
    destruct (follows kp (Some yp) (ft_file F yf yp ya yk) xsubs None ([yp], [])) as [[[[o1 b1] r1] c1]|],
             (follows kp' (Some yp) (ft_file F yf yp ya yk) ysubs None ([yp], [])) as [[[[o2 b2] r2] c2]|];
      cbn in HN; try contradiction; [|reflexivity].
    destruct HN as (-> & -> & Hr & ->).
    destruct r1 as [|? ?], r2 as [|? ?]; try contradiction; [|reflexivity].
    rewrite (bf_end_rel kp kp' yp yc xsubs ysubs yret xcr ycr yra o2 b2 c2 Hs Hk). reflexivity.
  - pose proof H as H0. cbn in H. destruct H as (-> & -> & -> & Hs & -> & -> & ->). cbn [faithful_op].
    exact (faithful_sub_at_orel kp kp' F _ _ _ _ H0).
Qed.

(* the form asked for: rec_rel between globally agreeing oracles *)
Corollary faithful_op_rec_rel : forall kp kp' F o o', kp_rel kp kp' -> rec_rel o o' ->
  faithful_op kp F o = faithful_op kp' F o'.
Proof. intros. apply faithful_op_orel. apply rec_rel_orel; assumption. Qed.

Corollary faithful_sub_at_rec_rel : forall kp kp' F o o' sa skw, kp_rel kp kp' -> rec_rel o o' ->
  faithful_sub_at kp F o sa skw = faithful_sub_at kp' F o' sa skw.
Proof. intros. apply faithful_sub_at_orel. apply rec_rel_orel; assumption. Qed.

Print Assumptions follows_rel.
Print Assumptions faithful_op_orel.
Print Assumptions faithful_sub_at_orel.
Print Assumptions faithful_op_rec_rel.
Print Assumptions faithful_sub_at_rec_rel.
