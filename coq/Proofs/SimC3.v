(* Proofs/SimC3.v — glue SimA/SimB, part 3: the subbuild key tables after a record tree has been
   registered (hypothesis SubTables of SimB12.file_hit_sim3 / SimB13.sub_hit_sim3), from the key
   laws of SimA1Keys (Python == is an equivalence on the keys that subbuild makes from
   well-formed arguments: SimA0.wfkey).  SimB16.sub_tables asks for three properties of ==
   for keys made from arbitrary sanitized arguments (SimB15.iskey), one of which (transitivity
   towards an arbitrary value) is not among the key laws; it is not needed: the registered keys
   are new to the table, so the table is extended at its end (SimB16.regT_all).
   Also: the components of SimA0.Sim4pre that speak of the key tables, after the registration. *)
From Coq Require Import List String Ascii NArith ZArith Bool Arith Lia.
From FB.Base Require Import PyVal Fs.
From FB.Gen Require Import JsonUtilGen.
From FB.Spec Require Import JsonSpec Prog Ref Oracle Faithful.
From FB.Model Require Import Types Monad CreatedFiles BuildDirs SimpleOps Builder Persist Core.
From FB.Proofs Require Import FsLemmas JsonLaws ReplayLaws CoreLaws1 CoreLaws3 CoreLaws4 CoreLaws5 CoreNextRegs CoreNextKeys
     ViewDefs ViewH4 ViewH6 ViewK3 ViewK4 SimA0 SimA1 SimA1Keys SimB7 SimB11 SimB12 SimB15 SimB16.
Import ListNotations.
Open Scope list_scope.

Lemma key_sym' : forall k, wfkey k -> forall x, py_eq k x = py_eq x k.
Proof. apply key_laws. Qed.
Lemma key_join : forall a c, wfkey a -> wfkey c -> forall x, py_eq a x = true -> py_eq c x = true -> py_eq a c = true.
Proof. apply key_laws. Qed.

Lemma existsb_sym_keys : forall k l, (forall x, In x l -> wfkey x) -> existsb (py_eq k) l = existsb (fun x => py_eq x k) l.
Proof.
  intros k l. induction l as [|x l IH]; intro H; [reflexivity|]. cbn [existsb].
  rewrite (key_sym' x (H x (or_introl eq_refl)) k), IH; [reflexivity|]. intros y Hy. apply H. right. exact Hy.
Qed.

Lemma ks_get_exists : forall l k, (match ks_get l k with Some _ => true | None => false end) = existsb (fun x => py_eq x k) (map fst l).
Proof.
  induction l as [|[q o] l IH]; intro k; cbn [ks_get map fst existsb]; [reflexivity|].
  destruct (py_eq q k); [reflexivity|apply IH].
Qed.

(* the table after the registration *)
Lemma reg_subs_table : forall fs cfp c1 o, reusable fs c1 cfp o = true -> kfresh (snd (tree_claims o)) ->
  c_subs (register_op c1 o) = c_subs c1 ++ map lift (snd (tree_regs o)).
Proof.
  intros fs cfp c1 o Hreu HK. apply regT_all; [|exact HK].
  intros q k2 Hq Hk. pose proof (reusable_keys _ _ _ o Hreu k2 Hk) as K. unfold cache_has_subbuild in K.
  destruct (subs_get (c_subs c1) k2) eqn:E; [discriminate|]. apply (subs_get_none_all _ _ E q Hq).
Qed.

Theorem sub_tables_wf : forall W w s r o,
  Sim3 W w s ->
  (forall x, In x (map fst (c_subs (w_new w))) \/ In x (snd (tree_claims o)) -> wfkey x) ->
  reusable (w_fs w) (w_new w) (w_cachefile w) o = true ->
  kfresh (snd (tree_claims o)) ->
  SubTables (register_op (w_new w) o) (adopt s r o).
Proof.
  intros W w s r o HS HI Hreu HK.
  pose proof (reg_subs_table _ _ _ o Hreu HK) as Etab.
  assert (HF: forall q k2, In q (map fst (c_subs (w_new w))) -> In k2 (snd (tree_claims o)) -> py_eq q k2 = false).
  { intros q k2 Hq Hk. pose proof (reusable_keys _ _ _ o Hreu k2 Hk) as K. unfold cache_has_subbuild in K.
    destruct (subs_get (c_subs (w_new w)) k2) eqn:E; [discriminate|]. apply (subs_get_none_all _ _ E q Hq). }
  split.
  - intro k. cbn [adopt ks_with k_claimedS]. rewrite existsb_app_b, (s3_claimsS _ _ _ HS k).
    unfold cache_has_subbuild. rewrite Etab, SimB16.subs_get_app, subs_get_lift.
    rewrite (existsb_sym_keys k (snd (tree_claims o))) by (intros x Hx; apply HI; right; exact Hx).
    rewrite <- tree_regs_keys, <- ks_get_exists.
    destruct (subs_get (c_subs (w_new w)) k); [apply orb_true_r|]. rewrite orb_false_r.
    destruct (ks_get (snd (tree_regs o)) k); reflexivity.
  - intro k. cbn [adopt ks_with k_newS]. rewrite Etab, SimB16.subs_get_app, SimB16.ks_get_app, subs_get_lift.
    pose proof (s3_recS _ _ _ HS k) as Kk.
    destruct (subs_get (c_subs (w_new w)) k) as [[o1|]|] eqn:E1.
    + destruct (ks_get (k_newS s) k); [exact Kk|contradiction].
    + destruct (ks_get (k_newS s) k); [contradiction|].
      rewrite ks_get_none_all; [exact I|]. intros q Hq. rewrite tree_regs_keys in Hq.
      destruct (py_eq q k) eqn:Eq; [|reflexivity]. exfalso.
      destruct (subs_get_some_key _ _ _ E1) as [q1 [Hq1 Eq1]].
      pose proof (key_join q1 q (HI q1 (or_introl Hq1)) (HI q (or_intror Hq)) k Eq1 Eq) as K.
      rewrite (HF q1 q Hq1 Hq) in K. discriminate.
    + destruct (ks_get (k_newS s) k); [contradiction|].
      destruct (ks_get (snd (tree_regs o)) k); [apply SimB12.rec_rel_refl|exact I].
Qed.

(* ------------------------------------------------------------------ the key components of Sim4pre *)
Lemma KeysSep_app : forall a b, KeysSep a -> KeysSep b ->
  (forall x y, In x a -> In y b -> py_eq x y = false /\ py_eq y x = false) -> KeysSep (a ++ b).
Proof.
  induction a as [|q a IH]; intros b Ha Hb Hab; cbn [app KeysSep]; [exact Hb|].
  destruct Ha as [H1 H2]. split.
  - intros q' Hq. apply in_app_iff in Hq. destruct Hq as [Hq|Hq]; [apply H1; exact Hq|apply Hab; [left; reflexivity|exact Hq]].
  - apply IH; [exact H2|exact Hb|]. intros x y Hx Hy. apply Hab; [right; exact Hx|exact Hy].
Qed.

Lemma kfresh_KeysSep : forall l, (forall x, In x l -> wfkey x) -> kfresh l -> KeysSep l.
Proof.
  induction l as [|x l IH]; intros Hw H; cbn [kfresh KeysSep] in *; [exact I|]. destruct H as [H1 H2]. split.
  - intros q Hq. split; [apply H1; exact Hq|]. rewrite <- (key_sym' x (Hw x (or_introl eq_refl)) q). apply H1. exact Hq.
  - apply IH; [intros y Hy; apply Hw; right; exact Hy|exact H2].
Qed.

Lemma map_fst_lift : forall l, map fst (map lift l) = map fst l.
Proof. induction l as [|[q o] l IH]; [reflexivity|]. cbn [map lift fst]. rewrite IH. reflexivity. Qed.

Theorem reg_keys_sim4 : forall fs cfp c1 o (nS : list (pyval * op)),
  reusable fs c1 cfp o = true -> kfresh (snd (tree_claims o)) ->
  (forall x, In x (snd (tree_claims o)) -> wfkey x) ->
  (forall q v, In (q, v) (c_subs c1) -> wfkey q) -> KeysSep (map fst (c_subs c1)) ->
  (forall q o', In (q, o') nS -> wfkey q) ->
  (forall q v, In (q, v) (c_subs (register_op c1 o)) -> wfkey q) /\
  KeysSep (map fst (c_subs (register_op c1 o))) /\
  (forall q o', In (q, o') (nS ++ snd (tree_regs o)) -> wfkey q).
Proof.
  intros fs cfp c1 o nS Hreu HK HW H1 H2 H3.
  pose proof (reg_subs_table _ _ _ o Hreu HK) as Etab.
  assert (Hkeys: forall q x, In (q, x) (snd (tree_regs o)) -> wfkey q).
  { intros q x Hin. apply HW. rewrite <- tree_regs_keys. apply in_map_iff. exists (q, x). split; [reflexivity|exact Hin]. }
  split; [|split].
  - intros q v Hin. rewrite Etab in Hin. apply in_app_iff in Hin. destruct Hin as [Hin|Hin]; [apply (H1 q v Hin)|].
    apply in_map_iff in Hin. destruct Hin as [[q' x] [E Hin]]. unfold lift in E. cbn [fst snd] in E. inversion E; subst q' v.
    apply (Hkeys q x Hin).
  - rewrite Etab, map_app, map_fst_lift, tree_regs_keys. apply KeysSep_app; [exact H2|apply kfresh_KeysSep; assumption|].
    intros x y Hx Hy. pose proof (reusable_keys _ _ _ o Hreu y Hy) as K. unfold cache_has_subbuild in K.
    destruct (subs_get (c_subs c1) y) eqn:E; [discriminate|]. pose proof (subs_get_none_all _ _ E x Hx) as Kx.
    split; [exact Kx|]. rewrite (key_sym' y (HW y Hy) x). exact Kx.
  - intros q o' Hin. apply in_app_iff in Hin. destruct Hin as [Hin|Hin]; [apply (H3 q o' Hin)|apply (Hkeys q o' Hin)].
Qed.

Print Assumptions sub_tables_wf.
Print Assumptions reg_keys_sim4.
