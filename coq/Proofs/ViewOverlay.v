(* Proofs/ViewOverlay.v — C04, the replay case: queries executed against an overlay
   (cf = Some c, the CreatedFiles of a cache lookup).  The OVERLAY VIEW is the view of the
   world with the overlay applied on top of it, exactly as is_file_no_read / cf_has_file /
   cf_has_dir / list_dir_superset do: a path in cf_dirs is a directory, a path in cf_files
   is the regular file physically there, every other path is as in the view.
   Under BInv and the invariant CInv on c (what started / finished / error_building_file
   of Model/CreatedFiles.v maintain: files and dirs disjoint, files physically present,
   cf_sub lists exactly the overlay entries of a directory), is_file, is_dir, exists and
   list_dir answer like POSIX on the overlay tree. *)
From Coq Require Import List String Ascii NArith ZArith Bool Arith Lia.
From FB.Base Require Import PyVal Fs.
From FB.Model Require Import Types Monad CreatedFiles BuildDirs SimpleOps Builder.
From FB.Spec Require Import Ref.
From FB.Proofs Require Import FsLemmas CleanLaws JsonLaws CoreLawsChildren
     ViewDefs ViewLemmas ViewScan ViewQueries ViewAnswers ViewPres.
Import ListNotations.
Open Scope list_scope.
Open Scope m_scope.

(* ------------------------------------------------------------------ the overlay view *)
Definition ofile (w : world) (c : cfiles) (p : path) : bool :=
  if mem_path p (cf_files c) then true else if mem_path p (cf_dirs c) then false else vfile w p.
Definition odir (w : world) (c : cfiles) (p : path) : bool :=
  if mem_path p (cf_dirs c) then true else if mem_path p (cf_files c) then false else vdir w p.
Definition ovisible (w : world) (c : cfiles) (p : path) : bool := ofile w c p || odir w c p.

Definition overlay_fs (w : world) (c : cfiles) : fsT :=
  map (fun p => (p, Some NDir)) (cf_dirs c) ++
  map (fun p => (p, lookup (w_fs w) p)) (cf_files c) ++
  view_fs w.

Record CInv (w : world) (c : cfiles) : Prop := {
  ci_disj : forall p, mem_path p (cf_files c) = true -> mem_path p (cf_dirs c) = false;
  ci_file : forall p, mem_path p (cf_files c) = true -> isfile (w_fs w) p = true;
  ci_sub_in : forall d n, In n (cf_list_dir c d) ->
              mem_path (n :: d) (cf_files c) = true \/ mem_path (n :: d) (cf_dirs c) = true;
  ci_sub_all : forall d n, mem_path (n :: d) (cf_files c) = true \/ mem_path (n :: d) (cf_dirs c) = true ->
               In n (cf_list_dir c d);
  ci_sub_nodup : forall d, NoDup (cf_list_dir c d);
  ci_root : mem_path [] (cf_files c) = false
}.

Lemma CInv_empty : forall w, CInv w cf_empty.
Proof.
  intro w. constructor.
  - intros p H. discriminate.
  - intros p H. discriminate.
  - intros d n H. destruct H.
  - intros d n [H|H]; discriminate.
  - intro d. constructor.
  - reflexivity.
Qed.

(* ---- lookups in the overlay tree ---- *)
Lemma raw_lookup_map_app : forall (g : path -> option node) l rest p,
  raw_lookup (map (fun q => (q, g q)) l ++ rest) p = if mem_path p l then g p else raw_lookup rest p.
Proof.
  intros g l rest p. induction l as [|q l IH]; cbn [map app raw_lookup mem_path]; [reflexivity|].
  destruct (path_eqb q p) eqn:E; cbn [orb]; [apply path_eqb_eq in E; subst; reflexivity|exact IH].
Qed.

Lemma lookup_overlay : forall w c p, p <> [] ->
  lookup (overlay_fs w c) p =
  if mem_path p (cf_dirs c) then Some NDir
  else if mem_path p (cf_files c) then lookup (w_fs w) p
  else lookup (view_fs w) p.
Proof.
  intros w c p Hp. destruct p as [|n d]; [contradiction|]. unfold overlay_fs. cbn [lookup].
  rewrite (raw_lookup_map_app (fun _ => Some NDir)).
  destruct (mem_path (n :: d) (cf_dirs c)); [reflexivity|].
  rewrite (raw_lookup_map_app (fun q => lookup (w_fs w) q)). reflexivity.
Qed.

Section Overlay.
  Variables (w : world) (c : cfiles).
  Hypothesis HB : BInv w.
  Hypothesis HC : CInv w c.

  Lemma isfile_overlay : forall p, isfile (overlay_fs w c) p = ofile w c p.
  Proof.
    intro p. destruct p as [|n d].
    - unfold ofile. rewrite (ci_root _ _ HC). cbn. destruct (mem_path [] (cf_dirs c)); reflexivity.
    - unfold isfile, ofile. rewrite lookup_overlay by discriminate.
      destruct (mem_path (n :: d) (cf_files c)) eqn:Ef.
      + rewrite (ci_disj _ _ HC _ Ef). pose proof (ci_file _ _ HC _ Ef) as H. unfold isfile in H. exact H.
      + destruct (mem_path (n :: d) (cf_dirs c)); [reflexivity|]. apply isfile_view.
  Qed.

  Lemma isdir_overlay : forall p, isdir (overlay_fs w c) p = odir w c p.
  Proof.
    intro p. destruct p as [|n d].
    - unfold odir. rewrite (ci_root _ _ HC), (vdir_root _ HB). cbn. destruct (mem_path [] (cf_dirs c)); reflexivity.
    - unfold isdir, odir. rewrite lookup_overlay by discriminate.
      destruct (mem_path (n :: d) (cf_dirs c)); [reflexivity|].
      destruct (mem_path (n :: d) (cf_files c)) eqn:Ef.
      + pose proof (ci_file _ _ HC _ Ef) as H. unfold isfile in H.
        destruct (lookup (w_fs w) (n :: d)) as [[g|]|]; try discriminate; reflexivity.
      + apply isdir_view. discriminate.
  Qed.

  Lemma lexists_overlay : forall p, lexists (overlay_fs w c) p = ovisible w c p.
  Proof.
    intro p. unfold ovisible. rewrite <- isfile_overlay, <- isdir_overlay. unfold lexists, isfile, isdir.
    destruct (lookup (overlay_fs w c) p) as [[g|]|]; reflexivity.
  Qed.

  (* ---- is_file / is_dir / exists ---- *)
  Theorem m_is_file_overlay : forall p, yields (m_is_file p (Some c)) w (inl (ofile w c p)).
  Proof.
    intro p. unfold ofile. unfold m_is_file, is_file_no_read. cbn [cf_has_file cf_has_dir].
    destruct (mem_path p (cf_files c)) eqn:Ef.
    { exists w. split; [reflexivity|apply good_refl; exact HB]. }
    destruct (mem_path p (cf_dirs c)) eqn:Ed.
    { exists w. split; [reflexivity|apply good_refl; exact HB]. }
    (* neither: the live routine *)
    destruct (m_is_file_view w p HB) as [w' [E G]]. exists w'. split; [|exact G].
    unfold m_is_file, is_file_no_read in E. cbn [cf_has_file cf_has_dir] in E. exact E.
  Qed.

  Theorem m_is_dir_overlay : forall p, pok w p -> yields (m_is_dir p (Some c)) w (inl (odir w c p)).
  Proof.
    intros p Hp. unfold odir, m_is_dir. cbn [cf_has_file cf_has_dir].
    destruct (mem_path p (cf_dirs c)); [apply yields_ret; exact HB|].
    destruct (mem_path p (cf_files c)); [apply yields_ret; exact HB|].
    apply (m_is_dir_view w p HB Hp).
  Qed.
End Overlay.

Lemma CInv_good : forall w w' c, good w w' -> CInv w c -> CInv w' c.
Proof.
  intros w w' c G [A B C D E F]. constructor; auto. intros p H. rewrite (sv_fs _ _ (good_sv _ _ G)). apply B. exact H.
Qed.

Lemma ofile_good : forall w w' c p, good w w' -> ofile w' c p = ofile w c p.
Proof. intros w w' c p G. unfold ofile. rewrite (same_view_vfile _ _ _ (good_sv _ _ G)). reflexivity. Qed.
Lemma odir_good : forall w w' c p, good w w' -> odir w' c p = odir w c p.
Proof. intros w w' c p G. unfold odir. rewrite (same_view_vdir _ _ _ (good_sv _ _ G)). reflexivity. Qed.
Lemma ovisible_good : forall w w' c p, good w w' -> ovisible w' c p = ovisible w c p.
Proof. intros w w' c p G. unfold ovisible. rewrite (ofile_good _ _ _ _ G), (odir_good _ _ _ _ G). reflexivity. Qed.

Theorem m_exists_overlay : forall w c p, BInv w -> CInv w c -> pok w p ->
  yields (m_exists p (Some c)) w (inl (ovisible w c p)).
Proof.
  intros w c p HB HC Hp. unfold m_exists. eapply yields_bind; [apply m_is_file_overlay; assumption|].
  intros w1 G1. unfold ovisible. destruct (ofile w c p); [apply yields_ret; apply (good_BInv _ _ G1)|]. cbn [orb].
  rewrite <- (odir_good _ _ _ _ G1).
  apply m_is_dir_overlay; [apply (good_BInv _ _ G1)|eapply pok_good; eassumption].
Qed.

(* ------------------------------------------------------------------ list_dir *)
Theorem m_assert_is_dir_overlay : forall w c p, BInv w -> CInv w c -> pok w p ->
  yields (m_assert_is_dir p (Some c)) w
         (if odir w c p then inl tt else if ofile w c p then inr (XOS XNotADirectory) else inr (XOS XFileNotFound)).
Proof.
  intros w c p HB HC Hp. unfold m_assert_is_dir. eapply yields_bind; [apply m_is_dir_overlay; assumption|].
  intros w1 G1. destruct (odir w c p).
  - apply yields_ret. apply (good_BInv _ _ G1).
  - eapply yields_bind; [apply m_is_file_overlay; apply (good_BInv _ _ G1)|].
    intros w2 G2. rewrite (ofile_good _ _ _ _ G1).
    destruct (ofile w c p); apply yields_raise; apply (good_BInv _ _ G2).
Qed.

(* the candidates of list_dir: what is physically in the directory, and the overlay entries *)
Definition osuperset (w : world) (c : cfiles) (d : path) : list name :=
  let names := match lookup (w_fs w) d with Some NDir => children (w_fs w) d | _ => [] end in
  sort_strs (names ++ filter (fun n => negb (mem_str n names)) (cf_list_dir c d)).

Lemma list_dir_superset_overlay : forall w c d, odir w c d = true -> pok w d -> BInv w -> CInv w c ->
  list_dir_superset d (Some c) w = (w, inl (osuperset w c d)).
Proof.
  intros w c d Hd Hp HB HC. unfold list_dir_superset, osuperset, listdir. cbn [cf_has_dir].
  destruct (lookup (w_fs w) d) as [[g|]|] eqn:El.
  - (* physically a regular file: only an overlay directory can be listed *)
    unfold odir in Hd. cbn [oserr_eqb orb andb]. destruct (mem_path d (cf_dirs c)); [reflexivity|].
    destruct (mem_path d (cf_files c)); [discriminate|]. unfold vdir, isdir in Hd. rewrite El in Hd. discriminate.
  - reflexivity.
  - unfold odir in Hd. destruct (mem_path d (cf_dirs c)) eqn:Ed.
    + unfold stat_err. destruct (absent_err_cases (w_fs w) d) as [K|[K|K]]; rewrite K; cbn [oserr_eqb orb andb]; try reflexivity.
      exfalso. destruct Hp as [Hp|Hp]; [apply (absent_err_path_ok _ _ Hp K)|unfold lexists in Hp; rewrite El in Hp; discriminate].
    + destruct (mem_path d (cf_files c)); [discriminate|]. unfold vdir, isdir in Hd. rewrite El in Hd. discriminate.
Qed.

Definition onames (w : world) (c : cfiles) (d : path) : list name :=
  filter (fun n => ovisible w c (n :: d)) (osuperset w c d).

Theorem m_list_dir_overlay : forall w c d, BInv w -> CInv w c -> pok w d ->
  (forall n, In n (cf_list_dir c d) -> pok w (n :: d)) ->
  yields (m_list_dir d (Some c)) w
         (if odir w c d then inl (PList (map PStr (onames w c d)))
          else if ofile w c d then inr (XOS XNotADirectory) else inr (XOS XFileNotFound)).
Proof.
  intros w c d HB HC Hp Hsubok. unfold m_list_dir.
  pose proof (m_assert_is_dir_overlay w c d HB HC Hp) as HA.
  destruct (odir w c d) eqn:Ed.
  2:{ destruct (ofile w c d); apply yields_bind_err; exact HA. }
  eapply yields_bind; [exact HA|]. intros w1 G1.
  pose proof (good_BInv _ _ G1) as B1. pose proof (CInv_good _ _ _ G1 HC) as C1.
  eapply yields_bind.
  { exists w1. split; [|apply good_refl; exact B1].
    apply list_dir_superset_overlay; [rewrite (odir_good _ _ _ _ G1); exact Ed|eapply pok_good; eassumption|exact B1|exact C1]. }
  intros w2 G2. pose proof (good_trans _ _ _ G1 G2) as G02.
  assert (Esup: osuperset w1 c d = osuperset w c d).
  { unfold osuperset. rewrite (sv_fs _ _ (good_sv _ _ G1)). reflexivity. }
  rewrite Esup.
  eapply yields_bind.
  { apply (filterM_view w (fun n => ovisible w c (n :: d)) (fun n => m_exists (n :: d) (Some c)) (osuperset w c d)); [|exact G02].
    intros n w3 Hn G3. rewrite <- (ovisible_good _ _ _ _ G3).
    apply m_exists_overlay; [apply (good_BInv _ _ G3)|eapply CInv_good; eassumption|].
    (* every candidate is physically there, or an overlay entry *)
    unfold osuperset, sort_strs in Hn. apply In_sort_by in Hn. apply in_app_iff in Hn.
    eapply pok_good; [exact G3|]. destruct Hn as [Hn|Hn].
    - right. destruct (lookup (w_fs w) d) as [[g|]|]; try destruct Hn. apply children_In. exact Hn.
    - apply filter_In in Hn. apply Hsubok. apply Hn. }
  intros w3 G3. apply yields_ret. apply (good_BInv _ _ G3).
Qed.

Lemma ovisible_plain : forall w c p, mem_path p (cf_files c) = false -> mem_path p (cf_dirs c) = false ->
  ovisible w c p = visible w p.
Proof. intros w c p H1 H2. unfold ovisible, ofile, odir. rewrite H1, H2. symmetry. apply visible_split. Qed.

Lemma NoDup_app_disjoint : forall (a b : list string), NoDup a -> NoDup b ->
  (forall x, In x a -> In x b -> False) -> NoDup (a ++ b).
Proof.
  intros a b Ha Hb Hd. induction Ha as [|x l Hx Hl IH]; cbn [app]; [exact Hb|]. constructor.
  - intro Hin. apply in_app_iff in Hin. destruct Hin as [Hin|Hin]; [contradiction|]. apply (Hd x); [left; reflexivity|exact Hin].
  - apply IH. intros y H1 H2. apply (Hd y); [right; exact H1|exact H2].
Qed.

(* the names listed are the children of the overlay tree *)
Theorem onames_children : forall w c d, BInv w -> CInv w c -> odir w c d = true ->
  onames w c d = children (overlay_fs w c) d.
Proof.
  intros w c d HB HC Hd. apply strict_sorted_ext.
  - unfold onames. apply strict_sorted_filter. unfold osuperset. apply sort_strs_strict_sorted.
    set (names := match lookup (w_fs w) d with Some NDir => children (w_fs w) d | _ => [] end).
    assert (Hnd: NoDup names).
    { unfold names. destruct (lookup (w_fs w) d) as [[g|]|]; try constructor. apply strict_sorted_NoDup, children_strict_sorted. }
    apply NoDup_app_disjoint; [exact Hnd|apply NoDup_filter; apply (ci_sub_nodup _ _ HC)|].
    intros x H1 H2. apply filter_In in H2. destruct H2 as [_ H2]. apply negb_true_iff in H2.
    apply (proj2 (mem_str_In x names)) in H1. congruence.
  - apply children_strict_sorted.
  - intro n. unfold onames. rewrite filter_In, children_In, (lexists_overlay w c HB HC).
    split; [tauto|]. intro Hv. split; [|exact Hv].
    unfold osuperset, sort_strs. apply In_sort_by. apply in_app_iff.
    set (names := match lookup (w_fs w) d with Some NDir => children (w_fs w) d | _ => [] end).
    destruct (mem_str n names) eqn:Em; [left; apply mem_str_In; exact Em|right].
    apply filter_In. split; [|rewrite Em; reflexivity].
    apply (ci_sub_all _ _ HC).
    destruct (mem_path (n :: d) (cf_files c)) eqn:Ef; [left; auto|].
    destruct (mem_path (n :: d) (cf_dirs c)) eqn:Edd; [right; auto|]. exfalso.
    (* then n :: d is visible, hence physically in d *)
    assert (Hv2: visible w (n :: d) = true) by (rewrite <- (ovisible_plain w c (n :: d) Ef Edd); exact Hv).
    pose proof (visible_lexists _ _ Hv2) as Hex.
    assert (Hin: In n names).
    { unfold names. rewrite (wf_parent_dir _ _ _ (bi_wf _ HB) Hex). apply children_In. exact Hex. }
    apply mem_str_In in Hin. congruence.
Qed.
