(* Proofs/SimL1.v — C03, the DIRECTORY half, for the mechanism model (Model/Run.v run_build,
   Model/Build.v m_clean).  Property text: "build (committed or rolled back) and clean ... never
   remove a directory unless a build created it and it is empty".

   Properties/C03.v has the file half for every outcome and, for directories, only
   C03_clean_dirs about the REFERENCE clean.  The facts about directories are scattered:
     committed builds   CommitDirsMain.commit_leaves (CommitPost, clauses 7-10), SimI2.dirs_exact;
     raised builds      RollbackDirsMain.rollback_leaves_nothing_new (clauses 2, 3);
     refused builds     CleanLaws.build_refused_no_effect;
     clean              CleanLaws.clean_exact (m_clean = ref_clean) + ref_clean_dirs.
   HERE they are put together as statements over EVERY outcome r of run_build:
     [foreign_directories_survive]   a directory of the pre-state is still a directory afterwards
         - after a build that raised (rolled back) or was refused: EVERY directory;
         - after a committed build: every directory that the previous cache does not record as
           created (a recorded one may go: commit removes stale recorded directories);
     [no_foreign_directory_appears]  a directory of the post-state that was no directory before is
         - committed: recorded as created by the new cache (so clean removes it when empty);
         - rolled back: a recorded directory of the previous cache, or an ancestor that such a
           reappearing recorded directory needs;
         - refused: there is none;
     [clean_foreign_directories]     m_clean, whatever it answers (done / refused / no cache file):
         a directory stays, or it is gone AND the cache read from the cache file records it as
         created AND nothing is below it afterwards; no directory appears.
   The side conditions are exactly those of the theorems used, and they are attached to the
   outcome that needs them ([side_survive], [side_appear]); the uniform versions under condition A
   are [foreign_directories_survive_A], [no_foreign_directory_appears_A].
   All fault-free (w_faults w = []); under injected faults only the file half is known (FrameLaws).
   "and it is empty" for the builds: SimL2.v.
   New file; edits nothing. *)
From Coq Require Import List String Ascii NArith ZArith Bool Arith Lia.
From FB.Base Require Import PyVal Fs.
From FB.Gen Require Import JsonUtilGen.
From FB.Spec Require Import Prog Ref Oracle.
From FB.Model Require Import Types Monad CreatedFiles BuildDirs SimpleOps Builder Persist Build Run Frame.
From FB.Proofs Require Import FsLemmas FrameLaws CleanLaws RollbackLaws RollbackDirsLaws RollbackDirsMain
  CommitDirsMain ViewDefs ViewInit ViewR2 ViewR3 SimI2.
Import ListNotations.
Local Open Scope list_scope.

(* ------------------------------------------------------------------ the side conditions, named *)
Section Conds.
Variables (P : path -> Prop) (cf : path) (old : cache) (fs : fsT).

(* a target of this build, the cache file, or a target recorded by the previous build *)
Definition target (t : path) : Prop := P t \/ t = cf \/ In t (cache_targets old).

(* A: neither a regular file of the pre-state nor a target is a proper ancestor of a target *)
Definition CondA : Prop :=
  forall a t, target t -> below a t = true -> (forall f, lookup fs a <> Some (NFile f)) /\ ~ P a.
(* A2: no target is a proper ancestor of a target *)
Definition CondA2 : Prop := forall a t, target t -> below a t = true -> ~ P a.
(* A1w: a pre-state file that is a proper ancestor of a target is not (an ancestor of) a recorded directory *)
Definition CondA1w : Prop :=
  forall a f t r, lookup fs a = Some (NFile f) -> target t -> below a t = true ->
    In r (c_dirs old) -> a <> r /\ below a r = false.
Definition names_ok : Prop := forall p f, lookup fs p = Some (NFile f) -> path_ok p = true.
Definition dirs_ok : Prop := forall d, In d (c_dirs old) -> path_ok d = true.

Lemma CondA_A2 : CondA -> CondA2.
Proof. intros HA a t Ht Hb. exact (proj2 (HA a t Ht Hb)). Qed.
Lemma CondA_A1w : CondA -> CondA1w.
Proof. intros HA a f t r Ho Ht Hb _. exfalso. exact (proj1 (HA a t Ht Hb) f Ho). Qed.

(* what each outcome needs, for "directories survive" ... *)
Definition side_survive (r : build_result) : Prop :=
  match r with
  | Refused _ => True
  | Done (inl _) => fs_wf fs /\ CondA /\ dirs_ok
  | Done (inr _) => fs_wf fs /\ names_ok /\ CondA2 /\ CondA1w /\ dirs_ok
  end.

(* ... and for "no foreign directory appears" (committed: the hypotheses of SimI2.dirs_exact) *)
Definition side_appear (r : build_result) : Prop :=
  match r with
  | Refused _ => True
  | Done (inl _) => fs_wf fs /\ CondA /\ dirs_ok /\ WfCache old /\ old_ok old cf /\
                    (forall p, P p -> tgtP p) /\ maxlen fs < walk_fuel /\ List.length (dirname cf) < walk_fuel
  | Done (inr _) => fs_wf fs /\ names_ok /\ CondA2 /\ CondA1w /\ dirs_ok
  end.
End Conds.

(* ------------------------------------------------------------------ refused builds *)
Lemma run_build_refused_fs : forall cf nm vers root w w' e,
  run_build cf nm vers root w = (w', Refused e) -> w_fs w' = w_fs w.
Proof.
  intros cf nm vers root w w' e H. unfold run_build in H.
  destruct (m_build cf nm vers (fun w0 => run root None [] w0) w) as [w1 r1] eqn:E.
  inversion H; subst w' r1; clear H.
  rewrite (build_refused_no_effect _ _ _ _ _ _ _ E). reflexivity.
Qed.

(* ------------------------------------------------------------------ directories survive *)
(* per outcome *)
Theorem foreign_directories_survive_committed : forall cf nm vers svers root w w' v (P : path -> Prop),
  w_faults w = [] -> sanitize vers = Some svers -> AllTargets P root ->
  fs_wf (w_fs w) ->
  CondA P cf (old_cache_of (w_fs w) cf nm svers) (w_fs w) ->
  dirs_ok (old_cache_of (w_fs w) cf nm svers) ->
  run_build cf nm vers root w = (w', Done (inl v)) ->
  forall d, lookup (w_fs w) d = Some NDir -> ~ In d (c_dirs (old_cache_of (w_fs w) cf nm svers)) ->
    lookup (w_fs w') d = Some NDir.
Proof.
  intros cf nm vers svers root w w' v P Hf Hsv Hat Hwf HA HE H d Hd Hn.
  pose proof (commit_leaves cf nm vers svers root w w' v P Hf Hsv Hat Hwf HA HE H) as C.
  destruct C as (_ & _ & _ & _ & _ & _ & _ & _ & C9 & _).
  destruct (C9 d Hd) as [Y|Y]; [exact Y|contradiction].
Qed.

Theorem directories_survive_rolled_back : forall cf nm vers svers root w w' e (P : path -> Prop),
  w_faults w = [] -> sanitize vers = Some svers -> AllTargets P root ->
  fs_wf (w_fs w) ->
  names_ok (w_fs w) ->
  CondA2 P cf (old_cache_of (w_fs w) cf nm svers) ->
  CondA1w P cf (old_cache_of (w_fs w) cf nm svers) (w_fs w) ->
  dirs_ok (old_cache_of (w_fs w) cf nm svers) ->
  run_build cf nm vers root w = (w', Done (inr e)) ->
  forall d, lookup (w_fs w) d = Some NDir -> lookup (w_fs w') d = Some NDir.
Proof.
  intros cf nm vers svers root w w' e P Hf Hsv Hat Hwf Hn HA2 HA1 HE H d Hd.
  destruct (rollback_leaves_nothing_new cf nm vers svers root w w' e P Hf Hsv Hat Hwf Hn HA2 HA1 HE H) as (_ & _ & C3).
  apply isdir_lookup. apply C3. apply isdir_lookup. exact Hd.
Qed.

Theorem directories_survive_refused : forall cf nm vers root w w' e,
  run_build cf nm vers root w = (w', Refused e) ->
  forall d, lookup (w_fs w) d = Some NDir -> lookup (w_fs w') d = Some NDir.
Proof. intros cf nm vers root w w' e H d Hd. rewrite (run_build_refused_fs _ _ _ _ _ _ _ H). exact Hd. Qed.

(* every outcome: the directory half of C03 for build *)
Theorem foreign_directories_survive : forall cf nm vers svers root w w' r (P : path -> Prop),
  w_faults w = [] -> sanitize vers = Some svers -> AllTargets P root ->
  run_build cf nm vers root w = (w', r) ->
  side_survive P cf (old_cache_of (w_fs w) cf nm svers) (w_fs w) r ->
  forall d, lookup (w_fs w) d = Some NDir ->
    match r with
    | Done (inl _) => ~ In d (c_dirs (old_cache_of (w_fs w) cf nm svers))   (* committed: not recorded as created *)
    | _ => True                                                            (* raised, refused: every directory *)
    end ->
    lookup (w_fs w') d = Some NDir.
Proof.
  intros cf nm vers svers root w w' r P Hf Hsv Hat H S d Hd Hn.
  destruct r as [e|[v|e]]; cbn [side_survive] in S.
  - exact (directories_survive_refused cf nm vers root w w' e H d Hd).
  - destruct S as (Hwf & HA & HE).
    exact (foreign_directories_survive_committed cf nm vers svers root w w' v P Hf Hsv Hat Hwf HA HE H d Hd Hn).
  - destruct S as (Hwf & Hnm & HA2 & HA1 & HE).
    exact (directories_survive_rolled_back cf nm vers svers root w w' e P Hf Hsv Hat Hwf Hnm HA2 HA1 HE H d Hd).
Qed.

(* the same with one set of hypotheses for all outcomes (condition A of C02/C10) *)
Corollary foreign_directories_survive_A : forall cf nm vers svers root w w' r (P : path -> Prop),
  w_faults w = [] -> sanitize vers = Some svers -> AllTargets P root ->
  fs_wf (w_fs w) ->
  (forall p f, lookup (w_fs w) p = Some (NFile f) -> path_ok p = true) ->
  (forall a t, (P t \/ t = cf \/ In t (cache_targets (old_cache_of (w_fs w) cf nm svers))) ->
     below a t = true -> (forall f, lookup (w_fs w) a <> Some (NFile f)) /\ ~ P a) ->
  (forall d, In d (c_dirs (old_cache_of (w_fs w) cf nm svers)) -> path_ok d = true) ->
  run_build cf nm vers root w = (w', r) ->
  forall d, lookup (w_fs w) d = Some NDir -> ~ In d (c_dirs (old_cache_of (w_fs w) cf nm svers)) ->
    lookup (w_fs w') d = Some NDir.
Proof.
  intros cf nm vers svers root w w' r P Hf Hsv Hat Hwf Hnm HA HE H d Hd Hn.
  apply (foreign_directories_survive cf nm vers svers root w w' r P Hf Hsv Hat H); [|exact Hd|].
  - destruct r as [e|[v|e]]; cbn [side_survive]; [exact I|exact (conj Hwf (conj HA HE))|].
    split; [exact Hwf|]. split; [exact Hnm|]. split; [exact (CondA_A2 _ _ _ _ HA)|].
    split; [exact (CondA_A1w _ _ _ _ HA)|exact HE].
  - destruct r as [e|[v|e]]; [exact I|exact Hn|exact I].
Qed.

(* ------------------------------------------------------------------ no foreign directory appears *)
Theorem no_foreign_directory_appears_committed : forall cf nm vers svers root w w' v (P : path -> Prop),
  w_faults w = [] -> sanitize vers = Some svers -> AllTargets P root ->
  fs_wf (w_fs w) ->
  CondA P cf (old_cache_of (w_fs w) cf nm svers) (w_fs w) ->
  dirs_ok (old_cache_of (w_fs w) cf nm svers) ->
  WfCache (old_cache_of (w_fs w) cf nm svers) -> old_ok (old_cache_of (w_fs w) cf nm svers) cf ->
  (forall p, P p -> tgtP p) -> maxlen (w_fs w) < walk_fuel -> List.length (dirname cf) < walk_fuel ->
  run_build cf nm vers root w = (w', Done (inl v)) ->
  forall d, lookup (w_fs w') d = Some NDir -> lookup (w_fs w) d <> Some NDir -> In d (c_dirs (w_new w')).
Proof. exact no_unrecorded_directory_survives. Qed.

(* committed, under condition A alone (no assumption on the previous cache or on the depth of the
   tree): recorded, or made for an output that failed and still holding something *)
Theorem no_foreign_directory_appears_committed_condA : forall cf nm vers svers root w w' v (P : path -> Prop),
  w_faults w = [] -> sanitize vers = Some svers -> AllTargets P root ->
  fs_wf (w_fs w) ->
  CondA P cf (old_cache_of (w_fs w) cf nm svers) (w_fs w) ->
  dirs_ok (old_cache_of (w_fs w) cf nm svers) ->
  run_build cf nm vers root w = (w', Done (inl v)) ->
  forall d, lookup (w_fs w') d = Some NDir -> lookup (w_fs w) d <> Some NDir ->
    In d (c_dirs (w_new w')) \/
    (In d (bd_err_created (w_bd w')) /\ exists n, lookup (w_fs w') (n :: d) <> None).
Proof.
  intros cf nm vers svers root w w' v P Hf Hsv Hat Hwf HA HE H d Hd Hn.
  pose proof (commit_leaves cf nm vers svers root w w' v P Hf Hsv Hat Hwf HA HE H) as C.
  destruct C as (_ & _ & _ & _ & _ & _ & C7 & _).
  destruct (C7 d Hd) as [Y|Y]; [contradiction|exact Y].
Qed.

Theorem no_foreign_directory_appears_rolled_back : forall cf nm vers svers root w w' e (P : path -> Prop),
  w_faults w = [] -> sanitize vers = Some svers -> AllTargets P root ->
  fs_wf (w_fs w) ->
  names_ok (w_fs w) ->
  CondA2 P cf (old_cache_of (w_fs w) cf nm svers) ->
  CondA1w P cf (old_cache_of (w_fs w) cf nm svers) (w_fs w) ->
  dirs_ok (old_cache_of (w_fs w) cf nm svers) ->
  run_build cf nm vers root w = (w', Done (inr e)) ->
  forall d, lookup (w_fs w') d = Some NDir -> lookup (w_fs w) d <> Some NDir ->
    In d (c_dirs (old_cache_of (w_fs w) cf nm svers)) \/
    exists r, In r (c_dirs (old_cache_of (w_fs w) cf nm svers)) /\ below d r = true /\ lookup (w_fs w') r = Some NDir.
Proof.
  intros cf nm vers svers root w w' e P Hf Hsv Hat Hwf Hn HA2 HA1 HE H d Hd Hnd.
  destruct (rollback_leaves_nothing_new cf nm vers svers root w w' e P Hf Hsv Hat Hwf Hn HA2 HA1 HE H) as (_ & C2 & _).
  apply isdir_lookup in Hd. destruct (C2 d Hd) as [Y|[Y|(r & Y1 & Y2 & Y3)]].
  - exfalso. apply Hnd. apply isdir_lookup. exact Y.
  - left. exact Y.
  - right. exists r. split; [exact Y1|]. split; [exact Y2|]. apply isdir_lookup. exact Y3.
Qed.

Theorem no_directory_appears_refused : forall cf nm vers root w w' e,
  run_build cf nm vers root w = (w', Refused e) ->
  forall d, lookup (w_fs w') d = Some NDir -> lookup (w_fs w) d = Some NDir.
Proof. intros cf nm vers root w w' e H d Hd. rewrite <- (run_build_refused_fs _ _ _ _ _ _ _ H). exact Hd. Qed.

(* every outcome: the library leaves no directory that it does not own *)
Theorem no_foreign_directory_appears : forall cf nm vers svers root w w' r (P : path -> Prop),
  w_faults w = [] -> sanitize vers = Some svers -> AllTargets P root ->
  run_build cf nm vers root w = (w', r) ->
  side_appear P cf (old_cache_of (w_fs w) cf nm svers) (w_fs w) r ->
  forall d, lookup (w_fs w') d = Some NDir -> lookup (w_fs w) d <> Some NDir ->
    match r with
    | Done (inl _) => In d (c_dirs (w_new w'))
    | Done (inr _) =>
        In d (c_dirs (old_cache_of (w_fs w) cf nm svers)) \/
        exists r0, In r0 (c_dirs (old_cache_of (w_fs w) cf nm svers)) /\ below d r0 = true /\
                   lookup (w_fs w') r0 = Some NDir
    | Refused _ => False
    end.
Proof.
  intros cf nm vers svers root w w' r P Hf Hsv Hat H S d Hd Hn.
  destruct r as [e|[v|e]]; cbn [side_appear] in S.
  - apply Hn. exact (no_directory_appears_refused cf nm vers root w w' e H d Hd).
  - destruct S as (Hwf & HA & HE & HW & Hok & HPt & Hml & Hlen).
    exact (no_unrecorded_directory_survives cf nm vers svers root w w' v P Hf Hsv Hat Hwf HA HE HW Hok HPt Hml Hlen H d Hd Hn).
  - destruct S as (Hwf & Hnm & HA2 & HA1 & HE).
    exact (no_foreign_directory_appears_rolled_back cf nm vers svers root w w' e P Hf Hsv Hat Hwf Hnm HA2 HA1 HE H d Hd Hn).
Qed.

Corollary no_foreign_directory_appears_A : forall cf nm vers svers root w w' r (P : path -> Prop),
  w_faults w = [] -> sanitize vers = Some svers -> AllTargets P root ->
  fs_wf (w_fs w) ->
  (forall p f, lookup (w_fs w) p = Some (NFile f) -> path_ok p = true) ->
  (forall a t, (P t \/ t = cf \/ In t (cache_targets (old_cache_of (w_fs w) cf nm svers))) ->
     below a t = true -> (forall f, lookup (w_fs w) a <> Some (NFile f)) /\ ~ P a) ->
  (forall d, In d (c_dirs (old_cache_of (w_fs w) cf nm svers)) -> path_ok d = true) ->
  WfCache (old_cache_of (w_fs w) cf nm svers) -> old_ok (old_cache_of (w_fs w) cf nm svers) cf ->
  (forall p, P p -> tgtP p) -> maxlen (w_fs w) < walk_fuel -> List.length (dirname cf) < walk_fuel ->
  run_build cf nm vers root w = (w', r) ->
  forall d, lookup (w_fs w') d = Some NDir -> lookup (w_fs w) d <> Some NDir ->
    In d (c_dirs (w_new w')) \/ In d (c_dirs (old_cache_of (w_fs w) cf nm svers)) \/
    exists r0, In r0 (c_dirs (old_cache_of (w_fs w) cf nm svers)) /\ below d r0 = true /\ lookup (w_fs w') r0 = Some NDir.
Proof.
  intros cf nm vers svers root w w' r P Hf Hsv Hat Hwf Hnm HA HE HW Hok HPt Hml Hlen H d Hd Hn.
  assert (S : side_appear P cf (old_cache_of (w_fs w) cf nm svers) (w_fs w) r).
  { destruct r as [e|[v|e]]; cbn [side_appear];
      [exact I|exact (conj Hwf (conj HA (conj HE (conj HW (conj Hok (conj HPt (conj Hml Hlen)))))))|].
    split; [exact Hwf|]. split; [exact Hnm|]. split; [exact (CondA_A2 _ _ _ _ HA)|].
    split; [exact (CondA_A1w _ _ _ _ HA)|exact HE]. }
  pose proof (no_foreign_directory_appears cf nm vers svers root w w' r P Hf Hsv Hat H S d Hd Hn) as Y.
  destruct r as [e|[v|e]]; [destruct Y|left; exact Y|right; exact Y].
Qed.

(* ------------------------------------------------------------------ clean (the mechanism: m_clean) *)
(* what m_clean does to the tree, whatever it answers *)
Lemma m_clean_fs : forall cf nm w w' r, w_faults w = [] -> m_clean cf nm w = (w', r) ->
  w_fs w' = w_fs w \/
  exists f c, lookup (w_fs w) cf = Some (NFile f) /\ cache_of_json (f_json f) = ReadOk c /\
              w_fs w' = ref_clean (w_fs w) cf (prev_of_cache c).
Proof.
  intros cf nm w w' r Hf H.
  destruct (lookup (w_fs w) cf) as [[f|]|] eqn:El.
  - destruct (cache_of_json (f_json f)) as [c| |] eqn:Ec.
    + destruct (match nm with Some n => String.eqb (c_name c) n | None => true end) eqn:En.
      * destruct (clean_exact cf nm w f c Hf El Ec En) as (w2 & E & F). rewrite E in H. inversion H; subst w2 r.
        right. exists f, c. auto.
      * left. unfold m_clean in H. rewrite El, Ec in H.
        destruct nm as [n|]; [|discriminate En]. rewrite En in H. cbn [negb] in H. inversion H. reflexivity.
    + left. unfold m_clean in H. rewrite El, Ec in H. inversion H. reflexivity.
    + left. unfold m_clean in H. rewrite El, Ec in H. inversion H. reflexivity.
  - left. unfold m_clean in H. rewrite El in H. inversion H. reflexivity.
  - left. unfold m_clean in H. rewrite El in H. inversion H. reflexivity.
Qed.

(* clean removes only directories that the cache it reads records as created, and only when
   nothing is left below them; every other directory stays *)
Theorem clean_foreign_directories : forall cf nm w w' r, w_faults w = [] -> m_clean cf nm w = (w', r) ->
  forall d, lookup (w_fs w) d = Some NDir ->
    lookup (w_fs w') d = Some NDir \/
    (lookup (w_fs w') d = None /\
     (exists f c, lookup (w_fs w) cf = Some (NFile f) /\ cache_of_json (f_json f) = ReadOk c /\ In d (c_dirs c)) /\
     forall n, lookup (w_fs w') (n :: d) = None).
Proof.
  intros cf nm w w' r Hf H d Hd.
  destruct (m_clean_fs cf nm w w' r Hf H) as [E|(f & c & El & Ec & E)]; rewrite E.
  - left. exact Hd.
  - destruct (ref_clean_dirs (w_fs w) cf (prev_of_cache c) d Hd) as [Y|(Y1 & Y2 & Y3)]; [left; exact Y|].
    right. split; [exact Y1|]. split; [|exact Y3]. exists f, c. auto.
Qed.

(* a directory that no cache records is untouched by clean: the foreign directories *)
Corollary clean_keeps_foreign_directories : forall cf nm w w' r, w_faults w = [] -> m_clean cf nm w = (w', r) ->
  forall d, lookup (w_fs w) d = Some NDir ->
    (forall f c, lookup (w_fs w) cf = Some (NFile f) -> cache_of_json (f_json f) = ReadOk c -> ~ In d (c_dirs c)) ->
    lookup (w_fs w') d = Some NDir.
Proof.
  intros cf nm w w' r Hf H d Hd Hn.
  destruct (clean_foreign_directories cf nm w w' r Hf H d Hd) as [Y|(_ & (f & c & El & Ec & Hi) & _)]; [exact Y|].
  exfalso. exact (Hn f c El Ec Hi).
Qed.

(* a recorded directory that holds anything clean does not remove (a foreign file, a foreign
   directory, an output that a later failed build left ...) stays *)
Corollary clean_keeps_nonempty_directories : forall cf nm w w' r, w_faults w = [] -> m_clean cf nm w = (w', r) ->
  forall d n, lookup (w_fs w) d = Some NDir -> lookup (w_fs w') (n :: d) <> None ->
    lookup (w_fs w') d = Some NDir.
Proof.
  intros cf nm w w' r Hf H d n Hd Hn.
  destruct (clean_foreign_directories cf nm w w' r Hf H d Hd) as [Y|(_ & _ & Y)]; [exact Y|].
  exfalso. exact (Hn (Y n)).
Qed.

(* clean makes no directory *)
Theorem clean_no_directory_appears : forall cf nm w w' r, w_faults w = [] -> m_clean cf nm w = (w', r) ->
  forall d, lookup (w_fs w') d = Some NDir -> lookup (w_fs w) d = Some NDir.
Proof.
  intros cf nm w w' r Hf H d Hd.
  destruct (m_clean_fs cf nm w w' r Hf H) as [E|(f & c & El & Ec & E)]; rewrite E in Hd; [exact Hd|].
  destruct (lookup (w_fs w) d) as [[g|]|] eqn:L.
  - exfalso. destruct (ref_clean_files (w_fs w) cf (prev_of_cache c) d g L) as [Y|(Y & _)]; congruence.
  - reflexivity.
  - exfalso. pose proof (ref_clean_no_new (w_fs w) cf (prev_of_cache c) d L). congruence.
Qed.

Print Assumptions foreign_directories_survive.
Print Assumptions foreign_directories_survive_A.
Print Assumptions no_foreign_directory_appears.
Print Assumptions no_foreign_directory_appears_committed_condA.
Print Assumptions no_foreign_directory_appears_A.
Print Assumptions clean_foreign_directories.
Print Assumptions clean_keeps_foreign_directories.
Print Assumptions clean_keeps_nonempty_directories.
Print Assumptions clean_no_directory_appears.
