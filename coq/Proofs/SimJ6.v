(* Proofs/SimJ6.v — HASH records in the PREVIOUS cache, part 6: after a hit of build_file the
   relation of SimA holds again (SimC7.file_hit5), for the class SimJ4.okcH and for ANY
   comparison mode cm of the current call (SimC7 has METADATA only).                        *)
From Coq Require Import List String Ascii NArith ZArith Bool Arith Lia.
From FB.Base Require Import PyVal Fs.
From FB.Gen Require Import JsonUtilGen.
From FB.Spec Require Import JsonSpec Prog Ref Oracle Faithful.
From FB.Model Require Import Types Monad CreatedFiles BuildDirs SimpleOps Builder Persist Build Run Frame Core CoreOracle.
From FB.Proofs Require Import FsLemmas JsonLaws ReplayLaws BuildFileLaws CmpLaws HashMemoInv CoreLaws1 CoreLaws2 CoreLaws3 CoreLaws4 CoreNextRegs CoreNextKeys
     ViewDefs ViewLemmas ViewQueries ViewAnswers ViewXDefs ViewXQuery ViewXMake1 ViewXFail ViewXSetup ViewH4 ViewH5 ViewH6 ViewH7 ViewR1 ViewR2 ViewR3
     ViewK3 ViewK4 ViewK8
     SimA0 SimARun SimA2Base SimB1 SimB2 SimB3 SimB4 SimB6 SimB7 SimB8 SimB9 SimB10 SimB11 SimB12 SimB14 SimB16
     SimC0 SimC1 SimC3 SimC4 SimC5 SimC6 SimC7 SimG4 SimG7 SimJ1 SimJ2 SimJ3 SimJ4 SimJ5.
Import ListNotations.
Open Scope list_scope.
Open Scope m_scope.

Local Notation RInv2' := (RInv2 (fun _ => True)).

(* the steps of bf_reuse when the file of the target is on disk, any comparison mode *)
Lemma bf_reuse_stepsH : forall p cm f sa skw co wl w1 r g,
  BInv wl -> path_ok p = true -> (cm = METADATA \/ HashOk wl) -> lookup (w_fs wl) p = Some (NFile g) ->
  bf_reuse p cm f sa skw (Some co) wl = (w1, r) ->
  let cmp := cmp_of cm g in
  let o := OBuildFile p cm f sa skw (op_subs co) (op_ret co) cmp false false in
  exists wc wa ra, noneable_cmp p cm wl = (wc, inl cmp) /\ apply_cached_subs_of co wc = (wa, ra) /\
    match ra with
    | inr e => w1 = wa /\ r = inr e
    | inl _ => exists ru, new_use_cached_operation o wa = (w1, ru) /\
                 r = inl (Some (match ru with inl _ => inl o
                                 | inr e => inr (e, OBuildFile p cm f sa skw (op_subs co) (op_ret co) cmp true true) end))
    end.
Proof.
  intros p cm f sa skw co wl w1 r g HB Hpok Hc Hg H cmp o. cbn [bf_reuse] in H.
  assert (Y: yields (noneable_cmp p cm) wl (inl (disk_cmp wl p cm))).
  { destruct Hc as [Hc|Hc]; [apply noneable_cmp_spec; [exact HB|exact Hpok|left; exact Hc]|apply noneable_cmp_spec_H; assumption]. }
  destruct Y as [wc [Ec _]].
  unfold disk_cmp in Ec. rewrite Hg in Ec. fold cmp in Ec.
  unfold bind at 1 in H. rewrite Ec in H.
  assert (Hm: forall (X : Type) (a b : X), match cmp with PNone => a | _ => b end = b) by (intros; unfold cmp; destruct cm; reflexivity).
  rewrite Hm in H.
  exists wc. unfold bind at 1 in H. destruct (apply_cached_subs_of co wc) as [wa ra] eqn:Ea. exists wa, ra.
  split; [exact Ec|]. split; [reflexivity|]. destruct ra as [u|e].
  - unfold bind, attempt in H. fold o in H.
    destruct (new_use_cached_operation o wa) as [w2 ru] eqn:Eu. exists ru.
    destruct ru as [u'|e]; inversion H; subst; split; reflexivity.
  - inversion H; subst. split; reflexivity.
Qed.

Section FileHit5H.
  Variables (c0 : N) (T W : list path) (w : world) (s0 : kstate) (p : path) (cm : cmpmode).
  Hypothesis Hokc : okcH c0 (w_old w).
  Hypothesis HHI : HInv w.
  Hypothesis HSS : SimSetup T W p w s0.
  Hypothesis Htg : tgtP p.
  Hypothesis Hncf : path_eqb p (w_cachefile w) = false.
  Hypothesis HWcl : forall q, mem_path q W = true -> cache_has_file (w_new w) q = true.
  Hypothesis Hnew : forall q g, mem_path q W = true ->
    lookup (w_fs w) q = Some (NFile g) \/ lookup (k_fs s0) q = Some (NFile g) -> (c0 < f_mtime g)%N.

  Let s' := with_sd s0 (sdl w).

  Theorem file_hit5H : forall f sa skw wl co w1 r fnode subs' ret' rr,
    build_file_cache_lookup p f sa skw w = (wl, inl (Some co)) ->
    core_hit s0 s0 p f sa skw = Some (fnode, subs', ret', rr) ->
    bf_reuse p cm f sa skw (Some co) wl = (w1, r) ->
    let o' := OBuildFile p cm f sa skw subs' ret' (cmp_of cm fnode) false false in
    exists T', r = inl (Some (inl o')) /\
      Sim4c T' W w1 (core_put (adopt s0 rr o') p fnode) /\
      (forall y, inprog w1 y <-> inprog w y) /\
      w_fs w1 = w_fs w /\ w_old w1 = w_old w /\
      (forall x g, mem_path x W = true -> lookup (k_fs (core_put (adopt s0 rr o') p fnode)) x = Some (NFile g) ->
                   lookup (k_fs s0) x = Some (NFile g)).
  Proof.
    intros f sa skw wl co w1 r fnode subs' ret' rr Hlook Hhit Hreuse o'.
    destruct (fl_facts T W w s0 p HSS Htg) as (HS & HB & HR & Hml & HK & Hne & Hpok & Hunc). fold s' in HS, HK.
    pose proof HSS as (HP & HL & _ & Hnd).
    pose proof (s4_rinv _ _ _ _ HP) as HR2. pose proof (RInv_X _ _ HR) as HX.
    assert (Hcfd: isdir (w_fs w) (w_cachefile w) = false) by (destruct HR2 as (_ & (E & _) & _); exact E).
    (* 1. the lookup on both sides *)
    destruct (file_lookup_rrH c0 T W w s0 p Hokc HHI HSS Htg Hncf HWcl Hnew f sa skw wl (inl (Some co)) Hlook) as (Gl & P).
    fold s' in P. rewrite Hhit in P.
    destruct P as (rec & cf & Tl & M & Erec & Eget & Esubs & Eret & Eg & RR & TlR & TlA).
    inversion Erec; subst rec. clear Erec.
    (* 2. the record *)
    destruct (fl_rec_okH c0 W w s0 p Hokc Hnew co Eget) as [K|(Hrok & Hwf & (p2 & c2 & f2 & a2 & k2 & sb2 & r2 & cr2 & sf2 & Eco & Hst))].
    { exfalso. destruct (lookup_some_shape _ _ _ _ _ _ _ Hlook) as (p2 & c2 & f2 & a2 & k2 & sb2 & r2 & cr2 & sf2 & E). eapply K. exact E. }
    fold s' in Hrok.
    assert (Esb: op_subs co = sb2) by (rewrite Eco; reflexivity).
    destruct (static_partsH _ _ _ _ Hst) as (Hrk & Hcalm & Hns & HndR & Hnp & Hkf & Hwfs).
    rewrite <- Esb in Hrk, Hcalm, Hns, HndR, Hnp, Hkf, Hwfs.
    pose proof (build_file_cache_lookup_q _ _ _ _ _ _ _ Hlook) as Ql. pose proof (qrel_RInv _ _ _ Ql HR) as HRl.
    destruct (qrel_at _ _ Ql) as (Fl & Nl & Cl & Ol).
    (* 3. the steps of the reuse *)
    assert (Egl: lookup (w_fs wl) p = Some (NFile fnode)) by (rewrite Fl; exact Eg).
    destruct (bf_reuse_stepsH p cm f sa skw co wl w1 r fnode (good_BInv _ _ Gl) Hpok (or_intror (proj1 (hx_HInv false w wl (build_file_cache_lookup_hxf p f sa skw w wl _ Hlook) HHI))) Egl Hreuse) as (wc & wa & ra & Hcmp & Happ & Hrest).
    set (cmp := cmp_of cm fnode) in *.
    set (o := OBuildFile p cm f sa skw (op_subs co) (op_ret co) cmp false false) in *.
    assert (Eo: o' = o) by (unfold o', o; rewrite Esubs, Eret; reflexivity).
    pose proof (noneable_cmp_q _ _ _ _ _ Hcmp) as Qc. pose proof (qrel_RInv _ _ _ Qc HRl) as HRc.
    destruct (qrel_at _ _ Qc) as (Fc & Nc & Cc & Oc).
    (* 4. the adoption *)
    assert (Hreu: forallb (reusable (w_fs w) (w_new w) (w_cachefile w)) (op_subs co) = true).
    { apply (lookup_found _ _ _ _ _ _ _ Hlook). intros rc E. rewrite Eget in E. inversion E; subst rc. apply wfrec_goodrec. exact Hwf. }
    assert (Hat: at0 (w_fs w) (w_new w) (w_cachefile w) wc) by (repeat split; congruence).
    set (L := flat_map adopted (op_subs co)) in *.
    destruct (apply_cached_exact (w_fs w) (w_new w) (w_cachefile w) Hcfd co (p :: T) wc wa ra Hreu Hwfs HRc Hat Happ)
      as (Era & Fa & Na & Oa & Ca & HRa & Va & Ba). fold L in HRa, Va, Ba.
    subst ra. destruct Hrest as (ru & Hreg & Er).
    assert (EL: L = flat_map regp (op_subs co)) by (apply (calm_reusable_adopted_list _ _ _ _ Hreu Hcalm)).
    set (T' := rev L ++ p :: T) in *.
    assert (HinT': In p T') by (apply in_or_app; right; left; reflexivity).
    assert (Efs: w_fs wa = w_fs w) by congruence.
    assert (Enew: w_new wa = w_new w) by congruence.
    (* 5. the registration *)
    destruct (use_cached_ok T' wa p cm f sa skw (op_subs co) (op_ret co) cmp HRa HinT') as (w1' & Eu & HR1).
    { congruence. }
    { rewrite Fa, Na, Ca, Fc, Nc, Cc, Fl, Nl, Cl. exact Hreu. }
    { intros q Hq. apply in_or_app. left. apply in_rev. rewrite rev_involutive. exact Hq. }
    fold o in Eu. rewrite Eu in Hreg. inversion Hreg; subst w1' ru. clear Hreg. subst r.
    assert (Ew1: w1 = set_new (register_op (w_new wa) o) wa).
    { unfold new_use_cached_operation, bind, get, put in Eu. destruct (assert_no_repeats (w_new wa) o); inversion Eu; reflexivity. }
    (* facts about the registered paths *)
    assert (Hsub_regp: forall a, In a L -> cache_has_file (w_new w) a = false /\ path_eqb a (w_cachefile w) = false).
    { intros a Ha. rewrite EL in Ha. apply in_flat_map in Ha. destruct Ha as [sub [Hs Ha]]. rewrite forallb_forall in Hreu.
      apply (reusable_regp _ _ _ sub (Hreu sub Hs) a Ha). }
    assert (Eadp: flat_map adp (op_subs co) = L).
    { unfold L. symmetry. apply flat_map_ext_in. intros x Hx. rewrite forallb_forall in Hreu. apply (reusable_adp _ _ _ x (Hreu x Hx)). }
    assert (Hset: forall t, In t Tl <-> In t L).
    { intro t. split; [intro Ht; rewrite EL, Esubs; apply TlR; exact Ht|intro Ht; apply TlA; rewrite <- Esubs, Eadp; exact Ht]. }
    (* 6. Sim3 *)
    set (s2 := core_put (adopt s0 rr o') p fnode).
    assert (Es2: fst (core_file_adopt s' p cm f sa skw fnode subs' ret' rr) = with_sd s2 (sdl w)) by reflexivity.
    assert (Hreuo: reusable (w_fs w) (w_new w) (w_cachefile w) o = true).
    { unfold o. cbn [reusable]. rewrite Hunc, Hncf, Hreu. unfold isfile. rewrite Eg. reflexivity. }
    assert (Hkeyso: forall x, In x (snd (tree_claims o)) -> wfkey x).
    { intros x Hx. unfold o in Hx. rewrite tree_claims_BF in Hx. cbn [snd] in Hx. apply (cll_keys_wf _ _ _ Hns x Hx). }
    assert (HS2: Sim3 W w1 s2).
    { destruct (file_hit_sim3_H true W w s' HS HWcl Hml (fun _ => HHI) (fun q => sdl_HSD1 w q HB) (sdl_HSD2 w)
                  (p :: T) p cm f sa skw wl co wc cmp wa (inl tt) w1 (inl tt) HR (or_introl eq_refl) Hcfd HK Hne Hpok Hunc Hncf)
        as (g' & sb' & rt' & r' & Eh' & _ & _ & _ & _ & HSim).
      - intros rc E. rewrite Eget in E. inversion E; subst rc. split; [exact Hrok|exact Hwf].
      - right. exact HHI.
      - exact Hlook.
      - exact Hcmp.
      - exact Happ.
      - exact Eu.
      - unfold s' in Eh'. rewrite (fl_hit_sdH c0 T W w s0 p Hokc HSS Hnew), <- core_hit_file_hit, Hhit in Eh'.
        inversion Eh'; subst g' sb' rt' r'. fold s' in HSim. rewrite Es2 in HSim.
        apply (with_sd_Sim3_inv W w1 s2 (sdl w)). apply HSim.
        pose proof (sub_tables_wf W w s' rr o HS) as ST. rewrite Ew1. cbn [w_new set_new]. rewrite Enew.
        rewrite <- Eo in ST |- *. apply ST; rewrite ?Eo.
        + intros x [Hx|Hx]; [|apply Hkeyso; exact Hx].
          apply in_map_iff in Hx. destruct Hx as [[q v] [E Hin]]. cbn [fst] in E. subst q. apply (s4_subs_wf _ _ _ _ HP x v Hin).
        + exact Hreuo.
        + unfold o. rewrite tree_claims_BF. cbn [snd]. exact Hkf. }
    (* 7. the run invariant of the mechanism *)
    assert (HR21: RInv2' T' w1).
    { apply (RInv2_step (p :: T) T' w w1 HR2); [|exact HR1].
      eapply gl_trans; [apply svb_gl; apply (build_file_cache_lookup_svb _ _ _ _ _ _ _ Hlook)|].
      eapply (bf_reuse_gl _ _ _ _ _ (Some co)); [|exact Hreuse]. intros co' E. inversion E; subst co'. exact Hwf. }
    pose proof (RInv_X _ _ HR1) as HX1. pose proof (x_binv _ _ HX1) as HB1.
    (* Core's bookkeeping *)
    pose proof (with_sd_RRel W w s0 (sdl w) _ _ _ _ _ RR) as RR0.
    assert (Eneed: k_need s2 = Tl ++ k_need s0) by (apply (rr_need _ _ _ _ _ _ _ _ RR)).
    assert (Emade: k_made s2 = k_made s0 ++ M) by (apply (rr_made _ _ _ _ _ _ _ _ RR)).
    assert (Efs2: k_fs s2 = upd p (Some (NFile fnode)) (rp_fs rr)) by reflexivity.
    assert (HK2: KInv s2 None).
    { apply (with_sd_KInv_inv s2 (sdl w)). rewrite <- Es2.
      apply (KInv_after_file_hit W w s' HS HB p cm f sa skw fnode subs' ret' Tl cf rr M HK RR TlR Hne Eg). }
    assert (HNoDupL: NoDup L) by (rewrite EL; exact HndR).
    assert (HnpL: ~ In p L) by (intro K; rewrite EL in K; apply (Hnp p K); reflexivity).
    assert (HinT'_iff: forall x, In x T' <-> In x L \/ x = p \/ In x T).
    { intro x. unfold T'. rewrite in_app_iff, <- in_rev. cbn [In]. split; intros [A|[A|A]]; auto. }
    assert (Hkeep: forall x, lookup (k_fs s0) x = Some NDir -> lookup (k_fs s2) x = Some NDir).
    { intros x Hx. pose proof (scratch_keeps_dir W w s' HS Tl cf rr M x RR Hx) as K.
      rewrite Efs2. rewrite lookup_upd_neq; [exact K|]. intro; subst x.
      pose proof (sim3_dir_disk _ _ _ _ (s4_sim _ _ _ _ HP) Hx) as Kd. congruence. }
    exists T'. split; [rewrite Eo; reflexivity|]. split; [|split; [|split; [|split]]].
    - (* Sim4c *)
      split.
      + constructor.
        * exact HS2.
        * exact HR21.
        * (* NoDup T' *)
          unfold T'. apply NoDup_app_parts_inv.
          -- apply NoDup_rev. exact HNoDupL.
          -- apply (s4_nodup _ _ _ _ HP).
          -- intros t Ht1 Ht2. apply in_rev in Ht1. destruct Ht2 as [<-|Ht2]; [exact (HnpL Ht1)|].
             destruct (Hsub_regp t Ht1) as [A _]. rewrite (HL t Ht2) in A. discriminate.
        * (* k_need ~ T' *)
          intro x. rewrite Eneed, mem_path_app, orb_true_iff, (HinT'_iff x).
          rewrite (ViewLemmas.mem_path_In x Tl), (Hset x), (s4_need _ _ _ _ HP x). cbn [In]. split; intros [A|A]; auto.
          -- destruct A as [A|A]; auto.
          -- destruct A as [A|A]; auto.
        * (* k_made ~ bd_created *)
          intro x. rewrite Emade, mem_path_app, (s4_made _ _ _ _ HP x).
          rewrite Ew1. cbn [w_bd set_new]. rewrite (Ba x).
          destruct (qrel_facts _ _ _ HX Ql) as (HXl & Sl & _ & _). destruct (qrel_facts _ _ _ HXl Qc) as (_ & Sc & _ & _).
          rewrite (sv_created _ _ Sc), (sv_created _ _ Sl), (same_view_view_fs _ _ Sc), (same_view_view_fs _ _ Sl).
          f_equal. rewrite <- (existsb_same_set' (is_ancestor x) Tl L Hset).
          destruct (mem_path x M) eqn:EM.
          -- apply ViewLemmas.mem_path_In in EM. rewrite (rr_m2 _ _ _ _ _ _ _ _ RR x EM), (rr_m1 _ _ _ _ _ _ _ _ RR x EM). reflexivity.
          -- destruct (existsb (is_ancestor x) Tl) eqn:Ea; [|reflexivity].
             destruct (lookup (view_fs w) x) eqn:Ev; [reflexivity|]. exfalso.
             pose proof (rr_m3 _ _ _ _ _ _ _ _ RR x Ea Ev) as K. apply ViewLemmas.mem_path_In in K. congruence.
        * (* Core's tree is a tree *)
          apply (te_wf (view_fs w1) (k_fs s2)); [eapply trel_te; apply (Sim3_trel _ _ _ HS2)|apply (view_tree_wf _ HB1)].
        * (* the parents of the live targets *)
          intros t Ht. destruct (x_tgt _ _ HX1 t Ht) as (Htne & _).
          destruct t as [|n d]; [contradiction|]. cbn [dirname tl].
          apply (ki_need _ _ HK2 (n :: d) d); [|apply is_ancestor_dirname].
          rewrite Eneed. apply (HinT'_iff (n :: d)) in Ht. apply in_or_app.
          destruct Ht as [A|A]; [left; apply Hset; exact A|right].
          apply ViewLemmas.mem_path_In. apply (s4_need _ _ _ _ HP (n :: d)). destruct A as [A|A]; [left; symmetry; exact A|right; exact A].
        * (* the directory of the cache file *)
          intros x Hx. apply Hkeep. apply (s4_cfdir _ _ _ _ HP x).
          rewrite Ew1 in Hx. cbn [w_cachefile set_new] in Hx. rewrite Ca, Cc, Cl in Hx. exact Hx.
        * intros x Hx Hs. rewrite Ew1 in Hs. cbn [w_cachefile set_new] in Hs. rewrite Ca, Cc, Cl in Hs.
          rewrite Emade in Hx. apply in_app_iff in Hx. destruct Hx as [Hx|Hx]; [apply (s4_madecf _ _ _ _ HP x Hx Hs)|].
          pose proof (rr_m1 _ _ _ _ _ _ _ _ RR x Hx) as K1.
          pose proof (sim3_dir_view _ _ _ _ (s4_sim _ _ _ _ HP) (s4_cfdir _ _ _ _ HP x Hs)) as K2. congruence.
        * (* the key tables *)
          rewrite Ew1. cbn [w_new set_new]. rewrite Enew.
          apply (reg_keys_sim4 (w_fs w) (w_cachefile w) (w_new w) o (k_newS s0) Hreuo); try assumption.
          -- apply (s4_subs_wf _ _ _ _ HP).
          -- apply (s4_subs_sep _ _ _ _ HP).
          -- apply (s4_newS_wf _ _ _ _ HP).
        * rewrite Ew1. cbn [w_new set_new]. rewrite Enew.
          apply (reg_keys_sim4 (w_fs w) (w_cachefile w) (w_new w) o (k_newS s0) Hreuo); try assumption.
          -- apply (s4_subs_wf _ _ _ _ HP).
          -- apply (s4_subs_sep _ _ _ _ HP).
          -- apply (s4_newS_wf _ _ _ _ HP).
        * change (k_newS s2) with (k_newS s0 ++ snd (tree_regs o')). rewrite Eo.
          apply (reg_keys_sim4 (w_fs w) (w_cachefile w) (w_new w) o (k_newS s0) Hreuo); try assumption.
          -- apply (s4_subs_wf _ _ _ _ HP).
          -- apply (s4_subs_sep _ _ _ _ HP).
          -- apply (s4_newS_wf _ _ _ _ HP).
      + (* the live targets are claimed *)
        intros x Hx. rewrite Ew1. cbn [w_new set_new]. rewrite reg_has_file, Enew, <- regp_claims.
        apply (HinT'_iff x) in Hx. destruct Hx as [A|[A|A]].
        * unfold o. cbn [regp app mem_path]. rewrite <- EL, (proj2 (ViewLemmas.mem_path_In x L) A). rewrite !orb_true_r. reflexivity.
        * subst x. unfold o. cbn [regp app mem_path]. rewrite path_eqb_refl. reflexivity.
        * rewrite (HL x A). apply orb_true_r.
    - (* the targets in progress *)
      intro y. unfold inprog. rewrite Ew1. cbn [w_new set_new].
      assert (Hndo: NoDup (fst (tree_claims o))).
      { rewrite <- regp_claims. unfold o. cbn [regp app]. rewrite <- EL. constructor; [exact HnpL|exact HNoDupL]. }
      rewrite (reg_files_all o (w_new wa) y Hndo), Enew.
      destruct (kf_get (fst (tree_regs o)) y) as [x|] eqn:Ex; [|reflexivity].
      assert (Hq: In y (regp o)) by (rewrite regp_claims, <- regs_keysF; eapply kf_get_keys; exact Ex).
      assert (Huq: cache_has_file (w_new w) y = false).
      { unfold o in Hq. cbn [regp app] in Hq. rewrite <- EL in Hq. destruct Hq as [<-|Hq]; [exact Hunc|apply (Hsub_regp y Hq)]. }
      unfold cache_has_file in Huq. destruct (files_get (c_files (w_new w)) y); [discriminate|]. split; discriminate.
    - rewrite Ew1. cbn [w_fs set_new]. exact Efs.
    - rewrite Ew1. cbn [w_old set_new]. congruence.
    - intros x g Hx Hl. rewrite Efs2 in Hl.
      assert (Hxp: x <> p) by (intro; subst x; rewrite (HWcl p Hx) in Hunc; discriminate).
      rewrite (lookup_upd_neq _ _ _ _ Hxp) in Hl. apply (rr_w _ _ _ _ _ _ _ _ RR0 x g Hx Hl).
  Qed.
End FileHit5H.

Print Assumptions file_hit5H.
