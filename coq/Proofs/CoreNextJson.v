(* Proofs/CoreNextJson.v — JSON equality is transitive through an arbitrary (possibly ill-formed) middle
   value when the two outer values are well-formed; consequence for subbuild keys. *)
From Coq Require Import List String Ascii NArith ZArith Bool Arith Lia.
From FB.Base Require Import PyVal Fs.
From FB.Gen Require Import JsonUtilGen.
From FB.Spec Require Import JsonSpec.
From FB.Model Require Import Types Builder.
From FB.Proofs Require Import JsonLaws.
Import ListNotations.
Local Open Scope list_scope.

Lemma sanitized_t_of : forall v, sanitized v = true -> sanitized_t v = true.
Proof.
  unfold sanitized, sanitized_t.
  induction v using pyval_ind'; intro Hs; try reflexivity; try discriminate.
  - rewrite sanitized_gen_list in *. rewrite forallb_forall in *. rewrite Forall_forall in H. auto.
  - rewrite sanitized_gen_dict in *. apply andb_true_iff in Hs. destruct Hs as [Hs Hn]. rewrite Hn, andb_true_r.
    rewrite forallb_forall in *. rewrite Forall_forall in H. intros kv Hin. specialize (Hs kv Hin).
    apply andb_true_iff in Hs. destruct Hs as [H1 H2]. rewrite H1. cbn [andb]. destruct (H kv Hin) as [_ Hv]. auto.
Qed.

Definition transm_at (x : pyval) : Prop :=
  forall b c,
    sanitized_gen true x = true -> sanitized_gen true b = true -> sanitized_gen true c = true ->
    pv_wf x = true -> pv_wf c = true ->
    is_equal x b = true -> is_equal b c = true -> is_equal x c = true.

Lemma seqm_all2_trans : forall l l' l'',
  Forall transm_at l ->
  forallb (sanitized_gen true) l = true -> forallb (sanitized_gen true) l' = true ->
  forallb (sanitized_gen true) l'' = true ->
  forallb pv_wf l = true -> forallb pv_wf l'' = true ->
  all2 is_equal l l' = true -> all2 is_equal l' l'' = true -> all2 is_equal l l'' = true.
Proof.
  intros l l' l'' H S1 S2 S3 W1 W3. apply all2_trans_in.
  rewrite Forall_forall in H. rewrite forallb_forall in *.
  intros x y z Hx Hy Hz. apply H; auto.
Qed.

Lemma seqm_trans_aux : forall l b c,
  Forall transm_at l ->
  forallb (sanitized_gen true) l = true -> sanitized_gen true b = true ->
  sanitized_gen true c = true ->
  forallb pv_wf l = true -> pv_wf c = true ->
  seq_eqn l b = true -> is_equal b c = true -> seq_eqn l c = true.
Proof.
  intros l b c H S1 S2 S3 W1 W3 Hab Hbc.
  destruct b; cbn [seq_eqn] in Hab; try discriminate.
  - rewrite is_equal_list_eq in Hbc. rewrite sanitized_gen_list in S2.
    destruct c; cbn [seq_eqn] in Hbc |- *; try discriminate.
    + rewrite sanitized_gen_list in S3. rewrite pv_wf_list in W3.
      eapply seqm_all2_trans; [exact H| | | | | | exact Hab | exact Hbc]; assumption.
    + rewrite sanitized_gen_tuple in S3. rewrite pv_wf_tuple in W3.
      eapply seqm_all2_trans; [exact H| | | | | | exact Hab | exact Hbc]; assumption.
  - rewrite is_equal_tuple_eq in Hbc. rewrite sanitized_gen_tuple in S2.
    cbn [andb] in S2.
    destruct c; cbn [seq_eqn] in Hbc |- *; try discriminate.
    + rewrite sanitized_gen_list in S3. rewrite pv_wf_list in W3.
      eapply seqm_all2_trans; [exact H| | | | | | exact Hab | exact Hbc]; assumption.
    + rewrite sanitized_gen_tuple in S3. rewrite pv_wf_tuple in W3.
      eapply seqm_all2_trans; [exact H| | | | | | exact Hab | exact Hbc]; assumption.
Qed.

Theorem is_equal_trans_mid : forall a b c,
  sanitized_t a = true -> sanitized_t b = true -> sanitized_t c = true ->
  pv_wf a = true -> pv_wf c = true ->
  is_equal a b = true -> is_equal b c = true -> is_equal a c = true.
Proof.
  unfold sanitized_t.
  induction a using pyval_ind'; intros b0 c Sa Sb Sc Wa Wc Hab Hbc.
  - destruct b0; try (cbn in Hab; discriminate). exact Hbc.
  - destruct b0; try (cbn in Hab; discriminate).
    cbn in Hab. apply eqb_prop in Hab. subst. exact Hbc.
  - destruct b0; try (cbn in Hab; discriminate).
    + cbn in Hab. apply Z.eqb_eq in Hab. subst. exact Hbc.
    + change (int_fl_eqb z f = true) in Hab.
      destruct c; try (cbn in Hbc; discriminate).
      * change (int_fl_eqb z0 f = true) in Hbc.
        change ((z =? z0)%Z = true). apply Z.eqb_eq. eapply int_fl_eqb_inj; eauto.
      * change (fl_eqb f f0 = true) in Hbc. change (int_fl_eqb z f0 = true).
        rewrite <- (int_fl_eqb_fl_eqb z f f0 Hbc). exact Hab.
  - destruct b0; try (cbn in Hab; discriminate).
    + change (int_fl_eqb z f = true) in Hab.
      destruct c; try (cbn in Hbc; discriminate).
      * change ((z =? z0)%Z = true) in Hbc. apply Z.eqb_eq in Hbc. subst. exact Hab.
      * change (int_fl_eqb z f0 = true) in Hbc. change (fl_eqb f f0 = true).
        eapply int_fl_eqb_fl_unique; eauto.
    + change (fl_eqb f f0 = true) in Hab.
      destruct c; try (cbn in Hbc; discriminate).
      * change (int_fl_eqb z f0 = true) in Hbc. change (int_fl_eqb z f = true).
        rewrite (int_fl_eqb_fl_eqb z f f0 Hab). exact Hbc.
      * change (fl_eqb f0 f1 = true) in Hbc. change (fl_eqb f f1 = true).
        eapply fl_eqb_trans; eauto.
  - destruct b0; try (cbn in Hab; discriminate).
    cbn in Hab. apply String.eqb_eq in Hab. subst. exact Hbc.
  - rewrite is_equal_list_eq in Hab. rewrite is_equal_list_eq.
    rewrite sanitized_gen_list in Sa. rewrite pv_wf_list in Wa.
    exact (seqm_trans_aux l b0 c H Sa Sb Sc Wa Wc Hab Hbc).
  - rewrite is_equal_tuple_eq in Hab. rewrite is_equal_tuple_eq.
    rewrite sanitized_gen_tuple in Sa. cbn [andb] in Sa. rewrite pv_wf_tuple in Wa.
    exact (seqm_trans_aux l b0 c H Sa Sb Sc Wa Wc Hab Hbc).
  - rewrite is_equal_dict_eq in Hab. rewrite is_equal_dict_eq.
    destruct b0; cbn [dict_eqn] in Hab; try discriminate.
    rewrite is_equal_dict_eq in Hbc.
    destruct c; cbn [dict_eqn] in Hbc |- *; try discriminate.
    apply sanitized_gen_dict_wfd in Sa. destruct Sa as [[P1 N1] V1].
    apply sanitized_gen_dict_wfd in Sb. destruct Sb as [[P2 N2] V2].
    apply sanitized_gen_dict_wfd in Sc. destruct Sc as [[P3 N3] V3].
    rewrite pv_wf_dict in Wa, Wc.
    apply forallb_wf_snd in Wa. apply forallb_wf_snd in Wc.
    eapply deq_trans_in; [exact P1 | | exact Hab | exact Hbc].
    intros k v k' v' k'' v'' Hin Hin' Hin''.
    rewrite Forall_forall in H. destruct (H _ Hin) as [_ Hsnd]. apply Hsnd.
    + eapply forallb_snd_In in V1; eauto.
    + eapply forallb_snd_In in V2; eauto.
    + eapply forallb_snd_In in V3; eauto.
    + eapply forallb_snd_In in Wa; eauto.
    + eapply forallb_snd_In in Wc; eauto.
  - discriminate.
Qed.

(* c equal to a presentation sa of a is equal to a *)
Lemma is_equal_pres : forall a sa c,
  sanitized a = true -> sanitized sa = true -> sanitized c = true -> pv_wf a = true -> pv_wf c = true ->
  is_equal a sa = true -> is_equal c sa = true -> is_equal c a = true.
Proof.
  intros a sa c Sa Ss Sc Wa Wc H1 H2.
  apply sanitized_t_of in Sa, Ss, Sc.
  rewrite (is_equal_sym a sa Sa Ss) in H1.
  exact (is_equal_trans_mid c sa a Sc Ss Sa Wc Wa H2 H1).
Qed.

Lemma key_transfer : forall fn an kn f a k sa skw,
  sanitized an = true -> sanitized kn = true -> sanitized a = true -> sanitized k = true ->
  sanitized sa = true -> sanitized skw = true ->
  pv_wf an = true -> pv_wf kn = true -> pv_wf a = true -> pv_wf k = true ->
  is_equal a sa = true -> is_equal k skw = true ->
  py_eq (subbuild_key fn an kn) (subbuild_key f sa skw) = true ->
  py_eq (subbuild_key fn an kn) (subbuild_key f a k) = true.
Proof.
  intros fn an kn f a k sa skw S1 S2 S3 S4 S5 S6 W1 W2 W3 W4 E1 E2 H.
  unfold subbuild_key in *. rewrite subbuild_key_iff in * by assumption.
  apply andb_true_iff in H. destruct H as [H H3]. apply andb_true_iff in H. destruct H as [H1 H2].
  rewrite H1. cbn [andb].
  rewrite (is_equal_pres a sa an S3 S5 S1 W3 W1 E1 H2), (is_equal_pres k skw kn S4 S6 S2 W4 W2 E2 H3). reflexivity.
Qed.

Print Assumptions key_transfer.
