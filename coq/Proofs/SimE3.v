(* Proofs/SimE3.v — SimD9.err_dead_statement proved: when the root function returns, every
   member of error_created_dirs that is a directory on disk is dead in the virtual view (the
   invariant EDI of SimE1.v, carried along the run in SimE2.v; it holds trivially in the world
   in which Build.m_build starts the root function, where error_created_dirs is empty).
   Hence C01 for the whole build of the mechanism model without any assumption about the end
   of the run: [mech_commit3].
   New file; edits nothing. *)
From Coq Require Import List String Ascii NArith ZArith Bool Arith Lia.
From FB.Base Require Import PyVal Fs.
From FB.Gen Require Import JsonUtilGen.
From FB.Spec Require Import JsonSpec Prog Ref Oracle Faithful.
From FB.Model Require Import Types Monad CreatedFiles BuildDirs SimpleOps Builder Persist Build Run Frame Core CoreOracle.
From FB.Proofs Require Import FsLemmas JsonLaws BuildFileLaws HashMemoInv CoreLaws1 CoreLaws2 CoreLaws6
     ViewDefs ViewLemmas ViewInit ViewXDefs ViewXFail ViewR2 ViewR3 ViewK3 ViewK4 ViewK8 SimA0 SimAMain SimC0 SimC12 SimC13 SimC15.
From FB.Proofs Require Import ReplayLaws RollbackLaws RollbackDirsLaws RollbackDirsBase RollbackDirsInv RollbackDirsMain
     CommitDirsInv CommitDirsMain CommitDirs2FileMain CommitDirs2Y CommitDirs3Run CommitDirs3Main SimD1 SimD2 SimD3 SimD4 SimD8 SimD9.
From FB.Proofs Require Import FrameLaws CleanLaws RollbackDirsLaws
  RollbackDirsView RollbackDirsBase RollbackDirsInv RollbackDirsMake RollbackDirsRun
  RollbackDirsMain CommitDirsInv CommitDirsRun CommitDirsMain
  CommitDirs2Y CommitDirs2Bd CommitDirs2Step CommitDirs2Run CommitDirs2Main CommitDirs3Adopt CommitDirs3Run SimE1 SimE2.
Import ListNotations.
Open Scope list_scope.

Theorem err_dead : err_dead_statement.
Proof.
  intros w cf nm svers root P old Hokc Hok HW Hwf Hfa Hp Hnc Hml Hd Hat Hnn Hqk Hwa Hcm Hcl Hap HatP HPt HA HE.
  intros w1 w2 r l Emk Erun. fold old in Emk.
  assert (HA2 : forall a t, Tgt old cf P t -> below a t = true -> ~ P a) by (intros a t Ht Hb; exact (proj2 (HA a t Ht Hb))).
  assert (HS : forall a t, Tgt old cf P t -> below a t = true -> notorig (w_fs w) a) by (intros a t Ht Hb; exact (proj1 (HA a t Ht Hb))).
  pose proof (RInv_start (w_fs w) old cf P w nm svers eq_refl Hfa) as Hr0.
  pose proof (DInv_start (w_fs w) old cf P Hwf w nm svers eq_refl) as HD0.
  pose proof (EInv_start (w_fs w) old cf P w nm svers) as He0.
  assert (T0 : forall u, tcond None u) by (intros u q Y; discriminate Y).
  assert (G0 : forall u, gcond None u) by (intros u q Y; discriminate Y).
  assert (Tcf : Tgt old cf P cf) by (right; left; reflexivity).
  (* the invariants when the root function starts *)
  destruct (RInv2_root_entry (fun _ => True) w cf old nm svers Hwf Hok Hfa Hp Hnc Hml HW I Hd) as (wy & Ey & HR1).
  rewrite Ey in Emk. inversion Emk; subst wy; clear Emk. rename Ey into E1.
  destruct (make_dirs_T (w_fs w) old cf P HA2 None cf Tcf _ _ _ E1 Hr0 (T0 _)) as [Hr1 _].
  pose proof (make_dirs_D (w_fs w) old cf P HA2 [] _ _ _ _ E1 Hr0 HD0
                (fun d Hne Hd0 => AncT_of_target old cf P cf d Tcf Hne Hd0)) as R. cbn beta iota in R.
  destruct R as (made & A1 & A2 & A3 & A4 & A5).
  assert (HD1 : DInv (w_fs w) old cf P [] w1).
  { apply (DInv_X (w_fs w) old cf P (made ++ []) [] w1 A1).
    - intros d Hd0. left. apply A3. rewrite app_nil_r in Hd0. exact Hd0.
    - intros d []. }
  pose proof (make_dirs_ekeep (w_fs w) old cf P HA2 HS cf _ _ _ E1 Tcf Hr0) as Ek1.
  destruct (ekeep_E (w_fs w) old cf P _ _ Ek1 He0) as [He1 _].
  destruct Ek1 as (_ & _ & _ & _ & _ & _ & _ & K8).
  set (w1' := set_log (LInvoke "<root>"%string None PNone PNone :: w_log w1) w1) in *.
  destruct (GRel_set_log (w_fs w) old cf P [] None (LInvoke "<root>"%string None PNone PNone :: w_log w1) w1 (conj Hr1 HD1) He1 (T0 _) (G0 _))
    as (F1' & _ & E1' & _). fold w1' in F1', E1'.
  assert (HE1 : EDI w1').
  { intros d Hin _. exfalso. unfold w1' in Hin. cbn [w_bd set_log] in Hin. rewrite K8 in Hin. exact Hin. }
  pose proof (run_E (w_fs w) old cf P [] HA2 HS HPt root HatP None [] [] w1' w2 _ HR1 F1' E1' (T0 _) (G0 _)
                (fun p Hp0 => ltac:(discriminate Hp0)) HE1 Erun) as HE2.
  intros d _ Herr _ Hl. exact (HE2 d Herr Hl).
Qed.

Theorem mech_commit3 : forall (kp : kappa) (F : ftable) w cachefile nm vers svers root (P : path -> Prop) w' v,
  let old := old_cache_of (w_fs w) cachefile nm svers in
  let rr := ref_build (w_fs w) cachefile (prev_of_cache old) (w_clock w) (w_nextid w) root in
  sanitize vers = Some svers ->
  (* user obligations *)
  Obeys F root -> Respects F ->
  (* content / time *)
  kp_init kp (w_fs w) -> kp_new kp (w_clock w) ->
  (* the previous cache *)
  cache_wf old -> faithful_cache kp F old svers -> okc (w_clock w) old ->
  old_ok old cachefile -> WfCache old -> cache_created_file old cachefile = false ->
  (* the world *)
  fs_wf (w_fs w) -> w_faults w = [] ->
  path_ok (dirname cachefile) = true -> isdir (w_fs w) cachefile = false -> maxlen (w_fs w) < walk_fuel ->
  vdir (Build.start_world w cachefile old nm svers) (dirname cachefile) = true ->
  (* the program *)
  AllTargets tgtP root -> NoNest [] root -> QueriesOk root -> WfArgs root -> CmpMeta root ->
  TargetsClear old root -> TargetsApart old root ->
  (* the targets *)
  AllTargets P root -> (forall p, P p -> tgtP p) ->
  (forall a t, (P t \/ t = cachefile \/ In t (cache_targets old)) ->
     below a t = true -> (forall f, lookup (w_fs w) a <> Some (NFile f)) /\ ~ P a) ->
  (forall d, In d (c_dirs old) -> path_ok d = true) ->
  run_build cachefile nm vers root w = (w', Done (inl v)) ->
  rr_outcome rr = inl v /\
  forall p, p <> cachefile -> node_equiv (lookup (w_fs w') p) (lookup (rr_tree rr) p).
Proof.
  intros kp F w cachefile nm vers svers root P w' v old rr Hsv HO HR HI HN HCw HF Hokc Hok HW Hcfo Hwf Hfa Hp Hnc Hml Hd
         Hat Hnn Hqk Hwa Hcm Hcl Hap HatP HPt HA HE H.
  apply (mech_commit2 kp F w cachefile nm vers svers root P w' v Hsv HO HR HI HN HCw HF Hokc Hok HW Hcfo Hwf Hfa Hp Hnc Hml Hd
           Hat Hnn Hqk Hwa Hcm Hcl Hap HatP HPt HA HE); [|exact H].
  intros _.
  exact (err_dead w cachefile nm svers root P Hokc Hok HW Hwf Hfa Hp Hnc Hml Hd Hat Hnn Hqk Hwa Hcm Hcl Hap HatP HPt HA HE).
Qed.

Print Assumptions err_dead.
Print Assumptions mech_commit3.
