(* Proofs/CoreRebuild6.v — cleaning the tree a committed clean build left gives back the tree that
   build started from: the outputs are removed, the cache file is removed, and the directories the
   build made are pruned deepest first because they hold nothing but outputs and made directories.
   First: the directories listed in k_made were absent from the start tree. *)
From Coq Require Import List String Ascii NArith ZArith Bool Arith Lia Btauto.
From FB.Base Require Import PyVal Fs.
From FB.Gen Require Import JsonUtilGen.
From FB.Spec Require Import JsonSpec Prog Ref Oracle Faithful.
From FB.Model Require Import Types SimpleOps Builder Persist Core CoreOracle CoreCache.
From FB.Proofs Require Import FsLemmas JsonLaws PersistLaws CleanLaws CoreLawsChildren CoreLawsJson CoreLaws1 CoreLaws2 CoreLaws3 CoreLaws4 CoreLaws5 CoreLaws6
     CoreRebuildDefs CoreRebuild1 CoreRebuild2 CoreRebuild3 CoreRebuild4 CoreRebuild5.
Import ListNotations.
Local Open Scope list_scope.

(* ------------------------------------------------------------------ *)
(* directories made were absent                                       *)
(* ------------------------------------------------------------------ *)
Lemma mkdir_all_absent : forall l fs fs1, mkdir_all fs l = inl fs1 -> forall d, In d l -> lookup fs d = None.
Proof.
  induction l as [|x l IH] using rev_ind; intros fs fs1 H d Hd; [contradiction|].
  rewrite mkdir_all_app1 in H. destruct (mkdir_all fs l) as [f0|e] eqn:E; [|discriminate]. cbn [mkstep] in H.
  apply in_app_or in Hd. destruct Hd as [Hd|[<-|[]]]; [eapply IH; eauto|].
  destruct (mkdir_frame _ _ _ H) as [_ [Hnone _]].
  destruct (mkdir_all_frame _ _ _ E x) as [E1|[E1 _]]; congruence.
Qed.

(* a replay whose outputs are absent from the base tree never touches what the base tree has, and lists only
   directories that the base tree does not have *)
Lemma RepL_made_abs : forall B l r r', RepL B l r r' ->
  (forall q, In q (flat_map tree_outputs l) -> lookup (k_fs B) q = None) ->
  (forall q n, lookup (k_fs B) q = Some n -> lookup (rp_fs r) q = Some n) ->
  (forall d, In d (rp_made r') -> In d (rp_made r) \/ lookup (k_fs B) d = None) /\
  (forall q n, lookup (k_fs B) q = Some n -> lookup (rp_fs r') q = Some n).
Proof.
  intros B l r r' H. induction H; intros Ho Hx.
  - split; [auto|exact Hx].
  - apply IHRepL; assumption.
  - assert (Hp : lookup (k_fs B) p = None) by (apply Ho; cbn [flat_map]; rewrite tree_outputs_BF; left; reflexivity).
    assert (Hx1 : forall q n, lookup (k_fs B) q = Some n -> lookup (rp_fs (rp_start r p fs1 dirs)) q = Some n).
    { intros q n Hq. cbn [rp_start rp_fs]. assert (q <> p) by (intro; subst; congruence).
      rewrite try_remove_frame by assumption.
      destruct (mkdir_all_frame _ _ _ H5 q) as [E|[E _]]; [rewrite E; auto|rewrite (Hx q n Hq) in E; discriminate]. }
    destruct IHRepL1 as [M1 X1]; [|exact Hx1|].
    { intros q Hq. apply Ho. cbn [flat_map]. rewrite tree_outputs_BF. right. apply in_or_app. auto. }
    assert (Hx2 : forall q n, lookup (k_fs B) q = Some n -> lookup (rp_fs (rp_put r2 p f)) q = Some n).
    { intros q n Hq. cbn [rp_put rp_fs]. assert (q <> p) by (intro; subst; congruence).
      rewrite lookup_upd_neq by assumption. auto. }
    destruct IHRepL2 as [M2 X2]; [|exact Hx2|].
    { intros q Hq. apply Ho. cbn [flat_map]. rewrite tree_outputs_BF. right. apply in_or_app. auto. }
    split; [|exact X2]. intros d Hd. destruct (M2 d Hd) as [Hd2|Hd2]; [|auto]. cbn in Hd2.
    destruct (M1 d Hd2) as [Hd1|Hd1]; [|auto]. cbn in Hd1. apply in_app_or in Hd1. destruct Hd1 as [Hd1|Hd1]; [auto|].
    right. pose proof (mkdir_all_absent _ _ _ H5 d Hd1) as Ha.
    destruct (lookup (k_fs B) d) as [n|] eqn:E; [|reflexivity]. rewrite (Hx d n E) in Ha. discriminate.
  - destruct IHRepL1 as [M1 X1]; [|exact Hx|].
    { intros q Hq. apply Ho. cbn [flat_map tree_outputs]. apply in_or_app. auto. }
    destruct IHRepL2 as [M2 X2]; [|exact X1|].
    { intros q Hq. apply Ho. cbn [flat_map tree_outputs]. apply in_or_app. auto. }
    split; [|exact X2]. intros d Hd. destruct (M2 d Hd) as [Hd2|Hd2]; [|auto]. apply M1. exact Hd2.
Qed.

Section Made.
  Variable t0 : fsT.

  Definition MD0 (s : kstate) : Prop := forall d, In d (k_made s) -> lookup t0 d = None.
  Definition MRel (s s' : kstate) : Prop := TRel t0 s s' /\ (CB t0 s -> MD0 s -> MD0 s').

  Lemma MRel_refl : forall s, MRel s s.
  Proof. intro s. split; [apply TRel_refl|auto]. Qed.
  Lemma MRel_trans : forall a b c, MRel a b -> MRel b c -> MRel a c.
  Proof.
    intros a b c [T1 M1] [T2 M2]. split; [eapply TRel_trans; eauto|]. intros C M. apply M2; [|auto].
    destruct T1 as [_ [_ C1]]. auto.
  Qed.

  Lemma cb_none : forall s q, CB t0 s -> lookup (k_fs s) q = None -> lookup t0 q = None.
  Proof. intros s q C H. destruct (C q) as [E|[E _]]; congruence. Qed.

  Lemma md0_setup : forall s p fs1 dirs, CB t0 s -> MD0 s -> bf_setup s p = inl (fs1, dirs) -> MD0 (core_s0 s p fs1 dirs).
  Proof.
    intros s p fs1 dirs C M H d Hd. cbn in Hd. apply in_app_or in Hd. destruct Hd as [Hd|Hd]; [auto|].
    destruct (bf_setup_ok _ _ _ _ H) as [_ [_ Hs]]. destruct (setup_fs_inv _ _ _ _ _ Hs) as [_ [_ Hk]].
    eapply cb_none; [exact C|]. eapply mkdir_all_absent; eauto.
  Qed.

  Lemma outputs_absent : forall s0 subs r, CB t0 s0 ->
    RepL s0 subs (start_replay s0) r ->
    (forall q, In q (flat_map tree_outputs subs) -> isfile t0 q = false) ->
    forall q, In q (flat_map tree_outputs subs) -> lookup (k_fs s0) q = None.
  Proof.
    intros s0 subs r C HR Ho q Hq.
    destruct (proj2 (RepL_placed _ _ _ _ HR) q Hq) as [g [Hph _]]. pose proof (phys_notdir _ _ _ _ Hph) as Hnd.
    pose proof (RepL_unclaimed _ _ _ _ HR q Hq) as Hun. cbn in Hun. pose proof (Ho q Hq) as Hf.
    unfold isdir in Hnd. unfold isfile in Hf.
    destruct (C q) as [E|[_ [[E _]|[g' [_ E]]]]]; [|rewrite E in Hnd; discriminate|congruence].
    rewrite <- E in Hf. destruct (lookup (k_fs s0) q) as [[x|]|]; try discriminate; reflexivity.
  Qed.

  Lemma md0_adopt : forall s0 subs r o, CB t0 s0 -> MD0 s0 ->
    RepL s0 subs (start_replay s0) r ->
    (forall q, In q (flat_map tree_outputs subs) -> isfile t0 q = false) ->
    MD0 (adopt s0 r o).
  Proof.
    intros s0 subs r o C M HR Ho d Hd. cbn [adopt ks_with k_made] in Hd.
    destruct (RepL_made_abs _ _ _ _ HR) as [M1 _].
    - apply (outputs_absent s0 subs r C HR Ho).
    - intros q n Hq. exact Hq.
    - destruct (M1 d Hd) as [Hd1|Hd1]; [apply M; exact Hd1|eapply cb_none; eauto].
  Qed.

  Theorem run_made : forall pr tgt pend s s' out pend' new,
    Run pr tgt pend s s' out pend' new -> GoodEnd t0 s' -> MRel s s'.
  Proof.
    apply (run_rel (GoodEnd t0) (good_mono t0) MRel MRel_refl MRel_trans).
    - intros s e. split; [apply TRel_same_tree; auto|auto].
    - intros s. split; [apply TRel_same_tree; auto|auto].
    - intros s p c fname sa skw fs1 dirs f subs1 ret1 r Hs Hh HG. split; [apply P_hit_T; assumption|].
      intros C M. set (o := OBuildFile p c fname sa skw subs1 ret1 (cmp_of c f) false false) in *.
      set (s0 := core_s0 s p fs1 dirs) in *.
      destruct (core_hit_ok _ _ _ _ _ _ _ _ _ _ Hh) as [Hk Hph].
      assert (Hreg : forall e, In e (fst (tree_regs o)) -> In e (k_newF (core_put (adopt s0 r o) p f))).
      { intros e He. cbn [core_put adopt ks_with k_newF]. apply in_or_app. right. exact He. }
      assert (Hco : op_clean o = true).
      { destruct HG as [G1 _]. apply (G1 (p, o)). apply Hreg. unfold o. rewrite tree_regs_BF. left. reflexivity. }
      pose proof Hco as Hco'. apply op_clean_BF in Hco'. destruct Hco' as [_ [_ Hcs]].
      pose proof (kreplay_RepL _ _ Hcs _ _ Hk) as HR.
      destruct (setup_TRel t0 _ _ _ _ Hs) as [_ [_ C0]]. fold s0 in C0.
      change (MD0 (adopt s0 r o)). apply (md0_adopt s0 subs1 r o (C0 C) (md0_setup _ _ _ _ C M Hs) HR).
      intros q Hq. apply (good_hit_outputs t0 _ o HG Hreg Hco). unfold o. rewrite tree_outputs_BF. right. exact Hq.
    - intros s p c fname sa skw fs1 dirs s2 res pend2 bsubs s3 out3 o Hs [Tb Mb] Kb Hf HG.
      split; [eapply P_run_T; eauto|]. intros C M.
      destruct (finish_kconst _ _ _ _ _ _ _ _ _ _ _ _ Hf) as [K23 [EF [CF CS]]].
      assert (Hreg : In (p, o) (k_newF s3)) by (rewrite EF; apply in_or_app; right; left; reflexivity).
      destruct HG as [G1 G2]. destruct (G1 _ Hreg) as [Hco Hpt0]. cbn [fst snd] in Hco, Hpt0.
      destruct (core_finish_cases _ _ _ _ _ _ _ _ _ _ _ _ Hf) as [(sv & bytes & fs3 & g & Ep & Hw & Hg & Eo & Es3 & Eout)|(e & Eo & _)];
        [|subst o; discriminate].
      destruct (setup_TRel t0 _ _ _ _ Hs) as [_ [_ C0]].
      destruct (bf_setup_ok _ _ _ _ Hs) as [Hpc _].
      assert (Hnf0 : isfile (k_fs (core_s0 s p fs1 dirs)) p = false) by (apply (cb_nofile t0); auto).
      assert (Cs : CB t0 (core_start (core_s0 s p fs1 dirs) p fname sa skw)).
      { pose proof (C0 C) as C0'. intro q. cbn [core_start klog ks_with k_fs k_made k_claimedF]. rewrite (try_remove_noop _ _ Hnf0).
        destruct (C0' q) as [H0'|[H1' [[H2' H3']|[g' [H2' H3']]]]]; [left; exact H0'|right; auto|right].
        split; [exact H1'|]. right. exists g'. split; [exact H2'|]. cbn. cbn in H3'. rewrite H3'. apply orb_true_r. }
      subst s3. change (MD0 s2). apply (Mb Cs). exact (md0_setup _ _ _ _ C M Hs).
    - intros s fname sa skw subs1 ret1 r Hd Hh HG. split; [apply P_subhit_T; assumption|]. intros C M.
      set (o := OSubbuild fname sa skw subs1 ret1 false false) in *.
      pose proof (core_subhit_ok _ _ _ _ _ _ Hh) as Hk.
      assert (Hco : op_clean o = true).
      { destruct HG as [_ G2]. apply (G2 (subbuild_key fname sa skw, o)). cbn [adopt ks_with k_newS]. apply in_or_app. right.
        unfold o. rewrite tree_regs_SB. left. reflexivity. }
      pose proof Hco as Hco'. apply op_clean_SB in Hco'. destruct Hco' as [_ [_ Hcs]].
      pose proof (kreplay_RepL _ _ Hcs _ _ Hk) as HR.
      apply (md0_adopt s subs1 r o C M HR). intros q Hq. apply (good_hit_outputs t0 _ o HG); [|exact Hco|exact Hq].
      intros e He. cbn [adopt ks_with k_newF]. apply in_or_app. right. exact He.
    - intros s fname sa skw s2 o [T M]. split.
      + eapply TRel_trans; [|eapply TRel_trans; [exact T|]]; apply TRel_same_tree; auto.
      + intros C M0. apply (M C M0).
  Qed.
End Made.

(* ------------------------------------------------------------------ *)
(* pruning the made directories                                       *)
(* ------------------------------------------------------------------ *)
Lemma try_rmdir_empty : forall fs d, d <> [] -> lookup fs d = Some NDir -> (forall n, lookup fs (n :: d) = None) ->
  lookup (try_rmdir fs d) d = None /\ forall q, q <> d -> lookup (try_rmdir fs d) q = lookup fs q.
Proof.
  intros fs d Hne Hd Hc. unfold try_rmdir, rmdir. destruct d as [|x d]; [congruence|]. rewrite Hd.
  rewrite (proj2 (children_nil_iff fs (x :: d)) Hc). split; [apply lookup_upd_eq; discriminate|].
  intros q Hq. apply lookup_upd_neq. exact Hq.
Qed.

Lemma try_rmdir_absent : forall fs d, lookup fs d = None -> forall q, lookup (try_rmdir fs d) q = lookup fs q.
Proof.
  intros fs d H q. destruct (try_rmdir_char fs d q) as [E|[-> [_ [E _]]]]; [exact E|congruence].
Qed.

Lemma prune_back : forall t0, fs_wf t0 -> forall L F,
  desc_sorted L -> (forall d, In d L -> lookup t0 d = None) ->
  (forall q, lookup F q = lookup t0 q \/ (lookup t0 q = None /\ lookup F q = Some NDir /\ In q L)) ->
  leq (fold_left try_rmdir L F) t0.
Proof.
  intros t0 W L. induction L as [|d L IH]; intros F Hs Hb Ha.
  - intro q. simpl. destruct (Ha q) as [E|[_ [_ []]]]. exact E.
  - cbn [fold_left]. destruct Hs as [Hs1 Hs2]. apply IH; [exact Hs2|intros; apply Hb; right; assumption|].
    assert (Hd0 : lookup t0 d = None) by (apply Hb; left; reflexivity).
    assert (Hne : d <> []) by (intro; subst; discriminate).
    destruct (lookup F d) as [[g|]|] eqn:Ed.
    + exfalso. destruct (Ha d) as [E|[_ [E _]]]; congruence.
    + (* a directory: it is empty by now *)
      assert (Hc : forall n, lookup F (n :: d) = None).
      { intro n. destruct (Ha (n :: d)) as [E|[_ [E [Hi|Hi]]]].
        - rewrite E. destruct (lookup t0 (n :: d)) as [x|] eqn:Ex; [|reflexivity].
          pose proof (W _ _ Ex) as Hp. simpl in Hp. congruence.
        - exfalso. exact (cons_neq n d Hi).
        - exfalso. pose proof (Hs1 _ Hi). pose proof (plen_cons n d). lia. }
      destruct (try_rmdir_empty F d Hne Ed Hc) as [R1 R2].
      intro q. destruct (path_eqb q d) eqn:E.
      * apply path_eqb_eq in E. subst q. left. congruence.
      * apply path_eqb_neq in E. rewrite (R2 q E). destruct (Ha q) as [E1|[E1 [E2 [E3|E3]]]]; [auto|congruence|right; auto].
    + intro q. rewrite (try_rmdir_absent F d Ed q).
      destruct (Ha q) as [E1|[E1 [E2 [E3|E3]]]]; [auto|congruence|right; auto].
Qed.

(* ------------------------------------------------------------------ *)
(* removing the outputs                                               *)
(* ------------------------------------------------------------------ *)
Lemma fold_try_remove_nonfile : forall l fs q, isfile fs q = false -> lookup (fold_left try_remove l fs) q = lookup fs q.
Proof.
  intros l fs q H. unfold isfile in H. destruct (lookup fs q) as [[f|]|] eqn:E; [discriminate| |].
  - apply fold_try_remove_keeps_dir. exact E.
  - apply fold_try_remove_no_new. exact E.
Qed.

Lemma op_clean_not_raised : forall o, op_clean o = true -> op_raised o = false.
Proof.
  destruct o; intro H; [reflexivity| |].
  - apply op_clean_BF in H. simpl. tauto.
  - apply op_clean_SB in H. simpl. tauto.
Qed.

Section Back.
  Variable t0 : fsT.
  Variable nm : string.
  Variable cf : path.
  Variable s1 : kstate.
  Hypothesis W0 : fs_wf t0.
  Hypothesis HG : GoodEnd t0 s1.
  Hypothesis HC : CB t0 s1.
  Hypothesis HM : MD0 t0 s1.
  Hypothesis Hreg : forall q, mem_path q (k_claimedF s1) = true -> In q (map fst (k_newF s1)).
  Hypothesis Hcf0 : lookup t0 cf = None.
  Hypothesis Hcfne : cf <> [].

  Let new := cache_of_state nm s1.
  Let fs1 := next_fs cf s1.
  Let outs := pv_outputs (prev_of_cache new).

  Lemma outs_iff : forall q, In q outs <-> In q (map fst (k_newF s1)).
  Proof.
    intro q. unfold outs, prev_of_cache, cache_created_files. cbn [pv_outputs]. rewrite created_files_iff.
    change (c_files new) with (files_of (k_newF s1)). split.
    - intros [o [Hin _]]. apply files_of_In in Hin. destruct Hin as [o' [_ Hin]]. apply in_map_iff. exists (q, o'). auto.
    - intro Hq. apply files_of_keys in Hq.
      destruct (files_get (files_of (k_newF s1)) q) as [x|] eqn:E.
      + destruct (files_of_get_in _ _ _ E) as [o [-> Hin]]. exists o. split; [apply files_get_In; exact E|].
        apply op_clean_not_raised. destruct HG as [G1 _]. apply (G1 _ Hin).
      + exfalso. revert Hq E. generalize (files_of (k_newF s1)). clear. induction l as [|[k o] l IH]; simpl; intros Hq E; [contradiction|].
        destruct (path_eqb k q) eqn:Ek; [discriminate|]. destruct Hq as [Hq|Hq]; [subst; rewrite path_eqb_refl in Ek; discriminate|auto].
  Qed.

  Lemma fs1_cf : lookup fs1 cf = Some (NFile cache_marker).
  Proof. unfold fs1, next_fs. apply lookup_upd_eq. exact Hcfne. Qed.
  Lemma fs1_other : forall q, q <> cf -> lookup fs1 q = lookup (k_fs s1) q.
  Proof. intros q H. unfold fs1, next_fs. apply lookup_upd_neq. exact H. Qed.

  (* after the outputs and the cache file are gone: the start tree plus the made directories *)
  Lemma files_back : forall q,
    let F := try_remove (fold_left try_remove outs fs1) cf in
    lookup F q = lookup t0 q \/ (lookup t0 q = None /\ lookup F q = Some NDir /\ In q (k_made s1)).
  Proof.
    intros q F. destruct (path_eqb q cf) eqn:Ec.
    - apply path_eqb_eq in Ec. subst q. left. rewrite Hcf0. unfold F.
      destruct (fold_try_remove_file outs fs1 cf _ fs1_cf) as [E|[E _]].
      + apply try_remove_removes. unfold isfile. rewrite E. reflexivity.
      + apply try_remove_no_new. exact E.
    - apply path_eqb_neq in Ec. unfold F. rewrite try_remove_frame by exact Ec.
      destruct (HC q) as [E|[E0 [[E1 E2]|[g [E1 E2]]]]].
      + (* as in the start tree *)
        left. destruct (isfile fs1 q) eqn:Ef.
        * (* a file of the start tree is not a target *)
          assert (Hn : ~ In q outs).
          { intro Hin. apply outs_iff in Hin. apply in_map_iff in Hin. destruct Hin as [e [E3 E4]].
            destruct HG as [G1 _]. destruct (G1 e E4) as [_ Hx]. rewrite E3 in Hx.
            unfold isfile in Ef, Hx. rewrite (fs1_other q Ec), E in Ef. rewrite Ef in Hx. discriminate. }
          rewrite (fold_frame try_remove try_remove_frame outs fs1 q Hn), (fs1_other q Ec). exact E.
        * rewrite (fold_try_remove_nonfile outs fs1 q Ef), (fs1_other q Ec). exact E.
      + right. split; [exact E0|]. split; [|exact E2]. apply fold_try_remove_keeps_dir. rewrite (fs1_other q Ec). exact E1.
      + left. rewrite E0. apply fold_try_remove_removes.
        * apply outs_iff. apply Hreg. exact E2.
        * unfold isfile. rewrite (fs1_other q Ec), E1. reflexivity.
  Qed.

  Theorem clean_back : leq (ref_clean fs1 cf (prev_of_cache new)) t0.
  Proof.
    unfold ref_clean. change (pv_dirs (prev_of_cache new)) with (k_made s1). fold outs.
    apply (prune_back t0 W0).
    - apply deepest_first_sorted.
    - intros d Hd. apply HM. unfold deepest_first in Hd. apply In_sort_by in Hd. exact Hd.
    - intro q. destruct (files_back q) as [E|[E1 [E2 E3]]]; [left; exact E|right].
      split; [exact E1|]. split; [exact E2|]. unfold deepest_first. apply In_sort_by. exact E3.
  Qed.
End Back.
