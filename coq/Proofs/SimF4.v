(* Proofs/SimF4.v — RS_rest (SimF1) for the new cache of a build whose root function returns
   (NoCatch program): in every record that can be looked up in the new cache
     - every nested build_file record that did not raise is registered in the new cache as a
       non-raised file record at its target,
     - every nested subbuild record, and every entry of the table of subbuilds, has sanitized and
       well formed recorded arguments.
   Core side: an invariant through core_run ([core_run_good]): every record registered in the
   build and every suboperation recorded by a function is [good]: calm, the arguments of its
   subbuild nodes are sanitized and well formed, the targets of its non-raised build_file nodes are
   among the registered targets.  Adopted records: calm and arguments by the class of the previous
   cache; registration because an accepted replay has no "setup failed" node ([kreplay_nosf]) and
   tree_regs registers every other build_file node ([regs_all]).
   Mechanism side: through Sim3 (rec_rel keeps targets, arguments, raised flags, structure).    *)
From Coq Require Import List String Ascii NArith ZArith Bool Arith Lia.
From FB.Base Require Import PyVal Fs.
From FB.Gen Require Import JsonUtilGen.
From FB.Spec Require Import JsonSpec Prog Ref Oracle Faithful.
From FB.Model Require Import Types Monad CreatedFiles BuildDirs SimpleOps Builder Persist Build Run Frame Core CoreOracle.
From FB.Proofs Require Import FsLemmas JsonLaws ReplayLaws BuildFileLaws CoreLaws1 CoreLaws2 CoreLaws3 CoreLaws4
     CoreNextRegs CoreNextState
     HashMemoInv ViewDefs ViewLemmas ViewInit ViewXDefs ViewH4 ViewH6 ViewR2 ViewR3 ViewK3 ViewK4 ViewK8
     SimA0 SimA2Base SimAMain SimB2 SimB7 SimB9 SimC0 SimC5 SimC12 SimC14 SimC15 SimD5 SimD7 SimF1.
Import ListNotations.
Open Scope list_scope.

(* ------------------------------------------------------------------ nodes *)
Lemma nodes_deep : forall o, nodes o = deep o.
Proof.
  induction o as [q r e|p c f a k subs r cr ra sf IH|f a k subs r ra sf IH] using op_ind'; cbn [nodes deep]; [reflexivity| |];
    f_equal; induction IH as [|x rest Hx Hrest IHl]; cbn [flat_map]; [reflexivity|rewrite Hx, IHl; reflexivity|reflexivity|rewrite Hx, IHl; reflexivity].
Qed.

Lemma nodesl_deepl : forall l, flat_map nodes l = deepl l.
Proof. induction l as [|x l IH]; [reflexivity|]. unfold deepl in *. cbn [flat_map]. rewrite nodes_deep, IH. reflexivity. Qed.

Lemma deep_trans : forall o x y, In x (deep o) -> In y (deep x) -> In y (deep o).
Proof.
  induction o as [q r e|p c f a k subs r cr ra sf IH|f a k subs r ra sf IH] using op_ind'; intros x y Hx Hy.
  - destruct Hx as [<-|[]]. exact Hy.
  - destruct Hx as [<-|Hx]; [exact Hy|]. right. apply in_flat_map in Hx. destruct Hx as (z & Hz & Hx).
    rewrite Forall_forall in IH. apply in_flat_map. exists z. split; [exact Hz|exact (IH z Hz x y Hx Hy)].
  - destruct Hx as [<-|Hx]; [exact Hy|]. right. apply in_flat_map in Hx. destruct Hx as (z & Hz & Hx).
    rewrite Forall_forall in IH. apply in_flat_map. exists z. split; [exact Hz|exact (IH z Hz x y Hx Hy)].
Qed.

(* ------------------------------------------------------------------ the conditions *)
Definition argsok (x : op) : bool :=
  match x with
  | OSubbuild _ a k _ _ _ _ => (sanitized a && sanitized k && pv_wf a && pv_wf k)%bool
  | _ => true
  end.

Definition regd (R : list path) (x : op) : Prop :=
  match x with
  | OBuildFile p _ _ _ _ _ _ _ ra _ => ra = false -> In p R
  | _ => True
  end.

Definition good (R : list path) (o : op) : Prop :=
  calm o = true /\ forall x, In x (deep o) -> argsok x = true /\ regd R x.

Lemma regd_mono : forall R R' x, incl R R' -> regd R x -> regd R' x.
Proof. intros R R' [q r e|p c f a k subs r cr ra sf|f a k subs r ra sf] Hi H; cbn [regd] in *; auto. Qed.

Lemma good_mono : forall R R' o, incl R R' -> good R o -> good R' o.
Proof.
  intros R R' o Hi [H1 H2]. split; [exact H1|]. intros x Hx. destruct (H2 x Hx) as [A B]. split; [exact A|exact (regd_mono R R' x Hi B)].
Qed.

Lemma good_sub : forall R o x, good R o -> In x (deep o) -> good R x.
Proof.
  intros R o x [H1 H2] Hx. split; [exact (calm_deep o H1 x Hx)|]. intros y Hy. apply H2. exact (deep_trans o x y Hx Hy).
Qed.

Lemma good_simple : forall R q r e, good R (OSimple q r e).
Proof. intros. split; [reflexivity|]. intros x [<-|[]]. split; [reflexivity|exact I]. Qed.

(* ------------------------------------------------------------------ an accepted replay: no "setup failed" node *)
Fixpoint nosf (o : op) : bool :=
  match o with
  | OSimple _ _ _ => true
  | OBuildFile _ _ _ _ _ subs _ _ _ sf => negb sf && forallb nosf subs
  | OSubbuild _ _ _ subs _ _ sf => negb sf && forallb nosf subs
  end.

Lemma kreplay_nosf : forall s o rp rp', kreplay s o rp = Some rp' -> nosf o = true.
Proof.
  intros s o. induction o as [q0 r e|p c f a k subs r cr ra sf IH|f a k subs r ra sf IH] using op_ind'; intros rp rp' H.
  - reflexivity.
  - assert (L : forall rp rp', kreplay_list s subs rp = Some rp' -> forallb nosf subs = true).
    { clear -IH. induction subs as [|x rest IHl]; intros rp rp' H; [reflexivity|].
      inversion IH as [|? ? Hx Hrest]; subst. rewrite kreplay_list_cons in H. destruct (kreplay s x rp) as [r1|] eqn:E; [|discriminate].
      cbn [forallb]. rewrite (Hx _ _ E), (IHl Hrest _ _ H). reflexivity. }
    rewrite kreplay_BF in H. cbn [nosf].
    destruct (negb (kversion_equal s f)); [discriminate|]. destruct sf; [discriminate|].
    destruct (on_disk s p c cr ra); [|discriminate].
    destruct (mem_path p (rp_claimedF rp) || path_eqb p (k_cachefile s)); [discriminate|].
    destruct (missing_dirs (rp_fs rp) (k_cachefile s) (dirname p)) as [dirs|]; [|discriminate].
    destruct (mkdir_all (rp_fs rp) dirs) as [fs1|]; [|discriminate].
    destruct (kreplay_list s subs (rp_start rp p fs1 dirs)) as [r2|] eqn:Ekn; [|discriminate].
    exact (L _ _ Ekn).
  - assert (L : forall rp rp', kreplay_list s subs rp = Some rp' -> forallb nosf subs = true).
    { clear -IH. induction subs as [|x rest IHl]; intros rp rp' H; [reflexivity|].
      inversion IH as [|? ? Hx Hrest]; subst. rewrite kreplay_list_cons in H. destruct (kreplay s x rp) as [r1|] eqn:E; [|discriminate].
      cbn [forallb]. rewrite (Hx _ _ E), (IHl Hrest _ _ H). reflexivity. }
    rewrite kreplay_SB in H. cbn [nosf].
    destruct (negb (kversion_equal s f)); [discriminate|]. destruct sf; [discriminate|]. cbn [orb] in H.
    destruct (existsb (py_eq (subbuild_key f a k)) (rp_claimedS rp)); [discriminate|].
    exact (L _ _ H).
Qed.

Lemma kreplay_list_nosf : forall s subs rp rp', kreplay_list s subs rp = Some rp' -> forallb nosf subs = true.
Proof.
  intros s subs. induction subs as [|x rest IHl]; intros rp rp' H; [reflexivity|].
  rewrite kreplay_list_cons in H. destruct (kreplay s x rp) as [r1|] eqn:E; [|discriminate].
  cbn [forallb]. rewrite (kreplay_nosf _ _ _ _ E), (IHl _ _ H). reflexivity.
Qed.

(* tree_regs registers every build_file node of a tree without "setup failed" nodes *)
Definition isF (q : path) (x : op) : Prop := match x with OBuildFile p _ _ _ _ _ _ _ _ _ => p = q | _ => False end.

Lemma rll_all : forall subs,
  Forall (fun o => nosf o = true -> forall x q, In x (deep o) -> isF q x -> In (q, x) (fst (tree_regs o))) subs ->
  forallb nosf subs = true -> forall x q, In x (deepl subs) -> isF q x -> In (q, x) (fst (rll subs)).
Proof.
  induction subs as [|y rest IHl]; intros IH Hn x q Hx Hq; [destruct Hx|].
  inversion IH as [|? ? Hy Hrest]; subst. cbn [forallb] in Hn. apply andb_true_iff in Hn. destruct Hn as [Hn1 Hn2].
  rewrite rll_cons. cbn [fst]. unfold deepl in Hx. cbn [flat_map] in Hx. apply in_app_or in Hx. apply in_or_app.
  destruct Hx as [Hx|Hx]; [left; exact (Hy Hn1 x q Hx Hq)|right; exact (IHl Hrest Hn2 x q Hx Hq)].
Qed.

Lemma regs_all : forall o, nosf o = true -> forall x q, In x (deep o) -> isF q x -> In (q, x) (fst (tree_regs o)).
Proof.
  induction o as [q0 r e|p c f a k subs r cr ra sf IH|f a k subs r ra sf IH] using op_ind'; intros Hn x q Hx Hq.
  - destruct Hx as [<-|[]]. destruct Hq.
  - cbn [nosf] in Hn. apply andb_true_iff in Hn. destruct Hn as [Hn1 Hn2]. destruct sf; [discriminate|].
    rewrite tree_regs_BF. cbn [fst]. destruct Hx as [<-|Hx].
    + cbn [isF] in Hq. subst q. left. reflexivity.
    + right. exact (rll_all subs IH Hn2 x q Hx Hq).
  - cbn [nosf] in Hn. apply andb_true_iff in Hn. destruct Hn as [Hn1 Hn2]. destruct sf; [discriminate|].
    rewrite tree_regs_SB. cbn [fst]. destruct Hx as [<-|Hx]; [destruct Hq|].
    exact (rll_all subs IH Hn2 x q Hx Hq).
Qed.

(* an adopted record is good once its own registrations are counted *)
Lemma good_hit : forall R o, calm o = true -> nosf o = true -> forallb argsok (deep o) = true ->
  good (R ++ map fst (fst (tree_regs o))) o.
Proof.
  intros R o Hc Hn Ha. split; [exact Hc|]. intros x Hx. rewrite forallb_forall in Ha. split; [exact (Ha x Hx)|].
  destruct x as [q r e|p c f a k subs r cr ra sf|f a k subs r ra sf]; cbn [regd]; auto.
  intros _. apply in_or_app. right.
  change p with (fst (p, OBuildFile p c f a k subs r cr ra sf)). apply in_map.
  apply (regs_all o Hn _ p Hx). reflexivity.
Qed.

(* ------------------------------------------------------------------ the servable records of the previous cache *)
Definition ClassR (old : cache) : Prop :=
  (forall p p' c' f' a' k' subs' r' cr' sf', cache_get_file old p = Some (OBuildFile p' c' f' a' k' subs' r' cr' false sf') ->
     forallb calm subs' = true /\ forallb argsok (deepl subs') = true) /\
  (forall k f' a' k' subs' r' sf', subs_get (c_subs old) k = Some (Some (OSubbuild f' a' k' subs' r' false sf')) ->
     forallb calm subs' = true /\ forallb argsok (deepl subs') = true).

Lemma node_static_argsok : forall old c0 x, node_static old c0 x = true -> argsok x = true.
Proof. intros old c0 [q r e|p c f a k subs r cr ra sf|f a k subs r ra sf] H; cbn [node_static argsok] in *; [reflexivity|reflexivity|exact H]. Qed.

Lemma node_static_argsok_l : forall old c0 subs, forallb (node_static old c0) (flat_map nodes subs) = true ->
  forallb argsok (deepl subs) = true.
Proof.
  intros old c0 subs H. rewrite nodesl_deepl in H. rewrite forallb_forall in H. apply forallb_forall.
  intros x Hx. exact (node_static_argsok old c0 x (H x Hx)).
Qed.

Lemma okc_ClassR : forall c0 old, okc c0 old -> ClassR old.
Proof.
  intros c0 old Hokc. destruct (okc_ClassCalm c0 old Hokc) as [C1 C2]. destruct Hokc as [H1 H2]. split.
  - intros p p' c' f' a' k' subs' r' cr' sf' Eg. split; [exact (C1 _ _ _ _ _ _ _ _ _ _ Eg)|].
    pose proof (H1 _ _ Eg) as K. cbn [frec_static orb] in K.
    apply andb_true_iff in K. destruct K as [_ K]. apply andb_true_iff in K. destruct K as [_ K].
    unfold subs_static in K.
    apply andb_true_iff in K. destruct K as [K _]. apply andb_true_iff in K. destruct K as [K _].
    apply andb_true_iff in K. destruct K as [K _]. apply andb_true_iff in K. destruct K as [K _].
    apply andb_true_iff in K. destruct K as [_ K]. exact (node_static_argsok_l old c0 subs' K).
  - intros k f' a' k' subs' r' sf' Eg. split; [exact (C2 _ _ _ _ _ _ _ Eg)|].
    destruct (H2 _ _ Eg) as (q & _ & K). cbn [srec_static orb] in K.
    do 6 (apply andb_true_iff in K; destruct K as [K _]).
    unfold subs_static in K.
    apply andb_true_iff in K. destruct K as [K _]. apply andb_true_iff in K. destruct K as [K _].
    apply andb_true_iff in K. destruct K as [K _]. apply andb_true_iff in K. destruct K as [K _].
    apply andb_true_iff in K. destruct K as [_ K]. exact (node_static_argsok_l old c0 subs' K).
Qed.

(* ------------------------------------------------------------------ Core's tables *)
Definition RF (s : kstate) : list path := map fst (k_newF s).

Definition KG (s : kstate) : Prop :=
  (forall p o, In (p, o) (k_newF s) -> good (RF s) o) /\
  (forall k o, In (k, o) (k_newS s) -> good (RF s) o).

Definition goodl (R : list path) (l : list op) : Prop := forall o, In o l -> good R o.

Lemma goodl_mono : forall R R' l, incl R R' -> goodl R l -> goodl R' l.
Proof. intros R R' l Hi H o Ho. exact (good_mono R R' o Hi (H o Ho)). Qed.

Lemma goodl_app_op : forall R subs o, goodl R subs -> (forall x, o = Some x -> good R x) -> goodl R (Core.app_op subs o).
Proof.
  intros R subs [x|] Hs Ho; cbn [Core.app_op]; [|exact Hs]. intros y Hy. apply in_app_or in Hy.
  destruct Hy as [Hy|[<-|[]]]; [exact (Hs y Hy)|exact (Ho x eq_refl)].
Qed.

Lemma goodl_calm : forall R l, goodl R l -> forallb calm l = true.
Proof. intros R l H. apply forallb_forall. intros x Hx. exact (proj1 (H x Hx)). Qed.

Lemma good_BF : forall R p c f a k subs r cr sf, goodl R subs -> In p R -> good R (OBuildFile p c f a k subs r cr false sf).
Proof.
  intros R p c f a k subs r cr sf Hs Hp. split; [cbn [calm negb andb]; exact (goodl_calm R subs Hs)|].
  intros x [<-|Hx]; [split; [reflexivity|intros _; exact Hp]|].
  apply in_flat_map in Hx. destruct Hx as (y & Hy & Hx). exact (proj2 (Hs y Hy) x Hx).
Qed.

Lemma good_SB : forall R f a k subs r ra sf, goodl R subs ->
  sanitized a = true -> sanitized k = true -> pv_wf a = true -> pv_wf k = true -> good R (OSubbuild f a k subs r ra sf).
Proof.
  intros R f a k subs r ra sf Hs S1 S2 W1 W2. split; [cbn [calm]; exact (goodl_calm R subs Hs)|].
  intros x [<-|Hx]; [split; [cbn [argsok]; rewrite S1, S2, W1, W2; reflexivity|exact I]|].
  apply in_flat_map in Hx. destruct Hx as (y & Hy & Hx). exact (proj2 (Hs y Hy) x Hx).
Qed.

Lemma KG_adopt : forall s rr o, KG s -> good (RF s ++ map fst (fst (tree_regs o))) o ->
  KG (adopt s rr o) /\ RF (adopt s rr o) = RF s ++ map fst (fst (tree_regs o)).
Proof.
  intros s rr o [T1 T2] Ho.
  assert (ER : RF (adopt s rr o) = RF s ++ map fst (fst (tree_regs o))).
  { unfold RF. change (k_newF (adopt s rr o)) with (k_newF s ++ fst (tree_regs o)). apply map_app. }
  split; [|exact ER]. destruct (tree_regs_spec o) as [R1 R2]. unfold KG. rewrite ER.
  assert (Hi : incl (RF s) (RF s ++ map fst (fst (tree_regs o)))) by (intros z Hz; apply in_or_app; left; exact Hz).
  split.
  - intros q x Hin. change (k_newF (adopt s rr o)) with (k_newF s ++ fst (tree_regs o)) in Hin.
    apply in_app_iff in Hin. destruct Hin as [Hin|Hin]; [exact (good_mono _ _ x Hi (T1 q x Hin))|].
    destruct (R1 q x Hin) as (Hd & _). exact (good_sub _ o x Ho Hd).
  - intros q x Hin. change (k_newS (adopt s rr o)) with (k_newS s ++ snd (tree_regs o)) in Hin.
    apply in_app_iff in Hin. destruct Hin as [Hin|Hin]; [exact (good_mono _ _ x Hi (T2 q x Hin))|].
    destruct (R2 q x Hin) as (Hd & _). exact (good_sub _ o x Ho Hd).
Qed.

(* ------------------------------------------------------------------ WfArgs, inverted *)
Lemma WfArgs_Ask_inv : forall s q k, WfArgs (Ask s q k) -> forall o, WfArgs (k o).
Proof. intros s q k H. inversion H; subst; assumption. Qed.
Lemma WfArgs_Write_inv : forall c k, WfArgs (Write c k) -> WfArgs k.
Proof. intros c k H. inversion H; subst; assumption. Qed.
Lemma WfArgs_BF_inv : forall s p c f a kw fn k, WfArgs (BuildFile s p c f a kw fn k) ->
  (forall p' a' k', WfArgs (fn p' a' k')) /\ (forall o, WfArgs (k o)).
Proof. intros s p c f a kw fn k H. inversion H; subst. split; assumption. Qed.
Lemma WfArgs_SB_inv : forall s f a kw fn k, WfArgs (Subbuild s f a kw fn k) ->
  pv_wf a = true /\ pv_wf kw = true /\ (forall a' k', WfArgs (fn a' k')) /\ (forall o, WfArgs (k o)).
Proof. intros s f a kw fn k H. inversion H; subst. repeat split; assumption. Qed.

Section CoreGood.
  Variable old : cache.
  Hypothesis Hclass : ClassR old.

  Definition kbody_good (b : kbody) : Prop :=
    forall s s' v pend l, k_old s = old -> KG s -> b s = (s', (inl v, pend, l)) ->
      KG s' /\ goodl (RF s') l /\ k_old s' = old /\ incl (RF s) (RF s').

  Lemma core_bf_node_good : forall p c f a kw body s s1 v o,
    (forall sa skw, kbody_good (body sa skw)) ->
    k_old s = old -> KG s ->
    core_bf_node p c f a kw body s = (s1, (inl v, o)) ->
    KG s1 /\ (forall x, o = Some x -> good (RF s1) x) /\ k_old s1 = old /\ incl (RF s) (RF s1).
  Proof.
    intros p c f a kw body s s1 v o Hbody Hold HT H. unfold core_bf_node in H.
    destruct (sanitize a) as [sa|] eqn:Sa; [|discriminate H].
    destruct (sanitize kw) as [skw|] eqn:Sk; [|discriminate H].
    cbv zeta in H.
    destruct (claim_check (k_claimedF s) (k_cachefile s) p) as [e|]; [discriminate H|].
    destruct (setup_fs (k_fs s) (k_cachefile s) p) as [[fs1 dirs]|e]; [|discriminate H].
    set (s0 := core_s0 s p fs1 dirs) in *.
    destruct (core_hit s s0 p f sa skw) as [[[[fn subs'] ret'] rr]|] eqn:Eh.
    - inversion H; subst s1 v o. clear H.
      destruct (core_hit_inv _ _ _ _ _ _ _ _ _ _ Eh) as [_ Hkr].
      assert (Hsubs: forallb calm subs' = true /\ forallb argsok (deepl subs') = true).
      { unfold core_hit in Eh. rewrite Hold in Eh.
        destruct (cache_get_file old p) as [[q0 r0 e0|p' c' f' a' k' sb' rt' cr' ra' sf'|f0 a0 k0 sb0 r0 ra0 sf0]|] eqn:Eg; try discriminate.
        destruct ra'; [discriminate|]. destruct (negb (String.eqb f' f)); [discriminate|].
        destruct (negb (kversion_equal s f)); [discriminate|].
        destruct (negb (is_equal a' sa) || negb (is_equal k' skw)); [discriminate|].
        destruct (phys (k_fs s0) (k_stale s0) p) as [g|]; [|discriminate].
        destruct (negb (is_equal cr' (cmp_of c' g))); [discriminate|].
        destruct (kreplay_list s0 sb' (start_replay s0)) as [r1|]; [|discriminate].
        inversion Eh; subst g subs' ret' rr.
        exact (proj1 Hclass p p' c' f' a' k' sb' rt' cr' sf' Eg). }
      destruct Hsubs as [Hc Ha].
      set (o := OBuildFile p c f sa skw subs' ret' (cmp_of c fn) false false).
      assert (Ho : good (RF s0 ++ map fst (fst (tree_regs o))) o).
      { apply good_hit; [exact Hc| |exact Ha].
        cbn [nosf negb andb]. exact (kreplay_list_nosf _ _ _ _ Hkr). }
      destruct (KG_adopt s0 rr o HT Ho) as [K ER].
      change (KG (adopt s0 rr o) /\ (forall x, Some o = Some x -> good (RF (adopt s0 rr o)) x) /\ k_old s = old /\ incl (RF s0) (RF (adopt s0 rr o))).
      split; [exact K|]. rewrite ER. split; [intros x Hx; inversion Hx; subst; exact Ho|]. split; [exact Hold|].
      intros z Hz. apply in_or_app. left. exact Hz.
    - destruct (body sa skw (CoreLaws3.core_start s0 p f sa skw)) as [s2 [[res pend2] bsubs]] eqn:Eb.
      destruct (core_finish s2 p c f sa skw bsubs res pend2) as [[s3 out] o3] eqn:Ef.
      inversion H; subst s1 out o. clear H.
      unfold core_finish in Ef. cbv zeta in Ef.
      destruct res as [v0|e]; [|inversion Ef].
      destruct (sanitize v0) as [sv|]; [|inversion Ef].
      destruct pend2 as [bytes|]; [|inversion Ef].
      destruct (write_file (k_fs s2) p bytes None (k_clock s2) (k_nextid s2)) as [fs3|e] eqn:Ew; [|inversion Ef].
      inversion Ef; subst s3 v o3. clear Ef.
      destruct (Hbody sa skw (CoreLaws3.core_start s0 p f sa skw) s2 v0 (Some bytes) bsubs Hold HT Eb) as (HT2 & Hb & Hold2 & Hinc).
      match goal with |- KG ?st /\ _ => set (s3 := st) end.
      assert (ER : RF s3 = RF s2 ++ [p]) by (unfold RF, s3; cbn [ks_with k_newF]; rewrite map_app; reflexivity).
      assert (Hi : incl (RF s2) (RF s3)) by (rewrite ER; intros z Hz; apply in_or_app; left; exact Hz).
      match goal with |- _ /\ (forall x, Some ?oo = Some x -> _) /\ _ => set (o3 := oo) in * end.
      assert (Ho : good (RF s3) o3).
      { apply good_BF; [exact (goodl_mono _ _ _ Hi Hb)|]. rewrite ER. apply in_or_app. right. left. reflexivity. }
      split; [|split; [intros x Hx; inversion Hx; subst; exact Ho|split; [exact Hold2|]]].
      + destruct HT2 as [T1 T2]. split.
        * intros q x Hin. unfold s3 in Hin. cbn [ks_with k_newF] in Hin. apply in_app_iff in Hin.
          destruct Hin as [Hin|[Hin|[]]]; [exact (good_mono _ _ x Hi (T1 q x Hin))|]. inversion Hin; subst. exact Ho.
        * intros q x Hin. exact (good_mono _ _ x Hi (T2 q x Hin)).
      + intros z Hz. apply Hi. apply Hinc. exact Hz.
  Qed.
  Lemma core_sb_node_good : forall f a kw body s s1 v o,
    pv_wf a = true -> pv_wf kw = true ->
    (forall sa skw, kbody_good (body sa skw)) ->
    k_old s = old -> KG s ->
    core_sb_node f a kw body s = (s1, (inl v, o)) ->
    KG s1 /\ (forall x, o = Some x -> good (RF s1) x) /\ k_old s1 = old /\ incl (RF s) (RF s1).
  Proof.
    intros f a kw body s s1 v o Wa Wk Hbody Hold HT H. unfold core_sb_node in H.
    destruct (sanitize a) as [sa|] eqn:Sa; [|discriminate H].
    destruct (sanitize kw) as [skw|] eqn:Sk; [|discriminate H].
    pose proof (sanitize_wf _ _ Wa Sa) as Wsa. pose proof (sanitize_wf _ _ Wk Sk) as Wsk.
    pose proof (sanitize_sanitized _ _ Sa) as Ssa. pose proof (sanitize_sanitized _ _ Sk) as Ssk.
    cbv zeta in H.
    destruct (existsb (py_eq (subbuild_key f sa skw)) (k_claimedS s)); [discriminate H|].
    destruct (core_subhit s f (subbuild_key f sa skw)) as [[[subs' ret'] rr]|] eqn:Eh.
    - inversion H; subst s1 v o. clear H.
      pose proof (core_subhit_inv _ _ _ _ _ _ Eh) as Hkr.
      assert (Hsubs: forallb calm subs' = true /\ forallb argsok (deepl subs') = true).
      { unfold core_subhit in Eh. rewrite Hold in Eh.
        destruct (subs_get (c_subs old) (subbuild_key f sa skw)) as [[[q0 r0 e0|p' c' f' a' k' sb' rt' cr' ra' sf'|f0 a0 k0 sb0 r0 ra0 sf0]|]|] eqn:Eg; try discriminate.
        destruct ra0; [discriminate|]. destruct (negb (kversion_equal s f)); [discriminate|].
        destruct (kreplay_list s sb0 (start_replay s)) as [r1|]; [|discriminate].
        inversion Eh; subst subs' ret' rr.
        exact (proj2 Hclass _ f0 a0 k0 sb0 r0 sf0 Eg). }
      destruct Hsubs as [Hc Ha].
      set (o := OSubbuild f sa skw subs' ret' false false).
      assert (Ho : good (RF s ++ map fst (fst (tree_regs o))) o).
      { apply good_hit; [exact Hc| |].
        - cbn [nosf negb andb]. exact (kreplay_list_nosf _ _ _ _ Hkr).
        - unfold o. cbn [deep forallb argsok]. rewrite Ssa, Ssk, Wsa, Wsk. exact Ha. }
      destruct (KG_adopt s rr o HT Ho) as [K ER].
      split; [exact K|]. rewrite ER. split; [intros x Hx; inversion Hx; subst; exact Ho|]. split; [exact Hold|].
      intros z Hz. apply in_or_app. left. exact Hz.
    - destruct (body sa skw (core_substart s f sa skw)) as [s2 [[res pd] bsubs]] eqn:Eb.
      inversion H; subst s1 o. clear H.
      destruct res as [v0|e]; [|discriminate H2].
      destruct (Hbody sa skw (core_substart s f sa skw) s2 v0 pd bsubs Hold HT Eb) as (HT2 & Hb & Hold2 & Hinc).
      destruct (sub_rec_shape f sa skw bsubs (inl v0)) as (r & ra & Hrec). rewrite Hrec.
      assert (Ho : good (RF s2) (OSubbuild f sa skw bsubs r ra false)) by (apply good_SB; assumption).
      change (RF (core_subreg s2 (subbuild_key f sa skw) (OSubbuild f sa skw bsubs r ra false))) with (RF s2).
      split; [|split; [intros x Hx; inversion Hx; subst; exact Ho|split; [exact Hold2|exact Hinc]]].
      destruct HT2 as [T1 T2]. split; [exact T1|].
      intros q x Hin. cbn [core_subreg ks_with k_newS] in Hin. apply in_app_iff in Hin.
      destruct Hin as [Hin|[Hin|[]]]; [exact (T2 q x Hin)|]. inversion Hin; subst. exact Ho.
  Qed.

  Theorem core_run_good : forall pr, NoCatch pr -> WfArgs pr ->
    forall tg pend subs s s' v pend' l',
      k_old s = old -> KG s -> goodl (RF s) subs ->
      core_run pr tg pend subs s = (s', (inl v, pend', l')) ->
      KG s' /\ goodl (RF s') l' /\ k_old s' = old /\ incl (RF s) (RF s').
  Proof.
    intros pr Hnc.
    induction Hnc as [v0 | e | sl q k Hk IH | c k Hk IH | sl p c f a kw fn k Hfn IHfn Hk IHk Hre
                      | sl f a kw fn k Hfn IHfn Hk IHk Hre];
      intros Hwa.
    - intros tg pend subs s s' v pend' l' Hold HT Hs H. cbn [core_run] in H. inversion H; subst s' v pend' l'. split; [exact HT|split; [exact Hs|split; [exact Hold|intros z Hz; exact Hz]]].
    - intros tg pend subs s s' v pend' l' Hold HT Hs H. cbn [core_run] in H. inversion H.
    - pose proof (WfArgs_Ask_inv _ _ _ Hwa) as Wk. intros tg pend subs s s' v pend' l' Hold HT Hs H.
      rewrite core_run_Ask in H. destruct sl; [eapply IH; eauto|]. cbv zeta in H.
      assert (Hs2: goodl (RF s) (subs ++ [record_of q (record_answer (k_fs s) q)])).
      { intros y Hy. apply in_app_or in Hy. destruct Hy as [Hy|[<-|[]]]; [exact (Hs y Hy)|].
        unfold record_of. destruct (record_answer (k_fs s) q); apply good_simple. }
      destruct (spec_answer (k_fs s) q) as [v1|c0].
      + apply (IH (inl v1) (Wk _) tg pend _ (klog (LAnswer q (inl v1)) s) s' v pend' l' Hold HT Hs2 H).
      + apply (IH (inr (XOS c0)) (Wk _) tg pend _ (klog (LAnswer q (inr c0)) s) s' v pend' l' Hold HT Hs2 H).
    - pose proof (WfArgs_Write_inv _ _ Hwa) as Wk. intros tg pend subs s s' v pend' l' Hold HT Hs H.
      rewrite core_run_Write in H. destruct tg as [p|]; [|eapply IH; eauto].
      destruct (path_ok p); [|inversion H].
      exact (IH Wk (Some p) (Some c) subs (ktick s) s' v pend' l' Hold HT Hs H).
    - destruct (WfArgs_BF_inv _ _ _ _ _ _ _ _ Hwa) as (Wfn & Wk). intros tg pend subs s s' v pend' l' Hold HT Hs H.
      destruct sl.
      { cbn [core_run] in H. destruct (Hre (XRuntime RFinished)) as [e' Ee]. rewrite Ee in H. cbn [core_run] in H. inversion H. }
      rewrite core_run_BF_node in H.
      destruct (core_bf_node p c f a kw (fun sa skw => core_run (fn p sa skw) (Some p) None []) s) as [s1 [r o]] eqn:E.
      destruct r as [v1|e1].
      2:{ destruct (Hre e1) as [e' Ee]. rewrite Ee in H. cbn [core_run] in H. inversion H. }
      assert (Hb: forall sa skw, kbody_good (fun s0 => core_run (fn p sa skw) (Some p) None [] s0)).
      { intros sa skw s0 s2 v2 pd l Ho0 HT0 Eb.
        apply (IHfn p sa skw (Wfn p sa skw) (Some p) None [] s0 s2 v2 pd l Ho0 HT0 (fun y (Hy : In y []) => match Hy with end) Eb). }
      destruct (core_bf_node_good p c f a kw _ s s1 v1 o Hb Hold HT E) as (HT1 & Ho & Hold1 & Hi1).
      destruct (IHk (inl v1) (Wk _) tg pend (Core.app_op subs o) s1 s' v pend' l' Hold1 HT1) as (A1 & A2 & A3 & A4); [|exact H|].
      + apply goodl_app_op; [exact (goodl_mono _ _ _ Hi1 Hs)|exact Ho].
      + split; [exact A1|split; [exact A2|split; [exact A3|intros z Hz; apply A4, Hi1, Hz]]].
    - destruct (WfArgs_SB_inv _ _ _ _ _ _ Hwa) as (Wa & Wkw & Wfn & Wk). intros tg pend subs s s' v pend' l' Hold HT Hs H.
      destruct sl.
      { cbn [core_run] in H. destruct (Hre (XRuntime RFinished)) as [e' Ee]. rewrite Ee in H. cbn [core_run] in H. inversion H. }
      rewrite core_run_SB_node in H.
      destruct (core_sb_node f a kw (fun sa skw => core_run (fn sa skw) None None []) s) as [s1 [r o]] eqn:E.
      destruct r as [v1|e1].
      2:{ destruct (Hre e1) as [e' Ee]. rewrite Ee in H. cbn [core_run] in H. inversion H. }
      assert (Hb: forall sa skw, kbody_good (fun s0 => core_run (fn sa skw) None None [] s0)).
      { intros sa skw s0 s2 v2 pd l Ho0 HT0 Eb.
        apply (IHfn sa skw (Wfn sa skw) None None [] s0 s2 v2 pd l Ho0 HT0 (fun y (Hy : In y []) => match Hy with end) Eb). }
      destruct (core_sb_node_good f a kw _ s s1 v1 o Wa Wkw Hb Hold HT E) as (HT1 & Ho & Hold1 & Hi1).
      destruct (IHk (inl v1) (Wk _) tg pend (Core.app_op subs o) s1 s' v pend' l' Hold1 HT1) as (A1 & A2 & A3 & A4); [|exact H|].
      + apply goodl_app_op; [exact (goodl_mono _ _ _ Hi1 Hs)|exact Ho].
      + split; [exact A1|split; [exact A2|split; [exact A3|intros z Hz; apply A4, Hi1, Hz]]].
  Qed.
End CoreGood.

Print Assumptions core_run_good.

(* ------------------------------------------------------------------ through rec_rel *)
Lemma rec_rel_deep : forall o o', rec_rel o o' -> forall x, In x (deep o) -> exists x', In x' (deep o') /\ rec_rel x x'.
Proof.
  induction o as [q r e|p c f a k subs r cr ra sf IH|f a k subs r ra sf IH] using op_ind'; intros o' H x Hx.
  - destruct Hx as [<-|[]]. exists o'. split; [apply deep_self|exact H].
  - destruct Hx as [<-|Hx]; [exists o'; split; [apply deep_self|exact H]|].
    destruct o' as [q' r' e'|p' c' f' a' k' subs' r' cr' ra' sf'|f' a' k' subs' r' ra' sf']; cbn [rec_rel] in H; try contradiction.
    destruct H as (_ & _ & _ & _ & _ & Hs & _).
    assert (L : exists x', In x' (deepl subs') /\ rec_rel x x').
    { clear -IH Hs Hx. revert subs' Hs. induction IH as [|y rest Hy Hrest IHl]; intros [|y' subs'] Hs; cbn in Hs; try contradiction; try (destruct Hx; fail).
      destruct Hs as [H1 H2]. cbn [flat_map] in Hx. apply in_app_or in Hx. destruct Hx as [Hx|Hx].
      - destruct (Hy y' H1 x Hx) as (x' & A & B). exists x'. split; [|exact B]. unfold deepl. cbn [flat_map]. apply in_or_app. left. exact A.
      - destruct (IHl Hx subs' H2) as (x' & A & B). exists x'. split; [|exact B]. unfold deepl. cbn [flat_map]. apply in_or_app. right. exact A. }
    destruct L as (x' & A & B). exists x'. split; [right; exact A|exact B].
  - destruct Hx as [<-|Hx]; [exists o'; split; [apply deep_self|exact H]|].
    destruct o' as [q' r' e'|p' c' f' a' k' subs' r' cr' ra' sf'|f' a' k' subs' r' ra' sf']; cbn [rec_rel] in H; try contradiction.
    destruct H as (_ & _ & _ & Hs & _).
    assert (L : exists x', In x' (deepl subs') /\ rec_rel x x').
    { clear -IH Hs Hx. revert subs' Hs. induction IH as [|y rest Hy Hrest IHl]; intros [|y' subs'] Hs; cbn in Hs; try contradiction; try (destruct Hx; fail).
      destruct Hs as [H1 H2]. cbn [flat_map] in Hx. apply in_app_or in Hx. destruct Hx as [Hx|Hx].
      - destruct (Hy y' H1 x Hx) as (x' & A & B). exists x'. split; [|exact B]. unfold deepl. cbn [flat_map]. apply in_or_app. left. exact A.
      - destruct (IHl Hx subs' H2) as (x' & A & B). exists x'. split; [|exact B]. unfold deepl. cbn [flat_map]. apply in_or_app. right. exact A. }
    destruct L as (x' & A & B). exists x'. split; [right; exact A|exact B].
Qed.

Lemma kf_get_some : forall l q o, In (q, o) l -> exists o5, kf_get l q = Some o5.
Proof.
  induction l as [|[q' x] l IH]; intros q o H; [destruct H|]. cbn [kf_get].
  destruct (path_eqb q' q) eqn:E; [eexists; reflexivity|].
  destruct H as [H|H]; [inversion H; subst; apply path_eqb_neq in E; contradiction|exact (IH q o H)].
Qed.

(* a node of a record related to a good record of Core *)
Lemma node_rest_transfer : forall new R, (forall q, In q R -> cache_created_file new q = true) ->
  forall o o', rec_rel o o' -> good R o' -> forall x, In x (deep o) -> node_rest new x = true.
Proof.
  intros new R Hreg o o' Hrel [_ Hg] x Hx.
  destruct (rec_rel_deep o o' Hrel x Hx) as (x' & Hx' & Hr). destruct (Hg x' Hx') as [Ha Hd].
  destruct x as [q r e|p c f a k subs r cr ra sf|f a k subs r ra sf];
    destruct x' as [q' r' e'|p' c' f' a' k' subs' r' cr' ra' sf'|f' a' k' subs' r' ra' sf']; cbn [rec_rel] in Hr; try contradiction;
    cbn [node_rest].
  - reflexivity.
  - destruct Hr as (-> & _ & _ & _ & _ & _ & _ & _ & -> & _). cbn [regd] in Hd.
    destruct ra'; [reflexivity|]. cbn [orb]. apply Hreg. apply Hd. reflexivity.
  - destruct Hr as (_ & -> & -> & _). exact Ha.
Qed.

(* ------------------------------------------------------------------ the mechanism model *)
Theorem new_cache_rest : forall w cachefile old nm svers root w1 w2 v l,
  okc (w_clock w) old -> fs_wf (w_fs w) -> old_ok old cachefile -> WfCache old -> old_keys_ok old -> w_faults w = [] ->
  path_ok (dirname cachefile) = true -> isdir (w_fs w) cachefile = false -> maxlen (w_fs w) < walk_fuel ->
  vdir (Build.start_world w cachefile old nm svers) (dirname cachefile) = true ->
  AllTargets tgtP root -> NoNest [] root -> QueriesOk root -> WfArgs root -> CmpMeta root ->
  TargetsClear old root -> TargetsApart old root -> RkNew old [] root ->
  (* no function catches the exception of a nested call *)
  NoCatch root ->
  make_dirs (dirname cachefile) (Build.start_world w cachefile old nm svers) = (w1, inl []) ->
  (* the root function returns *)
  run root None [] (set_log (LInvoke "<root>"%string None PNone PNone :: w_log w1) w1) = (w2, (inl v, l)) ->
  RS_rest (w_new w2).
Proof.
  intros w cachefile old nm svers root w1 w2 v l Hokc Hwf Hok HW HKo HF Hp Hnc Hml Hd Hat Hnn Hqk Hwa Hcm Hcl Hap _ Hno Emk Erun.
  destruct (build_run_okc w cachefile old nm svers root w1 w2 (inl v) l Hokc Hwf Hok HW HKo HF Hp Hnc Hml Hd Hat Hnn Hqk Hwa Hcm Hcl Hap Emk Erun)
    as (s1 & pd & sb & T' & W' & Ecore & [HS _]).
  pose proof (Sim4_sim3 _ _ _ _ HS) as HS3.
  destruct (core_run_ext root _ _ _ _ _ _ _ _ Ecore) as (produced & _ & HX).
  destruct (x_newF _ _ _ _ _ HX) as (nF & EnF & HnF). cbn [ViewK4.core_start k_newF app] in EnF.
  set (s0 := ViewK4.core_start (w_fs w) cachefile old svers (w_clock w) (w_nextid w) (LInvoke "<root>"%string None PNone PNone :: w_log w1)) in *.
  assert (HT0: KG s0) by (split; intros q x []).
  destruct (core_run_good old (okc_ClassR _ _ Hokc) root Hno Hwa None None [] s0 s1 v pd sb (eq_refl : k_old s0 = old) HT0
              (fun y (Hy : In y []) => match Hy with end) Ecore) as ([T1 T2] & _ & _ & _).
  assert (Hreg : forall q, In q (RF s1) -> cache_created_file (w_new w2) q = true).
  { intros q Hq. unfold RF in Hq. apply in_map_iff in Hq. destruct Hq as ([q' o] & Eq & Hin). cbn [fst] in Eq. subst q'.
    destruct (kf_get_some _ _ _ Hin) as (o5 & E5). pose proof (kf_get_in _ _ _ E5) as Hin5.
    destruct (T1 q o5 Hin5) as [Hc5 _].
    rewrite EnF in Hin5. destruct (HnF q o5 Hin5) as (_ & (c & f & a & k & subs & r0 & cr & ra & ->) & _).
    cbn [calm] in Hc5. apply andb_true_iff in Hc5. destruct Hc5 as [Hra _]. apply negb_true_iff in Hra. subst ra.
    pose proof (s3_recF _ _ _ HS3 q) as K. rewrite E5 in K. unfold cache_created_file.
    destruct (cache_get_file (w_new w2) q) as [o6|]; [|contradiction].
    destruct o6 as [q6 r6 e6|p6 c6 f6 a6 k6 subs6 r6 cr6 ra6 sf6|f6 a6 k6 subs6 r6 ra6 sf6]; cbn [rec_rel] in K; try contradiction.
    destruct K as (_ & _ & _ & _ & _ & _ & _ & _ & -> & _). reflexivity. }
  split.
  - intros p p' c' f' a' k' subs r' cr' sf' Hg.
    pose proof (s3_recF _ _ _ HS3 p) as K. rewrite Hg in K.
    destruct (kf_get (k_newF s1) p) as [o'|] eqn:E; [|contradiction].
    pose proof (T1 p o' (kf_get_in _ _ _ E)) as Hgood.
    rewrite nodesl_deepl. apply forallb_forall. intros x Hx.
    apply (node_rest_transfer (w_new w2) (RF s1) Hreg _ o' K Hgood x). right. exact Hx.
  - intros k f a kk subs r sf Hg.
    pose proof (s3_recS _ _ _ HS3 k) as K. rewrite Hg in K.
    destruct (ks_get (k_newS s1) k) as [o'|] eqn:E; [|contradiction].
    destruct (ks_get_in _ _ _ E) as [q Hq]. pose proof (T2 q o' Hq) as Hgood.
    split.
    + rewrite nodesl_deepl. apply forallb_forall. intros x Hx.
      apply (node_rest_transfer (w_new w2) (RF s1) Hreg _ o' K Hgood x). right. exact Hx.
    + pose proof (node_rest_transfer (w_new w2) (RF s1) Hreg _ o' K Hgood _ (deep_self _)) as Z. cbn [node_rest] in Z.
      apply andb_true_iff in Z. destruct Z as [Z Z4]. apply andb_true_iff in Z. destruct Z as [Z Z3].
      apply andb_true_iff in Z. destruct Z as [Z1 Z2]. repeat split; assumption.
Qed.

Print Assumptions new_cache_rest.
