(* Proofs/CommitDirsInv.v — what a build that COMMITS leaves behind (C03/C10/C12):
   the extra invariant of user code needed for the commit side, on top of the
   file-and-directory invariant [FInv] of RollbackDirsInv.

   [EInv w]:
     Z1  the new cache records no created directory yet (c_dirs is filled in by
         _set_created_dirs at the end);
     Z2  a directory registered as created is locked;  Z4  and is not registered as
         error-created at the same time;
     XB  a record of the new cache at a path this build claimed (c_built): raised -> no
         regular file there; not raised -> a regular file is there;
     XS  a record at a path this build did not claim (served from the old cache), other
         than the cache file: the path holds exactly what the pre-state held there (same
         node, or nothing);
     X6  whatever sits in the backup area was moved there from a claimed path, from the
         cache file's path, or (an output of the previous build) from below a target that
         replaced a directory (_make_room).
   [gcond t w]: the target user code may currently write is claimed and in progress.
   [stable w w']: the entries of the new cache that exist in w are unchanged in w'.

   Side conditions: A2 (no target is a proper ancestor of a target, of the cache file or of
   a recorded target) and A1 in its strong form [HS] (no regular file of the pre-state is
   a proper ancestor of such a path): with it _make_dirs never moves a file away. *)
From Coq Require Import List String Ascii NArith ZArith Bool Arith Lia.
From FB.Base Require Import PyVal Fs.
From FB.Gen Require Import JsonUtilGen.
From FB.Spec Require Import Prog.
From FB.Model Require Import Types Monad CreatedFiles BuildDirs SimpleOps Builder Persist Build Run Frame.
From FB.Proofs Require Import FsLemmas ReplayLaws FrameLaws CleanLaws RollbackDirsLaws
  RollbackDirsView RollbackDirsBase RollbackDirsInv RollbackDirsMake RollbackDirsRun.
Import ListNotations.
Local Open Scope list_scope.

(* ================================================================== *)
(* 0. BuildDirs and the new cache: pure facts                          *)
(* ================================================================== *)

Lemma notin_del_path : forall p l, ~ In p (del_path p l).
Proof.
  intros p l. induction l as [|x l IH]; cbn [del_path]; [intros []|].
  destruct (path_eqb x p) eqn:E; [exact IH|]. intros [H|H]; [|exact (IH H)].
  subst x. rewrite path_eqb_refl in E. discriminate E.
Qed.

Definition bdZ (b : bdirs) : Prop :=
  (forall d, In d (bd_created b) -> in_counts b d = true) /\
  (forall d, In d (bd_created b) -> ~ In d (bd_err_created b)).

Lemma in_counts_set : forall b counts p n a,
  in_counts (bd_with b (cnt_set counts p n) (bd_created b) (bd_err_created b) (bd_removed b) (bd_exists b) (bd_maybe b) (bd_removed_files b)) a =
  if path_eqb p a then true else match cnt_get counts a with Some _ => true | None => false end.
Proof.
  intros. unfold in_counts. cbn [bd_counts bd_with]. rewrite cnt_get_set. destruct (path_eqb p a); reflexivity.
Qed.

Lemma bd_started_from_Z : forall parent b cds acc b' acc',
  bd_started_from b cds parent acc = (b', acc') -> bdZ b -> bdZ b'.
Proof.
  assert (Step : forall b cds parent,
            bdZ b ->
            let count := match cnt_get (bd_counts b) parent with Some c => c | None => 0 end in
            let b1 := bd_with b (cnt_set (bd_counts b) parent (S count)) (bd_created b) (bd_err_created b)
                              (bd_removed b) (bd_exists b) (bd_maybe b) (bd_removed_files b) in
            bdZ b1 /\
            bdZ (if mem_path parent cds
                 then bd_with b1 (bd_counts b1) (add_path parent (bd_created b1)) (del_path parent (bd_err_created b1))
                              (bd_removed b1) (bd_exists b1) (bd_maybe b1) (del_path parent (bd_removed_files b1))
                 else b1)).
  { intros b cds parent [Z2 Z4]. cbv zeta.
    assert (C : forall a, in_counts b a = true ->
              in_counts (bd_with b (cnt_set (bd_counts b) parent (S match cnt_get (bd_counts b) parent with Some c => c | None => 0 end))
                                 (bd_created b) (bd_err_created b) (bd_removed b) (bd_exists b) (bd_maybe b) (bd_removed_files b)) a = true).
    { intros a Ha. rewrite in_counts_set. destruct (path_eqb parent a); [reflexivity | exact Ha]. }
    split.
    - split; cbn [bd_created bd_err_created bd_with]; [intros d Hd; apply C, Z2, Hd | exact Z4].
    - destruct (mem_path parent cds).
      + split; cbn [bd_created bd_err_created bd_with bd_counts].
        * intros d Hd. apply In_add_path' in Hd. destruct Hd as [->|Hd].
          -- unfold in_counts. cbn [bd_counts bd_with]. rewrite cnt_get_set, path_eqb_refl. reflexivity.
          -- exact (C d (Z2 d Hd)).
        * intros d Hd Hn. apply In_add_path' in Hd. destruct Hd as [->|Hd].
          -- exact (notin_del_path _ _ Hn).
          -- apply In_del_path in Hn. exact (Z4 d Hd Hn).
      + split; cbn [bd_created bd_err_created bd_with]; [intros d Hd; apply C, Z2, Hd | exact Z4]. }
  induction parent as [|n dd IH]; intros b cds acc b' acc' H HZ; cbn [bd_started_from] in H; cbv zeta in H.
  - destruct (Step b cds [] HZ) as [S1 S2]; cbv zeta in S1, S2.
    destruct (Nat.ltb 0 _); [inversion H; subst; exact S1|].
    destruct (mem_path [] cds); inversion H; subst; assumption.
  - destruct (Step b cds (n :: dd) HZ) as [S1 S2]; cbv zeta in S1, S2.
    destruct (Nat.ltb 0 _); [inversion H; subst; exact S1|].
    match type of H with (let '(_, _) := ?Z in _) = _ => destruct Z as [b2 acc2] eqn:E2 end.
    apply IH in H; [exact H|]. destruct (mem_path (n :: dd) cds); inversion E2; subst; assumption.
Qed.

Lemma bd_started_Z : forall b p cds b' l, bd_started b p cds = (b', l) -> bdZ b -> bdZ b'.
Proof.
  intros b p cds b' l H HZ. unfold bd_started in H. destruct p as [|n dd].
  - inversion H; subst. exact HZ.
  - eapply bd_started_from_Z; [exact H|]. exact HZ.
Qed.

Lemma bd_error_from_Z : forall parent b b', bd_error_from b parent = Some b' -> bdZ b -> bdZ b'.
Proof.
  assert (Step : forall b parent c, cnt_get (bd_counts b) parent = Some c -> bdZ b ->
            bdZ (bd_with b (cnt_set (bd_counts b) parent (c - 1)) (bd_created b) (bd_err_created b)
                         (bd_removed b) (bd_exists b) (bd_maybe b) (bd_removed_files b)) /\
            let b1 := bd_with b (cnt_del (bd_counts b) parent) (bd_created b) (bd_err_created b)
                              (bd_removed b) (bd_exists b) (bd_maybe b) (bd_removed_files b) in
            bdZ (if mem_path parent (bd_created b1)
                 then bd_with b1 (bd_counts b1) (del_path parent (bd_created b1)) (add_path parent (bd_err_created b1))
                              (bd_removed b1) [] (add_path parent (bd_maybe b1)) (bd_removed_files b1)
                 else b1)).
  { intros b parent c Ec [Z2 Z4]. split.
    - split; cbn [bd_created bd_err_created bd_with]; [|exact Z4].
      intros d Hd. rewrite in_counts_set. destruct (path_eqb parent d); [reflexivity | exact (Z2 d Hd)].
    - cbv zeta. cbn [bd_created bd_with].
      assert (C : forall a, a <> parent -> in_counts b a = true ->
                in_counts (bd_with b (cnt_del (bd_counts b) parent) (bd_created b) (bd_err_created b)
                                   (bd_removed b) (bd_exists b) (bd_maybe b) (bd_removed_files b)) a = true).
      { intros a Ha Hc. unfold in_counts in *. cbn [bd_counts bd_with]. rewrite cnt_get_del.
        destruct (path_eqb parent a) eqn:E; [apply path_eqb_eq in E; subst a; contradiction | exact Hc]. }
      destruct (mem_path parent (bd_created b)) eqn:Em.
      + split; cbn [bd_created bd_err_created bd_with bd_counts].
        * intros d Hd. assert (Hn : d <> parent) by (intro E; subst d; exact (notin_del_path _ _ Hd)).
          apply In_del_path in Hd. exact (C d Hn (Z2 d Hd)).
        * intros d Hd Hn. assert (Hne : d <> parent) by (intro E; subst d; exact (notin_del_path _ _ Hd)).
          apply In_del_path in Hd. apply In_add_path' in Hn. destruct Hn as [Hn|Hn]; [contradiction | exact (Z4 d Hd Hn)].
      + split; cbn [bd_created bd_err_created bd_with]; [|exact Z4].
        intros d Hd. apply C; [|exact (Z2 d Hd)]. intro E. subst d. apply mem_path_In in Hd. congruence. }
  induction parent as [|n dd IH]; intros b b' H HZ; cbn [bd_error_from] in H.
  - destruct (cnt_get (bd_counts b) []) as [c|] eqn:Ec; [|discriminate H].
    destruct (Step b [] c Ec HZ) as [S1 S2]. cbv zeta in S2.
    destruct (Nat.ltb 0 (c - 1)); inversion H; subst; assumption.
  - destruct (cnt_get (bd_counts b) (n :: dd)) as [c|] eqn:Ec; [|discriminate H].
    destruct (Step b (n :: dd) c Ec HZ) as [S1 S2]. cbv zeta in S2.
    destruct (Nat.ltb 0 (c - 1)); [inversion H; subst; exact S1|].
    apply IH in H; [exact H | exact S2].
Qed.

Lemma bd_error_Z : forall b p b', bd_error b p = Some b' -> bdZ b -> bdZ b'.
Proof.
  intros b p b' H HZ. unfold bd_error in H. destruct p as [|n dd]; [inversion H; subst; exact HZ|].
  eapply bd_error_from_Z; eauto.
Qed.

(* ---- register_op ---- *)
Lemma fold_register_cdirs : forall subs,
  Forall (fun o => forall c, c_dirs (register_op c o) = c_dirs c) subs ->
  forall c, c_dirs (fold_left register_op subs c) = c_dirs c.
Proof.
  intros subs HF. induction HF as [|s rest Hs HF IH]; intro c; cbn [fold_left]; [reflexivity|].
  rewrite IH. apply Hs.
Qed.

Lemma register_op_cdirs : forall o c, c_dirs (register_op c o) = c_dirs c.
Proof.
  induction o as [q r e | p c0 f a k subs r cr ra sf IH | f a k subs r ra sf IH] using op_ind';
    intro c; cbn [register_op].
  - reflexivity.
  - rewrite (fold_register_cdirs subs IH). destruct sf; reflexivity.
  - rewrite (fold_register_cdirs subs IH). destruct sf; reflexivity.
Qed.

Lemma fold_register_notin : forall q subs,
  Forall (fun o => forall c, ~ In q (op_targets o) ->
                   files_get (c_files (register_op c o)) q = files_get (c_files c) q) subs ->
  ~ In q (flat_map op_targets subs) ->
  forall c, files_get (c_files (fold_left register_op subs c)) q = files_get (c_files c) q.
Proof.
  intros q subs HF. induction HF as [|s rest Hs HF IH]; intros Hn c; cbn [fold_left]; [reflexivity|].
  cbn [flat_map] in Hn. rewrite IH; [apply Hs|]; intro Y; apply Hn; apply in_or_app; auto.
Qed.

(* a key whose entry changes is a target of the registered record *)
Lemma register_op_notin : forall q o c, ~ In q (op_targets o) ->
  files_get (c_files (register_op c o)) q = files_get (c_files c) q.
Proof.
  intro q. induction o as [q0 r e | p c0 f a k subs r cr ra sf IH | f a k subs r ra sf IH] using op_ind';
    intros c Hn; cbn [register_op].
  - reflexivity.
  - cbn [op_targets] in Hn. rewrite (fold_register_notin q subs IH); [|intro Y; apply Hn; right; exact Y].
    destruct sf; [reflexivity|]. cbn [c_files cache_with]. rewrite files_get_set.
    destruct (path_eqb p q) eqn:E; [|reflexivity]. apply path_eqb_eq in E. subst p. exfalso. apply Hn. left. reflexivity.
  - cbn [op_targets] in Hn. rewrite (fold_register_notin q subs IH); [|exact Hn]. destruct sf; reflexivity.
Qed.

Lemma fold_register_keeps : forall x c0 subs,
  Forall (fun o => forall c', assert_no_repeats c0 o = true ->
                   files_get (c_files (register_op c' o)) x = files_get (c_files c') x) subs ->
  forallb (assert_no_repeats c0) subs = true ->
  forall c', files_get (c_files (fold_left register_op subs c')) x = files_get (c_files c') x.
Proof.
  intros x c0 subs HF. induction HF as [|s rest Hs HF IH]; intros Ha c'; [reflexivity|].
  cbn [forallb] in Ha. apply andb_true_iff in Ha. destruct Ha as [A1 A2].
  cbn [fold_left]. rewrite IH by exact A2. apply Hs. exact A1.
Qed.

(* _assert_no_repeats: an entry that exists is not overwritten *)
Lemma register_op_keeps_entry : forall x c0, cache_has_file c0 x = true ->
  forall o c', assert_no_repeats c0 o = true ->
  files_get (c_files (register_op c' o)) x = files_get (c_files c') x.
Proof.
  intros x c0 Hx.
  induction o as [q r e | p c f a k subs r cr ra sf IH | f a k subs r ra sf IH] using op_ind';
    intros c' Ha.
  - reflexivity.
  - cbn [assert_no_repeats] in Ha. apply andb_true_iff in Ha. destruct Ha as [A1 A2].
    cbn [register_op]. rewrite (fold_register_keeps x c0 subs IH A2).
    destruct sf; [reflexivity|]. cbn [orb] in A1. apply negb_true_iff in A1.
    cbn [c_files cache_with]. rewrite files_get_set.
    destruct (path_eqb p x) eqn:E; [|reflexivity]. apply path_eqb_eq in E. subst p. congruence.
  - cbn [assert_no_repeats] in Ha. apply andb_true_iff in Ha. destruct Ha as [A1 A2].
    cbn [register_op]. rewrite (fold_register_keeps x c0 subs IH A2). destruct sf; reflexivity.
Qed.

(* ================================================================== *)
(* 1. The invariant                                                    *)
(* ================================================================== *)

Section Commit.

Variable fs0 : fsT.
Variable old : cache.
Variable cf : path.
Variable P : path -> Prop.
Variable X : list path.

Hypothesis HypA : forall a t, Tgt old cf P t -> below a t = true -> ~ P a.
Hypothesis HS : forall a t, Tgt old cf P t -> below a t = true -> notorig fs0 a.

Notation RI := (RInv fs0 old cf P).
Notation AT := (AncT old cf P).
Notation TG := (Tgt old cf P).
Notation FI := (FInv fs0 old cf P X).
Notation FP := (FPO fs0 old cf P X).

Definition stable (w w' : world) : Prop :=
  forall q, cache_has_file (w_new w) q = true ->
            files_get (c_files (w_new w')) q = files_get (c_files (w_new w)) q.

Lemma stable_refl : forall w, stable w w.
Proof. intros w q _. reflexivity. Qed.

Lemma stable_has : forall w w' q, stable w w' -> cache_has_file (w_new w) q = true -> cache_has_file (w_new w') q = true.
Proof. intros w w' q H Hq. unfold cache_has_file in *. rewrite (H q Hq). exact Hq. Qed.

Lemma stable_trans : forall a b c, stable a b -> stable b c -> stable a c.
Proof.
  intros a b c H1 H2 q Hq. rewrite (H2 q (stable_has _ _ _ H1 Hq)). apply H1. exact Hq.
Qed.

Lemma stable_same : forall w w', c_files (w_new w') = c_files (w_new w) -> stable w w'.
Proof. intros w w' E q _. rewrite E. reflexivity. Qed.

Definition XBc (w : world) : Prop :=
  forall p o, cache_get_file (w_new w) p = Some o -> In p (c_built (w_new w)) ->
    if op_raised o then forall g, lookup (w_fs w) p <> Some (NFile g) else isfile (w_fs w) p = true.

Definition XSc (w : world) : Prop :=
  forall p o, cache_get_file (w_new w) p = Some o -> ~ In p (c_built (w_new w)) -> p <> cf ->
    forall g, lookup (w_fs w) p = Some (NFile g) <-> origfile fs0 p g.

Definition X6c (w : world) : Prop :=
  forall p f, In (p, f) (w_backups w) ->
    In p (c_built (w_new w)) \/ p = cf \/
    (cache_created_file old p = true /\ exists q, P q /\ below q p = true).

Definition EInv (w : world) : Prop :=
  c_dirs (w_new w) = [] /\ bdZ (w_bd w) /\ XBc w /\ XSc w /\ X6c w.

Definition gcond (t : option path) (w : world) : Prop := forall p, t = Some p -> pending (w_new w) p.

Lemma pending_has_file : forall c p, pending c p -> cache_has_file c p = true.
Proof. intros c p H. unfold pending in H. unfold cache_has_file. rewrite H. reflexivity. Qed.

Lemma gcond_stable : forall t w w', gcond t w -> stable w w' -> gcond t w'.
Proof.
  intros t w w' H S p Hp. pose proof (H p Hp) as Hq. unfold pending in *.
  rewrite (S p (pending_has_file _ _ Hq)). exact Hq.
Qed.

Definition GRel (t : option path) (w w' : world) : Prop :=
  FI w -> EInv w -> tcond t w -> gcond t w -> FI w' /\ built_le w w' /\ EInv w' /\ stable w w'.

Lemma GRel_refl : forall t w, GRel t w w.
Proof. intros t w H1 H2 _ _. split; [exact H1|]. split; [apply built_le_refl|]. split; [exact H2 | apply stable_refl]. Qed.

Lemma GRel_trans : forall t a b c, GRel t a b -> GRel t b c -> GRel t a c.
Proof.
  intros t a b c H1 H2 Fa Ea Ta Ga. destruct (H1 Fa Ea Ta Ga) as (Fb & L1 & Eb & S1).
  assert (Tb : tcond t b) by (intros p Hp; apply L1, Ta, Hp).
  assert (Gb : gcond t b) by (eapply gcond_stable; eauto).
  destruct (H2 Fb Eb Tb Gb) as (Fc & L2 & Ec & S2).
  split; [exact Fc|]. split; [eapply built_le_trans; eauto|]. split; [exact Ec | eapply stable_trans; eauto].
Qed.

Definition GPO (t : option path) : PO := {| rel := GRel t; po_refl := GRel_refl t; po_trans := GRel_trans t |}.

Lemma G_lift : forall t Y (m : world -> world * Y), pres (FP t) m ->
  (forall w w' r, m w = (w', r) -> FI w -> EInv w -> tcond t w -> gcond t w -> EInv w' /\ stable w w') ->
  pres (GPO t) m.
Proof.
  intros t Y m H1 H2 w w' r H Fw Ew Tw Gw. destruct (H1 _ _ _ H Fw Tw) as [Fw' L].
  destruct (H2 _ _ _ H Fw Ew Tw Gw) as [Ew' S]. auto.
Qed.

Lemma GRel_of : forall t w w', FRel fs0 old cf P X t w w' ->
  (FI w -> EInv w -> tcond t w -> gcond t w -> EInv w' /\ stable w w') -> GRel t w w'.
Proof.
  intros t w w' H1 H2 Fw Ew Tw Gw. destruct (H1 Fw Tw) as [Fw' L]. destruct (H2 Fw Ew Tw Gw) as [Ew' S]. auto.
Qed.

Lemma GRel_None : forall t w w', GRel None w w' -> GRel t w w'.
Proof.
  intros t w w' H Fw Ew _ _. apply H; auto; intros p Y; discriminate Y.
Qed.

Lemma pres_None_G : forall t Y (m : world -> world * Y), pres (GPO None) m -> pres (GPO t) m.
Proof. intros t Y m. apply pres_weaken. apply GRel_None. Qed.

Lemma pres_bind_valG : forall t A B (m : M A) (f : A -> M B) (Phi : A -> Prop),
  pres (GPO t) m ->
  (forall w w1 a, FI w -> m w = (w1, inl a) -> Phi a) ->
  (forall a, Phi a -> pres (GPO t) (f a)) -> pres (GPO t) (bind m f).
Proof.
  intros t A B m f Phi Hm Hv Hf w w' r H. change (GRel t w w'). apply bind_inv in H.
  destruct H as [(w1 & a & E1 & H) | (e & E1 & _)].
  - intros Fw Ew Tw Gw. pose proof (Hv _ _ _ Fw E1) as Ha.
    exact (GRel_trans t _ _ _ (Hm _ _ _ E1) (Hf a Ha _ _ _ H) Fw Ew Tw Gw).
  - exact (Hm _ _ _ E1).
Qed.

(* ---- steps that keep everything EInv talks about ---- *)
Definition ekeep (w w' : world) : Prop :=
  c_files (w_new w') = c_files (w_new w) /\ c_built (w_new w') = c_built (w_new w) /\
  c_dirs (w_new w') = c_dirs (w_new w) /\ w_backups w' = w_backups w /\ files_same w w' /\
  bd_counts (w_bd w') = bd_counts (w_bd w) /\ bd_created (w_bd w') = bd_created (w_bd w) /\
  bd_err_created (w_bd w') = bd_err_created (w_bd w).

Lemma ekeep_refl : forall w, ekeep w w.
Proof. intro w. unfold ekeep. repeat (split; [reflexivity|]). split; [apply files_same_refl|]. repeat split. Qed.
Lemma ekeep_trans : forall a b c, ekeep a b -> ekeep b c -> ekeep a c.
Proof.
  unfold ekeep. intros a b c (A1 & A2 & A3 & A4 & A5 & A6 & A7 & A8) (B1 & B2 & B3 & B4 & B5 & B6 & B7 & B8).
  split; [congruence|]. split; [congruence|]. split; [congruence|]. split; [congruence|].
  split; [eapply files_same_trans; eauto|]. split; [congruence|]. split; congruence.
Qed.
Definition ekeepPO : PO := {| rel := ekeep; po_refl := ekeep_refl; po_trans := ekeep_trans |}.

Lemma isfile_same : forall w w' p, files_same w w' -> isfile (w_fs w') p = isfile (w_fs w) p.
Proof.
  intros w w' p S. unfold isfile.
  destruct (lookup (w_fs w') p) as [[g|]|] eqn:E1; destruct (lookup (w_fs w) p) as [[g'|]|] eqn:E2; try reflexivity.
  - apply S in E1. congruence.
  - apply S in E1. congruence.
  - apply S in E2. congruence.
  - apply S in E2. congruence.
Qed.

Lemma ekeep_E : forall w w', ekeep w w' -> EInv w -> EInv w' /\ stable w w'.
Proof.
  intros w w' (A1 & A2 & A3 & A4 & A5 & A6 & A7 & A8) (Z1 & (Z2 & Z4) & XB & XS & X6).
  split; [|apply stable_same; exact A1].
  unfold EInv, bdZ, XBc, XSc, X6c, cache_get_file, in_counts. rewrite A1, A2, A3, A4, A6, A7, A8.
  split; [exact Z1|]. split; [split; assumption|]. split; [|split; [|exact X6]].
  - intros p o Ho Hb. pose proof (XB p o Ho Hb) as Y. destruct (op_raised o).
    + intros g Hg. apply A5 in Hg. exact (Y g Hg).
    + rewrite (isfile_same _ _ p A5). exact Y.
  - intros p o Ho Hb Hc g. rewrite (A5 p g). exact (XS p o Ho Hb Hc g).
Qed.

Lemma view_ekeep : forall w w', viewPO w w' -> ekeepPO w w'.
Proof.
  intros w w' ((F1 & _ & _ & _ & F5 & F6 & _) & (C1 & C2 & C3 & _)). unfold ekeepPO, ekeep; cbn.
  rewrite F5, F6. repeat (split; [reflexivity|]). split; [|auto].
  intros q g. rewrite F1. tauto.
Qed.

Lemma pres_view_ekeep : forall Y (m : world -> world * Y), pres viewPO m -> pres ekeepPO m.
Proof. intros Y m. apply pres_weaken. apply view_ekeep. Qed.

Lemma ekeep_same : forall w w', w_new w' = w_new w -> w_backups w' = w_backups w -> w_fs w' = w_fs w ->
  w_bd w' = w_bd w -> ekeep w w'.
Proof.
  intros w w' E1 E2 E3 E4. unfold ekeep. rewrite E1, E2, E4. repeat (split; [reflexivity|]).
  split; [|repeat split]. intros q g. rewrite E3. tauto.
Qed.

Lemma effect_ekeep : forall what p f,
  (forall fs fs', f fs = inl fs' -> forall q g, lookup fs' q = Some (NFile g) <-> lookup fs q = Some (NFile g)) ->
  pres ekeepPO (effect what p f).
Proof.
  intros what p f Hf w w' r H. unfold effect in H. cbv zeta in H.
  destruct (existsb (Nat.eqb (w_effects w)) (w_faults w)).
  - inversion H; subst. apply ekeep_same; reflexivity.
  - cbn [w_fs set_effects] in H. destruct (f (w_fs w)) as [fs'|e] eqn:E; inversion H; subst.
    + unfold ekeepPO, ekeep; cbn. repeat (split; [reflexivity|]). split; [|repeat split]. exact (Hf _ _ E).
    + apply ekeep_same; reflexivity.
Qed.

Lemma rmdir_files_kept : forall d fs fs', rmdir fs d = inl fs' ->
  forall q g, lookup fs' q = Some (NFile g) <-> lookup fs q = Some (NFile g).
Proof.
  intros d fs fs' H q g. apply rmdir_frame in H. destruct H as (H1 & _ & _ & H2 & H3).
  destruct (path_eq_dec q d) as [->|N]; [rewrite H1, H2; split; intro Y; discriminate Y | rewrite (H3 q N); tauto].
Qed.

Lemma remove_empty_dirs_ekeep : forall ds, pres ekeepPO (remove_empty_dirs ds).
Proof.
  intro ds. unfold remove_empty_dirs. apply pres_mapM_. intro d. apply pres_catch.
  - apply effect_ekeep. intros fs fs'. apply rmdir_files_kept.
  - intro e. destruct (is_os e); [apply pres_ret | apply pres_raise].
Qed.

(* no regular file sits at a proper ancestor of a target (strong A1) *)
Lemma AncT_not_file : forall d w, AT d -> RI w -> isfile (w_fs w) d = false.
Proof.
  intros d w Ha Hr. destruct (isfile (w_fs w) d) eqn:E; [exfalso|reflexivity].
  apply isfile_lookup in E. destruct E as [g Hg].
  pose proof (AncT_file_orig fs0 old cf P HypA d w g Ha Hr Hg) as Ho.
  destruct Ha as (t & Ht & Hb). exact (HS d t Ht Hb g Ho).
Qed.

Lemma make_one_dir_ekeep : forall d w w' r, make_one_dir d w = (w', r) -> RI w -> AT d -> ekeep w w'.
Proof.
  intros d w w' r H Hr Ha. unfold make_one_dir in H. unfold bind at 1, get in H.
  rewrite (AncT_not_file d w Ha Hr) in H. cbn [andb] in H.
  apply bind_inv in H. destruct H as [(w1 & u & E1 & H) | (e & E1 & _)]; [|discriminate E1].
  inversion E1; subst w1. refine ((_ : pres ekeepPO _) _ _ _ H).
  apply pres_catch.
  - apply pres_bind; [|intro; apply pres_ret]. apply effect_ekeep. intros fs fs'. apply mkdir_files_kept.
  - intro e. destruct (is_os_class XFileExists e); [apply pres_ret | apply pres_raise].
Qed.

Lemma make_dirs_loop_ekeep : forall ds made w w' r, make_dirs_loop ds made w = (w', r) ->
  (forall d, In d ds -> AT d) -> RI w -> ekeep w w'.
Proof.
  induction ds as [|d ds IH]; intros made w w' r H Hds Hr; cbn [make_dirs_loop] in H.
  - inversion H; subst. apply ekeep_refl.
  - apply bind_inv in H. destruct H as [(w1 & res & E1 & H) | (e & E1 & _)].
    2:{ apply attempt_inv in E1. destruct E1 as (x & _ & Y). discriminate Y. }
    apply attempt_inv in E1. destruct E1 as (x & E1 & Y). inversion Y; subst res; clear Y.
    assert (Hd : AT d) by (apply Hds; left; reflexivity).
    assert (T0 : tcond None w) by (intros q Y; discriminate Y).
    destruct (make_one_dir_T fs0 old cf P HypA None d Hd _ _ _ E1 Hr T0) as [Hr1 _].
    pose proof (make_one_dir_ekeep _ _ _ _ E1 Hr Hd) as K1.
    eapply ekeep_trans; [exact K1|].
    destruct x as [b|e].
    + eapply IH; eauto. intros q Hq. apply Hds. right. exact Hq.
    + destruct (is_os e).
      * apply bind_inv in H. destruct H as [(w2 & u & E2 & H) | (e' & E2 & _)].
        -- inversion H; subst. exact (remove_empty_dirs_ekeep _ _ _ _ E2).
        -- exact (remove_empty_dirs_ekeep _ _ _ _ E2).
      * inversion H; subst. apply ekeep_refl.
Qed.

Lemma make_dirs_ekeep : forall t w w' r, make_dirs (dirname t) w = (w', r) -> TG t -> RI w -> ekeep w w'.
Proof.
  intros t w w' r H Ht Hr. unfold make_dirs in H.
  assert (T0 : forall v, tcond None v) by (intros v q Y; discriminate Y).
  apply bind_inv in H. destruct H as [(w0 & ds & E0 & H) | (e & E0 & _)].
  2:{ exact (view_ekeep _ _ (dirs_to_make_view _ _ _ _ _ E0)). }
  pose proof (dirs_to_make_view _ _ _ _ _ E0) as V0.
  destruct (svb_RelT fs0 old cf P None _ _ (view_svb _ _ V0) Hr (T0 _)) as [Hr0 _].
  eapply ekeep_trans; [exact (view_ekeep _ _ V0)|].
  assert (Hds : forall d, In d ds -> AT d).
  { intros d Hd. destruct (dirs_to_make_anc _ _ _ _ _ E0 d Hd) as (Y1 & Y2).
    exact (AncT_of_target old cf P t d Ht Y1 Y2). }
  apply bind_inv in H. destruct H as [(w1 & u & E1 & H) | (e & E1 & _)].
  - inversion H; subst. eapply make_dirs_loop_ekeep; eauto.
  - eapply make_dirs_loop_ekeep; eauto.
Qed.

End Commit.
