(* Proofs/SimN2.v — SimM6.mech_readback_hash_statement, proved in its precise form: the cache file
   that a committed fault-free build of the mechanism model leaves is read back, by whoever reads
   it next, as the normal form (SimF8.ReadBack) of the cache the build held when its root function
   returned.  Ingredients: SimH7.committed_cache_wf / SimH17.committed_cache_wf_next (the committed
   cache is writable, its tables are those of its forest up to order, the forest is good, the
   cache file holds cache_to_json of it), SimN1.readback_of_perm (order is irrelevant for lookups),
   SimM4.new_cache_wfH (the arguments of the recorded subbuilds are well-formed values).
   Two hypotheses that SimM6.SideH does not have are needed by SimH7 / SimH17: the components of the
   path of the cache file and of the paths of the program are legal (path_wf cf, prog_paths_wf root);
   and one about the state in which the build starts, which every committed build re-establishes
   ([Written]: there is no cache file, or it was written from a writable cache with a good forest
   under this build name).
   [committed_end]: the facts about the end of a committed build, both cases of [Written];
   [mech_readback_hash]: the statement (with the three extra hypotheses), for every svers';
   [mech_link]: SimF8.link and [Written] for a next build whose tree agrees, AT THE CACHE FILE, with
   the tree this build left and whose clock is not earlier.
   New file; edits nothing. *)
From Coq Require Import List String Ascii NArith ZArith Bool Arith Lia Permutation.
From FB.Base Require Import PyVal Fs.
From FB.Gen Require Import JsonUtilGen.
From FB.Spec Require Import JsonSpec Prog Ref Oracle Faithful.
From FB.Model Require Import Types Monad CreatedFiles BuildDirs SimpleOps Builder PathNorm Persist PersistSpec Build Run Frame Core CoreOracle.
From FB.Proofs Require Import FsLemmas JsonLaws PersistLaws BuildFileLaws HashMemoInv CoreLaws1 CoreLaws2 CoreLaws6
     ViewDefs ViewLemmas ViewInit ViewXDefs ViewXFail ViewR2 ViewR3 ViewR8 ViewK3 ViewK4 ViewK8 SimA0 SimAMain SimB7 SimC0 SimC12 SimC13 SimC14 SimC15.
From FB.Proofs Require Import ReplayLaws RollbackLaws RollbackDirsLaws RollbackDirsBase RollbackDirsInv RollbackDirsMain
     CommitDirsInv CommitDirsMain CommitDirs2FileMain CommitDirs2Y CommitDirs3Run CommitDirs3Main SimD1 SimD2 SimD3 SimD4 SimD5 SimD6 SimD7 SimD8 SimD9.
From FB.Proofs Require Import SimE3 SimF1 SimF6 SimF7 SimF8 SimF9 SimG5 SimJ4 SimJ9 SimJ10 SimJ12 SimJ13 SimM3 SimM4 SimM5 SimM6.
From FB.Proofs Require Import CacheRTDefs CacheRTLaws CacheRTTables CacheRTForest CacheRTOpen CacheRTMain
     SimH1 SimH3 SimH7 SimH8 SimH9 SimH11 SimH17 SimN1.
Import ListNotations.
Open Scope list_scope.

(* the state of the cache file when a build starts *)
Definition Written (cf : path) (nm : string) (fs : fsT) : Prop :=
  lookup fs cf = None \/
  exists f0 c0 roots0, lookup fs cf = Some (NFile f0) /\ f_json f0 = cache_to_json c0 /\
                       writable c0 roots0 /\ forest_good roots0 /\ c_name c0 = nm.

(* the committed cache, and the run of the root function it comes from *)
Definition EndFacts (cf : path) (nm : string) (b : bstep) (roots : list op) (ccd : list path) (w1 w2 : world) (l : list op) : Prop :=
  let c := w_new (b_w' b) in
  writable c roots /\ tables_perm_forest c roots /\
  (forall p, files_get (c_files c) p = files_get (c_files (tables_of (c_name c) (c_fvers c) (c_dirs c) roots)) p) /\
  forest_good roots /\ paths_nodup (c_dirs c) = true /\
  (exists f, lookup (w_fs (b_w' b)) cf = Some (NFile f) /\ f_json f = cache_to_json c) /\
  make_dirs (dirname cf) (Build.start_world (b_w b) cf (b_old cf nm b) nm (b_svers b)) = (w1, inl ccd) /\
  run (b_root b) None [] (set_log (LInvoke "<root>"%string None PNone PNone :: w_log w1) w1) = (w2, (inl (b_v b), l)) /\
  w_new (b_w' b) = SimH1.new_cache_of ccd w2 /\ c_name (w_new w2) = nm.

Theorem committed_end : forall cf nm b,
  SideH cf nm b -> path_wf cf = true -> prog_paths_wf (b_root b) -> Written cf nm (w_fs (b_w b)) ->
  exists roots ccd w1 w2 l, EndFacts cf nm b roots ccd w1 w2 l.
Proof.
  intros cf nm b S Hcf Hroot [Hl|(f0 & c0 & roots0 & Hl & Hj & Hw & HG0 & Hn)].
  - destruct (committed_cache_wf cf nm (b_vers b) (b_svers b) (b_root b) (b_w b) (b_w' b) (b_v b)
                (sh_vers _ _ _ S) Hcf Hroot (sh_wf _ _ _ S) (sh_faults _ _ _ S) Hl (sh_run _ _ _ S))
      as (roots & Wr & TP & HF & FG & ND & Hf).
    destruct (first_build_facts cf nm (b_vers b) (b_svers b) (b_root b) (b_w b) (b_w' b) (b_v b)
                (sh_vers _ _ _ S) Hcf Hroot Hl (sh_run _ _ _ S))
      as (ccd & w2 & l & ops & j & Hnew & _ & _ & _ & Mn & _ & _ & _ & _ & _ & w1 & E1 & E2).
    assert (Eold : b_old cf nm b = empty_cache nm (b_svers b)) by (unfold b_old, old_cache_of; rewrite Hl; reflexivity).
    exists roots, ccd, w1, w2, l. unfold EndFacts. cbv zeta. rewrite Eold.
    repeat (split; [assumption|]). assumption.
  - destruct (committed_cache_wf_next cf nm (b_vers b) (b_svers b) (b_root b) (b_w b) (b_w' b) (b_v b) f0 c0 roots0
                (sh_vers _ _ _ S) Hcf Hroot (sh_wf _ _ _ S) (sh_faults _ _ _ S) Hl Hj Hw HG0 Hn (sh_run _ _ _ S))
      as (roots & Wr & TP & HF & FG & ND & Hf).
    pose proof (next_accepted cf nm (b_svers b) (b_w b) f0 c0 roots0 Hl Hj Hw Hn) as Hacc.
    destruct (accepted_build_facts cf nm (b_vers b) (b_svers b) (b_root b) (b_w b) (b_w' b) (b_v b) (read_back c0 roots0)
                (sh_vers _ _ _ S) Hcf Hroot Hacc (read_back_RW c0 roots0 Hw) (sh_run _ _ _ S))
      as (ccd & w2 & l & ops & j & Hnew & _ & _ & _ & Mn & _ & _ & _ & _ & _ & w1 & E1 & E2).
    assert (Eold : b_old cf nm b = read_back c0 roots0).
    { unfold b_old, old_cache_of. rewrite Hl. destruct (write_read c0 roots0 Hw) as (j0 & J1 & J2).
      rewrite Hj, J1, J2. reflexivity. }
    exists roots, ccd, w1, w2, l. unfold EndFacts. cbv zeta. rewrite Eold.
    repeat (split; [assumption|]). assumption.
Qed.

Lemma ReadBack_ext : forall c1 c2 c', c_files c1 = c_files c2 -> c_subs c1 = c_subs c2 -> ReadBack c1 c' -> ReadBack c2 c'.
Proof.
  intros c1 c2 c' Ef Es (T1 & T2 & T3). unfold ReadBack, cache_created_file, cache_get_file in *.
  rewrite <- Ef, <- Es. split; [exact T1|]. split; [exact T2 | exact T3].
Qed.

(* the statement *)
Theorem mech_readback_hash : forall cf nm b,
  SideH cf nm b -> CacheOkH cf nm b ->
  path_wf cf = true -> prog_paths_wf (b_root b) -> Written cf nm (w_fs (b_w b)) ->
  exists roots,
    let c := w_new (b_w' b) in
    writable c roots /\ forest_good roots /\ tables_from_forest c roots /\ c_name c = nm /\
    paths_nodup (c_dirs c) = true /\
    (exists f, lookup (w_fs (b_w' b)) cf = Some (NFile f) /\ f_json f = cache_to_json c) /\
    (forall svers', old_cache_of (w_fs (b_w' b)) cf nm svers' = read_back c roots) /\
    forall w1 w2 x,
      make_dirs (dirname cf) (Build.start_world (b_w b) cf (b_old cf nm b) nm (b_svers b)) = (w1, inl []) ->
      run (b_root b) None [] (set_log (LInvoke "<root>"%string None PNone PNone :: w_log w1) w1) = (w2, (inl (b_v b), x)) ->
      w_new (b_w' b) = SimH1.new_cache_of [] w2 /\
      forall svers', ReadBack (w_new w2) (old_cache_of (w_fs (b_w' b)) cf nm svers').
Proof.
  intros cf nm b S (Hokc & HW & _ & _) Hcf Hroot HWr.
  destruct (committed_end cf nm b S Hcf Hroot HWr) as (roots & ccd & w1 & w2 & l & EF).
  unfold EndFacts in EF. cbv zeta in EF.
  destruct EF as (Wr & TP & HF & FG & ND & Hf & E1 & E2 & Hnew & Mn).
  (* the run of SimD1.Committed is this run *)
  destruct (run_build_committed cf nm (b_vers b) (b_svers b) (b_root b) (b_w b) (b_w' b) (b_v b) (b_P b)
              (sh_faults _ _ _ S) (sh_vers _ _ _ S) (sh_atP _ _ _ S) (sh_wf _ _ _ S) (sh_below _ _ _ S) (sh_dirs _ _ _ S)
              HW (sh_ok _ _ _ S) (sh_Pt _ _ _ S) (run_build_cf_nodir _ _ _ _ _ _ _ _ (sh_vers _ _ _ S) (sh_run _ _ _ S)) (sh_len _ _ _ S) (sh_pok _ _ _ S) (sh_vdir _ _ _ S) (sh_run _ _ _ S))
    as (wfin & w1' & w2' & x' & _ & HC).
  pose proof (cm_mk _ _ _ _ _ _ _ _ _ _ _ _ _ HC) as Emk. pose proof (cm_run _ _ _ _ _ _ _ _ _ _ _ _ _ HC) as Erun.
  fold (b_old cf nm b) in Emk.
  assert (Q1 : w1' = w1 /\ ccd = []) by (rewrite E1 in Emk; inversion Emk; split; reflexivity).
  destruct Q1 as [-> ->].
  assert (Q2 : w2' = w2 /\ x' = l) by (rewrite E2 in Erun; inversion Erun; split; reflexivity).
  destruct Q2 as [-> ->].
  pose proof (old_cache_keys_ok (w_fs (b_w b)) cf nm (b_svers b)) as HKo. fold (b_old cf nm b) in HKo.
  pose proof (new_cache_wfH (b_w b) cf (b_old cf nm b) nm (b_svers b) (b_root b) w1 w2 (b_v b) l
                Hokc (sh_wf _ _ _ S) (sh_ok _ _ _ S) HW HKo (sh_faults _ _ _ S) (sh_pok _ _ _ S) (run_build_cf_nodir _ _ _ _ _ _ _ _ (sh_vers _ _ _ S) (sh_run _ _ _ S)) (sh_len _ _ _ S)
                (sh_vdir _ _ _ S) (sh_at _ _ _ S) (sh_nn _ _ _ S) (sh_qk _ _ _ S) (sh_wa _ _ _ S) (sh_cl _ _ _ S) (sh_ap _ _ _ S)
                (sh_nc _ _ _ S) Emk Erun) as (_ & Hshape & _).
  set (c := w_new (b_w' b)) in *.
  assert (Ef : c_files c = c_files (w_new w2)) by (rewrite Hnew; reflexivity).
  assert (Es : c_subs c = c_subs (w_new w2)) by (rewrite Hnew; reflexivity).
  assert (HA : SubArgsWf c).
  { intros key o Hg. rewrite Es in Hg. destruct (Hshape key o Hg) as (f & a & k & subs & r & ra & -> & _ & _ & Wa & Wk & _).
    repeat eexists; assumption. }
  pose proof Wr as (_ & Hwf & _).
  pose proof (tables_from_forest_of_perm c roots Hwf FG TP HF HA) as TF.
  destruct (readback_of_perm c roots Wr FG TP HF HA) as (j & J1 & J2 & RB).
  assert (Eread : forall svers', old_cache_of (w_fs (b_w' b)) cf nm svers' = read_back c roots).
  { intro svers'. destruct Hf as (f & Lf & Jf). unfold old_cache_of. rewrite Lf, Jf, J1, J2. reflexivity. }
  exists roots. cbv zeta.
  split; [exact Wr|]. split; [exact FG|]. split; [exact TF|].
  split; [rewrite Hnew; exact Mn|]. split; [exact ND|]. split; [exact Hf|]. split; [exact Eread|].
  intros w1'' w2'' x'' Emk'' Erun''.
  assert (Q1 : w1'' = w1) by (rewrite E1 in Emk''; inversion Emk''; reflexivity). subst w1''.
  assert (Q2 : w2'' = w2) by (rewrite E2 in Erun''; inversion Erun''; reflexivity). subst w2''.
  split; [exact Hnew|]. intro svers'. rewrite Eread. exact (ReadBack_ext c (w_new w2) _ Ef Es RB).
Qed.

(* SimM6.mech_readback_hash_statement itself, under the three extra hypotheses *)
Theorem mech_readback_hash_closed : forall cf nm b svers', SideH cf nm b -> CacheOkH cf nm b ->
  path_wf cf = true -> prog_paths_wf (b_root b) -> Written cf nm (w_fs (b_w b)) ->
  forall w1 w2 x,
    make_dirs (dirname cf) (Build.start_world (b_w b) cf (b_old cf nm b) nm (b_svers b)) = (w1, inl []) ->
    run (b_root b) None [] (set_log (LInvoke "<root>"%string None PNone PNone :: w_log w1) w1) = (w2, (inl (b_v b), x)) ->
    ReadBack (w_new w2) (old_cache_of (w_fs (b_w' b)) cf nm svers').
Proof.
  intros cf nm b svers' S HC Hcf Hroot HWr w1 w2 x Emk Erun.
  destruct (mech_readback_hash cf nm b S HC Hcf Hroot HWr) as (roots & _ & _ & _ & _ & _ & _ & _ & H).
  exact (proj2 (H w1 w2 x Emk Erun) svers').
Qed.

(* the next build: its tree agrees with the one this build left at the cache file (anything else
   may have changed), and its clock is not earlier *)
Theorem mech_link : forall cf nm b b', SideH cf nm b -> CacheOkH cf nm b ->
  path_wf cf = true -> prog_paths_wf (b_root b) -> Written cf nm (w_fs (b_w b)) ->
  lookup (w_fs (b_w b')) cf = lookup (w_fs (b_w' b)) cf ->
  (w_clock (b_w' b) <= w_clock (b_w b'))%N ->
  link cf nm b b' /\ Written cf nm (w_fs (b_w b')).
Proof.
  intros cf nm b b' S HC Hcf Hroot HWr Hsame Hclk.
  destruct (mech_readback_hash cf nm b S HC Hcf Hroot HWr) as (roots & Wr & FG & _ & Hn & _ & (f & Lf & Jf) & Eread & H).
  assert (Eo : b_old cf nm b' = old_cache_of (w_fs (b_w' b)) cf nm (b_svers b')).
  { unfold b_old, old_cache_of. rewrite Hsame. reflexivity. }
  split.
  - split; [exact Hclk|]. intros w1 w2 x Emk Erun. rewrite Eo. exact (proj2 (H w1 w2 x Emk Erun) (b_svers b')).
  - right. exists f, (w_new (b_w' b)), roots. rewrite Hsame. repeat (split; [assumption|]). assumption.
Qed.

Print Assumptions committed_end.
Print Assumptions mech_readback_hash.
Print Assumptions mech_readback_hash_closed.
Print Assumptions mech_link.
