(* Proofs/ViewOverlay2.v — C04, the replay case, continued: the answers in the form of the
   specification (Ref.spec_answer_raw on the overlay tree), the invariant CInv along
   CreatedFiles.started_building_file / finished_building_file, and validation on a concrete
   world. *)
From Coq Require Import List String Ascii NArith ZArith Bool Arith Lia.
From FB.Base Require Import PyVal Fs.
From FB.Model Require Import Types Monad CreatedFiles BuildDirs SimpleOps Builder.
From FB.Spec Require Import Ref.
From FB.Proofs Require Import FsLemmas CleanLaws JsonLaws CoreLawsChildren
     ViewDefs ViewLemmas ViewScan ViewQueries ViewAnswers ViewPres ViewOverlay.
Import ListNotations.
Open Scope list_scope.
Open Scope m_scope.

(* ------------------------------------------------------------------ answers as POSIX answers on the overlay tree *)
Lemma lookup_overlay_kind : forall w c p, BInv w -> CInv w c ->
  match lookup (overlay_fs w c) p with
  | Some NDir => odir w c p = true /\ ofile w c p = false
  | Some (NFile _) => ofile w c p = true /\ odir w c p = false
  | None => ofile w c p = false /\ odir w c p = false
  end.
Proof.
  intros w c p HB HC. rewrite <- (isfile_overlay w c HC), <- (isdir_overlay w c HB HC). unfold isfile, isdir.
  destruct (lookup (overlay_fs w c) p) as [[g|]|]; auto.
Qed.

Theorem exec_query_overlay : forall w c q, BInv w -> CInv w c ->
  pok w (spec_query_path q) ->
  (forall d, q = QListDir d -> forall n, In n (cf_list_dir c d) -> pok w (n :: d)) ->
  match q with QExists _ | QIsFile _ | QIsDir _ | QListDir _ => True | _ => False end ->
  yields (exec_query q (Some c)) w (to_res (spec_answer_raw (overlay_fs w c) q)).
Proof.
  intros w c q HB HC Hp Hl Hq. destruct q as [p|p|p|p|p td|p|p cm]; try destruct Hq; cbn [spec_query_path] in Hp;
    cbn [exec_query spec_answer_raw to_res].
  - eapply yields_bind; [apply m_exists_overlay; assumption|]. intros w1 G1.
    rewrite (lexists_overlay w c HB HC). apply yields_ret. apply (good_BInv _ _ G1).
  - eapply yields_bind; [apply m_is_file_overlay; assumption|]. intros w1 G1.
    rewrite (isfile_overlay w c HC). apply yields_ret. apply (good_BInv _ _ G1).
  - eapply yields_bind; [apply m_is_dir_overlay; assumption|]. intros w1 G1.
    rewrite (isdir_overlay w c HB HC). apply yields_ret. apply (good_BInv _ _ G1).
  - pose proof (m_list_dir_overlay w c p HB HC Hp (Hl p eq_refl)) as H.
    pose proof (lookup_overlay_kind w c p HB HC) as K.
    destruct (lookup (overlay_fs w c) p) as [[g|]|].
    + destruct K as [K1 K2]. rewrite K1, K2 in H. exact H.
    + destruct K as [K1 K2]. rewrite K1 in H. unfold names_val. rewrite <- (onames_children w c p HB HC K1). exact H.
    + destruct K as [K1 K2]. rewrite K1, K2 in H. exact H.
Qed.

(* ------------------------------------------------------------------ CInv along CreatedFiles *)
Lemma sub_get_set : forall l d ns d', sub_get (sub_set l d ns) d' = if path_eqb d d' then Some ns else sub_get l d'.
Proof.
  intros l d ns d'. induction l as [|[q m] l IH]; cbn [sub_set sub_get]; [reflexivity|].
  destruct (path_eqb q d) eqn:E; cbn [sub_get].
  - apply path_eqb_eq in E. subst q. destruct (path_eqb d d'); reflexivity.
  - rewrite IH. destruct (path_eqb q d') eqn:E2; [|reflexivity].
    apply path_eqb_eq in E2. subst q. rewrite path_eqb_sym, E. reflexivity.
Qed.

(* the listing of a directory after _add_to_subfiles(n :: d) *)
Lemma list_add_sub : forall c n d d',
  cf_list_dir (cf_add_to_subfiles c (n :: d)) d' =
  if path_eqb d d' then (if mem_str n (cf_list_dir c d) then cf_list_dir c d else cf_list_dir c d ++ [n])
  else cf_list_dir c d'.
Proof.
  intros c n d d'. unfold cf_add_to_subfiles, cf_list_dir. cbn [cf_sub cf_with]. rewrite sub_get_set.
  destruct (path_eqb d d') eqn:E; [|reflexivity]. reflexivity.
Qed.

Lemma add_sub_fields : forall c p, cf_files (cf_add_to_subfiles c p) = cf_files c /\ cf_dirs (cf_add_to_subfiles c p) = cf_dirs c.
Proof. intros c [|n d]; split; reflexivity. Qed.

(* adding one overlay entry (a file or a directory) whose listing is updated *)
Lemma CInv_add_entry : forall w c n d (isf : bool),
  CInv w c ->
  (if isf then isfile (w_fs w) (n :: d) = true /\ mem_path (n :: d) (cf_dirs c) = false
   else mem_path (n :: d) (cf_files c) = false) ->
  CInv w (cf_add_to_subfiles
            (cf_with c (if isf then add_path (n :: d) (cf_files c) else cf_files c)
                       (if isf then cf_dirs c else add_path (n :: d) (cf_dirs c)) (cf_sub c) (cf_counts c))
            (n :: d)).
Proof.
  intros w c n d isf [A B C D E0 F] Hpre.
  set (c1 := cf_with c (if isf then add_path (n :: d) (cf_files c) else cf_files c)
                       (if isf then cf_dirs c else add_path (n :: d) (cf_dirs c)) (cf_sub c) (cf_counts c)).
  assert (Hf: forall p, mem_path p (cf_files c1) = (isf && path_eqb (n :: d) p) || mem_path p (cf_files c)).
  { intro p. unfold c1. destruct isf; cbn [cf_files cf_with andb orb]; [apply mem_add_path|reflexivity]. }
  assert (Hdd: forall p, mem_path p (cf_dirs c1) = (negb isf && path_eqb (n :: d) p) || mem_path p (cf_dirs c)).
  { intro p. unfold c1. destruct isf; cbn [cf_dirs cf_with andb orb negb]; [reflexivity|apply mem_add_path]. }
  assert (Hl1: forall d', cf_list_dir c1 d' = cf_list_dir c d') by reflexivity.
  constructor; cbn [cf_add_to_subfiles cf_files cf_dirs cf_with].
  - intros p H. change (mem_path p (cf_files c1) = true) in H. change (mem_path p (cf_dirs c1) = false).
    rewrite Hf in H. rewrite Hdd. destruct isf; cbn [andb orb negb] in *.
    + apply orb_true_iff in H. destruct H as [H|H]; [apply path_eqb_eq in H; subst p; apply Hpre|apply A; exact H].
    + destruct (path_eqb (n :: d) p) eqn:E; [apply path_eqb_eq in E; subst p; congruence|]. cbn [orb]. apply A. exact H.
  - intros p H. change (mem_path p (cf_files c1) = true) in H. rewrite Hf in H. destruct isf; cbn [andb orb] in H.
    + apply orb_true_iff in H. destruct H as [H|H]; [apply path_eqb_eq in H; subst p; apply Hpre|apply B; exact H].
    + apply B. exact H.
  - intros d' m H. change (In m (cf_list_dir (cf_add_to_subfiles c1 (n :: d)) d')) in H. rewrite list_add_sub, Hl1 in H.
    change (mem_path (m :: d') (cf_files c1) = true \/ mem_path (m :: d') (cf_dirs c1) = true). rewrite Hf, Hdd.
    assert (Hold: In m (cf_list_dir c d') -> ((isf && path_eqb (n :: d) (m :: d')) || mem_path (m :: d') (cf_files c)) = true \/
                                             ((negb isf && path_eqb (n :: d) (m :: d')) || mem_path (m :: d') (cf_dirs c)) = true).
    { intro K. destruct (C d' m K) as [K1|K1]; [left|right]; rewrite K1; apply orb_true_r. }
    destruct (path_eqb d d') eqn:Ed; [|apply Hold; exact H]. apply path_eqb_eq in Ed. subst d'.
    destruct (mem_str n (cf_list_dir c d)); [apply Hold; exact H|].
    apply in_app_iff in H. destruct H as [H|[<-|[]]]; [apply Hold; exact H|].
    rewrite path_eqb_refl. destruct isf; cbn [andb negb orb]; auto.
  - intros d' m H. change (mem_path (m :: d') (cf_files c1) = true \/ mem_path (m :: d') (cf_dirs c1) = true) in H.
    change (In m (cf_list_dir (cf_add_to_subfiles c1 (n :: d)) d')). rewrite list_add_sub, Hl1. rewrite Hf, Hdd in H.
    assert (Hnew: (isf && path_eqb (n :: d) (m :: d') = true \/ negb isf && path_eqb (n :: d) (m :: d') = true) ->
                  In m (if path_eqb d d' then if mem_str n (cf_list_dir c d) then cf_list_dir c d else cf_list_dir c d ++ [n]
                        else cf_list_dir c d')).
    { intro K. assert (Eq: n :: d = m :: d').
      { destruct K as [K|K]; apply andb_true_iff in K; destruct K as [_ K]; apply path_eqb_eq in K; exact K. }
      inversion Eq; subst m d'. rewrite path_eqb_refl. destruct (mem_str n (cf_list_dir c d)) eqn:Em.
      - apply mem_str_In. exact Em.
      - apply in_or_app. right. left. reflexivity. }
    assert (Hold: mem_path (m :: d') (cf_files c) = true \/ mem_path (m :: d') (cf_dirs c) = true ->
                  In m (if path_eqb d d' then if mem_str n (cf_list_dir c d) then cf_list_dir c d else cf_list_dir c d ++ [n]
                        else cf_list_dir c d')).
    { intro K. pose proof (D d' m K) as K1. destruct (path_eqb d d') eqn:Ed; [|exact K1].
      apply path_eqb_eq in Ed. subst d'. destruct (mem_str n (cf_list_dir c d)); [exact K1|apply in_or_app; left; exact K1]. }
    destruct H as [H|H]; apply orb_true_iff in H; destruct H as [H|H]; auto.
  - intro d'. change (NoDup (cf_list_dir (cf_add_to_subfiles c1 (n :: d)) d')). rewrite list_add_sub, Hl1.
    destruct (path_eqb d d') eqn:Ed; [|apply E0]. destruct (mem_str n (cf_list_dir c d)) eqn:Em; [apply E0|].
    apply NoDup_app_disjoint; [apply E0|constructor; [intros []|constructor]|].
    intros x H1 [<-|[]]. apply mem_str_In in H1. congruence.
  - change (mem_path [] (cf_files c1) = false). rewrite Hf. destruct isf; cbn [andb orb]; exact F.
Qed.

(* finished_building_file *)
Theorem cf_finished_CInv : forall w c n d, CInv w c ->
  isfile (w_fs w) (n :: d) = true -> mem_path (n :: d) (cf_dirs c) = false ->
  CInv w (cf_finished c (n :: d)).
Proof.
  intros w c n d HC H1 H2. unfold cf_finished. apply (CInv_add_entry w c n d true HC). auto.
Qed.

(* started_building_file: the ancestors of the target that are not counted yet become overlay directories *)
Lemma cf_counts_irrelevant : forall w c counts, CInv w c -> CInv w (cf_with c (cf_files c) (cf_dirs c) (cf_sub c) counts).
Proof. intros w c counts [A B C D E F]. constructor; assumption. Qed.

Theorem cf_started_from_CInv : forall parent w c, CInv w c ->
  (forall x, suffix x parent -> mem_path x (cf_files c) = false) ->
  CInv w (cf_started_from c parent).
Proof.
  induction parent as [|n d IH]; intros w c HC Hnf; cbn [cf_started_from].
  - set (c1 := cf_with c (cf_files c) (cf_dirs c) (cf_sub c) (cnt_set (cf_counts c) [] (S (match cnt_get (cf_counts c) [] with Some k => k | None => 0 end)))).
    destruct (Nat.ltb 0 _); [apply cf_counts_irrelevant; exact HC|].
    (* the root as overlay directory: no listing to update *)
    cbn [cf_add_to_subfiles]. destruct HC as [A B C D E0 F].
    assert (Hl: forall d', cf_list_dir (cf_with c1 (cf_files c1) (add_path [] (cf_dirs c1)) (cf_sub c1) (cf_counts c1)) d' = cf_list_dir c d') by reflexivity.
    constructor; cbn [cf_files cf_dirs cf_with c1].
    + intros p H. rewrite mem_add_path. destruct (path_eqb [] p) eqn:Ep; [apply path_eqb_eq in Ep; subst p; congruence|]. apply A. exact H.
    + exact B.
    + intros d' m H. rewrite Hl in H. rewrite mem_add_path. destruct (C d' m H) as [K|K]; [left; exact K|right; rewrite K; apply orb_true_r].
    + intros d' m H. rewrite Hl. apply D. rewrite mem_add_path in H. cbn [path_eqb orb] in H. exact H.
    + intro d'. rewrite Hl. apply E0.
    + exact F.
  - set (cnt := match cnt_get (cf_counts c) (n :: d) with Some k => k | None => 0 end).
    destruct (Nat.ltb 0 cnt); [apply cf_counts_irrelevant; exact HC|].
    apply IH.
    + pose proof (CInv_add_entry w (cf_with c (cf_files c) (cf_dirs c) (cf_sub c) (cnt_set (cf_counts c) (n :: d) (S cnt))) n d false
                  (cf_counts_irrelevant w c _ HC)) as K. cbn [cf_files cf_dirs cf_sub cf_counts cf_with] in K. apply K.
      apply Hnf. apply suffix_refl.
    + intros x Hx. destruct (add_sub_fields (cf_with (cf_with c (cf_files c) (cf_dirs c) (cf_sub c) (cnt_set (cf_counts c) (n :: d) (S cnt)))
                                                     (cf_files c) (add_path (n :: d) (cf_dirs c)) (cf_sub c)
                                                     (cnt_set (cf_counts c) (n :: d) (S cnt))) (n :: d)) as [Ef _].
      cbn [cf_files cf_dirs cf_sub cf_counts cf_with] in Ef |- *. rewrite Ef. cbn [cf_files cf_with]. apply Hnf. apply suffix_cons. exact Hx.
Qed.

Theorem cf_started_CInv : forall w c n d, CInv w c ->
  (forall x, suffix x d -> mem_path x (cf_files c) = false) -> CInv w (cf_started c (n :: d)).
Proof. intros w c n d HC H. unfold cf_started. apply cf_started_from_CInv; assumption. Qed.

(* error_building_file is not analysed *)
Definition cf_error_statement : Prop :=
  forall w c p c', CInv w c -> cf_error c p = Some c' -> CInv w c'.

(* ------------------------------------------------------------------ validation *)
Module OverlayExample.
  Import ViewExamples.
  Open Scope string_scope.
  (* the world of ViewDefs.ViewExamples (a, a/b created; a/b/o output; a/f foreign) and a replay
     that has "built" x/y/t (directories x, x/y only in the overlay) and a/b/o (present, hidden) *)
  Definition c1 : cfiles :=
    cf_finished (cf_started (cf_finished (cf_started cf_empty ["o"; "b"; "a"]) ["o"; "b"; "a"]) ["t"; "y"; "x"]) ["t"; "y"; "x"].
  Definition fs3 : fsT := (["t"; "y"; "x"], Some (NFile fnode0)) :: (["y"; "x"], Some NDir) :: (["x"], Some NDir) :: fs1.
  Definition w4 : world := mkw fs3 old1 new0 (bd_init (c_dirs old1) [["o"; "b"; "a"]; ["cache"]]).
  Definition oanswers (w : world) (c : cfiles) (qs : list query) : list (pyval + exn) :=
    snd (fold_left (fun acc q => let '(w0, l) := acc in
                                 let '(w', r) := exec_query q (Some c) w0 in (w', (l ++ [r])%list)) qs (w, @nil (pyval + exn))).
  Definition qs1 : list query :=
    [QIsDir ["b"; "a"]; QIsFile ["o"; "b"; "a"]; QListDir ["b"; "a"]; QListDir ["a"]; QIsDir ["y"; "x"]; QListDir ["x"]; QExists ["cache"]].
  Example overlay_model_is_spec :
    oanswers w4 c1 qs1 = map (fun q => to_res (spec_answer_raw (overlay_fs w4 c1) q)) qs1.
  Proof. vm_compute. reflexivity. Qed.
  Example overlay_values :
    oanswers w4 c1 [QIsDir ["b"; "a"]; QIsFile ["o"; "b"; "a"]; QListDir ["b"; "a"]; QListDir ["a"]]
    = [inl (PBool true); inl (PBool true); inl (PList [PStr "o"]); inl (PList [PStr "b"; PStr "f"])].
  Proof. vm_compute. reflexivity. Qed.
End OverlayExample.

Print Assumptions exec_query_overlay.
Print Assumptions cf_started_CInv.
Print Assumptions cf_finished_CInv.
