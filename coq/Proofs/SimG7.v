(* Proofs/SimG7.v — groundwork for HASH records in the PREVIOUS cache (not needed for first
   builds): the leaf lemmas of the hit/miss development (ViewH2.m_read_overlay,
   SimB2.exec_query_overlay_all / simple_corr, SimB6.noneable_cmp_spec /
   is_build_file_cached_spec) with the flag-aware memo invariant CmpLaws.HashOk instead of the
   flag-free ViewDefs.hash_ok.  These are the only places where SimB consumes hash_ok; the
   theorems above them (SimB7 replay_corr, SimB8 file/sub_lookup_agree, SimB12/13 hit) pass
   "hk = true -> hash_ok w0" down through worlds related by ViewDefs.good, which does not carry
   HashOk: lifting them needs HashOk (HInv) threaded along the replay, by the lemmas
   pres (HXPO false) of HashMemoInv (is_op_cached_hxf, ...) and hx_HInv.  Not done here.   *)
From Coq Require Import List String Ascii NArith ZArith Bool Arith Lia.
From FB.Base Require Import PyVal Fs.
From FB.Gen Require Import JsonUtilGen.
From FB.Spec Require Import Prog Ref Oracle Faithful.
From FB.Model Require Import Types Monad CreatedFiles BuildDirs SimpleOps Builder Persist Build Run Frame Core CoreOracle.
From FB.Proofs Require Import FsLemmas CleanLaws JsonLaws CoreLawsChildren ReplayLaws CmpLaws CoreLaws1
     ViewDefs ViewLemmas ViewScan ViewQueries ViewAnswers ViewPres ViewOverlay ViewOverlay2 ViewH2
     ViewK3 ViewK4 SimB2 SimB6 SimG4.
Import ListNotations.
Open Scope list_scope.
Open Scope m_scope.

Theorem m_read_overlay_H : forall w c p cm, BInv w -> CInv w c -> path_ok p = true -> HashOk w ->
  yields (m_read p cm (Some c)) w (to_res (record_answer (overlay_fs w c) (QRead p cm))).
Proof.
  intros w c p cm HB HC Hp Hc.
  assert (Hstat: match stat_err (overlay_fs w c) p with EOTHER => XOSError | _ => XFileNotFound end = XFileNotFound).
  { unfold stat_err. pose proof (absent_err_path_ok (overlay_fs w c) p Hp). destruct (absent_err (overlay_fs w c) p); try reflexivity. congruence. }
  destruct (mem_path p (cf_files c)) eqn:Ef.
  - (* an overlay file: the physical file is compared *)
    pose proof (ci_file _ _ HC _ Ef) as Hfile. pose proof (ci_disj _ _ HC _ Ef) as Ed.
    apply isfile_lookup in Hfile. destruct Hfile as [g Hg].
    assert (El: lookup (overlay_fs w c) p = Some (NFile g)).
    { destruct p as [|n d]; [cbn in Hg; discriminate|]. rewrite lookup_overlay by discriminate. rewrite Ed, Ef. exact Hg. }
    cbn [record_answer to_res]. rewrite El.
    unfold m_read, is_file_no_read. cbn [cf_has_file cf_has_dir]. rewrite Ef.
    eapply yields_pure; [reflexivity|]. eapply yields_pure; [reflexivity|].
    destruct (fcr_view_H w p cm HB Hc) as [w1 [r [E1 [G1 [P1 _]]]]]. unfold fcr_postH in P1. rewrite Hg in P1. subst r.
    eapply yields_bind; [exists w1; split; [unfold catch; rewrite E1; reflexivity|exact G1]|].
    intros w2 G2. eapply yields_pure; [reflexivity|]. apply yields_ret. apply (good_BInv _ _ G2).
  - destruct (mem_path p (cf_dirs c)) eqn:Ed.
    + (* an overlay directory *)
      assert (El: lookup (overlay_fs w c) p = Some NDir).
      { destruct p as [|n d]; [reflexivity|]. rewrite lookup_overlay by discriminate. rewrite Ed. reflexivity. }
      cbn [record_answer to_res]. rewrite El.
      unfold m_read, is_file_no_read. cbn [cf_has_file cf_has_dir]. rewrite Ef, Ed.
      eapply yields_pure; [reflexivity|]. apply yields_bind_err.
      unfold m_is_dir. cbn [cf_has_dir]. rewrite Ed.
      eapply yields_pure; [reflexivity|]. apply yields_raise. exact HB.
    + (* not in the overlay: the live routine on the view *)
      pose proof (exec_query_view_H w (QRead p cm) HB Hc Hp) as H. cbn [exec_query] in H.
      assert (Hy: yields (m_read p cm None) w (to_res (record_answer (view_fs w) (QRead p cm)))).
      { apply H. intros q td Hq; discriminate. }
      assert (El: lookup (overlay_fs w c) p = lookup (view_fs w) p).
      { destruct p as [|n d]; [reflexivity|]. rewrite lookup_overlay by discriminate. rewrite Ed, Ef. reflexivity. }
      assert (Hstat2: match stat_err (view_fs w) p with EOTHER => XOSError | _ => XFileNotFound end = XFileNotFound)
        by (apply stat_err_view_ok; exact Hp).
      destruct Hy as [w' [E G]]. exists w'. split; [|exact G]. rewrite (m_read_plain p cm c Ef Ed w), E.
      cbn [record_answer]. rewrite El, Hstat, Hstat2. reflexivity.
Qed.

Theorem exec_query_overlay_all_H : forall hk w c q, BInv w -> CInv w c -> OvOk c -> maxlen (w_fs w) < walk_fuel ->
  (hk = true -> HashOk w) -> qry_ok hk q = true ->
  yields (exec_query q (Some c)) w (to_res (record_answer (overlay_fs w c) q)).
Proof.
  intros hk w c q HB HC HO Hm Hh Hq. unfold qry_ok in Hq. apply andb_true_iff in Hq. destruct Hq as [Hp Hq].
  assert (Hov: forall p, mem_path p (cf_dirs c) = true \/ mem_path p (cf_files c) = true -> path_ok p = true)
    by (intros p K; apply (HO p K)).
  assert (Hsub: forall d n, In n (cf_list_dir c d) -> pok w (n :: d)).
  { intros d n Hn. left. apply Hov. destruct (ci_sub_in _ _ HC _ _ Hn) as [K|K]; auto. }
  destruct q as [p|p|p|p|p td|p|p cm]; cbn [spec_query_path] in Hp; try discriminate.
  - apply (exec_query_overlay w c (QExists p) HB HC); cbn [spec_query_path]; [left; exact Hp| |exact I]. intros d E; discriminate.
  - apply (exec_query_overlay w c (QIsFile p) HB HC); cbn [spec_query_path]; [left; exact Hp| |exact I]. intros d E; discriminate.
  - apply (exec_query_overlay w c (QIsDir p) HB HC); cbn [spec_query_path]; [left; exact Hp| |exact I]. intros d E; discriminate.
  - apply (exec_query_overlay w c (QListDir p) HB HC); cbn [spec_query_path]; [left; exact Hp| |exact I].
    intros d E n Hn. inversion E; subst d. apply Hsub. exact Hn.
  - cbn [exec_query record_answer]. apply (m_walk_overlay w c p td HB HC); [left; exact Hp|exact Hov|].
    intros _. pose proof (maxlen_overlay w c HO Hm). lia.
  - cbn [exec_query]. destruct cm; [apply (m_read_overlay w c p METADATA HB HC Hp); left; reflexivity|apply (m_read_overlay_H w c p HASH HB HC Hp); apply Hh; exact Hq].
Qed.

(* ------------------------------------------------------------------ answers on related trees *)


Theorem simple_corr_H : forall hk W w c fsr q ret_ ex,
  BInv w -> CInv w c -> OvOk c -> maxlen (w_fs w) < walk_fuel -> (hk = true -> HashOk w) ->
  qry_ok hk q = true -> trel W (overlay_fs w c) fsr -> fresh_read W (overlay_fs w c) fsr q ret_ ->
  yields (is_simple_operation_cached q ret_ ex c) w (inl (simple_verdict fsr q ret_ ex)).
Proof.
  intros hk W w c fsr q ret_ ex HB HC HO Hm Hh Hq HT HF.
  destruct (exec_query_overlay_all_H hk w c q HB HC HO Hm Hh Hq) as [w' [E G]].
  exists w'. split; [|exact G]. unfold is_simple_operation_cached, bind, attempt. rewrite E.
  unfold simple_verdict.
  destruct (record_answer_trel_cases W _ _ q HT) as [Eq|(p & f & g & Eqq & Em & Ea & Eb & Ra & Rb)].
  - rewrite <- Eq. destruct (record_answer (overlay_fs w c) q) as [v|c0]; cbn [to_res].
    + destruct ex; [rewrite andb_false_r|rewrite andb_true_r]; reflexivity.
    + destruct ex; [reflexivity|rewrite andb_false_r; reflexivity].
  - rewrite Ra, Rb. cbn [to_res]. destruct (HF p f g Eqq Em Ea Eb) as [F1 F2]. rewrite F1, F2.
    destruct ex; reflexivity.
Qed.

Lemma noneable_cmp_spec_H : forall w p c, BInv w -> path_ok p = true -> HashOk w ->
  yields (noneable_cmp p c) w (inl (disk_cmp w p c)).
Proof.
  intros w p c HB Hp Hc. destruct (fcr_view_H w p c HB Hc) as (w1 & r & E & G & P & _).
  exists w1. split; [|exact G]. unfold noneable_cmp, catch. rewrite E. unfold fcr_postH in P. unfold disk_cmp.
  destruct (lookup (w_fs w) p) as [[f|]|].
  - rewrite P. reflexivity.
  - rewrite P. reflexivity.
  - destruct P as [->|[->|[_ K]]]; [reflexivity|reflexivity|congruence].
Qed.

Lemma is_build_file_cached_spec_H : forall w p c cr, BInv w -> path_ok p = true -> HashOk w ->
  yields (is_build_file_cached p c cr) w (inl (is_equal cr (disk_cmp w p c))).
Proof.
  intros w p c cr HB Hp Hc. unfold is_build_file_cached.
  eapply yields_bind; [apply noneable_cmp_spec_H; assumption|]. intros w1 G1. apply yields_ret. apply (good_BInv _ _ G1).
Qed.

Print Assumptions m_read_overlay_H.
Print Assumptions simple_corr_H.
Print Assumptions noneable_cmp_spec_H.
Print Assumptions is_build_file_cached_spec_H.
