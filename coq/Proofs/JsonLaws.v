(* Proofs/JsonLaws.v — laws of the generated json_util functions
   (sanitize / is_equal / to_hashable) against Spec/JsonSpec.v. *)
From Coq Require Import List String Ascii ZArith Bool Arith Lia Permutation.
From FB.Base Require Import PyVal.
From FB.Spec Require Import JsonSpec.
From FB.Gen Require Import JsonUtilGen.
Import ListNotations.
Local Open Scope list_scope.

(* ================================================================== *)
(** * Generic list vocabulary the inline loops are rewritten into      *)
(* ================================================================== *)

Section All2.
  Context {A : Type}.
  Variable f : A -> A -> bool.
  Fixpoint all2 (xs ys : list A) : bool :=
    match xs, ys with
    | [], [] => true
    | x :: xs', y :: ys' => f x y && all2 xs' ys'
    | _, _ => false
    end.
End All2.

Section MapM.
  Variable f : pyval -> option pyval.
  Fixpoint mapM (xs : list pyval) : option (list pyval) :=
    match xs with
    | [] => Some []
    | x :: xs' => obind (f x) (fun y => obind (mapM xs') (fun ys => Some (y :: ys)))
    end.
End MapM.

Fixpoint san_dict (kvs acc : list (pyval * pyval)) {struct kvs} : option pyval :=
  match kvs with
  | [] => Some (PDict acc)
  | (k, v) :: rest =>
      obind (sanitize v) (fun v' =>
      obind (key_to_str k) (fun k' => san_dict rest (assoc_set k' v' acc)))
  end.

Definition keys (d : list (pyval * pyval)) : list string :=
  map (fun kv => key_str (fst kv)) d.

Definition allpstr (d : list (pyval * pyval)) : bool :=
  forallb (fun kv => is_pstr (fst kv)) d.

(* dictionary comparison as performed by is_equal, over a value relation E *)
Definition deq (E : pyval -> pyval -> bool) (d1 d2 : list (pyval * pyval)) : bool :=
  Nat.eqb (List.length d1) (List.length d2) &&
  forallb (fun kv => match assoc_get (fst kv) d2 with
                     | Some v' => E (snd kv) v'
                     | None => false
                     end) d1.

(* ================================================================== *)
(** * Equations hiding the generated definitions                        *)
(* ================================================================== *)

Lemma sanitize_list_eq : forall l, sanitize (PList l) = option_map PList (mapM sanitize l).
Proof. reflexivity. Qed.

Lemma sanitize_tuple_eq : forall l, sanitize (PTuple l) = option_map PList (mapM sanitize l).
Proof. reflexivity. Qed.

Lemma sanitize_dict_eq : forall d, sanitize (PDict d) = san_dict d [].
Proof. reflexivity. Qed.

Lemma zip_loop_all2 : forall (f : pyval -> pyval -> bool) xs ys,
  (Nat.eqb (List.length xs) (List.length ys) &&
   negb ((fix go (xs ys : list pyval) {struct xs} : bool :=
            match xs, ys with
            | e1 :: xs', e2 :: ys' => if negb (f e1 e2) then true else go xs' ys'
            | _, _ => false
            end) xs ys))%bool = all2 f xs ys.
Proof.
  induction xs as [|x xs IH]; destruct ys as [|y ys]; try reflexivity.
  cbn [List.length Nat.eqb all2]. rewrite <- IH.
  destruct (f x y); cbn [negb andb]; [reflexivity | apply andb_false_r].
Qed.

Definition seq_eqn (l : list pyval) (v : pyval) : bool :=
  match v with
  | PList l' | PTuple l' => all2 is_equal l l'
  | _ => false
  end.

Lemma is_equal_list_eq : forall l v, is_equal (PList l) v = seq_eqn l v.
Proof.
  intros l v. destruct v; try reflexivity.
  - unfold seq_eqn. rewrite <- zip_loop_all2.
    cbn [is_equal class_of pyclass_eqb negb andb orb py_len py_seq].
    destruct (Nat.eqb (List.length l) (List.length l0)); cbn [negb andb]; [|reflexivity].
    match goal with |- (if ?g then _ else _) = _ => destruct g end; reflexivity.
  - unfold seq_eqn. rewrite <- zip_loop_all2.
    cbn [is_equal class_of pyclass_eqb negb andb orb py_len py_seq].
    destruct (Nat.eqb (List.length l) (List.length l0)); cbn [negb andb]; [|reflexivity].
    match goal with |- (if ?g then _ else _) = _ => destruct g end; reflexivity.
Qed.

Lemma is_equal_tuple_eq : forall l v, is_equal (PTuple l) v = seq_eqn l v.
Proof. intros. rewrite <- is_equal_list_eq. reflexivity. Qed.

Lemma items_loop_forallb : forall (E : pyval -> pyval -> bool) d2 d,
  negb ((fix go (kvs : list (pyval * pyval)) : bool :=
           match kvs with
           | (key_, subvalue) :: rest =>
               if (negb (py_dict_mem key_ (PDict d2)) ||
                   negb (E subvalue (py_dict_get key_ (PDict d2))))%bool
               then true else go rest
           | [] => false
           end) d)
  = forallb (fun kv => match assoc_get (fst kv) d2 with
                       | Some v' => E (snd kv) v'
                       | None => false
                       end) d.
Proof.
  intros E d2. induction d as [|[k v] d IH]; [reflexivity|].
  cbn [forallb fst snd]. rewrite <- IH.
  unfold py_dict_mem, py_dict_get. cbn [py_items].
  destruct (assoc_get k d2) as [v'|]; cbn [negb orb]; [|reflexivity].
  destruct (E v v'); reflexivity.
Qed.

Definition dict_eqn (d : list (pyval * pyval)) (v : pyval) : bool :=
  match v with
  | PDict d' => deq is_equal d d'
  | _ => false
  end.

Lemma is_equal_dict_eq : forall d v, is_equal (PDict d) v = dict_eqn d v.
Proof.
  intros d v. destruct v; try reflexivity.
  unfold dict_eqn, deq. rewrite <- items_loop_forallb.
  cbn [is_equal class_of pyclass_eqb negb andb orb py_len].
  destruct (Nat.eqb (List.length d) (List.length d0)); cbn [negb andb]; [|reflexivity].
  match goal with |- (if ?g then _ else _) = _ => destruct g end; reflexivity.
Qed.

Lemma py_eq_tuple_eq : forall x y, py_eq (PTuple x) (PTuple y) = all2 py_eq x y.
Proof.
  induction x as [|a x IH]; destruct y as [|b y]; reflexivity.
Qed.

Lemma py_eq_list_eq : forall x y, py_eq (PList x) (PList y) = all2 py_eq x y.
Proof.
  induction x as [|a x IH]; destruct y as [|b y]; reflexivity.
Qed.

Lemma py_eq_str : forall a b, py_eq (PStr a) (PStr b) = String.eqb a b.
Proof. reflexivity. Qed.

Lemma py_eq_str_true : forall a k, py_eq (PStr a) k = true -> k = PStr a.
Proof.
  intros a k H. destruct k; try discriminate.
  cbn in H. apply String.eqb_eq in H. subst. reflexivity.
Qed.

Lemma sanitized_gen_list : forall t l,
  sanitized_gen t (PList l) = forallb (sanitized_gen t) l.
Proof. reflexivity. Qed.

Lemma sanitized_gen_tuple : forall t l,
  sanitized_gen t (PTuple l) = (t && forallb (sanitized_gen t) l)%bool.
Proof. reflexivity. Qed.

Lemma sanitized_gen_dict : forall t d,
  sanitized_gen t (PDict d) =
  (forallb (fun kv => is_pstr (fst kv) && sanitized_gen t (snd kv)) d
   && str_nodup (keys d))%bool.
Proof. reflexivity. Qed.

Lemma pv_wf_list : forall l, pv_wf (PList l) = forallb pv_wf l.
Proof. reflexivity. Qed.
Lemma pv_wf_tuple : forall l, pv_wf (PTuple l) = forallb pv_wf l.
Proof. reflexivity. Qed.
Lemma pv_wf_dict : forall d,
  pv_wf (PDict d) = forallb (fun kv => pv_wf (fst kv) && pv_wf (snd kv))%bool d.
Proof. reflexivity. Qed.

(* ================================================================== *)
(** * Strings: membership / duplicates as Props                         *)
(* ================================================================== *)

Lemma str_mem_In : forall s l, str_mem s l = true <-> In s l.
Proof.
  intros s l. induction l as [|x l IH]; cbn [str_mem In].
  - split; [discriminate | tauto].
  - rewrite orb_true_iff, String.eqb_eq, IH. split; intros [H|H]; auto.
Qed.

Lemma str_mem_false : forall s l, str_mem s l = false <-> ~ In s l.
Proof.
  intros s l. rewrite <- str_mem_In. destruct (str_mem s l); split; intro H;
  try reflexivity; try discriminate; try tauto.
Qed.

Lemma str_nodup_NoDup : forall l, str_nodup l = true <-> NoDup l.
Proof.
  induction l as [|x l IH]; cbn [str_nodup].
  - split; [constructor | reflexivity].
  - rewrite andb_true_iff, negb_true_iff, str_mem_false, IH. split.
    + intros [H1 H2]. constructor; assumption.
    + intro H. inversion H; subst. split; assumption.
Qed.

(* a dictionary whose keys are pairwise distinct strings *)
Definition wfd (d : list (pyval * pyval)) : Prop :=
  allpstr d = true /\ NoDup (keys d).

Lemma sanitized_gen_dict_wfd : forall t d,
  sanitized_gen t (PDict d) = true ->
  wfd d /\ forallb (fun kv => sanitized_gen t (snd kv)) d = true.
Proof.
  intros t d H. rewrite sanitized_gen_dict in H.
  apply andb_true_iff in H. destruct H as [H1 H2].
  apply str_nodup_NoDup in H2. unfold wfd, allpstr.
  rewrite forallb_forall in H1. repeat split; try assumption.
  - apply forallb_forall. intros x Hx. specialize (H1 x Hx).
    apply andb_true_iff in H1. tauto.
  - apply forallb_forall. intros x Hx. specialize (H1 x Hx).
    apply andb_true_iff in H1. tauto.
Qed.

Lemma allpstr_In : forall d k v, allpstr d = true -> In (k, v) d -> exists s, k = PStr s.
Proof.
  intros d k v H Hin. unfold allpstr in H. rewrite forallb_forall in H.
  specialize (H _ Hin). cbn in H. destruct k; try discriminate. eauto.
Qed.

Lemma In_keys : forall d s v, In (PStr s, v) d -> In s (keys d).
Proof.
  intros d s v H. unfold keys.
  change s with ((fun kv : pyval * pyval => key_str (fst kv)) (PStr s, v)).
  apply in_map. assumption.
Qed.

Lemma keys_In : forall d s, allpstr d = true -> In s (keys d) -> exists v, In (PStr s, v) d.
Proof.
  intros d s Hp H. unfold keys in H. apply in_map_iff in H.
  destruct H as [[k v] [Hk Hin]]. cbn in Hk.
  destruct (allpstr_In _ _ _ Hp Hin) as [s' ->]. cbn in Hk. subst. eauto.
Qed.

(* ---------- assoc_get on string-keyed dictionaries ---------- *)

Lemma assoc_get_Some_In : forall s d v,
  assoc_get (PStr s) d = Some v -> In (PStr s, v) d.
Proof.
  intros s d v. induction d as [|[k' v'] d IH]; cbn [assoc_get]; [discriminate|].
  destruct (py_eq (PStr s) k') eqn:E.
  - intro H. injection H as ->. apply py_eq_str_true in E. subst. left. reflexivity.
  - intro H. right. auto.
Qed.

Lemma assoc_get_None_notin : forall s d,
  allpstr d = true -> assoc_get (PStr s) d = None -> ~ In s (keys d).
Proof.
  intros s d. induction d as [|[k' v'] d IH]; cbn [assoc_get keys map In fst allpstr forallb];
    [tauto|].
  intros Hp. apply andb_true_iff in Hp. destruct Hp as [Hk Hp].
  destruct k'; try discriminate. cbn [py_eq key_str].
  destruct (String.eqb s s0) eqn:E; [discriminate|].
  intros H [H1|H1].
  - subst. rewrite String.eqb_refl in E. discriminate.
  - exact (IH Hp H H1).
Qed.

Lemma assoc_get_In_nodup : forall d s v,
  allpstr d = true -> NoDup (keys d) -> In (PStr s, v) d -> assoc_get (PStr s) d = Some v.
Proof.
  induction d as [|[k' v'] d IH]; intros s v Hp Hnd Hin; [destruct Hin|].
  cbn [allpstr forallb fst] in Hp. apply andb_true_iff in Hp. destruct Hp as [Hk Hp].
  cbn [keys map fst] in Hnd. inversion Hnd as [|? ? Hnotin Hnd']; subst.
  destruct k'; try discriminate. cbn [key_str] in Hnotin.
  cbn [assoc_get py_eq]. destruct Hin as [Hin|Hin].
  - injection Hin as -> ->. rewrite String.eqb_refl. reflexivity.
  - destruct (String.eqb s s0) eqn:E.
    + apply String.eqb_eq in E. subst. exfalso. apply Hnotin. eapply In_keys; eauto.
    + apply IH; assumption.
Qed.

Lemma assoc_get_notin_None : forall d s,
  ~ In s (keys d) -> assoc_get (PStr s) d = None.
Proof.
  intros d s H. destruct (assoc_get (PStr s) d) eqn:E; [|reflexivity].
  exfalso. apply H. eapply In_keys. eapply assoc_get_Some_In; eauto.
Qed.

(* ================================================================== *)
(** * key_to_str                                                        *)
(* ================================================================== *)

Lemma key_to_str_some_iff : forall k, (exists k', key_to_str k = Some k') <-> json_key k = true.
Proof.
  intro k. destruct k; cbn [key_to_str json_key]; split; intro H;
    try reflexivity; try discriminate; try (destruct H; discriminate); eauto.
  - destruct (py_truth (PBool b)); eauto.
  - destruct (negb (py_eq (PFloat f) (PFloat f))); eauto.
    destruct (py_eq (PFloat f) (PFloat (FInf false))); eauto.
    destruct (py_eq (PFloat f) (PFloat (FInf true))); eauto.
Qed.

Lemma key_to_str_pstr : forall k k', key_to_str k = Some k' -> exists s, k' = PStr s.
Proof.
  intros k k'. destruct k; cbn [key_to_str]; try discriminate.
  - intro H; injection H as <-; eauto.
  - destruct (py_truth (PBool b)); intro H; injection H as <-; eauto.
  - cbn [py_repr]. intro H; injection H as <-; eauto.
  - cbn [py_repr].
    destruct (negb (py_eq (PFloat f) (PFloat f))); [intro H; injection H as <-; eauto|].
    destruct (py_eq (PFloat f) (PFloat (FInf false))); [intro H; injection H as <-; eauto|].
    destruct (py_eq (PFloat f) (PFloat (FInf true))); intro H; injection H as <-; eauto.
  - intro H; injection H as <-; eauto.
Qed.

(* ================================================================== *)
(** * 1. sanitize succeeds exactly on jsonable values                   *)
(* ================================================================== *)

Lemma mapM_some_iff : forall l,
  Forall (fun v => (exists w, sanitize v = Some w) <-> jsonable v = true) l ->
  (exists ys, mapM sanitize l = Some ys) <-> forallb jsonable l = true.
Proof.
  induction 1 as [|x l Hx Hl IH]; cbn [mapM forallb].
  - split; eauto.
  - rewrite andb_true_iff, <- Hx, <- IH. split.
    + intros [ys H]. destruct (sanitize x) as [y|]; [|discriminate].
      cbn [obind] in H. destruct (mapM sanitize l) as [ys'|]; [|discriminate]. eauto.
    + intros [[w Hw] [ys Hys]]. rewrite Hw, Hys. cbn [obind]. eauto.
Qed.

Lemma san_dict_some_iff : forall d,
  Forall (fun kv => ((exists w, sanitize (fst kv) = Some w) <-> jsonable (fst kv) = true) /\
                    ((exists w, sanitize (snd kv) = Some w) <-> jsonable (snd kv) = true)) d ->
  forall acc,
  (exists w, san_dict d acc = Some w) <->
  forallb (fun kv => json_key (fst kv) && jsonable (snd kv))%bool d = true.
Proof.
  induction 1 as [|[k v] d [_ Hv] Hd IH]; intro acc; cbn [san_dict forallb fst snd].
  - split; eauto.
  - cbn [snd] in Hv. rewrite !andb_true_iff, <- Hv, <- key_to_str_some_iff. split.
    + intros [w H]. destruct (sanitize v) as [v'|]; [|discriminate]. cbn [obind] in H.
      destruct (key_to_str k) as [k'|]; [|discriminate]. cbn [obind] in H.
      repeat split; eauto. apply (IH (assoc_set k' v' acc)). eauto.
    + intros [[[k' Hk] [v' Hv']] Hrest]. rewrite Hv', Hk. cbn [obind].
      apply IH. assumption.
Qed.

Theorem sanitize_some_iff : forall v, (exists w, sanitize v = Some w) <-> jsonable v = true.
Proof.
  induction v using pyval_ind'; try (cbn; split; eauto; fail).
  - rewrite sanitize_list_eq. cbn [jsonable]. rewrite <- (mapM_some_iff l H).
    split; intros [w Hw].
    + destruct (mapM sanitize l); [eauto|discriminate].
    + rewrite Hw. cbn. eauto.
  - rewrite sanitize_tuple_eq. cbn [jsonable]. rewrite <- (mapM_some_iff l H).
    split; intros [w Hw].
    + destruct (mapM sanitize l); [eauto|discriminate].
    + rewrite Hw. cbn. eauto.
  - rewrite sanitize_dict_eq. cbn [jsonable]. apply san_dict_some_iff. assumption.
  - cbn. split; [intros [w Hw]; discriminate | discriminate].
Qed.

(* ================================================================== *)
(** * assoc_set with a string key                                       *)
(* ================================================================== *)

Lemma assoc_set_fresh : forall s v acc,
  allpstr acc = true -> ~ In s (keys acc) ->
  assoc_set (PStr s) v acc = acc ++ [(PStr s, v)].
Proof.
  intros s v acc. induction acc as [|[k' v'] acc IH]; intros Hp Hn; [reflexivity|].
  cbn [allpstr forallb fst] in Hp. apply andb_true_iff in Hp. destruct Hp as [Hk Hp].
  destruct k'; try discriminate.
  cbn [keys map fst key_str In] in Hn. cbn [assoc_set py_eq].
  destruct (String.eqb s s0) eqn:E.
  - apply String.eqb_eq in E. subst. tauto.
  - cbn [app]. rewrite IH; [reflexivity|assumption|tauto].
Qed.

Lemma assoc_set_keys_mem : forall s v acc x,
  allpstr acc = true ->
  In x (keys (assoc_set (PStr s) v acc)) <-> In x (keys acc) \/ x = s.
Proof.
  intros s v acc x. induction acc as [|[k' v'] acc IH]; intros Hp.
  - cbn. intuition.
  - cbn [allpstr forallb fst] in Hp. apply andb_true_iff in Hp. destruct Hp as [Hk Hp].
    destruct k'; try discriminate. cbn [assoc_set py_eq].
    destruct (String.eqb s s0) eqn:E.
    + apply String.eqb_eq in E. subst. cbn [keys map fst key_str In]. intuition.
    + cbn [keys map fst key_str In]. fold (keys (assoc_set (PStr s) v acc)).
      fold (keys acc). rewrite IH by assumption. tauto.
Qed.

Lemma assoc_set_allpstr : forall s v acc,
  allpstr acc = true -> allpstr (assoc_set (PStr s) v acc) = true.
Proof.
  intros s v acc. induction acc as [|[k' v'] acc IH]; intros Hp; [reflexivity|].
  cbn [allpstr forallb fst] in Hp. apply andb_true_iff in Hp. destruct Hp as [Hk Hp].
  cbn [assoc_set]. destruct (py_eq (PStr s) k'); cbn [allpstr forallb fst].
  - rewrite Hk. exact Hp.
  - rewrite Hk. apply IH. exact Hp.
Qed.

Lemma assoc_set_nodup : forall s v acc,
  allpstr acc = true -> NoDup (keys acc) -> NoDup (keys (assoc_set (PStr s) v acc)).
Proof.
  intros s v acc. induction acc as [|[k' v'] acc IH]; intros Hp Hnd.
  - cbn. constructor; [tauto|constructor].
  - cbn [allpstr forallb fst] in Hp. apply andb_true_iff in Hp. destruct Hp as [Hk Hp].
    destruct k'; try discriminate. cbn [assoc_set py_eq].
    cbn [keys map fst key_str] in Hnd. fold (keys acc) in Hnd.
    inversion Hnd as [|? ? Hnotin Hnd']; subst.
    destruct (String.eqb s s0) eqn:E.
    + cbn [keys map fst key_str]. exact Hnd.
    + cbn [keys map fst key_str]. fold (keys (assoc_set (PStr s) v acc)).
      constructor; [|apply IH; assumption].
      rewrite assoc_set_keys_mem by assumption. intros [H|H]; [tauto|].
      subst. rewrite String.eqb_refl in E. discriminate.
Qed.

(* values predicate preserved by assoc_set *)
Lemma assoc_set_forallb_snd : forall (P : pyval -> bool) k v acc,
  P v = true -> forallb (fun kv => P (snd kv)) acc = true ->
  forallb (fun kv => P (snd kv)) (assoc_set k v acc) = true.
Proof.
  intros P k v acc Hv. induction acc as [|[k' v'] acc IH]; intro H.
  - cbn. rewrite Hv. reflexivity.
  - cbn [forallb snd] in H. apply andb_true_iff in H. destruct H as [H1 H2].
    cbn [assoc_set]. destruct (py_eq k k'); cbn [forallb snd].
    + rewrite Hv. exact H2.
    + rewrite H1. apply IH. exact H2.
Qed.

(* ================================================================== *)
(** * 2. the result of sanitize is sanitized                            *)
(* ================================================================== *)

Lemma mapM_forallb : forall (P : pyval -> bool) l,
  Forall (fun v => forall w, sanitize v = Some w -> P w = true) l ->
  forall ys, mapM sanitize l = Some ys -> forallb P ys = true.
Proof.
  induction 1 as [|x l Hx Hl IH]; cbn [mapM]; intros ys H.
  - injection H as <-. reflexivity.
  - destruct (sanitize x) as [y|] eqn:Ex; [|discriminate]. cbn [obind] in H.
    destruct (mapM sanitize l) as [ys'|]; [|discriminate]. cbn [obind] in H.
    injection H as <-. cbn [forallb]. rewrite (Hx y eq_refl), (IH ys' eq_refl). reflexivity.
Qed.

Definition dict_ok (P : pyval -> bool) (d : list (pyval * pyval)) : Prop :=
  wfd d /\ forallb (fun kv => P (snd kv)) d = true.

Lemma san_dict_ok : forall (P : pyval -> bool) d,
  Forall (fun kv => forall w, sanitize (snd kv) = Some w -> P w = true) d ->
  forall acc w, dict_ok P acc -> san_dict d acc = Some w ->
  exists d', w = PDict d' /\ dict_ok P d'.
Proof.
  induction 1 as [|[k v] d Hv Hd IH]; intros acc w Hacc; cbn [san_dict].
  - intro H. injection H as <-. eauto.
  - cbn [snd] in Hv. destruct (sanitize v) as [v'|]; [|discriminate]. cbn [obind].
    destruct (key_to_str k) as [k'|] eqn:Ek; [|discriminate]. cbn [obind].
    destruct (key_to_str_pstr _ _ Ek) as [s ->].
    apply IH. destruct Hacc as [[Hp Hnd] Hv'].
    repeat split.
    + apply assoc_set_allpstr; assumption.
    + apply assoc_set_nodup; assumption.
    + apply assoc_set_forallb_snd; auto.
Qed.

Lemma dict_ok_sanitized : forall t d,
  dict_ok (sanitized_gen t) d -> sanitized_gen t (PDict d) = true.
Proof.
  intros t d [[Hp Hnd] Hv]. rewrite sanitized_gen_dict.
  apply andb_true_iff. split; [|apply str_nodup_NoDup; assumption].
  unfold allpstr in Hp. rewrite forallb_forall in *. intros x Hx.
  rewrite (Hp x Hx), (Hv x Hx). reflexivity.
Qed.

Lemma dict_ok_nil : forall P, dict_ok P [].
Proof. intro P. repeat split. constructor. Qed.

Theorem sanitize_sanitized : forall v w, sanitize v = Some w -> sanitized w = true.
Proof.
  unfold sanitized.
  induction v using pyval_ind'; intros w Hw;
    try (cbn in Hw; injection Hw as <-; reflexivity); try discriminate.
  - rewrite sanitize_list_eq in Hw.
    destruct (mapM sanitize l) as [ys|] eqn:E; [|discriminate]. injection Hw as <-.
    rewrite sanitized_gen_list. eapply mapM_forallb; eauto.
  - rewrite sanitize_tuple_eq in Hw.
    destruct (mapM sanitize l) as [ys|] eqn:E; [|discriminate]. injection Hw as <-.
    rewrite sanitized_gen_list. eapply mapM_forallb; eauto.
  - rewrite sanitize_dict_eq in Hw.
    destruct (san_dict_ok (sanitized_gen false) d) with (acc := @nil (pyval*pyval)) (w := w)
      as [d' [-> Hok]]; auto using dict_ok_nil.
    + eapply Forall_impl; [|exact H]. intros a [_ Ha]. exact Ha.
    + apply dict_ok_sanitized. assumption.
Qed.

(* ================================================================== *)
(** * 3./4. sanitize is the identity on sanitized values                *)
(* ================================================================== *)

Lemma mapM_fixed : forall (P : pyval -> bool) l,
  Forall (fun v => P v = true -> sanitize v = Some v) l ->
  forallb P l = true -> mapM sanitize l = Some l.
Proof.
  induction 1 as [|x l Hx Hl IH]; cbn [mapM forallb]; intro H; [reflexivity|].
  apply andb_true_iff in H. destruct H as [H1 H2].
  rewrite (Hx H1), (IH H2). reflexivity.
Qed.

Lemma san_dict_fixed : forall (P : pyval -> bool) d,
  Forall (fun kv => P (snd kv) = true -> sanitize (snd kv) = Some (snd kv)) d ->
  forall acc,
  allpstr (acc ++ d) = true -> NoDup (keys (acc ++ d)) ->
  forallb (fun kv => P (snd kv)) d = true ->
  san_dict d acc = Some (PDict (acc ++ d)).
Proof.
  induction 1 as [|[k v] d Hv Hd IH]; intros acc Hp Hnd HP; cbn [san_dict].
  - rewrite app_nil_r. reflexivity.
  - cbn [forallb snd] in HP, Hv. apply andb_true_iff in HP. destruct HP as [HP1 HP2].
    rewrite (Hv HP1). cbn [obind].
    unfold allpstr in Hp. rewrite forallb_app in Hp. apply andb_true_iff in Hp.
    destruct Hp as [Hpa Hpd]. cbn [forallb fst] in Hpd.
    apply andb_true_iff in Hpd. destruct Hpd as [Hk Hpd].
    destruct k; try discriminate. cbn [key_to_str obind].
    assert (Hn : ~ In s (keys acc)).
    { unfold keys in Hnd. rewrite map_app in Hnd. cbn [map fst key_str] in Hnd.
      apply NoDup_remove_2 in Hnd. intro Hin. apply Hnd. apply in_or_app. left. exact Hin. }
    rewrite assoc_set_fresh by assumption.
    replace (acc ++ (PStr s, v) :: d) with ((acc ++ [(PStr s, v)]) ++ d)
      by (rewrite <- app_assoc; reflexivity).
    apply IH.
    + unfold allpstr. rewrite !forallb_app. cbn [forallb fst is_pstr].
      rewrite Hpa, Hpd. reflexivity.
    + rewrite <- app_assoc. exact Hnd.
    + exact HP2.
Qed.

Theorem sanitize_fixed : forall w, sanitized w = true -> sanitize w = Some w.
Proof.
  unfold sanitized.
  induction w using pyval_ind'; intro Hs; try reflexivity; try discriminate.
  - rewrite sanitize_list_eq. rewrite sanitized_gen_list in Hs.
    rewrite (mapM_fixed (sanitized_gen false) l H Hs). reflexivity.
  - apply sanitized_gen_dict_wfd in Hs. destruct Hs as [[Hp Hnd] Hv].
    rewrite sanitize_dict_eq.
    apply (san_dict_fixed (sanitized_gen false) d) with (acc := []); auto.
    eapply Forall_impl; [|exact H]. intros a [_ Ha]. exact Ha.
Qed.

Theorem sanitize_idem : forall v w, sanitize v = Some w -> sanitize w = Some w.
Proof. intros v w H. apply sanitize_fixed. eapply sanitize_sanitized. eassumption. Qed.

(* ================================================================== *)
(** * 5. sanitize preserves float well-formedness                       *)
(* ================================================================== *)

Lemma pv_wf_dict_ok : forall d, dict_ok pv_wf d -> pv_wf (PDict d) = true.
Proof.
  intros d [[Hp _] Hv]. rewrite pv_wf_dict. unfold allpstr in Hp.
  rewrite forallb_forall in *. intros [k v] Hx.
  specialize (Hp _ Hx). specialize (Hv _ Hx). cbn [fst snd] in *.
  destruct k; try discriminate. cbn [pv_wf]. exact Hv.
Qed.

Theorem sanitize_wf : forall v w, pv_wf v = true -> sanitize v = Some w -> pv_wf w = true.
Proof.
  induction v using pyval_ind'; intros w Hwf Hw;
    try (cbn in Hw; injection Hw as <-; exact Hwf); try discriminate.
  - rewrite sanitize_list_eq in Hw. rewrite pv_wf_list in Hwf.
    destruct (mapM sanitize l) as [ys|] eqn:E; [|discriminate]. injection Hw as <-.
    rewrite pv_wf_list. eapply mapM_forallb; [|exact E].
    rewrite forallb_forall in Hwf. rewrite Forall_forall in *.
    intros x Hx w Hw. eapply H; eauto.
  - rewrite sanitize_tuple_eq in Hw. rewrite pv_wf_tuple in Hwf.
    destruct (mapM sanitize l) as [ys|] eqn:E; [|discriminate]. injection Hw as <-.
    rewrite pv_wf_list. eapply mapM_forallb; [|exact E].
    rewrite forallb_forall in Hwf. rewrite Forall_forall in *.
    intros x Hx w Hw. eapply H; eauto.
  - rewrite sanitize_dict_eq in Hw. rewrite pv_wf_dict in Hwf.
    destruct (san_dict_ok pv_wf d) with (acc := @nil (pyval*pyval)) (w := w)
      as [d' [-> Hok]]; auto using dict_ok_nil.
    + rewrite forallb_forall in Hwf. rewrite Forall_forall in *.
      intros x Hx w' Hw'. specialize (Hwf x Hx). apply andb_true_iff in Hwf.
      destruct (H x Hx) as [_ Hsnd]. apply Hsnd; tauto.
    + apply pv_wf_dict_ok. assumption.
Qed.

(* ================================================================== *)
(** * 9.-11. kind discipline of is_equal                                *)
(* ================================================================== *)

Theorem is_equal_bool_num : forall b z f,
  is_equal (PBool b) (PInt z) = false /\ is_equal (PInt z) (PBool b) = false /\
  is_equal (PBool b) (PFloat f) = false /\ is_equal (PFloat f) (PBool b) = false.
Proof. intros. repeat split; reflexivity. Qed.

Theorem is_equal_int_float : forall z f,
  is_equal (PInt z) (PFloat f) = int_fl_eqb z f /\ is_equal (PFloat f) (PInt z) = int_fl_eqb z f.
Proof. intros. split; reflexivity. Qed.

Theorem is_equal_list_tuple : forall l v,
  is_equal (PTuple l) v = is_equal (PList l) v /\ is_equal v (PTuple l) = is_equal v (PList l).
Proof.
  intros l v. split.
  - reflexivity.
  - destruct v; reflexivity.
Qed.

(* ================================================================== *)
(** * all2 / deq: generic order-theoretic facts                         *)
(* ================================================================== *)

Lemma all2_refl_in {A} : forall (E : A -> A -> bool) l,
  (forall x, In x l -> E x x = true) -> all2 E l l = true.
Proof.
  induction l as [|x l IH]; intro H; [reflexivity|].
  cbn [all2]. rewrite H by (left; reflexivity). apply IH.
  intros; apply H; right; assumption.
Qed.

Lemma all2_flip_in {A} : forall (E1 E2 : A -> A -> bool) l1 l2,
  (forall x y, In x l1 -> In y l2 -> E1 x y = E2 y x) -> all2 E1 l1 l2 = all2 E2 l2 l1.
Proof.
  induction l1 as [|x l1 IH]; destruct l2 as [|y l2]; intro H; try reflexivity.
  cbn [all2]. rewrite H by (left; reflexivity). rewrite IH; [reflexivity|].
  intros; apply H; right; assumption.
Qed.

Lemma all2_ext_in {A} : forall (E1 E2 : A -> A -> bool) l1 l2,
  (forall x y, In x l1 -> In y l2 -> E1 x y = E2 x y) -> all2 E1 l1 l2 = all2 E2 l1 l2.
Proof.
  induction l1 as [|x l1 IH]; destruct l2 as [|y l2]; intro H; try reflexivity.
  cbn [all2]. rewrite H by (left; reflexivity). rewrite IH; [reflexivity|].
  intros; apply H; right; assumption.
Qed.

Lemma all2_trans_in {A} : forall (E : A -> A -> bool) l1 l2 l3,
  (forall x y z, In x l1 -> In y l2 -> In z l3 ->
                 E x y = true -> E y z = true -> E x z = true) ->
  all2 E l1 l2 = true -> all2 E l2 l3 = true -> all2 E l1 l3 = true.
Proof.
  induction l1 as [|x l1 IH]; destruct l2 as [|y l2]; destruct l3 as [|z l3];
    intros H H12 H23; try discriminate; try reflexivity.
  cbn [all2] in *. apply andb_true_iff in H12. apply andb_true_iff in H23.
  destruct H12 as [A1 A2]. destruct H23 as [B1 B2]. apply andb_true_iff. split.
  - apply (H x y z); auto; left; reflexivity.
  - apply (IH l2 l3); auto. intros x' y' z' ? ? ?. apply H; right; assumption.
Qed.

Lemma deq_true_iff : forall E d1 d2,
  deq E d1 d2 = true <->
  List.length d1 = List.length d2 /\
  forall k v, In (k, v) d1 -> exists v', assoc_get k d2 = Some v' /\ E v v' = true.
Proof.
  intros. unfold deq. rewrite andb_true_iff, Nat.eqb_eq, forallb_forall.
  split; intros [H1 H2]; split; auto.
  - intros k v Hin. specialize (H2 _ Hin). cbn [fst snd] in H2.
    destruct (assoc_get k d2); [eauto|discriminate].
  - intros [k v] Hin. destruct (H2 _ _ Hin) as [v' [Hg He]]. cbn [fst snd].
    rewrite Hg. exact He.
Qed.

Lemma keys_length : forall d, List.length (keys d) = List.length d.
Proof. intro d. unfold keys. apply map_length. Qed.

Lemma deq_keys_incl : forall E d1 d2,
  allpstr d1 = true -> deq E d1 d2 = true -> incl (keys d1) (keys d2).
Proof.
  intros E d1 d2 Hp H s Hs. apply deq_true_iff in H. destruct H as [_ H].
  destruct (keys_In _ _ Hp Hs) as [v Hin]. destruct (H _ _ Hin) as [v' [Hg _]].
  eapply In_keys. eapply assoc_get_Some_In. exact Hg.
Qed.

Lemma deq_keys_incl_rev : forall E d1 d2,
  wfd d1 -> deq E d1 d2 = true -> incl (keys d2) (keys d1).
Proof.
  intros E d1 d2 [Hp Hnd] H.
  apply NoDup_length_incl; [assumption | | eapply deq_keys_incl; eauto].
  rewrite !keys_length. apply deq_true_iff in H. destruct H as [H _]. rewrite H. apply le_n.
Qed.

Lemma deq_flip : forall E1 E2 d1 d2, wfd d1 -> wfd d2 ->
  (forall k v k' v', In (k, v) d1 -> In (k', v') d2 -> E1 v v' = E2 v' v) ->
  deq E1 d1 d2 = true -> deq E2 d2 d1 = true.
Proof.
  intros E1 E2 d1 d2 W1 W2 HE H.
  pose proof (deq_keys_incl_rev _ _ _ W1 H) as Hincl.
  destruct W1 as [Hp1 Hn1]. destruct W2 as [Hp2 Hn2].
  apply deq_true_iff in H. destruct H as [Hlen H].
  apply deq_true_iff. split; [symmetry; exact Hlen|].
  intros k' v' Hin'.
  destruct (allpstr_In _ _ _ Hp2 Hin') as [s ->].
  assert (Hs : In s (keys d1)) by (apply Hincl; eapply In_keys; eauto).
  destruct (keys_In _ _ Hp1 Hs) as [v Hin].
  exists v. split; [apply assoc_get_In_nodup; assumption|].
  destruct (H _ _ Hin) as [v'' [Hg He]].
  rewrite (assoc_get_In_nodup _ _ _ Hp2 Hn2 Hin') in Hg. injection Hg as <-.
  rewrite <- (HE _ _ _ _ Hin Hin'). exact He.
Qed.

Lemma deq_sym_eq : forall E1 E2 d1 d2, wfd d1 -> wfd d2 ->
  (forall k v k' v', In (k, v) d1 -> In (k', v') d2 -> E1 v v' = E2 v' v) ->
  deq E1 d1 d2 = deq E2 d2 d1.
Proof.
  intros E1 E2 d1 d2 W1 W2 HE. apply Bool.eq_iff_eq_true. split; intro H.
  - exact (deq_flip E1 E2 d1 d2 W1 W2 HE H).
  - apply (deq_flip E2 E1 d2 d1 W2 W1); [|exact H].
    intros k v k' v' Hin Hin'. symmetry. exact (HE _ _ _ _ Hin' Hin).
Qed.

Lemma deq_refl_in : forall E d, wfd d ->
  (forall k v, In (k, v) d -> E v v = true) -> deq E d d = true.
Proof.
  intros E d [Hp Hnd] H. apply deq_true_iff. split; [reflexivity|].
  intros k v Hin. exists v. split; [|eauto].
  destruct (allpstr_In _ _ _ Hp Hin) as [s ->]. apply assoc_get_In_nodup; assumption.
Qed.

Lemma deq_trans_in : forall E d1 d2 d3, allpstr d1 = true ->
  (forall k v k' v' k'' v'', In (k, v) d1 -> In (k', v') d2 -> In (k'', v'') d3 ->
     E v v' = true -> E v' v'' = true -> E v v'' = true) ->
  deq E d1 d2 = true -> deq E d2 d3 = true -> deq E d1 d3 = true.
Proof.
  intros E d1 d2 d3 Hp HE H12 H23.
  apply deq_true_iff in H12. apply deq_true_iff in H23. apply deq_true_iff.
  destruct H12 as [L12 H12]. destruct H23 as [L23 H23]. split; [congruence|].
  intros k v Hin. destruct (allpstr_In _ _ _ Hp Hin) as [s ->].
  destruct (H12 _ _ Hin) as [v' [Hg' He']].
  pose proof (assoc_get_Some_In _ _ _ Hg') as Hin'.
  destruct (H23 _ _ Hin') as [v'' [Hg'' He'']].
  pose proof (assoc_get_Some_In _ _ _ Hg'') as Hin''.
  exists v''. split; [assumption|]. eapply HE; eauto.
Qed.

Lemma forallb_snd_In : forall (P : pyval -> bool) (d : list (pyval * pyval)) k v,
  forallb (fun kv => P (snd kv)) d = true -> In (k, v) d -> P v = true.
Proof.
  intros P d k v H Hin. rewrite forallb_forall in H. exact (H _ Hin).
Qed.

(* ================================================================== *)
(** * Numbers                                                           *)
(* ================================================================== *)

Lemma bool_eqb_sym : forall a b, Bool.eqb a b = Bool.eqb b a.
Proof. destruct a, b; reflexivity. Qed.

Lemma fl_eqb_refl : forall f, fl_eqb f f = true.
Proof.
  destruct f; cbn [fl_eqb]; [reflexivity | apply eqb_reflx |].
  rewrite eqb_reflx, Pos.eqb_refl, Z.eqb_refl. reflexivity.
Qed.

Lemma fl_eqb_sym : forall a b, fl_eqb a b = fl_eqb b a.
Proof.
  destruct a, b; cbn [fl_eqb]; try reflexivity.
  - apply bool_eqb_sym.
  - rewrite (bool_eqb_sym neg), (Pos.eqb_sym m), (Z.eqb_sym e). reflexivity.
Qed.

Lemma fl_eqb_fin : forall n m e f, fl_eqb (FFin n m e) f = true -> f = FFin n m e.
Proof.
  intros n m e f. destruct f; cbn [fl_eqb]; try discriminate.
  rewrite !andb_true_iff, Pos.eqb_eq, Z.eqb_eq. intros [[H1 H2] H3].
  apply eqb_prop in H1. subst. reflexivity.
Qed.

Lemma fl_eqb_trans : forall a b c, fl_eqb a b = true -> fl_eqb b c = true -> fl_eqb a c = true.
Proof.
  intros a b c Hab Hbc. destruct a.
  - destruct b; try discriminate. destruct c; try discriminate. reflexivity.
  - destruct b; try discriminate. destruct c; try discriminate. cbn [fl_eqb] in *.
    apply eqb_prop in Hab. subst. exact Hbc.
  - apply fl_eqb_fin in Hab. subst. exact Hbc.
Qed.

Lemma int_fl_eqb_inj : forall z1 z2 f,
  int_fl_eqb z1 f = true -> int_fl_eqb z2 f = true -> z1 = z2.
Proof.
  intros z1 z2 f. destruct f; cbn [int_fl_eqb]; try discriminate.
  - rewrite !Z.eqb_eq. congruence.
  - rewrite !andb_true_iff, !Z.eqb_eq. intros [_ H1] [_ H2]. congruence.
Qed.

Lemma int_fl_eqb_fl_eqb : forall z f1 f2,
  fl_eqb f1 f2 = true -> int_fl_eqb z f1 = int_fl_eqb z f2.
Proof.
  intros z f1 f2 H. destruct f1.
  - destruct f2; try discriminate. reflexivity.
  - destruct f2; try discriminate. reflexivity.
  - apply fl_eqb_fin in H. subst. reflexivity.
Qed.

Lemma pos_odd_not_twice : forall m x, fl_wf (FFin false m 0) = true -> Z.pos m <> (2 * x)%Z.
Proof.
  intros m x H. destruct m; cbn [fl_wf] in H; try discriminate.
  - rewrite Pos2Z.inj_xI. lia.
  - lia.
Qed.

Lemma odd_pow2_unique_le : forall m1 m2 e1 e2,
  fl_wf (FFin false m1 0) = true ->
  (0 <= e1)%Z -> (e1 <= e2)%Z ->
  (Z.pos m1 * 2 ^ e1 = Z.pos m2 * 2 ^ e2)%Z -> e1 = e2 /\ m1 = m2.
Proof.
  intros m1 m2 e1 e2 Hodd H0 Hle Heq.
  assert (Hd : exists d, (0 <= d)%Z /\ e2 = (e1 + d)%Z).
  { exists (e2 - e1)%Z. split; lia. }
  destruct Hd as [d [Hd ->]].
  rewrite Z.pow_add_r in Heq by assumption.
  replace (Z.pos m2 * (2 ^ e1 * 2 ^ d))%Z with ((Z.pos m2 * 2 ^ d) * 2 ^ e1)%Z in Heq by ring.
  apply Z.mul_reg_r in Heq; [|apply Z.pow_nonzero; lia].
  destruct (Z.eq_dec d 0) as [->|Hnz].
  - rewrite Z.pow_0_r, Z.mul_1_r in Heq. injection Heq as ->. split; [lia|reflexivity].
  - exfalso. replace d with (Z.succ (d - 1)) in Heq by lia.
    rewrite Z.pow_succ_r in Heq by lia.
    replace (Z.pos m2 * (2 * 2 ^ (d - 1)))%Z with (2 * (Z.pos m2 * 2 ^ (d - 1)))%Z in Heq by ring.
    exact (pos_odd_not_twice _ _ Hodd Heq).
Qed.

Lemma fl_wf_odd : forall n m e, fl_wf (FFin n m e) = true -> fl_wf (FFin false m 0) = true.
Proof. intros n m e H. exact H. Qed.

Lemma int_fl_eqb_fl_unique : forall z f1 f2,
  fl_wf f1 = true -> fl_wf f2 = true ->
  int_fl_eqb z f1 = true -> int_fl_eqb z f2 = true -> fl_eqb f1 f2 = true.
Proof.
  intros z f1 f2 W1 W2 H1 H2.
  destruct f1 as [n1|n1|n1 m1 e1]; destruct f2 as [n2|n2|n2 m2 e2];
    cbn [int_fl_eqb] in H1, H2; try discriminate; try reflexivity.
  - (* zero vs finite *)
    apply Z.eqb_eq in H1. apply andb_true_iff in H2. destruct H2 as [He H2].
    apply Z.leb_le in He. apply Z.eqb_eq in H2. exfalso. rewrite H1 in H2.
    assert (0 < 2 ^ e2)%Z by (apply Z.pow_pos_nonneg; lia).
    assert (0 < Z.pos m2 * 2 ^ e2)%Z by (apply Z.mul_pos_pos; lia).
    rewrite <- Z.mul_assoc in H2. destruct n2; lia.
  - apply Z.eqb_eq in H2. apply andb_true_iff in H1. destruct H1 as [He H1].
    apply Z.leb_le in He. apply Z.eqb_eq in H1. exfalso. rewrite H2 in H1.
    assert (0 < 2 ^ e1)%Z by (apply Z.pow_pos_nonneg; lia).
    assert (0 < Z.pos m1 * 2 ^ e1)%Z by (apply Z.mul_pos_pos; lia).
    rewrite <- Z.mul_assoc in H1. destruct n1; lia.
  - apply andb_true_iff in H1. destruct H1 as [He1 H1].
    apply andb_true_iff in H2. destruct H2 as [He2 H2].
    apply Z.leb_le in He1. apply Z.leb_le in He2.
    apply Z.eqb_eq in H1. apply Z.eqb_eq in H2.
    assert (P1 : (0 < Z.pos m1 * 2 ^ e1)%Z).
    { apply Z.mul_pos_pos; [lia|]. apply Z.pow_pos_nonneg; lia. }
    assert (P2 : (0 < Z.pos m2 * 2 ^ e2)%Z).
    { apply Z.mul_pos_pos; [lia|]. apply Z.pow_pos_nonneg; lia. }
    rewrite <- Z.mul_assoc in H1. rewrite <- Z.mul_assoc in H2.
    assert (Hn : n1 = n2) by (destruct n1, n2; try reflexivity; exfalso; lia).
    subst n2.
    assert (Hm : (Z.pos m1 * 2 ^ e1 = Z.pos m2 * 2 ^ e2)%Z) by (destruct n1; lia).
    assert (He : e1 = e2 /\ m1 = m2).
    { destruct (Z.le_ge_cases e1 e2) as [Hle|Hle].
      - apply odd_pow2_unique_le; auto.
      - symmetry in Hm.
        destruct (odd_pow2_unique_le m2 m1 e2 e1 (fl_wf_odd _ _ _ W2) He2 Hle Hm) as [E1 E2].
        split; congruence. }
    destruct He as [-> ->]. cbn [fl_eqb].
    rewrite eqb_reflx, Pos.eqb_refl, Z.eqb_refl. reflexivity.
Qed.

(* ================================================================== *)
(** * 6. reflexivity                                                    *)
(* ================================================================== *)

Theorem is_equal_refl : forall a, sanitized_t a = true -> is_equal a a = true.
Proof.
  unfold sanitized_t.
  induction a using pyval_ind'; intro Hs; try reflexivity; try discriminate.
  - cbn. apply eqb_reflx.
  - cbn. apply Z.eqb_refl.
  - cbn. apply fl_eqb_refl.
  - cbn. apply String.eqb_refl.
  - rewrite is_equal_list_eq. cbn [seq_eqn]. rewrite sanitized_gen_list in Hs.
    apply all2_refl_in. rewrite Forall_forall in H. rewrite forallb_forall in Hs.
    intros x Hx. apply H; auto.
  - rewrite is_equal_tuple_eq. cbn [seq_eqn]. rewrite sanitized_gen_tuple in Hs.
    cbn [andb] in Hs.
    apply all2_refl_in. rewrite Forall_forall in H. rewrite forallb_forall in Hs.
    intros x Hx. apply H; auto.
  - rewrite is_equal_dict_eq. cbn [dict_eqn].
    apply sanitized_gen_dict_wfd in Hs. destruct Hs as [W Hv].
    apply deq_refl_in; [assumption|]. intros k v Hin.
    rewrite Forall_forall in H. destruct (H _ Hin) as [_ Hsnd]. apply Hsnd.
    eapply forallb_snd_In in Hv; eauto.
Qed.

(* ================================================================== *)
(** * 7. symmetry                                                       *)
(* ================================================================== *)

Definition sym_at (x : pyval) : Prop :=
  forall b, sanitized_gen true x = true -> sanitized_gen true b = true ->
            is_equal x b = is_equal b x.

Lemma seq_sym_aux : forall l l',
  Forall sym_at l ->
  forallb (sanitized_gen true) l = true -> forallb (sanitized_gen true) l' = true ->
  all2 is_equal l l' = all2 is_equal l' l.
Proof.
  intros l l' H Hs Hs'. apply all2_flip_in. intros x y Hx Hy.
  rewrite Forall_forall in H. rewrite forallb_forall in Hs, Hs'.
  apply H; auto.
Qed.

Theorem is_equal_sym : forall a b,
  sanitized_t a = true -> sanitized_t b = true -> is_equal a b = is_equal b a.
Proof.
  unfold sanitized_t.
  induction a using pyval_ind'; intros b0 Ha Hb.
  - destruct b0; reflexivity.
  - destruct b0; try reflexivity. cbn. apply bool_eqb_sym.
  - destruct b0; try reflexivity. cbn. apply Z.eqb_sym.
  - destruct b0; try reflexivity. cbn. apply fl_eqb_sym.
  - destruct b0; try reflexivity. cbn. apply String.eqb_sym.
  - rewrite is_equal_list_eq. rewrite sanitized_gen_list in Ha.
    destruct b0; try reflexivity.
    + rewrite is_equal_list_eq. cbn [seq_eqn]. rewrite sanitized_gen_list in Hb.
      apply seq_sym_aux; assumption.
    + rewrite is_equal_tuple_eq. cbn [seq_eqn]. rewrite sanitized_gen_tuple in Hb.
      apply seq_sym_aux; assumption.
  - rewrite is_equal_tuple_eq. rewrite sanitized_gen_tuple in Ha. cbn [andb] in Ha.
    destruct b0; try reflexivity.
    + rewrite is_equal_list_eq. cbn [seq_eqn]. rewrite sanitized_gen_list in Hb.
      apply seq_sym_aux; assumption.
    + rewrite is_equal_tuple_eq. cbn [seq_eqn]. rewrite sanitized_gen_tuple in Hb.
      apply seq_sym_aux; assumption.
  - rewrite is_equal_dict_eq. destruct b0; try reflexivity.
    rewrite is_equal_dict_eq. cbn [dict_eqn].
    apply sanitized_gen_dict_wfd in Ha. destruct Ha as [W1 V1].
    apply sanitized_gen_dict_wfd in Hb. destruct Hb as [W2 V2].
    apply deq_sym_eq; try assumption.
    intros k v k' v' Hin Hin'. rewrite Forall_forall in H.
    destruct (H _ Hin) as [_ Hsnd]. apply Hsnd.
    + eapply forallb_snd_In in V1; eauto.
    + eapply forallb_snd_In in V2; eauto.
  - discriminate.
Qed.

(* ================================================================== *)
(** * 8. transitivity                                                   *)
(* ================================================================== *)

Definition trans_at (x : pyval) : Prop :=
  forall b c,
    sanitized_gen true x = true -> sanitized_gen true b = true -> sanitized_gen true c = true ->
    pv_wf x = true -> pv_wf b = true -> pv_wf c = true ->
    is_equal x b = true -> is_equal b c = true -> is_equal x c = true.

Lemma seq_all2_trans : forall l l' l'',
  Forall trans_at l ->
  forallb (sanitized_gen true) l = true -> forallb (sanitized_gen true) l' = true ->
  forallb (sanitized_gen true) l'' = true ->
  forallb pv_wf l = true -> forallb pv_wf l' = true -> forallb pv_wf l'' = true ->
  all2 is_equal l l' = true -> all2 is_equal l' l'' = true -> all2 is_equal l l'' = true.
Proof.
  intros l l' l'' H S1 S2 S3 W1 W2 W3. apply all2_trans_in.
  rewrite Forall_forall in H. rewrite forallb_forall in *.
  intros x y z Hx Hy Hz. apply H; auto.
Qed.

Lemma seq_trans_aux : forall l b c,
  Forall trans_at l ->
  forallb (sanitized_gen true) l = true -> sanitized_gen true b = true ->
  sanitized_gen true c = true ->
  forallb pv_wf l = true -> pv_wf b = true -> pv_wf c = true ->
  seq_eqn l b = true -> is_equal b c = true -> seq_eqn l c = true.
Proof.
  intros l b c H S1 S2 S3 W1 W2 W3 Hab Hbc.
  destruct b; cbn [seq_eqn] in Hab; try discriminate.
  - rewrite is_equal_list_eq in Hbc. rewrite sanitized_gen_list in S2. rewrite pv_wf_list in W2.
    destruct c; cbn [seq_eqn] in Hbc |- *; try discriminate.
    + rewrite sanitized_gen_list in S3. rewrite pv_wf_list in W3.
      eapply seq_all2_trans; [exact H| | | | | | | exact Hab | exact Hbc]; assumption.
    + rewrite sanitized_gen_tuple in S3. rewrite pv_wf_tuple in W3.
      eapply seq_all2_trans; [exact H| | | | | | | exact Hab | exact Hbc]; assumption.
  - rewrite is_equal_tuple_eq in Hbc. rewrite sanitized_gen_tuple in S2. rewrite pv_wf_tuple in W2.
    cbn [andb] in S2.
    destruct c; cbn [seq_eqn] in Hbc |- *; try discriminate.
    + rewrite sanitized_gen_list in S3. rewrite pv_wf_list in W3.
      eapply seq_all2_trans; [exact H| | | | | | | exact Hab | exact Hbc]; assumption.
    + rewrite sanitized_gen_tuple in S3. rewrite pv_wf_tuple in W3.
      eapply seq_all2_trans; [exact H| | | | | | | exact Hab | exact Hbc]; assumption.
Qed.

Lemma forallb_wf_snd : forall d,
  forallb (fun kv => pv_wf (fst kv) && pv_wf (snd kv))%bool d = true ->
  forallb (fun kv => pv_wf (snd kv)) d = true.
Proof.
  intros d H. rewrite forallb_forall in *. intros x Hx. specialize (H x Hx).
  apply andb_true_iff in H. tauto.
Qed.

Theorem is_equal_trans : forall a b c,
  sanitized_t a = true -> sanitized_t b = true -> sanitized_t c = true ->
  pv_wf a = true -> pv_wf b = true -> pv_wf c = true ->
  is_equal a b = true -> is_equal b c = true -> is_equal a c = true.
Proof.
  unfold sanitized_t.
  induction a using pyval_ind'; intros b0 c Sa Sb Sc Wa Wb Wc Hab Hbc.
  - (* None *) destruct b0; try (cbn in Hab; discriminate). exact Hbc.
  - (* Bool *) destruct b0; try (cbn in Hab; discriminate).
    cbn in Hab. apply eqb_prop in Hab. subst. exact Hbc.
  - (* Int *) destruct b0; try (cbn in Hab; discriminate).
    + cbn in Hab. apply Z.eqb_eq in Hab. subst. exact Hbc.
    + change (int_fl_eqb z f = true) in Hab.
      destruct c; try (cbn in Hbc; discriminate).
      * change (int_fl_eqb z0 f = true) in Hbc.
        change ((z =? z0)%Z = true). apply Z.eqb_eq. eapply int_fl_eqb_inj; eauto.
      * change (fl_eqb f f0 = true) in Hbc. change (int_fl_eqb z f0 = true).
        rewrite <- (int_fl_eqb_fl_eqb z f f0 Hbc). exact Hab.
  - (* Float *) destruct b0; try (cbn in Hab; discriminate).
    + change (int_fl_eqb z f = true) in Hab.
      destruct c; try (cbn in Hbc; discriminate).
      * change ((z =? z0)%Z = true) in Hbc. apply Z.eqb_eq in Hbc. subst. exact Hab.
      * change (int_fl_eqb z f0 = true) in Hbc. change (fl_eqb f f0 = true).
        eapply int_fl_eqb_fl_unique; eauto.
    + change (fl_eqb f f0 = true) in Hab.
      destruct c; try (cbn in Hbc; discriminate).
      * change (int_fl_eqb z f0 = true) in Hbc. change (int_fl_eqb z f = true).
        rewrite (int_fl_eqb_fl_eqb z f f0 Hab). exact Hbc.
      * change (fl_eqb f0 f1 = true) in Hbc. change (fl_eqb f f1 = true).
        eapply fl_eqb_trans; eauto.
  - (* Str *) destruct b0; try (cbn in Hab; discriminate).
    cbn in Hab. apply String.eqb_eq in Hab. subst. exact Hbc.
  - (* List *) rewrite is_equal_list_eq in Hab. rewrite is_equal_list_eq.
    rewrite sanitized_gen_list in Sa. rewrite pv_wf_list in Wa.
    exact (seq_trans_aux l b0 c H Sa Sb Sc Wa Wb Wc Hab Hbc).
  - (* Tuple *) rewrite is_equal_tuple_eq in Hab. rewrite is_equal_tuple_eq.
    rewrite sanitized_gen_tuple in Sa. cbn [andb] in Sa. rewrite pv_wf_tuple in Wa.
    exact (seq_trans_aux l b0 c H Sa Sb Sc Wa Wb Wc Hab Hbc).
  - (* Dict *) rewrite is_equal_dict_eq in Hab. rewrite is_equal_dict_eq.
    destruct b0; cbn [dict_eqn] in Hab; try discriminate.
    rewrite is_equal_dict_eq in Hbc.
    destruct c; cbn [dict_eqn] in Hbc |- *; try discriminate.
    apply sanitized_gen_dict_wfd in Sa. destruct Sa as [[P1 N1] V1].
    apply sanitized_gen_dict_wfd in Sb. destruct Sb as [[P2 N2] V2].
    apply sanitized_gen_dict_wfd in Sc. destruct Sc as [[P3 N3] V3].
    rewrite pv_wf_dict in Wa, Wb, Wc.
    apply forallb_wf_snd in Wa. apply forallb_wf_snd in Wb. apply forallb_wf_snd in Wc.
    eapply deq_trans_in; [exact P1 | | exact Hab | exact Hbc].
    intros k v k' v' k'' v'' Hin Hin' Hin''.
    rewrite Forall_forall in H. destruct (H _ Hin) as [_ Hsnd]. apply Hsnd.
    + eapply forallb_snd_In in V1; eauto.
    + eapply forallb_snd_In in V2; eauto.
    + eapply forallb_snd_In in V3; eauto.
    + eapply forallb_snd_In in Wa; eauto.
    + eapply forallb_snd_In in Wb; eauto.
    + eapply forallb_snd_In in Wc; eauto.
  - discriminate.
Qed.

(* ================================================================== *)
(** * The order on strings                                              *)
(* ================================================================== *)

Lemma str_ltb_irrefl : forall a, str_ltb a a = false.
Proof.
  induction a as [|c a IH]; cbn [str_ltb]; [reflexivity|].
  rewrite Nat.ltb_irrefl. exact IH.
Qed.

Lemma str_ltb_trans : forall a b c,
  str_ltb a b = true -> str_ltb b c = true -> str_ltb a c = true.
Proof.
  induction a as [|x a IH]; destruct b as [|y b]; destruct c as [|z c];
    cbn [str_ltb]; try discriminate; try reflexivity.
  destruct (Nat.ltb_spec (nat_of_ascii x) (nat_of_ascii y));
  destruct (Nat.ltb_spec (nat_of_ascii y) (nat_of_ascii x));
  destruct (Nat.ltb_spec (nat_of_ascii y) (nat_of_ascii z));
  destruct (Nat.ltb_spec (nat_of_ascii z) (nat_of_ascii y));
  destruct (Nat.ltb_spec (nat_of_ascii x) (nat_of_ascii z));
  destruct (Nat.ltb_spec (nat_of_ascii z) (nat_of_ascii x));
  try discriminate; try reflexivity; try lia.
  apply IH.
Qed.

Lemma str_ltb_asym : forall a b, str_ltb a b = true -> str_ltb b a = true -> False.
Proof.
  intros a b H1 H2. pose proof (str_ltb_trans _ _ _ H1 H2) as H.
  rewrite str_ltb_irrefl in H. discriminate.
Qed.

Lemma str_ltb_tricho : forall a b, str_ltb a b = false -> str_ltb b a = false -> a = b.
Proof.
  induction a as [|x a IH]; destruct b as [|y b]; cbn [str_ltb];
    try discriminate; try reflexivity.
  destruct (Nat.ltb_spec (nat_of_ascii x) (nat_of_ascii y));
  destruct (Nat.ltb_spec (nat_of_ascii y) (nat_of_ascii x));
    try discriminate; try lia.
  intros H1 H2. rewrite (IH b H1 H2).
  assert (E : nat_of_ascii x = nat_of_ascii y) by lia.
  rewrite <- (ascii_nat_embedding x), <- (ascii_nat_embedding y), E. reflexivity.
Qed.

(* ================================================================== *)
(** * Insertion sort of items by key                                    *)
(* ================================================================== *)

Definition kk (kv : pyval * pyval) : string := key_str (fst kv).
Definition lebk (a b : pyval * pyval) : bool := str_leb (kk a) (kk b).

Lemma sort_items_eq : forall d, sort_items d = sort_by lebk d.
Proof. reflexivity. Qed.

Lemma insert_by_perm : forall {A} (leb : A -> A -> bool) x l,
  Permutation (insert_by leb x l) (x :: l).
Proof.
  intros A leb x l. induction l as [|y l IH]; cbn [insert_by]; [apply Permutation_refl|].
  destruct (leb x y); [apply Permutation_refl|].
  eapply Permutation_trans; [apply perm_skip; exact IH | apply perm_swap].
Qed.

Lemma sort_by_perm : forall {A} (leb : A -> A -> bool) l, Permutation (sort_by leb l) l.
Proof.
  intros A leb l. induction l as [|x l IH]; [apply Permutation_refl|].
  unfold sort_by in *. cbn [fold_right].
  eapply Permutation_trans; [apply insert_by_perm | apply perm_skip; exact IH].
Qed.

Lemma sort_items_perm : forall d, Permutation (sort_items d) d.
Proof. intro d. apply sort_by_perm. Qed.

Fixpoint ssorted (d : list (pyval * pyval)) : Prop :=
  match d with
  | [] => True
  | x :: r => (forall y, In y r -> str_ltb (kk x) (kk y) = true) /\ ssorted r
  end.

Lemma keys_kk : forall d s, In s (keys d) <-> exists y, In y d /\ kk y = s.
Proof.
  intros d s. unfold keys, kk. rewrite in_map_iff. split; intros [y [H1 H2]]; eauto.
Qed.

Lemma insert_ssorted : forall x l,
  ssorted l -> ~ In (kk x) (keys l) -> ssorted (insert_by lebk x l).
Proof.
  intros x l. induction l as [|y l IH]; intros Hs Hn.
  - cbn. split; [intros ? []|exact I].
  - cbn [insert_by]. destruct Hs as [Hy Hs].
    assert (Hxy : kk x <> kk y).
    { intro E. apply Hn. apply keys_kk. exists y. split; [left; reflexivity|auto]. }
    assert (Hn' : ~ In (kk x) (keys l)).
    { intro Hin. apply Hn. apply keys_kk in Hin. destruct Hin as [w [Hw1 Hw2]].
      apply keys_kk. exists w. split; [right; assumption|assumption]. }
    unfold lebk at 1. unfold str_leb. destruct (str_ltb (kk y) (kk x)) eqn:E; cbn [negb].
    + (* y < x *) cbn [ssorted]. split; [|apply IH; assumption].
      intros w Hw. apply (Permutation_in _ (insert_by_perm lebk x l)) in Hw.
      destruct Hw as [<-|Hw]; [exact E | apply Hy; exact Hw].
    + (* x < y *)
      assert (Hlt : str_ltb (kk x) (kk y) = true).
      { destruct (str_ltb (kk x) (kk y)) eqn:E'; [reflexivity|].
        exfalso. apply Hxy. apply str_ltb_tricho; assumption. }
      cbn [ssorted]. split; [|split; assumption].
      intros w [<-|Hw]; [exact Hlt|].
      eapply str_ltb_trans; [exact Hlt | apply Hy; exact Hw].
Qed.

Lemma keys_perm : forall d d', Permutation d d' -> Permutation (keys d) (keys d').
Proof. intros. unfold keys. apply Permutation_map. assumption. Qed.

Lemma sort_items_ssorted : forall d, NoDup (keys d) -> ssorted (sort_items d).
Proof.
  induction d as [|x d IH]; intro Hnd; [exact I|].
  cbn [keys map] in Hnd. fold (keys d) in Hnd. inversion Hnd as [|? ? Hn Hnd']; subst.
  change (sort_items (x :: d)) with (insert_by lebk x (sort_items d)).
  apply insert_ssorted; [apply IH; assumption|].
  intro Hin. apply Hn.
  eapply Permutation_in; [apply keys_perm; apply sort_items_perm | exact Hin].
Qed.

Lemma forallb_perm : forall {A} (f : A -> bool) l l',
  Permutation l l' -> forallb f l = forallb f l'.
Proof.
  intros A f l l' H. induction H; cbn [forallb].
  - reflexivity.
  - rewrite IHPermutation. reflexivity.
  - destruct (f x), (f y); reflexivity.
  - congruence.
Qed.

Lemma forallb_ext_in : forall {A} (f g : A -> bool) l,
  (forall x, In x l -> f x = g x) -> forallb f l = forallb g l.
Proof.
  intros A f g l. induction l as [|x l IH]; intro H; [reflexivity|].
  cbn [forallb]. rewrite H by (left; reflexivity). rewrite IH; [reflexivity|].
  intros; apply H; right; assumption.
Qed.

Lemma wfd_perm : forall d d', Permutation d d' -> wfd d -> wfd d'.
Proof.
  intros d d' HP [Hp Hn]. split.
  - unfold allpstr in *. rewrite <- (forallb_perm _ _ _ HP). exact Hp.
  - eapply Permutation_NoDup; [apply keys_perm; exact HP | exact Hn].
Qed.

Lemma assoc_get_perm : forall d d' s,
  wfd d -> Permutation d d' -> assoc_get (PStr s) d = assoc_get (PStr s) d'.
Proof.
  intros d d' s W HP. pose proof (wfd_perm _ _ HP W) as W'.
  destruct W as [Hp Hn]. destruct W' as [Hp' Hn'].
  destruct (assoc_get (PStr s) d) as [v|] eqn:E.
  - symmetry. apply assoc_get_In_nodup; try assumption.
    eapply Permutation_in; [exact HP|]. apply assoc_get_Some_In. exact E.
  - symmetry. apply assoc_get_notin_None. intro Hin.
    apply (assoc_get_None_notin _ _ Hp E).
    eapply Permutation_in; [apply Permutation_sym; apply keys_perm; exact HP | exact Hin].
Qed.

Lemma deq_perm_l : forall E d1 d1' d2,
  Permutation d1 d1' -> deq E d1 d2 = deq E d1' d2.
Proof.
  intros E d1 d1' d2 HP. unfold deq.
  rewrite (Permutation_length HP), (forallb_perm _ _ _ HP). reflexivity.
Qed.

Lemma deq_perm_r : forall E d1 d2 d2',
  allpstr d1 = true -> wfd d2 -> Permutation d2 d2' -> deq E d1 d2 = deq E d1 d2'.
Proof.
  intros E d1 d2 d2' Hp W HP. unfold deq.
  rewrite (Permutation_length HP). f_equal.
  apply forallb_ext_in. intros [k v] Hin.
  destruct (allpstr_In _ _ _ Hp Hin) as [s ->]. cbn [fst snd].
  rewrite (assoc_get_perm _ _ s W HP). reflexivity.
Qed.

(* on strictly sorted association lists the pointwise comparison is deq *)
Lemma sorted_pw_deq : forall (E : pyval -> pyval -> bool) s1 s2,
  wfd s1 -> wfd s2 -> ssorted s1 -> ssorted s2 ->
  all2 (fun kv kv' => py_eq (fst kv) (fst kv') && E (snd kv) (snd kv'))%bool s1 s2
  = deq E s1 s2.
Proof.
  intros E. induction s1 as [|[k1 v1] r1 IH]; destruct s2 as [|[k2 v2] r2];
    intros W1 W2 S1 S2; try reflexivity.
  pose proof W1 as W1'. pose proof W2 as W2'.
  destruct W1 as [P1 N1]. destruct W2 as [P2 N2].
  cbn [allpstr forallb fst] in P1, P2.
  apply andb_true_iff in P1. destruct P1 as [K1 P1].
  apply andb_true_iff in P2. destruct P2 as [K2 P2].
  destruct k1 as [| | | |a| | | |]; try discriminate.
  destruct k2 as [| | | |b| | | |]; try discriminate.
  cbn [keys map fst key_str] in N1, N2. fold (keys r1) in N1. fold (keys r2) in N2.
  inversion N1 as [|? ? Hn1 N1']; subst. inversion N2 as [|? ? Hn2 N2']; subst.
  destruct S1 as [Hlt1 S1]. destruct S2 as [Hlt2 S2].
  cbn [all2 fst snd py_eq].
  destruct (String.eqb a b) eqn:Eab.
  - apply String.eqb_eq in Eab. subst b.
    rewrite IH; [| split; assumption | split; assumption | assumption | assumption].
    unfold deq. cbn [List.length Nat.eqb forallb fst snd].
    assert (Hext : forallb (fun kv => match assoc_get (fst kv) ((PStr a, v2) :: r2) with
                                      | Some v' => E (snd kv) v' | None => false end) r1
                 = forallb (fun kv => match assoc_get (fst kv) r2 with
                                      | Some v' => E (snd kv) v' | None => false end) r1).
    { apply forallb_ext_in. intros [k v] Hin.
      destruct (allpstr_In _ _ _ P1 Hin) as [c ->]. cbn [fst snd assoc_get py_eq].
      destruct (String.eqb c a) eqn:Eca; [|reflexivity].
      apply String.eqb_eq in Eca. subst c. specialize (Hlt1 _ Hin).
      unfold kk in Hlt1. cbn [fst key_str] in Hlt1. rewrite str_ltb_irrefl in Hlt1.
      discriminate. }
    rewrite Hext. cbn [assoc_get py_eq]. rewrite String.eqb_refl.
    destruct (E v1 v2), (Nat.eqb (List.length r1) (List.length r2)); reflexivity.
  - cbn [andb]. symmetry. apply not_true_is_false. intro H.
    pose proof (deq_keys_incl _ _ _ (proj1 W1') H) as I12.
    pose proof (deq_keys_incl_rev _ _ _ W1' H) as I21.
    assert (Ha : In a (keys ((PStr b, v2) :: r2))) by (apply I12; left; reflexivity).
    assert (Hb : In b (keys ((PStr a, v1) :: r1))) by (apply I21; left; reflexivity).
    cbn [keys map fst key_str In] in Ha, Hb. fold (keys r2) in Ha. fold (keys r1) in Hb.
    destruct Ha as [Ha|Ha]; [subst; rewrite String.eqb_refl in Eab; discriminate|].
    destruct Hb as [Hb|Hb]; [subst; rewrite String.eqb_refl in Eab; discriminate|].
    apply keys_kk in Ha. destruct Ha as [y [Hy1 Hy2]].
    apply keys_kk in Hb. destruct Hb as [w [Hw1 Hw2]].
    specialize (Hlt2 _ Hy1). specialize (Hlt1 _ Hw1).
    unfold kk at 1 in Hlt1. unfold kk at 1 in Hlt2. cbn [fst key_str] in Hlt1, Hlt2.
    rewrite Hy2 in Hlt2. rewrite Hw2 in Hlt1.
    exact (str_ltb_asym _ _ Hlt1 Hlt2).
Qed.

(* ================================================================== *)
(** * to_hashable                                                       *)
(* ================================================================== *)

Definition hf (kv : pyval * pyval) : pyval * pyval :=
  match kv with (k_, v_) => (k_, to_hashable v_) end.
Definition pairf (kv : pyval * pyval) : list pyval := [fst kv; snd kv].
Definition dict_hash (d : list (pyval * pyval)) : list pyval :=
  flat_map pairf (sort_items (map hf d)).

Lemma to_hashable_list_eq : forall l,
  to_hashable (PList l) = PTuple (PInt 0 :: map to_hashable l).
Proof. reflexivity. Qed.

Lemma to_hashable_dict_eq : forall d, to_hashable (PDict d) = PTuple (dict_hash d).
Proof. reflexivity. Qed.

Lemma kk_hf : forall x, kk (hf x) = kk x.
Proof. intros [k v]. reflexivity. Qed.

Lemma insert_by_hf : forall x l,
  insert_by lebk (hf x) (map hf l) = map hf (insert_by lebk x l).
Proof.
  intros x l. induction l as [|y l IH]; [reflexivity|].
  cbn [map insert_by]. unfold lebk at 1 3. rewrite !kk_hf.
  destruct (str_leb (kk x) (kk y)); [reflexivity|].
  rewrite IH. reflexivity.
Qed.

Lemma sort_items_hf : forall d, sort_items (map hf d) = map hf (sort_items d).
Proof.
  induction d as [|x d IH]; [reflexivity|].
  change (sort_items (map hf (x :: d))) with (insert_by lebk (hf x) (sort_items (map hf d))).
  change (sort_items (x :: d)) with (insert_by lebk x (sort_items d)).
  rewrite IH. apply insert_by_hf.
Qed.

Lemma flat_hf_all2 : forall s1 s2,
  all2 py_eq (flat_map pairf (map hf s1)) (flat_map pairf (map hf s2))
  = all2 (fun kv kv' => py_eq (fst kv) (fst kv') &&
                        py_eq (to_hashable (snd kv)) (to_hashable (snd kv')))%bool s1 s2.
Proof.
  induction s1 as [|[k1 v1] r1 IH]; destruct s2 as [|[k2 v2] r2]; try reflexivity.
  cbn [map hf flat_map pairf fst snd app all2]. rewrite IH.
  rewrite andb_assoc. reflexivity.
Qed.

Lemma all2_map : forall {A B} (E : B -> B -> bool) (f : A -> B) l l',
  all2 E (map f l) (map f l') = all2 (fun x y => E (f x) (f y)) l l'.
Proof.
  intros A B E f. induction l as [|x l IH]; destruct l' as [|y l']; try reflexivity.
  cbn [map all2]. rewrite IH. reflexivity.
Qed.

Lemma dict_hash_shape : forall d, allpstr d = true ->
  dict_hash d = [] \/ exists s v r, dict_hash d = PStr s :: v :: r.
Proof.
  intros d Hp. unfold dict_hash. rewrite sort_items_hf.
  assert (Hp' : allpstr (sort_items d) = true).
  { unfold allpstr in *. rewrite (forallb_perm _ _ _ (sort_items_perm d)). exact Hp. }
  destruct (sort_items d) as [|[k v] r]; [left; reflexivity|right].
  cbn [allpstr forallb fst] in Hp'. apply andb_true_iff in Hp'. destruct Hp' as [Hk _].
  destruct k; try discriminate.
  cbn [map hf flat_map pairf fst snd app]. eauto.
Qed.

Lemma shape_vs_int : forall h z t,
  (h = [] \/ exists s v r, h = PStr s :: v :: r) ->
  all2 py_eq (PInt z :: t) h = false /\ all2 py_eq h (PInt z :: t) = false.
Proof.
  intros h z t [->|[s [v [r ->]]]]; split; reflexivity.
Qed.

Theorem hashable_iff : forall a b, sanitized a = true -> sanitized b = true ->
  py_eq (to_hashable a) (to_hashable b) = is_equal a b.
Proof.
  unfold sanitized.
  induction a using pyval_ind'; intros b0 Sa Sb.
  - (* None *) destruct b0; try reflexivity; try discriminate. destruct b; reflexivity.
  - (* Bool *) destruct b0; try discriminate; try (destruct b; reflexivity).
    + destruct b, b0; reflexivity.
    + (* dict *)
      apply sanitized_gen_dict_wfd in Sb. destruct Sb as [[Hp _] _].
      rewrite to_hashable_dict_eq.
      destruct (shape_vs_int (dict_hash d) (if b then 1 else 2)%Z [] (dict_hash_shape d Hp))
        as [E1 _].
      destruct b; cbn [to_hashable py_truth]; rewrite py_eq_tuple_eq; exact E1.
  - (* Int *) destruct b0; try reflexivity; try discriminate. destruct b; reflexivity.
  - (* Float *) destruct b0; try reflexivity; try discriminate. destruct b; reflexivity.
  - (* Str *) destruct b0; try reflexivity; try discriminate. destruct b; reflexivity.
  - (* List *) rewrite is_equal_list_eq. rewrite sanitized_gen_list in Sa.
    destruct b0; cbn [seq_eqn]; try reflexivity; try discriminate.
    + destruct b; reflexivity.
    + rewrite sanitized_gen_list in Sb.
      rewrite !to_hashable_list_eq, py_eq_tuple_eq. cbn [all2 py_eq Z.eqb andb].
      rewrite all2_map. apply all2_ext_in. intros x y Hx Hy.
      rewrite Forall_forall in H. rewrite forallb_forall in Sa, Sb. apply H; auto.
    + apply sanitized_gen_dict_wfd in Sb. destruct Sb as [[Hp _] _].
      rewrite to_hashable_list_eq, to_hashable_dict_eq, py_eq_tuple_eq.
      apply (shape_vs_int _ _ _ (dict_hash_shape d Hp)).
  - discriminate.
  - (* Dict *) rewrite is_equal_dict_eq.
    apply sanitized_gen_dict_wfd in Sa. destruct Sa as [W1 V1].
    destruct b0; cbn [dict_eqn]; try reflexivity; try discriminate.
    + rewrite to_hashable_dict_eq.
      destruct (shape_vs_int (dict_hash d) (if b then 1 else 2)%Z []
                  (dict_hash_shape d (proj1 W1))) as [_ E2].
      destruct b; cbn [to_hashable py_truth]; rewrite py_eq_tuple_eq; exact E2.
    + rewrite to_hashable_list_eq, to_hashable_dict_eq, py_eq_tuple_eq.
      apply (shape_vs_int _ _ _ (dict_hash_shape d (proj1 W1))).
    + apply sanitized_gen_dict_wfd in Sb. destruct Sb as [W2 V2].
      rewrite !to_hashable_dict_eq, py_eq_tuple_eq. unfold dict_hash.
      rewrite !sort_items_hf, flat_hf_all2.
      pose proof (sort_items_perm d) as HP1. pose proof (sort_items_perm d0) as HP2.
      assert (WS1 : wfd (sort_items d)) by (eapply wfd_perm; [apply Permutation_sym|]; eauto).
      assert (WS2 : wfd (sort_items d0)) by (eapply wfd_perm; [apply Permutation_sym|]; eauto).
      rewrite (deq_perm_l is_equal d (sort_items d) d0 (Permutation_sym HP1)).
      rewrite (deq_perm_r is_equal (sort_items d) d0 (sort_items d0) (proj1 WS1) W2
                 (Permutation_sym HP2)).
      rewrite <- (sorted_pw_deq is_equal _ _ WS1 WS2
                    (sort_items_ssorted d (proj2 W1)) (sort_items_ssorted d0 (proj2 W2))).
      apply all2_ext_in. intros [k v] [k' v'] Hin Hin'. cbn [fst snd]. f_equal.
      apply (Permutation_in _ HP1) in Hin. apply (Permutation_in _ HP2) in Hin'.
      rewrite Forall_forall in H. destruct (H _ Hin) as [_ Hsnd]. apply Hsnd.
      * eapply forallb_snd_In in V1; eauto.
      * eapply forallb_snd_In in V2; eauto.
  - discriminate.
Qed.

Theorem subbuild_key_iff : forall f1 a1 k1 f2 a2 k2,
  sanitized a1 = true -> sanitized k1 = true -> sanitized a2 = true -> sanitized k2 = true ->
  py_eq (to_hashable (PList [PStr f1; a1; k1])) (to_hashable (PList [PStr f2; a2; k2]))
  = (String.eqb f1 f2 && is_equal a1 a2 && is_equal k1 k2)%bool.
Proof.
  intros f1 a1 k1 f2 a2 k2 Sa1 Sk1 Sa2 Sk2.
  rewrite !to_hashable_list_eq, py_eq_tuple_eq.
  cbn [map all2]. rewrite (hashable_iff a1 a2 Sa1 Sa2), (hashable_iff k1 k2 Sk1 Sk2).
  cbn [to_hashable py_eq Z.eqb andb]. rewrite andb_true_r, andb_assoc. reflexivity.
Qed.
