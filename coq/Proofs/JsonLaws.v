(* Proofs/JsonLaws.v — laws of the generated json_util functions
   (sanitize / is_equal / to_hashable) against Spec/JsonSpec.v. *)
From Coq Require Import List String Ascii ZArith Bool Arith Lia Permutation.
From FB.Base Require Import PyVal.
From FB.Spec Require Import JsonSpec.
From FB.Gen Require Import JsonUtilGen.
Import ListNotations.

(* ================================================================== *)
(** * Generic list vocabulary the inline loops are rewritten into      *)
(* ================================================================== *)

Section All2.
  Variable f : pyval -> pyval -> bool.
  Fixpoint all2 (xs ys : list pyval) : bool :=
    match xs, ys with
    | [], [] => true
    | x :: xs', y :: ys' => f x y && all2 xs' ys'
    | _, _ => false
    end.
End All2.

Section MapM.
  Variable f : pyval -> option pyval.
  Fixpoint mapM (xs : list pyval) : option (list pyval) :=
    match xs with
    | [] => Some []
    | x :: xs' => obind (f x) (fun y => obind (mapM xs') (fun ys => Some (y :: ys)))
    end.
End MapM.

Fixpoint san_dict (kvs acc : list (pyval * pyval)) {struct kvs} : option pyval :=
  match kvs with
  | [] => Some (PDict acc)
  | (k, v) :: rest =>
      obind (sanitize v) (fun v' =>
      obind (key_to_str k) (fun k' => san_dict rest (assoc_set k' v' acc)))
  end.

Definition keys (d : list (pyval * pyval)) : list string :=
  map (fun kv => key_str (fst kv)) d.

Definition allpstr (d : list (pyval * pyval)) : bool :=
  forallb (fun kv => is_pstr (fst kv)) d.

(* dictionary comparison as performed by is_equal, over a value relation E *)
Definition deq (E : pyval -> pyval -> bool) (d1 d2 : list (pyval * pyval)) : bool :=
  Nat.eqb (length d1) (length d2) &&
  forallb (fun kv => match assoc_get (fst kv) d2 with
                     | Some v' => E (snd kv) v'
                     | None => false
                     end) d1.

(* ================================================================== *)
(** * Equations hiding the generated definitions                        *)
(* ================================================================== *)

Lemma sanitize_list_eq : forall l, sanitize (PList l) = option_map PList (mapM sanitize l).
Proof. reflexivity. Qed.

Lemma sanitize_tuple_eq : forall l, sanitize (PTuple l) = option_map PList (mapM sanitize l).
Proof. reflexivity. Qed.

Lemma sanitize_dict_eq : forall d, sanitize (PDict d) = san_dict d [].
Proof. reflexivity. Qed.

Lemma zip_loop_all2 : forall (f : pyval -> pyval -> bool) xs ys,
  (Nat.eqb (length xs) (length ys) &&
   negb ((fix go (xs ys : list pyval) {struct xs} : bool :=
            match xs, ys with
            | e1 :: xs', e2 :: ys' => if negb (f e1 e2) then true else go xs' ys'
            | _, _ => false
            end) xs ys))%bool = all2 f xs ys.
Proof.
  induction xs as [|x xs IH]; destruct ys as [|y ys]; try reflexivity.
  cbn [length Nat.eqb all2]. rewrite <- IH.
  destruct (f x y); cbn [negb andb]; [reflexivity | apply andb_false_r].
Qed.

Definition seq_eqn (l : list pyval) (v : pyval) : bool :=
  match v with
  | PList l' | PTuple l' => all2 is_equal l l'
  | _ => false
  end.

Lemma is_equal_list_eq : forall l v, is_equal (PList l) v = seq_eqn l v.
Proof.
  intros l v. destruct v; try reflexivity.
  - unfold seq_eqn. rewrite <- zip_loop_all2.
    cbn [is_equal class_of pyclass_eqb negb andb orb py_len py_seq].
    destruct (Nat.eqb (length l) (length l0)); cbn [negb andb]; [|reflexivity].
    match goal with |- (if ?g then _ else _) = _ => destruct g end; reflexivity.
  - unfold seq_eqn. rewrite <- zip_loop_all2.
    cbn [is_equal class_of pyclass_eqb negb andb orb py_len py_seq].
    destruct (Nat.eqb (length l) (length l0)); cbn [negb andb]; [|reflexivity].
    match goal with |- (if ?g then _ else _) = _ => destruct g end; reflexivity.
Qed.

Lemma is_equal_tuple_eq : forall l v, is_equal (PTuple l) v = seq_eqn l v.
Proof. intros. rewrite <- is_equal_list_eq. reflexivity. Qed.

Lemma items_loop_forallb : forall (E : pyval -> pyval -> bool) d2 d,
  negb ((fix go (kvs : list (pyval * pyval)) : bool :=
           match kvs with
           | (key_, subvalue) :: rest =>
               if (negb (py_dict_mem key_ (PDict d2)) ||
                   negb (E subvalue (py_dict_get key_ (PDict d2))))%bool
               then true else go rest
           | [] => false
           end) d)
  = forallb (fun kv => match assoc_get (fst kv) d2 with
                       | Some v' => E (snd kv) v'
                       | None => false
                       end) d.
Proof.
  intros E d2. induction d as [|[k v] d IH]; [reflexivity|].
  cbn [forallb fst snd]. rewrite <- IH.
  unfold py_dict_mem, py_dict_get. cbn [py_items].
  destruct (assoc_get k d2) as [v'|]; cbn [negb orb]; [|reflexivity].
  destruct (E v v'); reflexivity.
Qed.

Definition dict_eqn (d : list (pyval * pyval)) (v : pyval) : bool :=
  match v with
  | PDict d' => deq is_equal d d'
  | _ => false
  end.

Lemma is_equal_dict_eq : forall d v, is_equal (PDict d) v = dict_eqn d v.
Proof.
  intros d v. destruct v; try reflexivity.
  unfold dict_eqn, deq. rewrite <- items_loop_forallb.
  cbn [is_equal class_of pyclass_eqb negb andb orb py_len].
  destruct (Nat.eqb (length d) (length d0)); cbn [negb andb]; [|reflexivity].
  match goal with |- (if ?g then _ else _) = _ => destruct g end; reflexivity.
Qed.

Lemma py_eq_tuple_eq : forall x y, py_eq (PTuple x) (PTuple y) = all2 py_eq x y.
Proof.
  induction x as [|a x IH]; destruct y as [|b y]; try reflexivity.
  cbn [all2]. rewrite <- IH. reflexivity.
Qed.

Lemma py_eq_list_eq : forall x y, py_eq (PList x) (PList y) = all2 py_eq x y.
Proof.
  induction x as [|a x IH]; destruct y as [|b y]; try reflexivity.
  cbn [all2]. rewrite <- IH. reflexivity.
Qed.

Lemma py_eq_str : forall a b, py_eq (PStr a) (PStr b) = String.eqb a b.
Proof. reflexivity. Qed.

Lemma py_eq_str_true : forall a k, py_eq (PStr a) k = true -> k = PStr a.
Proof.
  intros a k H. destruct k; try discriminate.
  cbn in H. apply String.eqb_eq in H. subst. reflexivity.
Qed.

Lemma sanitized_gen_list : forall t l,
  sanitized_gen t (PList l) = forallb (sanitized_gen t) l.
Proof. reflexivity. Qed.

Lemma sanitized_gen_tuple : forall t l,
  sanitized_gen t (PTuple l) = (t && forallb (sanitized_gen t) l)%bool.
Proof. reflexivity. Qed.

Lemma sanitized_gen_dict : forall t d,
  sanitized_gen t (PDict d) =
  (forallb (fun kv => is_pstr (fst kv) && sanitized_gen t (snd kv)) d
   && str_nodup (keys d))%bool.
Proof. reflexivity. Qed.

Lemma pv_wf_list : forall l, pv_wf (PList l) = forallb pv_wf l.
Proof. reflexivity. Qed.
Lemma pv_wf_tuple : forall l, pv_wf (PTuple l) = forallb pv_wf l.
Proof. reflexivity. Qed.
Lemma pv_wf_dict : forall d,
  pv_wf (PDict d) = forallb (fun kv => pv_wf (fst kv) && pv_wf (snd kv))%bool d.
Proof. reflexivity. Qed.

(* ================================================================== *)
(** * Strings: membership / duplicates as Props                         *)
(* ================================================================== *)

Lemma str_mem_In : forall s l, str_mem s l = true <-> In s l.
Proof.
  intros s l. induction l as [|x l IH]; cbn [str_mem In].
  - split; [discriminate | tauto].
  - rewrite orb_true_iff, String.eqb_eq, IH. split; intros [H|H]; auto.
Qed.

Lemma str_mem_false : forall s l, str_mem s l = false <-> ~ In s l.
Proof.
  intros s l. rewrite <- str_mem_In. destruct (str_mem s l); split; intro H;
  try reflexivity; try discriminate; try tauto. exfalso. apply H. reflexivity.
Qed.

Lemma str_nodup_NoDup : forall l, str_nodup l = true <-> NoDup l.
Proof.
  induction l as [|x l IH]; cbn [str_nodup].
  - split; [constructor | reflexivity].
  - rewrite andb_true_iff, negb_true_iff, str_mem_false, IH. split.
    + intros [H1 H2]. constructor; assumption.
    + intro H. inversion H; subst. split; assumption.
Qed.

(* a dictionary whose keys are pairwise distinct strings *)
Definition wfd (d : list (pyval * pyval)) : Prop :=
  allpstr d = true /\ NoDup (keys d).

Lemma sanitized_gen_dict_wfd : forall t d,
  sanitized_gen t (PDict d) = true ->
  wfd d /\ forallb (fun kv => sanitized_gen t (snd kv)) d = true.
Proof.
  intros t d H. rewrite sanitized_gen_dict in H.
  apply andb_true_iff in H. destruct H as [H1 H2].
  apply str_nodup_NoDup in H2. unfold wfd, allpstr.
  rewrite forallb_forall in H1. repeat split; try assumption.
  - apply forallb_forall. intros x Hx. specialize (H1 x Hx).
    apply andb_true_iff in H1. tauto.
  - apply forallb_forall. intros x Hx. specialize (H1 x Hx).
    apply andb_true_iff in H1. tauto.
Qed.

Lemma allpstr_In : forall d k v, allpstr d = true -> In (k, v) d -> exists s, k = PStr s.
Proof.
  intros d k v H Hin. unfold allpstr in H. rewrite forallb_forall in H.
  specialize (H _ Hin). cbn in H. destruct k; try discriminate. eauto.
Qed.

Lemma In_keys : forall d s v, In (PStr s, v) d -> In s (keys d).
Proof.
  intros d s v H. unfold keys.
  change s with ((fun kv : pyval * pyval => key_str (fst kv)) (PStr s, v)).
  apply in_map. assumption.
Qed.

Lemma keys_In : forall d s, allpstr d = true -> In s (keys d) -> exists v, In (PStr s, v) d.
Proof.
  intros d s Hp H. unfold keys in H. apply in_map_iff in H.
  destruct H as [[k v] [Hk Hin]]. cbn in Hk.
  destruct (allpstr_In _ _ _ Hp Hin) as [s' ->]. cbn in Hk. subst. eauto.
Qed.

(* ---------- assoc_get on string-keyed dictionaries ---------- *)

Lemma assoc_get_Some_In : forall s d v,
  assoc_get (PStr s) d = Some v -> In (PStr s, v) d.
Proof.
  intros s d v. induction d as [|[k' v'] d IH]; cbn [assoc_get]; [discriminate|].
  destruct (py_eq (PStr s) k') eqn:E.
  - intro H. injection H as ->. apply py_eq_str_true in E. subst. left. reflexivity.
  - intro H. right. auto.
Qed.

