(* Proofs/ViewR5.v — C04, arbitrary previous caches, part 5: a cache lookup can raise only the
   KeyError of CreatedFiles.error_building_file.  Of the four causes listed in ViewH8:
   (a) OSError from an over-long recorded target: excluded by the creatable names in wfrec;
   (b) walk fuel: excluded by the depth bounds (tree: Ext; overlay directories: DL, from wfrec);
   (d) scan fuel: excluded by BInv (is_removed_sound);
   (c) KeyError: remains, as the statement NoKeyError.  NoRaise follows from NoKeyError. *)
From Coq Require Import List String Ascii NArith ZArith Bool Arith Lia.
From FB.Base Require Import PyVal Fs.
From FB.Gen Require Import JsonUtilGen.
From FB.Spec Require Import Prog.
From FB.Model Require Import Types Monad CreatedFiles BuildDirs SimpleOps Builder Build Run.
From FB.Proofs Require Import FsLemmas CleanLaws JsonLaws CoreLawsChildren ReplayLaws BuildFileLaws
     ViewDefs ViewLemmas ViewScan ViewQueries ViewAnswers ViewPres ViewOverlay ViewOverlay2
     ViewXDefs ViewXFail ViewH4 ViewR1 ViewR2 ViewR4.
Import ListNotations.
Open Scope list_scope.
Open Scope m_scope.

Definition KE : exn := XCrash "KeyError in CreatedFiles.error_building_file".

(* ------------------------------------------------------------------ the comparison of a creatable path *)
Lemma absent_err_ok : forall fs p, path_ok p = true -> absent_err fs p = ENOENT \/ absent_err fs p = ENOTDIR.
Proof.
  intros fs p. induction p as [|n d IH]; intro H; cbn [absent_err]; [left; reflexivity|].
  cbn [path_ok forallb] in H. apply andb_true_iff in H. destruct H as [Hn Hd].
  destruct (lookup fs d) as [[g|]|]; [right; reflexivity|rewrite Hn; left; reflexivity|apply IH; exact Hd].
Qed.

Lemma fcr_err : forall p c w w1 e, path_ok p = true -> file_comparison_result p c w = (w1, inr e) ->
  e = XOS XIsADirectory \/ e = XOS XFileNotFound \/ e = XOS XNotADirectory.
Proof.
  intros p c w w1 e Hp H.
  assert (Hst: forall fs, XOS (err_of (stat_err fs p)) = XOS XFileNotFound \/ XOS (err_of (stat_err fs p)) = XOS XNotADirectory).
  { intro fs. unfold stat_err. destruct (absent_err_ok fs p Hp) as [K|K]; rewrite K; cbn; auto. }
  assert (Hst': forall fs, XOS (err_of (stat_err fs p)) = XOS XIsADirectory \/ XOS (err_of (stat_err fs p)) = XOS XFileNotFound \/
                            XOS (err_of (stat_err fs p)) = XOS XNotADirectory).
  { intro fs. destruct (Hst fs) as [K|K]; rewrite K; auto. }
  destruct c; cbn [file_comparison_result] in H.
  - unfold file_metadata in H. destruct (lookup (w_fs w) p) as [[g|]|]; inversion H; subst; auto.
  - unfold file_hash in H. cbv zeta in H.
    destruct (hash_get (w_hash w) p) as [[h b]|].
    + destruct (Bool.eqb b (cache_has_file (w_new w) p)).
      * destruct (isfile (w_fs w) p); [inversion H|]. destruct (isdir (w_fs w) p); inversion H; subst; auto.
      * destruct (lookup (w_fs w) p) as [[g|]|]; inversion H; subst; auto.
    + destruct (lookup (w_fs w) p) as [[g|]|]; inversion H; subst; auto.
Qed.

Lemma noneable_cmp_noraise : forall p c w w' e, path_ok p = true -> noneable_cmp p c w <> (w', inr e).
Proof.
  intros p c w w' e Hp H. unfold noneable_cmp, catch in H.
  destruct (file_comparison_result p c w) as [w1 [v|e1]] eqn:E; [discriminate|].
  destruct (fcr_err _ _ _ _ _ Hp E) as [K | [K | K]]; subst e1; cbn in H; discriminate.
Qed.

(* ------------------------------------------------------------------ _dirs_to_make *)
#[local] Hint Resolve m_is_removed_v is_file_no_read_v is_cache_file_v m_is_file_v m_is_dir_v dirs_to_make_v : pres.

Lemma dirs_to_make_oso : forall d cf, OSO (dirs_to_make d cf).
Proof.
  induction d as [|n d IH]; intro cf; cbn [dirs_to_make].
  - apply OSO_bind; [apply m_is_dir_oso|apply m_is_dir_v|]. intro isd.
    apply OSO_bind; [destruct isd; [apply OSO_ret|apply m_is_file_oso]|destruct isd; [apply pres_ret|apply m_is_file_v]|].
    intro isf. destruct isf; [apply OSO_raise; reflexivity|]. destruct isd; [apply OSO_ret|].
    apply OSO_bind; [apply is_cache_file_oso|apply is_cache_file_v|]. intro icf.
    destruct icf; apply OSO_raise; reflexivity.
  - apply OSO_bind; [apply m_is_dir_oso|apply m_is_dir_v|]. intro isd.
    apply OSO_bind; [destruct isd; [apply OSO_ret|apply m_is_file_oso]|destruct isd; [apply pres_ret|apply m_is_file_v]|].
    intro isf. destruct isf; [apply OSO_raise; reflexivity|]. destruct isd; [apply OSO_ret|].
    apply OSO_bind; [apply is_cache_file_oso|apply is_cache_file_v|]. intro icf.
    destruct icf; [apply OSO_raise; reflexivity|].
    apply OSO_bind; [apply IH|apply dirs_to_make_v|]. intro r. apply OSO_ret.
Qed.

(* ------------------------------------------------------------------ the overlay directories stay shallow *)
Lemma DL_empty : DL cf_empty.
Proof. intros x H. discriminate. Qed.

Lemma DL_dirs : forall c c', cf_dirs c' = cf_dirs c -> DL c -> DL c'.
Proof. intros c c' E H x Hx. apply H. rewrite <- E. exact Hx. Qed.

Lemma DL_started_from : forall parent c, DL c -> List.length parent < walk_fuel -> DL (cf_started_from c parent).
Proof.
  induction parent as [|n d IH]; intros c HD Hl; cbn [cf_started_from].
  - destruct (Nat.ltb 0 _); [apply (DL_dirs c); [reflexivity|exact HD]|].
    intros x Hx. cbn in Hx. rewrite mem_add_path in Hx. apply orb_true_iff in Hx. destruct Hx as [Hx|Hx].
    + apply path_eqb_eq in Hx. subst x. exact Hl.
    + apply HD. exact Hx.
  - destruct (Nat.ltb 0 _); [apply (DL_dirs c); [reflexivity|exact HD]|].
    apply IH; [|simpl in Hl; lia].
    intros x Hx. rewrite (proj2 (add_sub_fields _ _)) in Hx. cbn [cf_dirs cf_with] in Hx.
    rewrite mem_add_path in Hx. apply orb_true_iff in Hx. destruct Hx as [Hx|Hx].
    + apply path_eqb_eq in Hx. subst x. exact Hl.
    + apply HD. exact Hx.
Qed.

Lemma DL_started : forall c p, DL c -> List.length p < walk_fuel -> DL (cf_started c p).
Proof. intros c [|n d] HD Hl; cbn [cf_started]; [exact HD|]. apply DL_started_from; [exact HD|simpl in Hl; lia]. Qed.

Lemma DL_finished : forall c p, DL c -> DL (cf_finished c p).
Proof. intros c p HD. unfold cf_finished. apply (DL_dirs c); [|exact HD]. rewrite (proj2 (add_sub_fields _ _)). reflexivity. Qed.

Lemma remove_sub_dirs : forall c p c', cf_remove_from_subfiles c p = Some c' -> cf_dirs c' = cf_dirs c.
Proof.
  intros c [|n d] c' H; cbn [cf_remove_from_subfiles] in H; [inversion H; reflexivity|].
  destruct (sub_get (cf_sub c) d); [|discriminate]. destruct (negb (mem_str n l)); [discriminate|].
  inversion H; subst. reflexivity.
Qed.

Lemma DL_error_from : forall parent c c', cf_error_from c parent = Some c' -> DL c -> DL c'.
Proof.
  induction parent as [|n d IH]; intros c c' H HD; cbn [cf_error_from] in H.
  - destruct (cnt_get (cf_counts c) []) as [k|]; [|discriminate].
    destruct (Nat.ltb 0 (k - 1)); [inversion H; subst; apply (DL_dirs c); [reflexivity|exact HD]|].
    destruct (negb (mem_path [] (cf_dirs c))); [discriminate|].
    match type of H with match ?X with _ => _ end = _ => destruct X as [c2|] eqn:E2 end; [|discriminate].
    inversion H; subst. intros x Hx. rewrite (remove_sub_dirs _ _ _ E2) in Hx. cbn [cf_dirs cf_with] in Hx.
    rewrite mem_del_path in Hx. apply andb_true_iff in Hx. apply HD. apply Hx.
  - destruct (cnt_get (cf_counts c) (n :: d)) as [k|]; [|discriminate].
    destruct (Nat.ltb 0 (k - 1)); [inversion H; subst; apply (DL_dirs c); [reflexivity|exact HD]|].
    destruct (negb (mem_path (n :: d) (cf_dirs c))); [discriminate|].
    match type of H with match ?X with _ => _ end = _ => destruct X as [c2|] eqn:E2 end; [|discriminate].
    apply (IH _ _ H). intros x Hx. rewrite (remove_sub_dirs _ _ _ E2) in Hx. cbn [cf_dirs cf_with] in Hx.
    rewrite mem_del_path in Hx. apply andb_true_iff in Hx. apply HD. apply Hx.
Qed.

Lemma DL_error : forall c p c', cf_error c p = Some c' -> DL c -> DL c'.
Proof. intros c [|n d] c' H HD; cbn [cf_error] in H; [inversion H; subst; exact HD|apply (DL_error_from _ _ _ H HD)]. Qed.

(* ------------------------------------------------------------------ the worlds of a replay *)
Definition WB (w : world) : Prop := BInv w /\ maxlen (w_fs w) < walk_fuel.

Lemma WB_step : forall X (m : world -> world * X) w w' r, WB w -> pres vPO m -> pres svbPO m -> m w = (w', r) -> WB w'.
Proof.
  intros X m w w' r [HB HF] Hv Hs H. split; [apply (good_BInv _ _ (Hv _ _ _ H HB))|].
  rewrite (svb_fs _ _ (Hs _ _ _ H)). exact HF.
Qed.

Definition post (r : (bool * cfiles) + exn) : Prop :=
  match r with inl (b, cf') => DL cf' | inr e => e = KE end.

Lemma simple_noraise : forall q rt ex cf w w' e, WB w -> DL cf ->
  is_simple_operation_cached q rt ex cf w <> (w', inr e).
Proof.
  intros q rt ex cf w w' e [HB Hml] HD H. unfold is_simple_operation_cached in H.
  apply bind_inv in H. unfold attempt in H. destruct (exec_query q (Some cf) w) as [w1 x] eqn:E.
  destruct H as [[wa [r [Ea H]]]|[e' [Ea _]]]; [|discriminate]. inversion Ea; subst wa r.
  pose proof (exec_query_osr _ _ _ _ _ HB HD Hml E) as K.
  destruct x as [v|[]]; cbn in K; try discriminate; inversion H.
Qed.

Definition GO : list op -> cfiles -> M (bool * cfiles) :=
  fix go (subs : list op) (cf : cfiles) {struct subs} : M (bool * cfiles) :=
    match subs with
    | [] => ret (true, cf)
    | s :: rest => r <- is_op_cached s cf ;; if fst r then go rest (snd r) else ret (false, snd r)
    end.

Lemma subs_go_err : forall subs,
  Forall (fun o => forall cf w w' r, wfrec o = true -> WB w -> DL cf -> is_op_cached o cf w = (w', r) -> post r) subs ->
  forall cf w w' r, forallb wfrec subs = true -> WB w -> DL cf -> GO subs cf w = (w', r) -> post r.
Proof.
  intros subs H. induction H as [|s rest Hs Hrest IH]; intros cf w w' r Hg HW HD Hgo; cbn [GO] in Hgo.
  - inversion Hgo; subst. exact HD.
  - cbn [forallb] in Hg. apply andb_true_iff in Hg. destruct Hg as [Hg1 Hg2].
    apply bind_inv in Hgo. destruct Hgo as [[wa [r1 [E Hgo]]]|[e [E Er]]].
    + pose proof (Hs cf w wa (inl r1) Hg1 HW HD E) as P1. destruct r1 as [b1 cf1]. cbn [post] in P1. cbn [fst snd] in Hgo.
      pose proof (WB_step _ _ _ _ _ HW (is_op_cached_v _ _) (is_op_cached_svb _ _) E) as HWa.
      destruct b1; [apply (IH cf1 wa w' r Hg2 HWa P1 Hgo)|inversion Hgo; subst; exact P1].
    + subst r. apply (Hs cf w w' (inr e) Hg1 HW HD E).
Qed.

Theorem is_op_cached_err : forall o cf w w' r, wfrec o = true -> WB w -> DL cf ->
  is_op_cached o cf w = (w', r) -> post r.
Proof.
  induction o as [q rt ex|p c f a k subs rt cr ra sf IH|f a k subs rt ra sf IH] using op_ind';
    intros cf w w' r Hg HW HD H; cbn [is_op_cached] in H; cbn [wfrec] in Hg.
  - apply bind_inv in H. destruct H as [[wa [b [Eb H]]]|[e [Eb _]]].
    + inversion H; subst. exact HD.
    + exfalso. apply (simple_noraise _ _ _ _ _ _ _ HW HD Eb).
  - pose proof (subs_go_err subs IH) as Hgo. fold GO in H.
    apply andb_true_iff in Hg. destruct Hg as [Hg Hg3]. apply andb_true_iff in Hg. destruct Hg as [Hg1 Hg2].
    unfold tgt_ok in Hg2. apply andb_true_iff in Hg2. destruct Hg2 as [Hpok Hplen]. apply Nat.ltb_lt in Hplen.
    apply bind_inv in H. unfold get in H. destruct H as [[w1 [w0 [E H]]]|[e [E _]]]; [|discriminate].
    inversion E; subst w1 w0.
    destruct (cache_has_file (w_new w) p || path_eqb p (w_cachefile w)); [inversion H; subst; exact HD|].
    apply bind_inv in H. destruct H as [[w1 [ve [Ev H]]]|[e [Ev _]]].
    2:{ unfold version_equal, bind, get, ret in Ev. discriminate. }
    pose proof (WB_step _ _ _ _ _ HW (version_equal_v _) (version_equal_svb _) Ev) as HW1.
    destruct (negb ve); [inversion H; subst; exact HD|].
    apply bind_inv in H. destruct H as [[w2 [ok [Eo H]]]|[e [Eo _]]].
    2:{ exfalso. destruct ra; [discriminate|]. unfold is_build_file_cached in Eo. apply bind_inv in Eo.
        destruct Eo as [[w3 [cur [En Eo]]]|[e' [En _]]]; [discriminate|]. apply (noneable_cmp_noraise _ _ _ _ _ Hpok En). }
    assert (HW2: WB w2).
    { destruct ra; [inversion Eo; subst; exact HW1|].
      apply (WB_step _ _ _ _ _ HW1 (is_build_file_cached_v _ _ _) (is_build_file_cached_svb _ _ _) Eo). }
    destruct (negb ok); [inversion H; subst; exact HD|].
    apply bind_inv in H. unfold get in H. destruct H as [[w3 [w0 [E3 H]]]|[e [E3 _]]]; [|discriminate].
    inversion E3; subst w3 w0.
    destruct (ra && lexists (w_fs w2) p); [inversion H; subst; exact HD|].
    destruct sf; [inversion H; subst; exact HD|].
    apply bind_inv in H. destruct H as [[w3 [dres [Ed H]]]|[e [Ed _]]].
    2:{ unfold attempt in Ed. destruct (dirs_to_make (dirname p) (Some cf) w2); discriminate. }
    unfold attempt in Ed. destruct (dirs_to_make (dirname p) (Some cf) w2) as [w4 x] eqn:E4. inversion Ed; subst w4 dres.
    pose proof (WB_step _ _ _ _ _ HW2 (dirs_to_make_v _ _) (dirs_to_make_svb _ _) E4) as HW3.
    destruct x as [ds|e].
    2:{ pose proof (dirs_to_make_oso _ _ _ _ _ (proj1 HW2) E4) as K. cbn in K. rewrite K in H. inversion H; subst. exact HD. }
    apply bind_inv in H. destruct H as [[w4 [rr [Es H]]]|[e [Es Er]]].
    2:{ subst r. apply (Hgo _ _ _ _ Hg3 HW3 (DL_started _ _ HD Hplen) Es). }
    pose proof (Hgo _ _ _ _ Hg3 HW3 (DL_started _ _ HD Hplen) Es) as P1. destruct rr as [b1 cf1]. cbn [post] in P1.
    cbn [fst snd] in H. destruct b1; cbn [negb] in H; [|inversion H; subst; exact P1].
    destruct ra.
    + destruct (cf_error cf1 p) as [cf2|] eqn:Ee; inversion H; subst.
      * apply (DL_error _ _ _ Ee P1).
      * reflexivity.
    + inversion H; subst. apply DL_finished. exact P1.
  - pose proof (subs_go_err subs IH) as Hgo. fold GO in H.
    apply bind_inv in H. destruct H as [[w1 [ve [Ev H]]]|[e [Ev _]]].
    2:{ unfold version_equal, bind, get, ret in Ev. discriminate. }
    pose proof (WB_step _ _ _ _ _ HW (version_equal_v _) (version_equal_svb _) Ev) as HW1.
    destruct (negb ve || sf); [inversion H; subst; exact HD|].
    apply bind_inv in H. unfold get in H. destruct H as [[w2 [w0 [E2 H]]]|[e [E2 _]]]; [|discriminate].
    inversion E2; subst w2 w0.
    destruct (cache_has_subbuild (w_new w1) (subbuild_key f a k)); [inversion H; subst; exact HD|].
    apply (Hgo _ _ _ _ Hg HW1 HD H).
Qed.

Lemma are_subs_cached_err : forall subs cf w w' r, forallb wfrec subs = true -> WB w -> DL cf ->
  are_subs_cached subs cf w = (w', r) -> post r.
Proof.
  induction subs as [|s rest IH]; intros cf w w' r Hg HW HD H; cbn [are_subs_cached] in H.
  - inversion H; subst. exact HD.
  - cbn [forallb] in Hg. apply andb_true_iff in Hg. destruct Hg as [Hg1 Hg2].
    apply bind_inv in H. destruct H as [[wa [r1 [E H]]]|[e [E Er]]].
    + pose proof (is_op_cached_err s cf w wa (inl r1) Hg1 HW HD E) as P1. destruct r1 as [b1 cf1]. cbn [post] in P1. cbn [fst snd] in H.
      pose proof (WB_step _ _ _ _ _ HW (is_op_cached_v _ _) (is_op_cached_svb _ _) E) as HWa.
      destruct b1; [apply (IH cf1 wa w' r Hg2 HWa P1 H)|inversion H; subst; exact P1].
    + subst r. apply (is_op_cached_err s cf w w' (inr e) Hg1 HW HD E).
Qed.

(* ------------------------------------------------------------------ the lookups *)
Theorem lookup_only_keyerror : forall p f a k w wl e, WB w -> WfCache (w_old w) ->
  build_file_cache_lookup p f a k w = (wl, inr e) -> e = KE.
Proof.
  intros p f a k w wl e HW [HWf _] H. unfold build_file_cache_lookup in H. apply bind_inv in H. unfold get in H.
  destruct H as [[w1 [w0 [E H]]]|[e' [E _]]]; [|discriminate]. inversion E; subst w1 w0.
  destruct (cache_get_file (w_old w) p) as [[q r ex|p' c' f' a' k' subs' r' cr' ra' sf'|f' a' k' subs' r' ra' sf']|] eqn:Eg;
    try (inversion H; fail).
  pose proof (HWf _ _ Eg) as Hg. cbn [wfrec] in Hg.
  apply andb_true_iff in Hg. destruct Hg as [Hg Hg3]. apply andb_true_iff in Hg. destruct Hg as [Hg1 Hg2].
  unfold tgt_ok in Hg2. apply andb_true_iff in Hg2. destruct Hg2 as [Hpok _].
  destruct ra'; [inversion H|]. destruct (negb (String.eqb f' f)); [inversion H|].
  apply bind_inv in H. destruct H as [[w1 [ve [Ev H]]]|[e' [Ev _]]].
  2:{ unfold version_equal, bind, get, ret in Ev. discriminate. }
  pose proof (WB_step _ _ _ _ _ HW (version_equal_v _) (version_equal_svb _) Ev) as HW1.
  destruct (negb ve); [inversion H|].
  destruct (negb (is_equal a' a)); [inversion H|]. destruct (negb (is_equal k' k)); [inversion H|].
  apply bind_inv in H. destruct H as [[w2 [ok [Eo H]]]|[e' [Eo _]]].
  2:{ exfalso. unfold is_build_file_cached in Eo. apply bind_inv in Eo.
      destruct Eo as [[w3 [cur [En Eo]]]|[e'' [En _]]]; [discriminate|]. apply (noneable_cmp_noraise _ _ _ _ _ Hpok En). }
  pose proof (WB_step _ _ _ _ _ HW1 (is_build_file_cached_v _ _ _) (is_build_file_cached_svb _ _ _) Eo) as HW2.
  destruct (negb ok); [inversion H|].
  apply bind_inv in H. destruct H as [[w3 [rr [Es H]]]|[e' [Es Er]]].
  - destruct (fst rr); inversion H.
  - inversion Er; subst e'. apply (are_subs_cached_err _ _ _ _ _ Hg3 HW2 DL_empty Es).
Qed.

Theorem sublookup_only_keyerror : forall key f w wl e, WB w -> WfCache (w_old w) ->
  subbuild_cache_lookup key f w = (wl, inr e) -> e = KE.
Proof.
  intros key f w wl e HW [_ HWf] H. unfold subbuild_cache_lookup in H. apply bind_inv in H. unfold get in H.
  destruct H as [[w1 [w0 [E H]]]|[e' [E _]]]; [|discriminate]. inversion E; subst w1 w0.
  destruct (subs_get (c_subs (w_old w)) key) as [[[q r ex|p' c' f' a' k' subs' r' cr' ra' sf'|f' a' k' subs' r' ra' sf']|]|] eqn:Eg;
    try (inversion H; fail).
  pose proof (HWf _ _ Eg) as Hg. cbn [wfrec] in Hg.
  destruct ra'; [inversion H|].
  apply bind_inv in H. destruct H as [[w1 [ve [Ev H]]]|[e' [Ev _]]].
  2:{ unfold version_equal, bind, get, ret in Ev. discriminate. }
  pose proof (WB_step _ _ _ _ _ HW (version_equal_v _) (version_equal_svb _) Ev) as HW1.
  destruct (negb ve); [inversion H|].
  apply bind_inv in H. destruct H as [[w3 [rr [Es H]]]|[e' [Es Er]]].
  - destruct (fst rr); inversion H.
  - inversion Er; subst e'. apply (are_subs_cached_err _ _ _ _ _ Hg HW1 DL_empty Es).
Qed.

(* ------------------------------------------------------------------ the reduction *)
Section XC.
Variable Xc : cache -> Prop.
Local Notation RInv2 := (ViewR2.RInv2 Xc).

Definition NoKeyError : Prop :=
  forall T w, RInv2 T w ->
    (forall p f a k wl, build_file_cache_lookup p f a k w <> (wl, inr KE)) /\
    (forall k f wl, subbuild_cache_lookup k f w <> (wl, inr KE)).

Lemma RInv2_WB : forall T w, RInv2 T w -> WB w.
Proof. intros T w ((HX & _ & _) & (_ & Hml) & _). split; [apply (x_binv _ _ HX)|exact Hml]. Qed.

Theorem noraise_of_nokeyerror : NoKeyError -> NoRaise Xc.
Proof.
  intros HK T w HR. pose proof (RInv2_WB _ _ HR) as HW. pose proof HR as (_ & _ & HWf & _). split.
  - intros p f a k wl e H. pose proof (lookup_only_keyerror _ _ _ _ _ _ _ HW HWf H) as ->.
    apply (proj1 (HK T w HR) _ _ _ _ _ H).
  - intros k f wl e H. pose proof (sublookup_only_keyerror _ _ _ _ _ HW HWf H) as ->.
    apply (proj2 (HK T w HR) _ _ _ H).
Qed.
End XC.

Print Assumptions is_op_cached_err.
Print Assumptions lookup_only_keyerror.
Print Assumptions noraise_of_nokeyerror.
