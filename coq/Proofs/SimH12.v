(* Proofs/SimH12.v — CacheRTOpen.committed_cache_wf_next_statement, intermediate results.
   For a committed build that starts from the cache file of a writable cache:
     SimH9.committed_cache_next_file_partial      name, versions, created directories listed once,
                                                  no entry in progress, the cache file holds cache_to_json;
     SimH11.committed_cache_next_writable_partial writable (forest records well formed, legal directories,
                                                  sanitized versions);
     [committed_cache_next_keys_partial] (here)   the keys of each table are pairwise different.
   [committed_cache_wf_next_rest_statement] (here, a Prop): the remaining conjuncts — the tables are those
   of the forest and the forest is forest_good.  It is PROVED in SimH17 (committed_cache_wf_next_rest),
   together with the whole statement (committed_cache_wf_next), from:
     (1) SimH13: a successful lookup implies Builder.assert_no_repeats, so Cache.use_cached_operation does
         not fail and no record "setup failed" with suboperations is ever made;
     (2) SimH14: register_op appends fents (pre o) / sents (pre o) when the keys of the tree are new and
         pairwise different; assert_no_repeats gives "new"; no setup-failed node gives SimH4.shape;
     (3) SimH15: the keys of a reused tree are pairwise different (forest_good of the old forest on the
         segment [kl co] of the registration order); for a reused SUBBUILD record the new record carries
         the NEW arguments, whose key is only py_eq-equal to the recorded one: no transitivity of is_equal
         is needed, because the old table lists a record AFTER its descendants and subs_get returns the
         FIRST entry whose key matches, so no descendant key matches the new key;
     (4) SimH16: bf_setup / sb_setup / run with the hit case (run_T2). *)
From Coq Require Import List String Ascii NArith ZArith Bool Arith Lia Permutation.
From FB.Base Require Import PyVal Fs.
From FB.Gen Require Import JsonUtilGen.
From FB.Spec Require Import JsonSpec Prog.
From FB.Model Require Import Types Monad CreatedFiles BuildDirs SimpleOps Builder PathNorm Persist PersistSpec Build Run.
From FB.Proofs Require Import FsLemmas JsonLaws PersistLaws ReplayLaws BuildFileLaws
  CacheRTDefs CacheRTLaws CacheRTForest CacheRTOpen SimH1 SimH5 SimH8 SimH9.
Import ListNotations.
Local Open Scope list_scope.

Definition committed_cache_wf_next_rest_statement : Prop :=
  forall cf nm vers svers root w w' v f0 c0 roots0,
    sanitize vers = Some svers -> path_wf cf = true -> prog_paths_wf root ->
    fs_wf (w_fs w) -> w_faults w = [] ->
    lookup (w_fs w) cf = Some (NFile f0) -> f_json f0 = cache_to_json c0 ->
    writable c0 roots0 -> forest_good roots0 -> c_name c0 = nm ->
    run_build cf nm vers root w = (w', Done (inl v)) ->
    let c := w_new w' in
    forall roots, cache_forest c = Some roots ->
      tables_perm_forest c roots /\
      (forall p, files_get (c_files c) p =
                 files_get (c_files (tables_of (c_name c) (c_fvers c) (c_dirs c) roots)) p) /\
      forest_good roots.

(* the keys of the tables of the committed cache are pairwise different, whatever the old cache *)
Theorem accepted_cache_keys : forall cf nm vers svers root w w' v old,
  sanitize vers = Some svers -> accepted cf nm svers w old ->
  run_build cf nm vers root w = (w', Done (inl v)) ->
  pw path_eqb (map fst (c_files (w_new w'))) = true /\ pw py_eq (map fst (c_subs (w_new w'))) = true.
Proof.
  intros cf nm vers svers root w w' v old Hs Hacc H.
  destruct (accepted_build_end _ _ _ _ _ _ _ _ _ Hs Hacc H) as (w1 & ccd & w2 & l & E1 & E2 & Hn & _).
  destruct (make_dirs_new _ _ _ _ E1) as (N1 & _ & _).
  assert (Ki : KI (w_new (set_log (LInvoke "<root>" None PNone PNone :: w_log w1) w1))).
  { cbn [w_new set_log]. rewrite N1. split; reflexivity. }
  pose proof (run_K _ _ _ _ _ _ E2 Ki) as [Kf Ks].
  rewrite Hn. unfold new_cache_of. cbn [c_files c_subs cache_with]. split; assumption.
Qed.

Theorem committed_cache_next_keys_partial : forall cf nm vers svers root w w' v f0 c0 roots0,
  sanitize vers = Some svers ->
  lookup (w_fs w) cf = Some (NFile f0) -> f_json f0 = cache_to_json c0 ->
  writable c0 roots0 -> c_name c0 = nm ->
  run_build cf nm vers root w = (w', Done (inl v)) ->
  pw path_eqb (map fst (c_files (w_new w'))) = true /\ pw py_eq (map fst (c_subs (w_new w'))) = true.
Proof.
  intros cf nm vers svers root w w' v f0 c0 roots0 Hs Hl Hj Hw Hn H.
  exact (accepted_cache_keys cf nm vers svers root w w' v _ Hs (next_accepted cf nm svers w f0 c0 roots0 Hl Hj Hw Hn) H).
Qed.

Print Assumptions committed_cache_next_keys_partial.
