(* Proofs/CoreLaws3.v — Core, one node at a time: unfolding equations for core_run and
   kreplay, and what a successful replay tells about the records and the scratch tree. *)
From Coq Require Import List String Ascii NArith ZArith Bool Arith Lia.
From FB.Base Require Import PyVal Fs.
From FB.Gen Require Import JsonUtilGen.
From FB.Spec Require Import JsonSpec Prog Ref Faithful.
From FB.Model Require Import Types SimpleOps Builder Persist Core.
From FB.Proofs Require Import FsLemmas CleanLaws CoreLawsChildren CoreLaws1 CoreLaws2.
Import ListNotations.
Local Open Scope list_scope.

(* ------------------------------------------------------------------ *)
(* kreplay                                                            *)
(* ------------------------------------------------------------------ *)
Lemma subs_ok_eq : forall s subs r,
  (fix go (subs : list op) (r : rstate') {struct subs} : option rstate' :=
     match subs with
     | [] => Some r
     | x :: rest => match kreplay s x r with Some r' => go rest r' | None => None end
     end) subs r = kreplay_list s subs r.
Proof. intros s subs. induction subs as [|x rest IH]; intro r; simpl; [reflexivity|]. destruct (kreplay s x r); auto. Qed.

Definition rp_start (r : rstate') (p : path) (fs1 : fsT) (dirs : list path) : rstate' :=
  {| rp_fs := try_remove fs1 p; rp_need := p :: rp_need r; rp_made := rp_made r ++ dirs;
     rp_claimedF := rp_claimedF r; rp_claimedS := rp_claimedS r |}.
Definition rp_put (r2 : rstate') (p : path) (f : fnode) : rstate' :=
  {| rp_fs := upd p (Some (NFile f)) (rp_fs r2); rp_need := rp_need r2; rp_made := rp_made r2;
     rp_claimedF := rp_claimedF r2; rp_claimedS := rp_claimedS r2 |}.

Definition on_disk (s : kstate) (p : path) (c : cmpmode) (cmpres : pyval) (raised : bool) : bool :=
  if raised then negb (phys_exists s p)
  else match phys (k_fs s) (k_stale s) p with Some f => is_equal cmpres (cmp_of c f) | None => false end.

Lemma kreplay_BF : forall s p c fname a k subs ret_ cmpres raised sf r,
  kreplay s (OBuildFile p c fname a k subs ret_ cmpres raised sf) r =
  if negb (kversion_equal s fname) then None else
  if sf then None else
  if on_disk s p c cmpres raised then
    if mem_path p (rp_claimedF r) || path_eqb p (k_cachefile s) then None else
    match missing_dirs (rp_fs r) (k_cachefile s) (dirname p) with
    | inr _ => None
    | inl dirs =>
        match mkdir_all (rp_fs r) dirs with
        | inr _ => None
        | inl fs1 =>
            match kreplay_list s subs (rp_start r p fs1 dirs) with
            | None => None
            | Some r2 =>
                if raised then Some (rp_prune r2 p)
                else match phys (k_fs s) (k_stale s) p with
                     | Some f => Some (rp_put r2 p f)
                     | None => None
                     end
            end
        end
    end
  else None.
Proof.
  intros. cbn [kreplay]. unfold on_disk.
  destruct (negb (kversion_equal s fname)); [reflexivity|]. destruct sf; [reflexivity|].
  match goal with |- (if ?c then _ else _) = _ => destruct c end; [|reflexivity].
  destruct (mem_path p (rp_claimedF r) || path_eqb p (k_cachefile s)); [reflexivity|].
  destruct (missing_dirs (rp_fs r) (k_cachefile s) (dirname p)) as [dirs|e]; [|reflexivity].
  destruct (mkdir_all (rp_fs r) dirs) as [fs1|e]; [|reflexivity].
  rewrite subs_ok_eq. reflexivity.
Qed.

Lemma kreplay_SB : forall s fname a k subs ret_ raised sf r,
  kreplay s (OSubbuild fname a k subs ret_ raised sf) r =
  if negb (kversion_equal s fname) || sf then None else
  if existsb (py_eq (subbuild_key fname a k)) (rp_claimedS r) then None else
  kreplay_list s subs r.
Proof.
  intros. cbn [kreplay]. destruct (negb (kversion_equal s fname) || sf); [reflexivity|].
  destruct (existsb (py_eq (subbuild_key fname a k)) (rp_claimedS r)); [reflexivity|].
  rewrite subs_ok_eq. reflexivity.
Qed.

Lemma kreplay_Simple : forall s q ret_ ex r,
  kreplay s (OSimple q ret_ ex) r =
  match record_answer (rp_fs r) q, ex with
  | inl v, None => if is_equal v ret_ then Some r else None
  | inr c, Some c' => if is_equal PNone ret_ && errclass_eqb c c' then Some r else None
  | _, _ => None
  end.
Proof. reflexivity. Qed.

Lemma kreplay_list_cons : forall s x rest r,
  kreplay_list s (x :: rest) r = match kreplay s x r with Some r' => kreplay_list s rest r' | None => None end.
Proof. reflexivity. Qed.

(* ------------------------------------------------------------------ *)
(* core_run, one node at a time                                       *)
(* ------------------------------------------------------------------ *)
Definition core_s0 (s : kstate) (p : path) (fs1 : fsT) (dirs : list path) : kstate :=
  ks_with s fs1 (k_stale s) (k_claimedF s) (k_claimedS s) (p :: k_need s) (k_made s ++ dirs)
          (k_clock s) (k_nextid s) (k_log s) (k_newF s) (k_newS s).

Definition core_hit (s s0 : kstate) (p : path) (fname : string) (sa skw : pyval)
  : option (fnode * list op * pyval * rstate') :=
  match cache_get_file (k_old s) p with
  | Some (OBuildFile p' c' fname' a' k' subs' ret' cmpres' raised' sf') =>
      if raised' then None else
      if negb (String.eqb fname' fname) then None else
      if negb (kversion_equal s fname) then None else
      if negb (is_equal a' sa) || negb (is_equal k' skw) then None else
      match phys (k_fs s0) (k_stale s0) p with
      | Some f =>
          if negb (is_equal cmpres' (cmp_of c' f)) then None else
          match kreplay_list s0 subs' (start_replay s0) with
          | Some r => Some (f, subs', ret', r)
          | None => None
          end
      | None => None
      end
  | _ => None
  end.

Definition core_put (s1 : kstate) (p : path) (f : fnode) : kstate :=
  ks_with s1 (upd p (Some (NFile f)) (k_fs s1)) (stale_del (k_stale s1) p)
          (k_claimedF s1) (k_claimedS s1) (k_need s1) (k_made s1)
          (k_clock s1) (k_nextid s1) (k_log s1) (k_newF s1) (k_newS s1).

Definition core_start (s0 : kstate) (p : path) (fname : string) (sa skw : pyval) : kstate :=
  klog (LInvoke fname (Some p) sa skw)
       (ks_with s0 (try_remove (k_fs s0) p) (stale_del (k_stale s0) p)
                (p :: k_claimedF s0) (k_claimedS s0) (k_need s0) (k_made s0)
                (k_clock s0) (k_nextid s0) (k_log s0) (k_newF s0) (k_newS s0)).

Definition core_prune (s2 : kstate) (p : path) (o : op) : kstate :=
  let need := del_path p (k_need s2) in
  let dead := filter (fun d => is_ancestor d p && negb (existsb (is_ancestor d) need)) (k_made s2) in
  ks_with s2 (fold_left try_rmdir (deepest_first dead) (k_fs s2)) (k_stale s2)
          (k_claimedF s2) (k_claimedS s2) need
          (filter (fun d => negb (mem_path d dead)) (k_made s2))
          (k_clock s2) (k_nextid s2) (k_log s2) (k_newF s2 ++ [(p, o)]) (k_newS s2).

Definition core_finish (s2 : kstate) (p : path) (c : cmpmode) (fname : string) (sa skw : pyval)
           (bsubs : list op) (res : outcome) (pend : option string) : kstate * outcome * op :=
  let mk sb ret_ cmpres raised sf := OBuildFile p c fname sa skw sb ret_ cmpres raised sf in
  let fail (e : exn) := let o := mk bsubs PNone PNone true false in (core_prune s2 p o, @inr pyval exn e, o) in
  match res with
  | inr e => fail e
  | inl v =>
      match sanitize v with
      | None => fail XType
      | Some sv =>
          match pend with
          | None => fail (if path_ok p then XRuntime RNotCreated else XOS XOSError)
          | Some bytes =>
              match write_file (k_fs s2) p bytes None (k_clock s2) (k_nextid s2) with
              | inl fs3 =>
                  let cmp := match lookup fs3 p with Some (NFile f) => cmp_of c f | _ => PNone end in
                  let o := mk bsubs sv cmp false false in
                  (ks_with s2 fs3 (k_stale s2) (k_claimedF s2) (k_claimedS s2) (k_need s2) (k_made s2)
                           (k_clock s2) (N.succ (k_nextid s2)) (k_log s2) (k_newF s2 ++ [(p, o)]) (k_newS s2),
                   inl sv, o)
              | inr e => fail (XOS (err_of e))
              end
          end
      end
  end.

Lemma core_run_Ask : forall st q k tgt pend subs s,
  core_run (Ask st q k) tgt pend subs s =
  if st then core_run (k (inr (XRuntime RFinished))) tgt pend subs s else
  let o := record_of q (record_answer (k_fs s) q) in
  match spec_answer (k_fs s) q with
  | inl v => core_run (k (inl v)) tgt pend (subs ++ [o]) (klog (LAnswer q (inl v)) s)
  | inr c => core_run (k (inr (XOS c))) tgt pend (subs ++ [o]) (klog (LAnswer q (inr c)) s)
  end.
Proof. reflexivity. Qed.

Definition ktick (s : kstate) : kstate :=
  ks_with s (k_fs s) (k_stale s) (k_claimedF s) (k_claimedS s) (k_need s) (k_made s)
          (N.succ (k_clock s)) (k_nextid s) (k_log s) (k_newF s) (k_newS s).

Lemma core_run_Write : forall c k tgt pend subs s,
  core_run (Write c k) tgt pend subs s =
  match tgt with
  | None => core_run k tgt pend subs s
  | Some p => if path_ok p then core_run k tgt (Some c) subs (ktick s) else (s, (inr (XOS XOSError), pend, subs))
  end.
Proof. reflexivity. Qed.

Lemma core_run_BuildFile : forall st p c fname a kw fn k tgt pend subs s,
  core_run (BuildFile st p c fname a kw fn k) tgt pend subs s =
  if st then core_run (k (inr (XRuntime RFinished))) tgt pend subs s else
  match sanitize a, sanitize kw with
  | Some sa, Some skw =>
      let sfrec := OBuildFile p c fname sa skw [] PNone PNone true true in
      match claim_check (k_claimedF s) (k_cachefile s) p with
      | Some e => core_run (k (inr e)) tgt pend (subs ++ [sfrec]) s
      | None =>
          match setup_fs (k_fs s) (k_cachefile s) p with
          | inr e => core_run (k (inr e)) tgt pend (subs ++ [sfrec]) s
          | inl (fs1, dirs) =>
              let s0 := core_s0 s p fs1 dirs in
              match core_hit s s0 p fname sa skw with
              | Some (f, subs', ret', r) =>
                  let o := OBuildFile p c fname sa skw subs' ret' (cmp_of c f) false false in
                  core_run (k (inl ret')) tgt pend (subs ++ [o]) (core_put (adopt s0 r o) p f)
              | None =>
                  let '(s2, (res, pend2, bsubs)) := core_run (fn p sa skw) (Some p) None [] (core_start s0 p fname sa skw) in
                  let '(s3, out, o) := core_finish s2 p c fname sa skw bsubs res pend2 in
                  core_run (k out) tgt pend (subs ++ [o]) s3
              end
          end
      end
  | _, _ => core_run (k (inr XType)) tgt pend subs s
  end.
Proof.
  intros. cbn [core_run]. destruct st; [reflexivity|].
  destruct (sanitize a) as [sa|]; [|reflexivity]. destruct (sanitize kw) as [skw|]; [|reflexivity].
  unfold claim_check, setup_fs.
  destruct (mem_path p (k_claimedF s)); [reflexivity|].
  destruct (path_eqb p (k_cachefile s)); [reflexivity|].
  destruct (isdir (k_fs s) p); [reflexivity|].
  destruct (missing_dirs (k_fs s) (k_cachefile s) (dirname p)) as [dirs|e]; [|reflexivity].
  destruct (mkdir_all (k_fs s) dirs) as [fs1|e]; [|reflexivity].
  cbv zeta. fold (core_s0 s p fs1 dirs).
  change (match cache_get_file (k_old s) p with
          | Some (OBuildFile _ c' fname' a' k' subs' ret' cmpres' raised' _) =>
              if raised' then None else
              if negb (String.eqb fname' fname) then None else
              if negb (kversion_equal s fname) then None else
              if negb (is_equal a' sa) || negb (is_equal k' skw) then None else
              match phys (k_fs (core_s0 s p fs1 dirs)) (k_stale (core_s0 s p fs1 dirs)) p with
              | Some f =>
                  if negb (is_equal cmpres' (cmp_of c' f)) then None else
                  match kreplay_list (core_s0 s p fs1 dirs) subs' (start_replay (core_s0 s p fs1 dirs)) with
                  | Some r => Some (f, subs', ret', r)
                  | None => None
                  end
              | None => None
              end
          | _ => None
          end) with (core_hit s (core_s0 s p fs1 dirs) p fname sa skw).
  destruct (core_hit s (core_s0 s p fs1 dirs) p fname sa skw) as [[[[f subs'] ret'] r]|]; [reflexivity|].
  fold (core_start (core_s0 s p fs1 dirs) p fname sa skw).
  destruct (core_run (fn p sa skw) (Some p) None [] (core_start (core_s0 s p fs1 dirs) p fname sa skw)) as [s2 [[res pend2] bsubs]].
  unfold core_finish. destruct res as [v|e]; [|reflexivity].
  destruct (sanitize v) as [sv|]; [|reflexivity].
  destruct pend2 as [bytes|]; [|reflexivity].
  destruct (write_file (k_fs s2) p bytes None (k_clock s2) (k_nextid s2)); reflexivity.
Qed.

Definition core_subhit (s : kstate) (fname : string) (key : pyval) : option (list op * pyval * rstate') :=
  match subs_get (c_subs (k_old s)) key with
  | Some (Some (OSubbuild f' a' k' subs' ret' raised' sf')) =>
      if raised' then None else
      if negb (kversion_equal s fname) then None else
      match kreplay_list s subs' (start_replay s) with
      | Some r => Some (subs', ret', r)
      | None => None
      end
  | _ => None
  end.

Definition core_substart (s : kstate) (fname : string) (sa skw : pyval) : kstate :=
  klog (LInvoke fname None sa skw)
       (ks_with s (k_fs s) (k_stale s) (k_claimedF s) (subbuild_key fname sa skw :: k_claimedS s) (k_need s) (k_made s)
                (k_clock s) (k_nextid s) (k_log s) (k_newF s) (k_newS s)).

Definition core_subreg (s2 : kstate) (key : pyval) (o : op) : kstate :=
  ks_with s2 (k_fs s2) (k_stale s2) (k_claimedF s2) (k_claimedS s2) (k_need s2) (k_made s2)
          (k_clock s2) (k_nextid s2) (k_log s2) (k_newF s2) (k_newS s2 ++ [(key, o)]).

Definition sub_rec (fname : string) (sa skw : pyval) (bsubs : list op) (res : outcome) : op :=
  match res with
  | inr e => OSubbuild fname sa skw bsubs PNone true false
  | inl v => match sanitize v with
             | None => OSubbuild fname sa skw bsubs PNone true false
             | Some sv => OSubbuild fname sa skw bsubs sv false false
             end
  end.

Lemma core_run_Subbuild : forall st fname a kw fn k tgt pend subs s,
  core_run (Subbuild st fname a kw fn k) tgt pend subs s =
  if st then core_run (k (inr (XRuntime RFinished))) tgt pend subs s else
  match sanitize a, sanitize kw with
  | Some sa, Some skw =>
      let key := subbuild_key fname sa skw in
      if existsb (py_eq key) (k_claimedS s)
      then core_run (k (inr (XRuntime RDupSubbuild))) tgt pend (subs ++ [OSubbuild fname sa skw [] PNone true true]) s
      else
        match core_subhit s fname key with
        | Some (subs', ret', r) =>
            let o := OSubbuild fname sa skw subs' ret' false false in
            core_run (k (inl ret')) tgt pend (subs ++ [o]) (adopt s r o)
        | None =>
            let '(s2, (res, _, bsubs)) := core_run (fn sa skw) None None [] (core_substart s fname sa skw) in
            let o := sub_rec fname sa skw bsubs res in
            core_run (k (sub_out res)) tgt pend (subs ++ [o]) (core_subreg s2 key o)
        end
  | _, _ => core_run (k (inr XType)) tgt pend subs s
  end.
Proof.
  intros. cbn [core_run]. destruct st; [reflexivity|].
  destruct (sanitize a) as [sa|]; [|reflexivity]. destruct (sanitize kw) as [skw|]; [|reflexivity].
  cbv zeta.
  destruct (existsb (py_eq (subbuild_key fname sa skw)) (k_claimedS s)); [reflexivity|].
  change (match subs_get (c_subs (k_old s)) (subbuild_key fname sa skw) with
          | Some (Some (OSubbuild _ _ _ subs' ret' raised' _)) =>
              if raised' then None else
              if negb (kversion_equal s fname) then None else
              match kreplay_list s subs' (start_replay s) with
              | Some r => Some (subs', ret', r)
              | None => None
              end
          | _ => None
          end) with (core_subhit s fname (subbuild_key fname sa skw)).
  destruct (core_subhit s fname (subbuild_key fname sa skw)) as [[[subs' ret'] r]|]; [reflexivity|].
  fold (core_substart s fname sa skw).
  destruct (core_run (fn sa skw) None None [] (core_substart s fname sa skw)) as [s2 [[res pd] bsubs]].
  unfold sub_rec, sub_out, core_subreg. destruct res as [v|e]; [|reflexivity]. destruct (sanitize v); reflexivity.
Qed.
