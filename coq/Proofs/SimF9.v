(* Proofs/SimF9.v — the shape conditions of Faithful.cache_wf, and "the cache file is not an
   output", for the cache a committed build of the mechanism model writes [new_cache_wf], and for
   its normal form read by the next build [cache_wf_readback].                               *)
From Coq Require Import List String Ascii NArith ZArith Bool Arith Lia.
From FB.Base Require Import PyVal Fs.
From FB.Gen Require Import JsonUtilGen.
From FB.Spec Require Import JsonSpec Prog Ref Oracle Faithful.
From FB.Model Require Import Types Monad CreatedFiles BuildDirs SimpleOps Builder Persist PersistSpec Build Run Frame Core CoreOracle.
From FB.Proofs Require Import FsLemmas JsonLaws PersistLaws CacheRTTables ReplayLaws BuildFileLaws CoreLaws1 CoreLaws2 CoreLaws3 CoreLaws4
     CoreNextRegs CoreNextState
     HashMemoInv ViewDefs ViewLemmas ViewInit ViewXDefs ViewH4 ViewH6 ViewR2 ViewR3 ViewK3 ViewK4 ViewK8
     SimA0 SimA2Base SimAMain SimB2 SimB7 SimB9 SimC0 SimC5 SimC12 SimC14 SimC15 SimD5 SimD7 SimF1 SimF3 SimF4 SimF7.
Import ListNotations.
Open Scope list_scope.

(* the conditions, by lookup *)
Definition ShapeOk (cf : path) (c : cache) : Prop :=
  (forall p o, cache_get_file c p = Some o -> exists cm f a k subs r cr, o = OBuildFile p cm f a k subs r cr false false) /\
  (forall key o, subs_get (c_subs c) key = Some (Some o) ->
     exists f a k subs r ra, o = OSubbuild f a k subs r ra false /\
       sanitized a = true /\ sanitized k = true /\ pv_wf a = true /\ pv_wf k = true /\ py_eq (subbuild_key f a k) key = true) /\
  cache_get_file c cf = None.

Theorem new_cache_wf : forall w cachefile old nm svers root w1 w2 v l,
  okc (w_clock w) old -> fs_wf (w_fs w) -> old_ok old cachefile -> WfCache old -> old_keys_ok old -> w_faults w = [] ->
  path_ok (dirname cachefile) = true -> isdir (w_fs w) cachefile = false -> maxlen (w_fs w) < walk_fuel ->
  vdir (Build.start_world w cachefile old nm svers) (dirname cachefile) = true ->
  AllTargets tgtP root -> NoNest [] root -> QueriesOk root -> WfArgs root -> CmpMeta root ->
  TargetsClear old root -> TargetsApart old root ->
  NoCatch root ->
  make_dirs (dirname cachefile) (Build.start_world w cachefile old nm svers) = (w1, inl []) ->
  run root None [] (set_log (LInvoke "<root>"%string None PNone PNone :: w_log w1) w1) = (w2, (inl v, l)) ->
  ShapeOk cachefile (w_new w2).
Proof.
  intros w cachefile old nm svers root w1 w2 v l Hokc Hwf Hok HW HKo HF Hp Hnc Hml Hd Hat Hnn Hqk Hwa Hcm Hcl Hap Hno Emk Erun.
  destruct (build_run_okc w cachefile old nm svers root w1 w2 (inl v) l Hokc Hwf Hok HW HKo HF Hp Hnc Hml Hd Hat Hnn Hqk Hwa Hcm Hcl Hap Emk Erun)
    as (s1 & pd & sb & T' & W' & Ecore & [HS _]).
  pose proof (Sim4_sim3 _ _ _ _ HS) as HS3.
  destruct (core_run_ext root _ _ _ _ _ _ _ _ Ecore) as (produced & _ & HX).
  destruct (x_newF _ _ _ _ _ HX) as (nF & EnF & HnF). cbn [ViewK4.core_start k_newF app] in EnF.
  destruct (x_newS _ _ _ _ _ HX) as (nS & EnS & HnS). cbn [ViewK4.core_start k_newS app] in EnS.
  pose proof (x_nocf _ _ _ _ _ HX) as Hnocf. cbn [ViewK4.core_start k_cachefile] in Hnocf.
  set (s0 := ViewK4.core_start (w_fs w) cachefile old svers (w_clock w) (w_nextid w) (LInvoke "<root>"%string None PNone PNone :: w_log w1)) in *.
  assert (HT0: KG s0) by (split; intros q x []).
  destruct (core_run_good old (okc_ClassR _ _ Hokc) root Hno Hwa None None [] s0 s1 v pd sb (eq_refl : k_old s0 = old) HT0
              (fun y (Hy : In y []) => match Hy with end) Ecore) as ([T1 T2] & _ & _ & _).
  split; [|split].
  - intros p o Hg. pose proof (s3_recF _ _ _ HS3 p) as K. rewrite Hg in K.
    destruct (kf_get (k_newF s1) p) as [o'|] eqn:E; [|contradiction].
    pose proof (kf_get_in _ _ _ E) as Hin. destruct (T1 p o' Hin) as [Hc _].
    rewrite EnF in Hin. destruct (HnF p o' Hin) as (_ & (c & f & a & k & subs & r0 & cr & ra & ->) & _).
    cbn [calm] in Hc. apply andb_true_iff in Hc. destruct Hc as [Hra _]. apply negb_true_iff in Hra. subst ra.
    destruct o as [q6 r6 e6|p6 c6 f6 a6 k6 subs6 r6 cr6 ra6 sf6|f6 a6 k6 subs6 r6 ra6 sf6]; cbn [rec_rel] in K; try contradiction.
    destruct K as (-> & _ & _ & _ & _ & _ & _ & _ & -> & ->). repeat eexists.
  - intros key o Hg. pose proof (s3_recS _ _ _ HS3 key) as K. rewrite Hg in K.
    destruct (ks_get (k_newS s1) key) as [o'|] eqn:E; [|contradiction].
    destruct (ks_get_in_eq _ _ _ E) as (q & Hq & Eq).
    destruct (T2 q o' Hq) as [_ Hall]. destruct (Hall o' (deep_self _)) as [Hargs _].
    rewrite EnS in Hq. destruct (HnS q o' Hq) as (_ & (f1 & a1 & k1 & subs1 & r1 & ra1 & -> & Eqk) & _).
    destruct o as [q6 r6 e6|p6 c6 f6 a6 k6 subs6 r6 cr6 ra6 sf6|f6 a6 k6 subs6 r6 ra6 sf6]; cbn [rec_rel] in K; try contradiction.
    destruct K as (-> & -> & -> & _ & _ & -> & ->).
    cbn [argsok] in Hargs. apply andb_true_iff in Hargs. destruct Hargs as [Z Z4]. apply andb_true_iff in Z. destruct Z as [Z Z3].
    apply andb_true_iff in Z. destruct Z as [Z1 Z2].
    exists f1, a1, k1, subs6, r6, ra1. repeat split; try assumption. rewrite <- Eqk. exact Eq.
  - destruct (cache_get_file (w_new w2) cachefile) as [o|] eqn:Hg; [|reflexivity]. exfalso.
    pose proof (s3_recF _ _ _ HS3 cachefile) as K. rewrite Hg in K.
    destruct (kf_get (k_newF s1) cachefile) as [o'|] eqn:E; [|contradiction].
    pose proof (kf_get_in _ _ _ E) as Hin. rewrite EnF in Hin. destruct (HnF _ _ Hin) as (_ & _ & Hc).
    exact (Hnocf _ Hc eq_refl).
Qed.

(* the normal form *)
Theorem cache_wf_readback : forall cf c c',
  (forall p, cache_get_file c' p = option_map norm_op (cache_get_file c p)) ->
  (forall k, subs_get (c_subs c') k = option_map (option_map norm_op) (subs_get (c_subs c) k)) ->
  ShapeOk cf c -> cache_wf c' /\ cache_created_file c' cf = false.
Proof.
  intros cf c c' T1 T3 (S1 & S2 & S3). split; [split|].
  - intros p o Hg. assert (Hg' : cache_get_file c' p = Some o) by (unfold cache_get_file; rewrite Hg; reflexivity).
    rewrite T1 in Hg'. destruct (cache_get_file c p) as [o0|] eqn:E; [|discriminate]. inversion Hg'; subst o.
    destruct (S1 _ _ E) as (cm & f & a & k & subs & r & cr & ->). cbn [norm_op].
    do 9 eexists. split; [reflexivity|discriminate].
  - intros key o Hg. rewrite T3 in Hg. destruct (subs_get (c_subs c) key) as [[o0|]|] eqn:E; try discriminate. inversion Hg; subst o.
    destruct (S2 _ _ E) as (f & a & k & subs & r & ra & -> & A1 & A2 & A3 & A4 & A5). cbn [norm_op].
    do 7 eexists. split; [reflexivity|]. split; [discriminate|].
    destruct (norm_args a A1 A3) as [B1 _]. destruct (norm_args k A2 A4) as [B2 _].
    rewrite (subbuild_key_norm f a k A1 A2). repeat split; assumption.
  - unfold cache_created_file. rewrite T1, S3. reflexivity.
Qed.

Print Assumptions new_cache_wf.
Print Assumptions cache_wf_readback.
