(* Proofs/CacheRTOpen.v — C16 at cache level: what is NOT proved.

   The theorems of CacheRTMain.v are about an arbitrary cache satisfying
   [writable] (and, for some conclusions, [tables_from_forest] /
   [tables_perm_forest] / [forest_good] / [paths_nodup]).  That the cache a
   build of the mechanism model commits satisfies these hypotheses, and that
   the cache file it leaves holds [cache_to_json] of that cache, is established
   only by computation, on the three builds of CacheRTEx.v.  The general
   statement is recorded here as a [Prop] (no proof, no axiom); it needs an
   invariant of [run] relating the two tables of the new cache to the records
   handed back to the callers (every claim inserts an entry, every finished
   record of a claimed key is the entry of that key, records reused from the
   old cache are registered with all their registered descendants, a record
   whose setup failed carries no suboperation — the last point because
   Cache.use_cached_operation cannot fail in a sequential build). *)
From Coq Require Import List String Ascii NArith ZArith Bool Arith Permutation.
From FB.Base Require Import PyVal Fs.
From FB.Gen Require Import JsonUtilGen.
From FB.Spec Require Import JsonSpec Prog.
From FB.Model Require Import Types Monad SimpleOps Builder PathNorm Persist PersistSpec Build Run.
From FB.Proofs Require Import CacheRTDefs CacheRTForest.
Import ListNotations.

(* every path the program hands to the library is a legal one *)
Inductive prog_paths_wf : prog -> Prop :=
| PW_Ret : forall v, prog_paths_wf (Ret v)
| PW_Raise : forall e, prog_paths_wf (Raise e)
| PW_Ask : forall s q (k : Prog.outcome -> prog),
    query_wf q = true -> (forall r, prog_paths_wf (k r)) -> prog_paths_wf (Ask s q k)
| PW_Write : forall c k, prog_paths_wf k -> prog_paths_wf (Write c k)
| PW_BuildFile : forall (s : bool) p c f a kw (fn : path -> pyval -> pyval -> prog) (k : Prog.outcome -> prog),
    path_wf p = true -> (forall p' sa skw, prog_paths_wf (fn p' sa skw)) ->
    (forall r, prog_paths_wf (k r)) -> prog_paths_wf (BuildFile s p c f a kw fn k)
| PW_Subbuild : forall (s : bool) f a kw (fn : pyval -> pyval -> prog) (k : Prog.outcome -> prog),
    (forall sa skw, prog_paths_wf (fn sa skw)) -> (forall r, prog_paths_wf (k r)) ->
    prog_paths_wf (Subbuild s f a kw fn k).

(* a fault-free first build that commits: its new cache is a well-formed cache
   whose tables are those of its forest, and the cache file holds its serialisation *)
Definition committed_cache_wf_statement : Prop :=
  forall cf nm vers svers root w w' v,
    sanitize vers = Some svers -> path_wf cf = true -> prog_paths_wf root ->
    fs_wf (w_fs w) -> w_faults w = [] -> lookup (w_fs w) cf = None ->
    run_build cf nm vers root w = (w', Done (inl v)) ->
    let c := w_new w' in
    exists roots,
      writable c roots /\ tables_perm_forest c roots /\
      (forall p, files_get (c_files c) p =
                 files_get (c_files (tables_of (c_name c) (c_fvers c) (c_dirs c) roots)) p) /\
      forest_good roots /\ paths_nodup (c_dirs c) = true /\
      exists f, lookup (w_fs w') cf = Some (NFile f) /\ f_json f = cache_to_json c.

(* the same for a build that starts from the cache file of such a build: the
   hypotheses are inherited along a history *)
Definition committed_cache_wf_next_statement : Prop :=
  forall cf nm vers svers root w w' v f0 c0 roots0,
    sanitize vers = Some svers -> path_wf cf = true -> prog_paths_wf root ->
    fs_wf (w_fs w) -> w_faults w = [] ->
    lookup (w_fs w) cf = Some (NFile f0) -> f_json f0 = cache_to_json c0 ->
    writable c0 roots0 -> forest_good roots0 -> c_name c0 = nm ->
    run_build cf nm vers root w = (w', Done (inl v)) ->
    let c := w_new w' in
    exists roots,
      writable c roots /\ tables_perm_forest c roots /\
      (forall p, files_get (c_files c) p =
                 files_get (c_files (tables_of (c_name c) (c_fvers c) (c_dirs c) roots)) p) /\
      forest_good roots /\ paths_nodup (c_dirs c) = true /\
      exists f, lookup (w_fs w') cf = Some (NFile f) /\ f_json f = cache_to_json c.
