(* Proofs/SimA3Log.v — Core's run does not read its log: it only pushes entries. *)
From Coq Require Import List String Ascii NArith ZArith Bool Arith Lia.
From FB.Base Require Import PyVal Fs.
From FB.Gen Require Import JsonUtilGen.
From FB.Spec Require Import JsonSpec Prog Ref.
From FB.Model Require Import Types SimpleOps Builder Persist Core.
From FB.Proofs Require Import FsLemmas ReplayLaws CoreLaws2 CoreLaws3 SimA0 SimA3.
Import ListNotations.
Local Open Scope list_scope.

(* ------------------------------------------------------------------ *)
(* with_log: projections and state constructors                        *)
(* ------------------------------------------------------------------ *)
Lemma with_log_idem : forall l1 l0 s, with_log l1 (with_log l0 s) = with_log l1 s.
Proof. reflexivity. Qed.

Lemma with_log_self : forall s, with_log (k_log s) s = s.
Proof. destruct s; reflexivity. Qed.

Lemma k_log_with_log : forall l s, k_log (with_log l s) = l.
Proof. reflexivity. Qed.

Lemma klog_with_log : forall e l s, klog e (with_log l s) = with_log (e :: l) (klog e s).
Proof. reflexivity. Qed.

Lemma ktick_with_log : forall l s, ktick (with_log l s) = with_log l (ktick s).
Proof. reflexivity. Qed.

Lemma core_s0_with_log : forall l s p fs1 dirs, core_s0 (with_log l s) p fs1 dirs = with_log l (core_s0 s p fs1 dirs).
Proof. reflexivity. Qed.

Lemma adopt_with_log : forall l s r o, adopt (with_log l s) r o = with_log l (adopt s r o).
Proof. reflexivity. Qed.

Lemma core_put_with_log : forall l s p f, core_put (with_log l s) p f = with_log l (core_put s p f).
Proof. reflexivity. Qed.

Lemma core_start_with_log : forall l s p fname sa skw,
  core_start (with_log l s) p fname sa skw = with_log (LInvoke fname (Some p) sa skw :: l) (core_start s p fname sa skw).
Proof. reflexivity. Qed.

Lemma core_start_log : forall s p fname sa skw,
  k_log (core_start s p fname sa skw) = LInvoke fname (Some p) sa skw :: k_log s.
Proof. reflexivity. Qed.

Lemma core_substart_with_log : forall l s fname sa skw,
  core_substart (with_log l s) fname sa skw = with_log (LInvoke fname None sa skw :: l) (core_substart s fname sa skw).
Proof. reflexivity. Qed.

Lemma core_substart_log : forall s fname sa skw,
  k_log (core_substart s fname sa skw) = LInvoke fname None sa skw :: k_log s.
Proof. reflexivity. Qed.

Lemma core_subreg_with_log : forall l s key o, core_subreg (with_log l s) key o = with_log l (core_subreg s key o).
Proof. reflexivity. Qed.

Lemma core_prune_with_log : forall l s p o, core_prune (with_log l s) p o = with_log l (core_prune s p o).
Proof. reflexivity. Qed.

(* ------------------------------------------------------------------ *)
(* functions that do not mention the log                               *)
(* ------------------------------------------------------------------ *)
Lemma kversion_equal_with_log : forall l s f, kversion_equal (with_log l s) f = kversion_equal s f.
Proof. reflexivity. Qed.

Lemma phys_exists_with_log : forall l s p, phys_exists (with_log l s) p = phys_exists s p.
Proof. reflexivity. Qed.

Lemma start_replay_with_log : forall l s, start_replay (with_log l s) = start_replay s.
Proof. reflexivity. Qed.

Lemma on_disk_with_log : forall l s p c cmpres raised,
  on_disk (with_log l s) p c cmpres raised = on_disk s p c cmpres raised.
Proof. reflexivity. Qed.

Lemma kreplay_list_F : forall l s subs,
  Forall (fun o => forall r, kreplay (with_log l s) o r = kreplay s o r) subs ->
  forall r, kreplay_list (with_log l s) subs r = kreplay_list s subs r.
Proof.
  intros l s subs H. induction H as [|x rest Hx _ IH]; intro r; [reflexivity|].
  rewrite !kreplay_list_cons, Hx. destruct (kreplay s x r); [apply IH|reflexivity].
Qed.

Lemma kreplay_with_log : forall l s o r, kreplay (with_log l s) o r = kreplay s o r.
Proof.
  intros l s o.
  induction o as [q rt e | p c f a k subs rt cr ra sf IH | f a k subs rt ra sf IH] using op_ind'; intro r.
  - reflexivity.
  - rewrite !kreplay_BF. rewrite kversion_equal_with_log, on_disk_with_log.
    change (k_cachefile (with_log l s)) with (k_cachefile s).
    change (k_fs (with_log l s)) with (k_fs s).
    change (k_stale (with_log l s)) with (k_stale s).
    destruct (negb (kversion_equal s f)); [reflexivity|]. destruct sf; [reflexivity|].
    destruct (on_disk s p c cr ra); [|reflexivity].
    destruct (mem_path p (rp_claimedF r) || path_eqb p (k_cachefile s)); [reflexivity|].
    destruct (missing_dirs (rp_fs r) (k_cachefile s) (dirname p)) as [dirs|e]; [|reflexivity].
    destruct (mkdir_all (rp_fs r) dirs) as [fs1|e]; [|reflexivity].
    rewrite (kreplay_list_F l s subs IH). reflexivity.
  - rewrite !kreplay_SB. rewrite kversion_equal_with_log.
    rewrite (kreplay_list_F l s subs IH). reflexivity.
Qed.

Lemma kreplay_list_with_log : forall l s subs r, kreplay_list (with_log l s) subs r = kreplay_list s subs r.
Proof.
  intros. apply kreplay_list_F. apply Forall_forall. intros; apply kreplay_with_log.
Qed.

Lemma core_hit_with_log : forall l s s0 p fname sa skw,
  core_hit (with_log l s) (with_log l s0) p fname sa skw = core_hit s s0 p fname sa skw.
Proof.
  intros. unfold core_hit.
  change (k_old (with_log l s)) with (k_old s).
  change (k_fs (with_log l s0)) with (k_fs s0).
  change (k_stale (with_log l s0)) with (k_stale s0).
  rewrite kversion_equal_with_log, start_replay_with_log.
  destruct (cache_get_file (k_old s) p) as [[| p' c' fname' a' k' subs' ret' cmpres' raised' sf' |]|]; try reflexivity.
  rewrite kreplay_list_with_log. reflexivity.
Qed.

Lemma core_subhit_with_log : forall l s fname key,
  core_subhit (with_log l s) fname key = core_subhit s fname key.
Proof.
  intros. unfold core_subhit.
  change (k_old (with_log l s)) with (k_old s).
  rewrite kversion_equal_with_log, start_replay_with_log.
  destruct (subs_get (c_subs (k_old s)) key) as [[[| |f' a' k' subs' ret' raised' sf']|]|]; try reflexivity.
  rewrite kreplay_list_with_log. reflexivity.
Qed.

Lemma core_finish_with_log : forall l s2 p c fname sa skw bsubs res pend,
  core_finish (with_log l s2) p c fname sa skw bsubs res pend =
  (with_log l (fst (fst (core_finish s2 p c fname sa skw bsubs res pend))),
   snd (fst (core_finish s2 p c fname sa skw bsubs res pend)),
   snd (core_finish s2 p c fname sa skw bsubs res pend)).
Proof.
  intros. unfold core_finish.
  change (k_fs (with_log l s2)) with (k_fs s2).
  change (k_clock (with_log l s2)) with (k_clock s2).
  change (k_nextid (with_log l s2)) with (k_nextid s2).
  destruct res as [v|e]; [|reflexivity].
  destruct (sanitize v) as [sv|]; [|reflexivity].
  destruct pend as [bytes|]; [|reflexivity].
  destruct (write_file (k_fs s2) p bytes None (k_clock s2) (k_nextid s2)); reflexivity.
Qed.

Lemma core_finish_log : forall s2 p c fname sa skw bsubs res pend,
  k_log (fst (fst (core_finish s2 p c fname sa skw bsubs res pend))) = k_log s2.
Proof.
  intros. unfold core_finish.
  destruct res as [v|e]; [|reflexivity].
  destruct (sanitize v) as [sv|]; [|reflexivity].
  destruct pend as [bytes|]; [|reflexivity].
  destruct (write_file (k_fs s2) p bytes None (k_clock s2) (k_nextid s2)); reflexivity.
Qed.
