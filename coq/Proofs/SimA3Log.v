(* Proofs/SimA3Log.v — Core's run does not read its log: it only pushes entries. *)
From Coq Require Import List String Ascii NArith ZArith Bool Arith Lia.
From FB.Base Require Import PyVal Fs.
From FB.Gen Require Import JsonUtilGen.
From FB.Spec Require Import JsonSpec Prog Ref.
From FB.Model Require Import Types SimpleOps Builder Persist Core.
From FB.Proofs Require Import FsLemmas ReplayLaws CoreLaws2 CoreLaws3 SimA0 SimA3.
Import ListNotations.
Local Open Scope list_scope.

(* ------------------------------------------------------------------ *)
(* with_log: projections and state constructors                        *)
(* ------------------------------------------------------------------ *)
Lemma with_log_idem : forall l1 l0 s, with_log l1 (with_log l0 s) = with_log l1 s.
Proof. reflexivity. Qed.

Lemma with_log_self : forall s, with_log (k_log s) s = s.
Proof. destruct s; reflexivity. Qed.

Lemma k_log_with_log : forall l s, k_log (with_log l s) = l.
Proof. reflexivity. Qed.

Lemma klog_with_log : forall e l s, klog e (with_log l s) = with_log (e :: l) (klog e s).
Proof. reflexivity. Qed.

Lemma ktick_with_log : forall l s, ktick (with_log l s) = with_log l (ktick s).
Proof. reflexivity. Qed.

Lemma core_s0_with_log : forall l s p fs1 dirs, core_s0 (with_log l s) p fs1 dirs = with_log l (core_s0 s p fs1 dirs).
Proof. reflexivity. Qed.

Lemma adopt_with_log : forall l s r o, adopt (with_log l s) r o = with_log l (adopt s r o).
Proof. reflexivity. Qed.

Lemma core_put_with_log : forall l s p f, core_put (with_log l s) p f = with_log l (core_put s p f).
Proof. reflexivity. Qed.

Lemma core_start_with_log : forall l s p fname sa skw,
  core_start (with_log l s) p fname sa skw = with_log (LInvoke fname (Some p) sa skw :: l) (core_start s p fname sa skw).
Proof. reflexivity. Qed.

Lemma core_start_log : forall s p fname sa skw,
  k_log (core_start s p fname sa skw) = LInvoke fname (Some p) sa skw :: k_log s.
Proof. reflexivity. Qed.

Lemma core_substart_with_log : forall l s fname sa skw,
  core_substart (with_log l s) fname sa skw = with_log (LInvoke fname None sa skw :: l) (core_substart s fname sa skw).
Proof. reflexivity. Qed.

Lemma core_substart_log : forall s fname sa skw,
  k_log (core_substart s fname sa skw) = LInvoke fname None sa skw :: k_log s.
Proof. reflexivity. Qed.

Lemma core_subreg_with_log : forall l s key o, core_subreg (with_log l s) key o = with_log l (core_subreg s key o).
Proof. reflexivity. Qed.

Lemma core_prune_with_log : forall l s p o, core_prune (with_log l s) p o = with_log l (core_prune s p o).
Proof. reflexivity. Qed.
