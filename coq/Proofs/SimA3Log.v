(* Proofs/SimA3Log.v — Core's run does not read its log: it only pushes entries. *)
From Coq Require Import List String Ascii NArith ZArith Bool Arith Lia.
From FB.Base Require Import PyVal Fs.
From FB.Gen Require Import JsonUtilGen.
From FB.Spec Require Import JsonSpec Prog Ref.
From FB.Model Require Import Types SimpleOps Builder Persist Core.
From FB.Proofs Require Import FsLemmas ReplayLaws CoreLaws2 CoreLaws3 SimA0 SimA3.
Import ListNotations.
Local Open Scope list_scope.

(* ------------------------------------------------------------------ *)
(* with_log: projections and state constructors                        *)
(* ------------------------------------------------------------------ *)
Lemma with_log_idem : forall l1 l0 s, with_log l1 (with_log l0 s) = with_log l1 s.
Proof. reflexivity. Qed.

Lemma with_log_self : forall s, with_log (k_log s) s = s.
Proof. destruct s; reflexivity. Qed.

Lemma k_log_with_log : forall l s, k_log (with_log l s) = l.
Proof. reflexivity. Qed.

Lemma klog_with_log : forall e l s, klog e (with_log l s) = with_log (e :: l) (klog e s).
Proof. reflexivity. Qed.

Lemma ktick_with_log : forall l s, ktick (with_log l s) = with_log l (ktick s).
Proof. reflexivity. Qed.

Lemma core_s0_with_log : forall l s p fs1 dirs, core_s0 (with_log l s) p fs1 dirs = with_log l (core_s0 s p fs1 dirs).
Proof. reflexivity. Qed.

Lemma adopt_with_log : forall l s r o, adopt (with_log l s) r o = with_log l (adopt s r o).
Proof. reflexivity. Qed.

Lemma core_put_with_log : forall l s p f, core_put (with_log l s) p f = with_log l (core_put s p f).
Proof. reflexivity. Qed.

Lemma core_start_with_log : forall l s p fname sa skw,
  core_start (with_log l s) p fname sa skw = with_log (LInvoke fname (Some p) sa skw :: l) (core_start s p fname sa skw).
Proof. reflexivity. Qed.

Lemma core_start_log : forall s p fname sa skw,
  k_log (core_start s p fname sa skw) = LInvoke fname (Some p) sa skw :: k_log s.
Proof. reflexivity. Qed.

Lemma core_substart_with_log : forall l s fname sa skw,
  core_substart (with_log l s) fname sa skw = with_log (LInvoke fname None sa skw :: l) (core_substart s fname sa skw).
Proof. reflexivity. Qed.

Lemma core_substart_log : forall s fname sa skw,
  k_log (core_substart s fname sa skw) = LInvoke fname None sa skw :: k_log s.
Proof. reflexivity. Qed.

Lemma core_subreg_with_log : forall l s key o, core_subreg (with_log l s) key o = with_log l (core_subreg s key o).
Proof. reflexivity. Qed.

Lemma core_prune_with_log : forall l s p o, core_prune (with_log l s) p o = with_log l (core_prune s p o).
Proof. reflexivity. Qed.

(* ------------------------------------------------------------------ *)
(* functions that do not mention the log                               *)
(* ------------------------------------------------------------------ *)
Lemma kversion_equal_with_log : forall l s f, kversion_equal (with_log l s) f = kversion_equal s f.
Proof. reflexivity. Qed.

Lemma phys_exists_with_log : forall l s p, phys_exists (with_log l s) p = phys_exists s p.
Proof. reflexivity. Qed.

Lemma start_replay_with_log : forall l s, start_replay (with_log l s) = start_replay s.
Proof. reflexivity. Qed.

Lemma on_disk_with_log : forall l s p c cmpres raised,
  on_disk (with_log l s) p c cmpres raised = on_disk s p c cmpres raised.
Proof. reflexivity. Qed.

Lemma kreplay_list_F : forall l s subs,
  Forall (fun o => forall r, kreplay (with_log l s) o r = kreplay s o r) subs ->
  forall r, kreplay_list (with_log l s) subs r = kreplay_list s subs r.
Proof.
  intros l s subs H. induction H as [|x rest Hx _ IH]; intro r; [reflexivity|].
  rewrite !kreplay_list_cons, Hx. destruct (kreplay s x r); [apply IH|reflexivity].
Qed.

Lemma kreplay_with_log : forall l s o r, kreplay (with_log l s) o r = kreplay s o r.
Proof.
  intros l s o.
  induction o as [q rt e | p c f a k subs rt cr ra sf IH | f a k subs rt ra sf IH] using op_ind'; intro r.
  - reflexivity.
  - rewrite !kreplay_BF. rewrite kversion_equal_with_log, on_disk_with_log.
    change (k_cachefile (with_log l s)) with (k_cachefile s).
    change (k_fs (with_log l s)) with (k_fs s).
    change (k_stale (with_log l s)) with (k_stale s).
    destruct (negb (kversion_equal s f)); [reflexivity|]. destruct sf; [reflexivity|].
    destruct (on_disk s p c cr ra); [|reflexivity].
    destruct (mem_path p (rp_claimedF r) || path_eqb p (k_cachefile s)); [reflexivity|].
    destruct (missing_dirs (rp_fs r) (k_cachefile s) (dirname p)) as [dirs|e]; [|reflexivity].
    destruct (mkdir_all (rp_fs r) dirs) as [fs1|e]; [|reflexivity].
    rewrite (kreplay_list_F l s subs IH). reflexivity.
  - rewrite !kreplay_SB. rewrite kversion_equal_with_log.
    rewrite (kreplay_list_F l s subs IH). reflexivity.
Qed.

Lemma kreplay_list_with_log : forall l s subs r, kreplay_list (with_log l s) subs r = kreplay_list s subs r.
Proof.
  intros. apply kreplay_list_F. apply Forall_forall. intros; apply kreplay_with_log.
Qed.

Lemma core_hit_with_log : forall l s s0 p fname sa skw,
  core_hit (with_log l s) (with_log l s0) p fname sa skw = core_hit s s0 p fname sa skw.
Proof.
  intros. unfold core_hit.
  change (k_old (with_log l s)) with (k_old s).
  change (k_fs (with_log l s0)) with (k_fs s0).
  change (k_stale (with_log l s0)) with (k_stale s0).
  rewrite kversion_equal_with_log, start_replay_with_log.
  destruct (cache_get_file (k_old s) p) as [[| p' c' fname' a' k' subs' ret' cmpres' raised' sf' |]|]; try reflexivity.
  rewrite kreplay_list_with_log. reflexivity.
Qed.

Lemma core_subhit_with_log : forall l s fname key,
  core_subhit (with_log l s) fname key = core_subhit s fname key.
Proof.
  intros. unfold core_subhit.
  change (k_old (with_log l s)) with (k_old s).
  rewrite kversion_equal_with_log, start_replay_with_log.
  destruct (subs_get (c_subs (k_old s)) key) as [[[| |f' a' k' subs' ret' raised' sf']|]|]; try reflexivity.
  rewrite kreplay_list_with_log. reflexivity.
Qed.

Lemma core_finish_with_log : forall l s2 p c fname sa skw bsubs res pend,
  core_finish (with_log l s2) p c fname sa skw bsubs res pend =
  (with_log l (fst (fst (core_finish s2 p c fname sa skw bsubs res pend))),
   snd (fst (core_finish s2 p c fname sa skw bsubs res pend)),
   snd (core_finish s2 p c fname sa skw bsubs res pend)).
Proof.
  intros. unfold core_finish.
  change (k_fs (with_log l s2)) with (k_fs s2).
  change (k_clock (with_log l s2)) with (k_clock s2).
  change (k_nextid (with_log l s2)) with (k_nextid s2).
  destruct res as [v|e]; [|reflexivity].
  destruct (sanitize v) as [sv|]; [|reflexivity].
  destruct pend as [bytes|]; [|reflexivity].
  destruct (write_file (k_fs s2) p bytes None (k_clock s2) (k_nextid s2)); reflexivity.
Qed.

Lemma core_finish_log : forall s2 p c fname sa skw bsubs res pend,
  k_log (fst (fst (core_finish s2 p c fname sa skw bsubs res pend))) = k_log s2.
Proof.
  intros. unfold core_finish.
  destruct res as [v|e]; [|reflexivity].
  destruct (sanitize v) as [sv|]; [|reflexivity].
  destruct pend as [bytes|]; [|reflexivity].
  destruct (write_file (k_fs s2) p bytes None (k_clock s2) (k_nextid s2)); reflexivity.
Qed.

(* ------------------------------------------------------------------ *)
(* the run                                                             *)
(* ------------------------------------------------------------------ *)
Definition log_free {X} (run : kstate -> kstate * X) : Prop :=
  forall s s' out, run s = (s', out) ->
    exists ex, k_log s' = ex ++ k_log s /\
      forall l, run (with_log l s) = (with_log (ex ++ l) s', out).

Lemma chain : forall X (run : kstate -> kstate * X) s1 pre s s' out,
  log_free run ->
  k_log s1 = pre ++ k_log s ->
  run s1 = (s', out) ->
  exists ex, k_log s' = ex ++ k_log s /\
    forall l, run (with_log (pre ++ l) s1) = (with_log (ex ++ l) s', out).
Proof.
  intros X run s1 pre s s' out Hf Hl Hr.
  destruct (Hf _ _ _ Hr) as [ex [E1 E2]].
  exists (ex ++ pre). split.
  - rewrite E1, Hl, app_assoc. reflexivity.
  - intro l. rewrite E2, app_assoc. reflexivity.
Qed.

Lemma chain0 : forall X (run : kstate -> kstate * X) s1 s s' out,
  log_free run ->
  k_log s1 = k_log s ->
  run s1 = (s', out) ->
  exists ex, k_log s' = ex ++ k_log s /\
    forall l, run (with_log l s1) = (with_log (ex ++ l) s', out).
Proof.
  intros X run s1 s s' out Hf Hl Hr.
  exact (chain X run s1 [] s s' out Hf Hl Hr).
Qed.

Lemma core_run_log_free : forall pr tg pend subs, log_free (core_run pr tg pend subs).
Proof.
  induction pr as [v | e | st q k IHk | c k IHk | st p c fname a kw fn IHfn k IHk | st fname a kw fn IHfn k IHk];
    intros tg pend subs s s' out H.
  - cbn in H. inversion H; subst. exists []. split; [reflexivity|]. intro l. reflexivity.
  - cbn in H. inversion H; subst. exists []. split; [reflexivity|]. intro l. reflexivity.
  - rewrite core_run_Ask in H. destruct st.
    + destruct (IHk _ _ _ _ _ _ _ H) as [ex [E1 E2]]. exists ex. split; [exact E1|].
      intro l. rewrite core_run_Ask. apply E2.
    + cbv zeta in H.
      destruct (spec_answer (k_fs s) q) as [v|c] eqn:Ha.
      * destruct (chain _ _ (klog (LAnswer q (inl v)) s) [LAnswer q (inl v)] s _ _ (IHk _ _ _ _) eq_refl H) as [ex [E1 E2]].
        exists ex. split; [exact E1|]. intro l. rewrite core_run_Ask. cbv zeta.
        change (k_fs (with_log l s)) with (k_fs s). rewrite Ha. rewrite klog_with_log. apply E2.
      * destruct (chain _ _ (klog (LAnswer q (inr c)) s) [LAnswer q (inr c)] s _ _ (IHk _ _ _ _) eq_refl H) as [ex [E1 E2]].
        exists ex. split; [exact E1|]. intro l. rewrite core_run_Ask. cbv zeta.
        change (k_fs (with_log l s)) with (k_fs s). rewrite Ha. rewrite klog_with_log. apply E2.
  - rewrite core_run_Write in H. destruct tg as [p|].
    + destruct (path_ok p) eqn:Hp.
      * destruct (chain0 _ _ (ktick s) s _ _ (IHk _ _ _) eq_refl H) as [ex [E1 E2]].
        exists ex. split; [exact E1|]. intro l. rewrite core_run_Write, Hp, ktick_with_log. apply E2.
      * inversion H; subst. exists []. split; [reflexivity|]. intro l. rewrite core_run_Write, Hp. reflexivity.
    + destruct (IHk _ _ _ _ _ _ H) as [ex [E1 E2]]. exists ex. split; [exact E1|].
      intro l. rewrite core_run_Write. apply E2.
  - rewrite core_run_BuildFile in H. destruct st.
    { destruct (IHk _ _ _ _ _ _ _ H) as [ex [E1 E2]]. exists ex. split; [exact E1|].
      intro l. rewrite core_run_BuildFile. apply E2. }
    destruct (sanitize a) as [sa|] eqn:Ea.
    2:{ destruct (IHk _ _ _ _ _ _ _ H) as [ex [E1 E2]]. exists ex. split; [exact E1|].
        intro l. rewrite core_run_BuildFile, Ea. apply E2. }
    destruct (sanitize kw) as [skw|] eqn:Ek.
    2:{ destruct (IHk _ _ _ _ _ _ _ H) as [ex [E1 E2]]. exists ex. split; [exact E1|].
        intro l. rewrite core_run_BuildFile, Ea, Ek. apply E2. }
    cbv zeta in H.
    destruct (claim_check (k_claimedF s) (k_cachefile s) p) as [e|] eqn:Ec.
    { destruct (IHk _ _ _ _ _ _ _ H) as [ex [E1 E2]]. exists ex. split; [exact E1|].
      intro l. rewrite core_run_BuildFile, Ea, Ek. cbv zeta.
      change (k_claimedF (with_log l s)) with (k_claimedF s).
      change (k_cachefile (with_log l s)) with (k_cachefile s). rewrite Ec. apply E2. }
    destruct (setup_fs (k_fs s) (k_cachefile s) p) as [[fs1 dirs]|e] eqn:Es.
    2:{ destruct (IHk _ _ _ _ _ _ _ H) as [ex [E1 E2]]. exists ex. split; [exact E1|].
        intro l. rewrite core_run_BuildFile, Ea, Ek. cbv zeta.
        change (k_claimedF (with_log l s)) with (k_claimedF s).
        change (k_cachefile (with_log l s)) with (k_cachefile s).
        change (k_fs (with_log l s)) with (k_fs s). rewrite Ec, Es. apply E2. }
    destruct (core_hit s (core_s0 s p fs1 dirs) p fname sa skw) as [[[[f subs'] ret'] r]|] eqn:Eh.
    + match type of H with core_run _ _ _ _ ?s1 = _ =>
        destruct (chain0 _ _ s1 s _ _ (IHk _ _ _ _) eq_refl H) as [ex [E1 E2]] end.
      exists ex. split; [exact E1|].
      intro l. rewrite core_run_BuildFile, Ea, Ek. cbv zeta.
      change (k_claimedF (with_log l s)) with (k_claimedF s).
      change (k_cachefile (with_log l s)) with (k_cachefile s).
      change (k_fs (with_log l s)) with (k_fs s). rewrite Ec, Es.
      rewrite core_s0_with_log, core_hit_with_log, Eh, adopt_with_log, core_put_with_log. apply E2.
    + destruct (core_run (fn p sa skw) (Some p) None [] (core_start (core_s0 s p fs1 dirs) p fname sa skw))
        as [s2 [[res pend2] bsubs]] eqn:Hfn.
      destruct (IHfn _ _ _ _ _ _ _ _ _ Hfn) as [ex1 [F1 F2]].
      rewrite core_start_log in F1. change (k_log (core_s0 s p fs1 dirs)) with (k_log s) in F1.
      pose proof (core_finish_log s2 p c fname sa skw bsubs res pend2) as L3.
      destruct (core_finish s2 p c fname sa skw bsubs res pend2) as [[s3 out3] o] eqn:Hfin.
      cbn [fst snd] in L3.
      assert (Hl : k_log s3 = (ex1 ++ [LInvoke fname (Some p) sa skw]) ++ k_log s).
      { rewrite L3, F1, <- app_assoc. reflexivity. }
      destruct (chain _ _ s3 _ s _ _ (IHk _ _ _ _) Hl H) as [ex [E1 E2]].
      exists ex. split; [exact E1|].
      intro l. rewrite core_run_BuildFile, Ea, Ek. cbv zeta.
      change (k_claimedF (with_log l s)) with (k_claimedF s).
      change (k_cachefile (with_log l s)) with (k_cachefile s).
      change (k_fs (with_log l s)) with (k_fs s). rewrite Ec, Es.
      rewrite core_s0_with_log, core_hit_with_log, Eh, core_start_with_log, F2.
      rewrite core_finish_with_log, Hfin. cbn [fst snd].
      rewrite <- E2, <- app_assoc. reflexivity.
  - rewrite core_run_Subbuild in H. destruct st.
    { destruct (IHk _ _ _ _ _ _ _ H) as [ex [E1 E2]]. exists ex. split; [exact E1|].
      intro l. rewrite core_run_Subbuild. apply E2. }
    destruct (sanitize a) as [sa|] eqn:Ea.
    2:{ destruct (IHk _ _ _ _ _ _ _ H) as [ex [E1 E2]]. exists ex. split; [exact E1|].
        intro l. rewrite core_run_Subbuild, Ea. apply E2. }
    destruct (sanitize kw) as [skw|] eqn:Ek.
    2:{ destruct (IHk _ _ _ _ _ _ _ H) as [ex [E1 E2]]. exists ex. split; [exact E1|].
        intro l. rewrite core_run_Subbuild, Ea, Ek. apply E2. }
    cbv zeta in H.
    destruct (existsb (py_eq (subbuild_key fname sa skw)) (k_claimedS s)) eqn:Ec.
    { destruct (IHk _ _ _ _ _ _ _ H) as [ex [E1 E2]]. exists ex. split; [exact E1|].
      intro l. rewrite core_run_Subbuild, Ea, Ek. cbv zeta.
      change (k_claimedS (with_log l s)) with (k_claimedS s). rewrite Ec. apply E2. }
    destruct (core_subhit s fname (subbuild_key fname sa skw)) as [[[subs' ret'] r]|] eqn:Eh.
    + match type of H with core_run _ _ _ _ ?s1 = _ =>
        destruct (chain0 _ _ s1 s _ _ (IHk _ _ _ _) eq_refl H) as [ex [E1 E2]] end.
      exists ex. split; [exact E1|].
      intro l. rewrite core_run_Subbuild, Ea, Ek. cbv zeta.
      change (k_claimedS (with_log l s)) with (k_claimedS s). rewrite Ec.
      rewrite core_subhit_with_log, Eh, adopt_with_log. apply E2.
    + destruct (core_run (fn sa skw) None None [] (core_substart s fname sa skw))
        as [s2 [[res pend2] bsubs]] eqn:Hfn.
      destruct (IHfn _ _ _ _ _ _ _ _ Hfn) as [ex1 [F1 F2]].
      rewrite core_substart_log in F1.
      assert (Hl : k_log (core_subreg s2 (subbuild_key fname sa skw) (sub_rec fname sa skw bsubs res))
                   = (ex1 ++ [LInvoke fname None sa skw]) ++ k_log s).
      { change (k_log (core_subreg s2 (subbuild_key fname sa skw) (sub_rec fname sa skw bsubs res))) with (k_log s2).
        rewrite F1, <- app_assoc. reflexivity. }
      destruct (chain _ _ _ _ s _ _ (IHk _ _ _ _) Hl H) as [ex [E1 E2]].
      exists ex. split; [exact E1|].
      intro l. rewrite core_run_Subbuild, Ea, Ek. cbv zeta.
      change (k_claimedS (with_log l s)) with (k_claimedS s). rewrite Ec.
      rewrite core_subhit_with_log, Eh, core_substart_with_log, F2.
      rewrite core_subreg_with_log.
      rewrite <- E2, <- app_assoc. reflexivity.
Qed.

(* ------------------------------------------------------------------ *)
(* the entries pushed are never LEffect                                *)
(* ------------------------------------------------------------------ *)
Definition noeff (ex : list logentry) : Prop :=
  Forall (fun e => match e with LEffect _ _ => False | _ => True end) ex.

Definition log_noeff {X} (run : kstate -> kstate * X) : Prop :=
  forall s s' out, run s = (s', out) -> exists ex, k_log s' = ex ++ k_log s /\ noeff ex.

Lemma chain_ne : forall X (run : kstate -> kstate * X) s1 pre s s' out,
  log_noeff run -> noeff pre ->
  k_log s1 = pre ++ k_log s ->
  run s1 = (s', out) ->
  exists ex, k_log s' = ex ++ k_log s /\ noeff ex.
Proof.
  intros X run s1 pre s s' out Hf Hp Hl Hr.
  destruct (Hf _ _ _ Hr) as [ex [E1 E2]].
  exists (ex ++ pre). split.
  - rewrite E1, Hl, app_assoc. reflexivity.
  - apply Forall_app. split; assumption.
Qed.

Lemma noeff_nil : noeff [].
Proof. constructor. Qed.

Lemma core_run_log_noeff : forall pr tg pend subs, log_noeff (core_run pr tg pend subs).
Proof.
  induction pr as [v | e | st q k IHk | c k IHk | st p c fname a kw fn IHfn k IHk | st fname a kw fn IHfn k IHk];
    intros tg pend subs s s' out H.
  - cbn in H. inversion H; subst. exists []. split; [reflexivity|apply noeff_nil].
  - cbn in H. inversion H; subst. exists []. split; [reflexivity|apply noeff_nil].
  - rewrite core_run_Ask in H. destruct st; [exact (IHk _ _ _ _ _ _ _ H)|].
    cbv zeta in H.
    destruct (spec_answer (k_fs s) q) as [v|c].
    + refine (chain_ne _ _ (klog (LAnswer q (inl v)) s) [LAnswer q (inl v)] s _ _ (IHk _ _ _ _) _ eq_refl H).
      repeat constructor.
    + refine (chain_ne _ _ (klog (LAnswer q (inr c)) s) [LAnswer q (inr c)] s _ _ (IHk _ _ _ _) _ eq_refl H).
      repeat constructor.
  - rewrite core_run_Write in H. destruct tg as [p|]; [|exact (IHk _ _ _ _ _ _ H)].
    destruct (path_ok p).
    + exact (chain_ne _ _ (ktick s) [] s _ _ (IHk _ _ _) noeff_nil eq_refl H).
    + inversion H; subst. exists []. split; [reflexivity|apply noeff_nil].
  - rewrite core_run_BuildFile in H. destruct st; [exact (IHk _ _ _ _ _ _ _ H)|].
    destruct (sanitize a) as [sa|]; [|exact (IHk _ _ _ _ _ _ _ H)].
    destruct (sanitize kw) as [skw|]; [|exact (IHk _ _ _ _ _ _ _ H)].
    cbv zeta in H.
    destruct (claim_check (k_claimedF s) (k_cachefile s) p) as [e|]; [exact (IHk _ _ _ _ _ _ _ H)|].
    destruct (setup_fs (k_fs s) (k_cachefile s) p) as [[fs1 dirs]|e]; [|exact (IHk _ _ _ _ _ _ _ H)].
    destruct (core_hit s (core_s0 s p fs1 dirs) p fname sa skw) as [[[[f subs'] ret'] r]|].
    + match type of H with core_run _ _ _ _ ?s1 = _ =>
        exact (chain_ne _ _ s1 [] s _ _ (IHk _ _ _ _) noeff_nil eq_refl H) end.
    + destruct (core_run (fn p sa skw) (Some p) None [] (core_start (core_s0 s p fs1 dirs) p fname sa skw))
        as [s2 [[res pend2] bsubs]] eqn:Hfn.
      destruct (IHfn _ _ _ _ _ _ _ _ _ Hfn) as [ex1 [F1 F2]].
      rewrite core_start_log in F1. change (k_log (core_s0 s p fs1 dirs)) with (k_log s) in F1.
      pose proof (core_finish_log s2 p c fname sa skw bsubs res pend2) as L3.
      destruct (core_finish s2 p c fname sa skw bsubs res pend2) as [[s3 out3] o] eqn:Hfin.
      cbn [fst snd] in L3.
      assert (Hl : k_log s3 = (ex1 ++ [LInvoke fname (Some p) sa skw]) ++ k_log s).
      { rewrite L3, F1, <- app_assoc. reflexivity. }
      refine (chain_ne _ _ s3 _ s _ _ (IHk _ _ _ _) _ Hl H).
      apply Forall_app. split; [exact F2|repeat constructor].
  - rewrite core_run_Subbuild in H. destruct st; [exact (IHk _ _ _ _ _ _ _ H)|].
    destruct (sanitize a) as [sa|]; [|exact (IHk _ _ _ _ _ _ _ H)].
    destruct (sanitize kw) as [skw|]; [|exact (IHk _ _ _ _ _ _ _ H)].
    cbv zeta in H.
    destruct (existsb (py_eq (subbuild_key fname sa skw)) (k_claimedS s)); [exact (IHk _ _ _ _ _ _ _ H)|].
    destruct (core_subhit s fname (subbuild_key fname sa skw)) as [[[subs' ret'] r]|].
    + match type of H with core_run _ _ _ _ ?s1 = _ =>
        exact (chain_ne _ _ s1 [] s _ _ (IHk _ _ _ _) noeff_nil eq_refl H) end.
    + destruct (core_run (fn sa skw) None None [] (core_substart s fname sa skw))
        as [s2 [[res pend2] bsubs]] eqn:Hfn.
      destruct (IHfn _ _ _ _ _ _ _ _ Hfn) as [ex1 [F1 F2]].
      rewrite core_substart_log in F1.
      assert (Hl : k_log (core_subreg s2 (subbuild_key fname sa skw) (sub_rec fname sa skw bsubs res))
                   = (ex1 ++ [LInvoke fname None sa skw]) ++ k_log s).
      { change (k_log (core_subreg s2 (subbuild_key fname sa skw) (sub_rec fname sa skw bsubs res))) with (k_log s2).
        rewrite F1, <- app_assoc. reflexivity. }
      refine (chain_ne _ _ _ _ s _ _ (IHk _ _ _ _) _ Hl H).
      apply Forall_app. split; [exact F2|repeat constructor].
Qed.

Theorem core_log_noeffect : forall pr tg pend subs s s' out,
  core_run pr tg pend subs s = (s', out) ->
  exists ex, k_log s' = ex ++ k_log s /\ Forall (fun e => match e with LEffect _ _ => False | _ => True end) ex.
Proof. intros pr tg pend subs s s' out H. exact (core_run_log_noeff pr tg pend subs s s' out H). Qed.

Print Assumptions core_log_noeffect.

Theorem core_log : core_log_statement.
Proof.
  intros pr tg pend subs s l0 s' out H l1.
  destruct (core_run_log_free pr tg pend subs _ _ _ H) as [ex [E1 E2]].
  exists ex. split; [exact E1|].
  specialize (E2 l1). rewrite with_log_idem in E2. exact E2.
Qed.

Print Assumptions core_log.
