(* Proofs/ViewH4.v — C04, cache hits: what a successful validation of a cached record
   (is_op_cached = True) establishes about the record tree, for records whose successful
   build_file nodes carry a comparison result ([goodrec]): no node failed in setup, no node
   is claimed in the new cache or is the cache file, every successful build_file node is a
   regular file on disk and every failed one is absent ([reusable]). *)
From Coq Require Import List String Ascii NArith ZArith Bool Arith Lia.
From FB.Base Require Import PyVal Fs.
From FB.Gen Require Import JsonUtilGen.
From FB.Model Require Import Types Monad CreatedFiles BuildDirs SimpleOps Builder.
From FB.Proofs Require Import FsLemmas CleanLaws JsonLaws CoreLawsChildren ReplayLaws BuildFileLaws
     ViewDefs ViewLemmas ViewScan ViewQueries ViewAnswers ViewPres ViewXQuery.
Import ListNotations.
Open Scope list_scope.
Open Scope m_scope.

Definition pnone (v : pyval) : bool := match v with PNone => true | _ => false end.

(* static: a record as builds write them *)
Fixpoint goodrec (o : op) : bool :=
  match o with
  | OSimple _ _ _ => true
  | OBuildFile _ _ _ _ _ subs _ cmpres raised _ => (raised || negb (pnone cmpres)) && forallb goodrec subs
  | OSubbuild _ _ _ subs _ _ _ => forallb goodrec subs
  end.

(* dynamic: the record can be adopted in a world with this tree, these claims, this cache file *)
Fixpoint reusable (fs : fsT) (new : cache) (cfp : path) (o : op) : bool :=
  match o with
  | OSimple _ _ _ => true
  | OBuildFile p _ _ _ _ subs _ _ raised sf =>
      negb sf && negb (cache_has_file new p) && negb (path_eqb p cfp) &&
      (if raised then negb (lexists fs p) else isfile fs p) && forallb (reusable fs new cfp) subs
  | OSubbuild f a k subs _ _ sf =>
      negb sf && negb (cache_has_subbuild new (subbuild_key f a k)) && forallb (reusable fs new cfp) subs
  end.

Lemma is_equal_none_r : forall a, is_equal a PNone = true -> a = PNone.
Proof. intros a H. destruct a; cbn in H; try discriminate; try reflexivity. Qed.

Lemma noneable_cmp_file : forall p c w w' v, noneable_cmp p c w = (w', inl v) -> pnone v = false ->
  isfile (w_fs w) p = true.
Proof.
  intros p c w w' v H Hv. unfold noneable_cmp, catch in H.
  destruct (file_comparison_result p c w) as [w1 [v1|e]] eqn:E.
  - inversion H; subst. apply (fcr_success_file _ _ _ _ _ E).
  - destruct (is_os_class XFileNotFound e || is_os_class XIsADirectory e || is_os_class XNotADirectory e);
      inversion H; subst; discriminate.
Qed.

Lemma svb_fields : forall w w', same_but_view w w' ->
  w_fs w' = w_fs w /\ w_new w' = w_new w /\ w_cachefile w' = w_cachefile w.
Proof. intros w w' (A1 & A2 & A3 & A4 & A5 & A6 & A7 & A8 & _). auto. Qed.

Section Facts.
  (* the tree, the claims and the cache file are those of one fixed world *)
  Variables (fs0 : fsT) (new0 : cache) (cfp0 : path).
  Definition at0 (w : world) : Prop := w_fs w = fs0 /\ w_new w = new0 /\ w_cachefile w = cfp0.

  Lemma at0_svb : forall w w', at0 w -> same_but_view w w' -> at0 w'.
  Proof. intros w w' (A & B & C) S. destruct (svb_fields _ _ S) as (D & E & F). repeat split; congruence. Qed.

  Lemma subs_go_facts : forall subs,
    Forall (fun o => forall cf w w' cf', goodrec o = true -> at0 w ->
                     is_op_cached o cf w = (w', inl (true, cf')) -> reusable fs0 new0 cfp0 o = true) subs ->
    forall cf w w' cf', forallb goodrec subs = true -> at0 w ->
      (fix go (subs : list op) (cf : cfiles) {struct subs} : M (bool * cfiles) :=
         match subs with
         | [] => ret (true, cf)
         | s :: rest => r <- is_op_cached s cf ;; if fst r then go rest (snd r) else ret (false, snd r)
         end) subs cf w = (w', inl (true, cf')) ->
      forallb (reusable fs0 new0 cfp0) subs = true.
  Proof.
    intros subs H. induction H as [|s rest Hs Hrest IH]; intros cf w w' cf' Hg Ha Hgo; [reflexivity|].
    cbn [forallb] in Hg |- *. apply andb_true_iff in Hg. destruct Hg as [Hg1 Hg2].
    apply bind_inv in Hgo. destruct Hgo as [[wa [r [E Hgo]]]|[e [_ Hgo]]]; [|discriminate].
    destruct r as [b1 cf1]. cbn [fst snd] in Hgo. destruct b1; [|inversion Hgo].
    rewrite (Hs cf w wa cf1 Hg1 Ha E). cbn [andb].
    apply (IH cf1 wa w' cf' Hg2); [|exact Hgo]. eapply at0_svb; [exact Ha|]. eapply is_op_cached_svb. exact E.
  Qed.

  Theorem is_op_cached_facts : forall o cf w w' cf', goodrec o = true -> at0 w ->
    is_op_cached o cf w = (w', inl (true, cf')) -> reusable fs0 new0 cfp0 o = true.
  Proof.
    induction o as [q r e|p c f a k subs r cr ra sf IH|f a k subs r ra sf IH] using op_ind';
      intros cf w w' cf' Hg Ha H; cbn [is_op_cached] in H; cbn [reusable goodrec] in *.
    - reflexivity.
    - pose proof (subs_go_facts subs IH) as Hgo. apply andb_true_iff in Hg. destruct Hg as [Hg1 Hg2].
      destruct Ha as (A1 & A2 & A3).
      apply bind_inv in H. unfold get in H. destruct H as [[w1 [w0 [E H]]]|[e [E _]]]; [|discriminate].
      inversion E; subst w1 w0. rewrite A2, A3 in H.
      destruct (cache_has_file new0 p || path_eqb p cfp0) eqn:Ec; [inversion H|].
      apply orb_false_iff in Ec. destruct Ec as [Ec1 Ec2]. rewrite Ec1, Ec2.
      apply bind_inv in H. destruct H as [[w1 [ve [Ev H]]]|[e [_ H]]]; [|discriminate].
      pose proof (version_equal_svb _ _ _ _ Ev) as S1.
      destruct ve; [|inversion H]. cbn [negb] in H.
      apply bind_inv in H. destruct H as [[w2 [ok [Eo H]]]|[e [_ H]]]; [|discriminate].
      destruct ok; [|inversion H]. cbn [negb] in H.
      assert (S2: same_but_view w1 w2 /\ (ra = false -> isfile fs0 p = true)).
      { destruct ra.
        - inversion Eo; subst. split; [apply svb_refl|discriminate].
        - split; [eapply is_build_file_cached_svb; exact Eo|]. intros _.
          unfold is_build_file_cached in Eo. apply bind_inv in Eo. destruct Eo as [[w3 [cur [En Eo]]]|[e [_ Eo]]]; [|discriminate].
          inversion Eo; subst.
          assert (Hcur: pnone cur = false).
          { destruct cur; try reflexivity. match goal with Hq : is_equal cr PNone = true |- _ => apply is_equal_none_r in Hq; subst cr end.
            cbn in Hg1. discriminate. }
          pose proof (noneable_cmp_file _ _ _ _ _ En Hcur) as Hf.
          destruct (svb_fields _ _ S1) as (F1 & _). congruence. }
      destruct S2 as [S2 Hfile].
      apply bind_inv in H. unfold get in H. destruct H as [[w3 [w0 [E3 H]]]|[e [E3 _]]]; [|discriminate].
      inversion E3; subst w3 w0.
      assert (Ha2: at0 w2).
      { eapply at0_svb; [|exact S2]. eapply at0_svb; [|exact S1]. repeat split; assumption. }
      destruct Ha2 as (B1 & B2 & B3). rewrite B1 in H.
      destruct (ra && lexists fs0 p) eqn:El; [inversion H|].
      destruct sf; [inversion H|]. cbn [negb andb].
      apply bind_inv in H. destruct H as [[w3 [dres [Ed H]]]|[e [Ed _]]].
      2:{ unfold attempt in Ed. destruct (dirs_to_make (dirname p) (Some cf) w2); discriminate. }
      assert (S3: same_but_view w2 w3).
      { unfold attempt in Ed. destruct (dirs_to_make (dirname p) (Some cf) w2) as [w4 x] eqn:E4. inversion Ed; subst.
        eapply dirs_to_make_svb. exact E4. }
      destruct dres as [ds|e]; [|destruct (is_os e); inversion H].
      apply bind_inv in H. destruct H as [[w4 [rr [Es H]]]|[e [_ H]]]; [|discriminate].
      destruct rr as [b1 cf1]. cbn [fst snd] in H. destruct b1; [|inversion H]. cbn [negb] in H.
      assert (Ha3: at0 w3) by (eapply at0_svb; [repeat split; eassumption|exact S3]).
      rewrite (Hgo _ _ _ _ Hg2 Ha3 Es), andb_true_r.
      destruct ra.
      + cbn [andb] in El. rewrite El. reflexivity.
      + rewrite (Hfile eq_refl). reflexivity.
    - pose proof (subs_go_facts subs IH) as Hgo. destruct Ha as (A1 & A2 & A3).
      apply bind_inv in H. destruct H as [[w1 [ve [Ev H]]]|[e [_ H]]]; [|discriminate].
      pose proof (version_equal_svb _ _ _ _ Ev) as S1.
      destruct (negb ve || sf) eqn:Ec; [inversion H|]. apply orb_false_iff in Ec. destruct Ec as [_ Ec]. subst sf.
      apply bind_inv in H. unfold get in H. destruct H as [[w2 [w0 [E2 H]]]|[e [E2 _]]]; [|discriminate].
      inversion E2; subst w2 w0.
      assert (Ha1: at0 w1) by (eapply at0_svb; [repeat split; eassumption|exact S1]).
      destruct Ha1 as (B1 & B2 & B3). rewrite B2 in H.
      destruct (cache_has_subbuild new0 (subbuild_key f a k)); [inversion H|]. cbn [negb andb].
      apply (Hgo _ _ _ _ Hg (conj B1 (conj B2 B3)) H).
  Qed.
End Facts.

Lemma are_subs_cached_facts : forall subs cf w w' cf', forallb goodrec subs = true ->
  are_subs_cached subs cf w = (w', inl (true, cf')) ->
  forallb (reusable (w_fs w) (w_new w) (w_cachefile w)) subs = true.
Proof.
  intros subs cf w w' cf' Hg H.
  assert (G: forall subs cf w1 w2 cf2, forallb goodrec subs = true -> at0 (w_fs w) (w_new w) (w_cachefile w) w1 ->
             are_subs_cached subs cf w1 = (w2, inl (true, cf2)) ->
             forallb (reusable (w_fs w) (w_new w) (w_cachefile w)) subs = true).
  { clear. induction subs as [|s rest IH]; intros cf w1 w2 cf2 Hg Ha H; [reflexivity|].
    cbn [forallb are_subs_cached] in *. apply andb_true_iff in Hg. destruct Hg as [Hg1 Hg2].
    apply bind_inv in H. destruct H as [[wa [r [E H]]]|[e [_ H]]]; [|discriminate].
    destruct r as [b1 cf1]. cbn [fst snd] in H. destruct b1; [|inversion H].
    rewrite (is_op_cached_facts _ _ _ s cf w1 wa cf1 Hg1 Ha E). cbn [andb].
    apply (IH cf1 wa w2 cf2 Hg2); [|exact H]. eapply at0_svb; [exact Ha|eapply is_op_cached_svb; exact E]. }
  apply (G subs cf w w' cf' Hg); [repeat split|exact H].
Qed.

Print Assumptions is_op_cached_facts.
