(* Proofs/BookGenLaws.v — the definitions regenerated from created_files.py and build_dirs.py
   (Gen/BookGen.v, written by tools/translate/bookkeeping_tr.py) equal the hand-written routines of
   Model/CreatedFiles.v and Model/BuildDirs.v that the rest of the development uses.

   One lemma per generated routine.  Where the generated shape differs from the model's, the lemma
   states the relation that holds:
   - gen_cf_remove_from_subfiles also returns Python's bool; the model keeps only the state
     ([option_map fst]);
   - gen_cf_has_norm_cased_file / _dir take the object, the model's cf_has_file / cf_has_dir an
     [option cfiles] ([Some c]);
   - the model's [scanres] has no KeyError outcome: gen_bd_check_maybe_removed_dir starts with
     [set.remove], whose KeyError the model leaves out because every caller has just tested membership.
     The equality is therefore stated under that membership ([of_scanres] embeds scanres into gres);
     for gen_bd_is_removed_norm_case it is unconditional;
   - fuel: the translator threads [fuel] through every caller of a recursive method; the model's
     is_removed supplies [S (length (bd_maybe b))] itself.
   Self-contained: imports Base, Model/{Types,CreatedFiles,BuildDirs} and Gen/BookGen only. *)
From Coq Require Import List String Bool Arith.
From FB.Base Require Import PyVal Fs.
From FB.Model Require Import Types CreatedFiles BuildDirs.
From FB.Gen Require Import BookGen.
Import ListNotations.
Open Scope list_scope.

(* ---- association-list facts ---- *)
Lemma bg_path_eqb_refl : forall p, path_eqb p p = true.
Proof. induction p as [|x p IH]; simpl; [reflexivity|]. rewrite String.eqb_refl. exact IH. Qed.

Lemma bg_sub_get_set : forall l d v, sub_get (sub_set l d v) d = Some v.
Proof.
  induction l as [|[q m] r IH]; intros d v; simpl.
  - rewrite bg_path_eqb_refl. reflexivity.
  - destruct (path_eqb q d) eqn:E; simpl; rewrite E; [reflexivity|apply IH].
Qed.

Lemma bg_sub_set_set : forall l d v w, sub_set (sub_set l d v) d w = sub_set l d w.
Proof.
  induction l as [|[q m] r IH]; intros d v w; simpl.
  - rewrite bg_path_eqb_refl. reflexivity.
  - destruct (path_eqb q d) eqn:E; simpl; rewrite E; [reflexivity|]. rewrite IH. reflexivity.
Qed.

Lemma bg_sub_del_set : forall l d v, sub_del (sub_set l d v) d = sub_del l d.
Proof.
  induction l as [|[q m] r IH]; intros d v; simpl.
  - rewrite bg_path_eqb_refl. reflexivity.
  - destruct (path_eqb q d) eqn:E; simpl; rewrite E; [reflexivity|]. rewrite IH. reflexivity.
Qed.

Lemma bg_sub_set_same : forall l d v, sub_get l d = Some v -> sub_set l d v = l.
Proof.
  induction l as [|[q m] r IH]; intros d v H; simpl in *; [discriminate|].
  destruct (path_eqb q d) eqn:E.
  - injection H as ->. reflexivity.
  - rewrite IH by exact H. reflexivity.
Qed.

Lemma bg_del_absent : forall p l, mem_path p l = false -> del_path p l = l.
Proof.
  induction l as [|q r IH]; simpl; intro H; [reflexivity|].
  destruct (path_eqb q p); simpl in H; [discriminate|]. rewrite IH by exact H. reflexivity.
Qed.

Lemma bg_mem_add : forall p l, mem_path p (add_path p l) = true.
Proof.
  intros p l. unfold add_path. destruct (mem_path p l) eqn:E; [exact E|].
  clear E. induction l as [|q r IH]; simpl.
  - rewrite bg_path_eqb_refl. reflexivity.
  - rewrite IH. apply orb_true_r.
Qed.

(* ================= CreatedFiles ================= *)

Lemma gen_cf_init_eq : gen_cf_init = cf_empty.
Proof. reflexivity. Qed.

Lemma gen_cf_add_to_subfiles_eq : forall c p, gen_cf_add_to_subfiles c p = cf_add_to_subfiles c p.
Proof.
  intros [fi di su co] [|n d]; [reflexivity|].
  unfold gen_cf_add_to_subfiles, cf_add_to_subfiles, set_cf_sub, cf_with, sub_at, name_add. simpl.
  destruct (sub_get su d) as [ns|] eqn:E; simpl.
  - rewrite ?E. destruct (mem_str n ns) eqn:M; simpl; rewrite ?E, ?M.
    + rewrite (bg_sub_set_same _ _ _ E). reflexivity.
    + reflexivity.
  - rewrite !bg_sub_get_set. simpl. rewrite bg_sub_set_set. reflexivity.
Qed.

(* the generated loop takes prev_parent = x :: parent, the model's worker takes parent *)
Lemma gen_cf_started_loop_eq : forall parent x c,
  gen_cf_started_building_file_loop1 (x :: parent) c = cf_started_from c parent.
Proof.
  induction parent as [|y d IH]; intros x c.
  - cbn [gen_cf_started_building_file_loop1 cf_started_from].
    rewrite gen_cf_add_to_subfiles_eq. unfold cnt_get_or.
    destruct (Nat.ltb 0 _); reflexivity.
  - remember (y :: d) as p eqn:Hp.
    cbn [gen_cf_started_building_file_loop1]. subst p. cbn [cf_started_from].
    rewrite IH, gen_cf_add_to_subfiles_eq. unfold cnt_get_or.
    destruct (Nat.ltb 0 _); reflexivity.
Qed.

Lemma gen_cf_started_building_file_eq : forall c f, gen_cf_started_building_file c f = cf_started c f.
Proof.
  intros c [|x d]; [reflexivity|].
  unfold gen_cf_started_building_file, cf_started. cbv zeta. apply gen_cf_started_loop_eq.
Qed.

Lemma gen_cf_finished_building_file_eq : forall c f, gen_cf_finished_building_file c f = cf_finished c f.
Proof.
  intros c f. unfold gen_cf_finished_building_file, cf_finished. cbv zeta.
  rewrite gen_cf_add_to_subfiles_eq. reflexivity.
Qed.

(* the model drops the returned bool *)
Lemma gen_cf_remove_from_subfiles_eq : forall c p,
  option_map fst (gen_cf_remove_from_subfiles c p) = cf_remove_from_subfiles c p.
Proof.
  intros [fi di su co] [|n d]; [reflexivity|].
  unfold gen_cf_remove_from_subfiles, cf_remove_from_subfiles, set_cf_sub, cf_with, sub_at. simpl.
  destruct (sub_get su d) as [ns|] eqn:E; [|reflexivity].
  destruct (mem_str n ns) eqn:M; simpl; [|reflexivity].
  rewrite bg_sub_get_set. destruct (del_str n ns) as [|a r] eqn:D; simpl.
  - rewrite bg_sub_del_set. reflexivity.
  - reflexivity.
Qed.

Local Arguments gen_cf_remove_from_subfiles : simpl never.
Local Arguments cf_remove_from_subfiles : simpl never.

Lemma gen_cf_error_loop_eq : forall parent x c,
  gen_cf_error_building_file_loop1 (x :: parent) c = cf_error_from c parent.
Proof.
  induction parent as [|y d IH]; intros x [fi di su co].
  - cbn [gen_cf_error_building_file_loop1 cf_error_from]. cbv zeta.
    unfold set_cf_counts, set_cf_dirs, cf_with. simpl.
    destruct (cnt_get co []) as [n|]; [|reflexivity].
    destruct (Nat.ltb 0 (n - 1)); [reflexivity|].
    destruct (mem_path [] di); reflexivity.
  - remember (y :: d) as p eqn:Hp.
    cbn [gen_cf_error_building_file_loop1]. cbv zeta.
    unfold set_cf_counts, set_cf_dirs. cbn [cf_counts cf_dirs cf_files cf_sub].
    subst p. cbn [cf_error_from]. cbv zeta. unfold cf_with. cbn [cf_counts cf_dirs cf_files cf_sub].
    destruct (cnt_get co (y :: d)) as [n|]; [|reflexivity].
    destruct (Nat.ltb 0 (n - 1)); [reflexivity|].
    destruct (mem_path (y :: d) di); cbn [negb]; [|reflexivity].
    rewrite <- gen_cf_remove_from_subfiles_eq.
    destruct (gen_cf_remove_from_subfiles _ (y :: d)) as [[s r]|]; cbn [option_map fst]; [|reflexivity].
    apply IH.
Qed.

Lemma gen_cf_error_building_file_eq : forall c f, gen_cf_error_building_file c f = cf_error c f.
Proof.
  intros c [|x d]; [reflexivity|].
  unfold gen_cf_error_building_file, cf_error. cbv zeta. rewrite gen_cf_error_loop_eq.
  destruct (cf_error_from c d); reflexivity.
Qed.

Lemma gen_cf_has_norm_cased_file_eq : forall c p, gen_cf_has_norm_cased_file c p = cf_has_file (Some c) p.
Proof. reflexivity. Qed.

Lemma gen_cf_has_norm_cased_dir_eq : forall c p, gen_cf_has_norm_cased_dir c p = cf_has_dir (Some c) p.
Proof. reflexivity. Qed.

Lemma gen_cf_list_dir_eq : forall c p, gen_cf_list_dir c p = cf_list_dir c p.
Proof. reflexivity. Qed.

(* ================= BuildDirs ================= *)

Lemma gen_bd_init_eq : forall old_dirs old_files, gen_bd_init old_dirs old_files = bd_init old_dirs old_files.
Proof. reflexivity. Qed.

(* locks are dropped: the accessor of _creation_lock has nothing left to return *)
Lemma gen_bd_creation_lock_eq : forall b, gen_bd_creation_lock b = tt.
Proof. reflexivity. Qed.

(* _handle_dir_exists: second loop *)
Lemma gen_bd_hde_loop2_eq : forall p b, fst (gen_bd_handle_dir_exists_loop2 p b) = hde2 b p.
Proof.
  induction p as [|y d IH]; intro b; cbn [gen_bd_handle_dir_exists_loop2 hde2];
    destruct (mem_path _ (bd_exists b)); cbn [negb fst]; try reflexivity.
  apply IH.
Qed.

(* first loop, then the second one started where the first stopped *)
Lemma gen_bd_hde_loops_eq : forall p b,
  fst (gen_bd_handle_dir_exists_loop2 (snd (gen_bd_handle_dir_exists_loop1 p b))
                                      (fst (gen_bd_handle_dir_exists_loop1 p b)))
  = handle_dir_exists b p.
Proof.
  induction p as [|y d IH]; intro b; cbn [gen_bd_handle_dir_exists_loop1 handle_dir_exists];
    unfold in_counts, cnt_mem;
    destruct (mem_path _ (bd_exists b)); cbn [negb andb orb fst snd]; try apply gen_bd_hde_loop2_eq;
    destruct (cnt_get (bd_counts b) _); cbn [negb andb orb fst snd]; try apply gen_bd_hde_loop2_eq.
  - (* the root: the recursion is cut; the second loop finds [] registered and stops at once *)
    cbn [gen_bd_handle_dir_exists_loop2]. unfold set_bd_exists at 1. cbn [bd_exists].
    rewrite bg_mem_add. reflexivity.
  - apply IH.
Qed.

Lemma gen_bd_handle_dir_exists_eq : forall b p, gen_bd_handle_dir_exists b p = handle_dir_exists b p.
Proof.
  intros b p. rewrite <- gen_bd_hde_loops_eq. unfold gen_bd_handle_dir_exists.
  destruct (gen_bd_handle_dir_exists_loop1 p b) as [s1 p1]. cbn [fst snd].
  destruct (gen_bd_handle_dir_exists_loop2 p1 s1) as [s2 p2]. reflexivity.
Qed.

Lemma gen_bd_handle_norm_cased_dir_exists_eq : forall b p,
  gen_bd_handle_norm_cased_dir_exists b p = handle_dir_exists b p.
Proof. intros. unfold gen_bd_handle_norm_cased_dir_exists. apply gen_bd_handle_dir_exists_eq. Qed.

(* Soundness of the cut at the root made by the translator's "ascend" rule: when a generated loop
   stops, the Python loop guard is false for the state and the path it stops with (at the root
   because [] has just been added to _exists_dirs), so the Python loop stops there too. *)
Lemma gen_bd_hde_loop2_exit : forall p b,
  let r := gen_bd_handle_dir_exists_loop2 p b in
  negb (mem_path (snd r) (bd_exists (fst r))) = false.
Proof.
  induction p as [|y d IH]; intro b; cbn [gen_bd_handle_dir_exists_loop2];
    destruct (mem_path _ (bd_exists b)) eqn:E; cbn [negb fst snd]; try (rewrite E; reflexivity).
  - unfold set_bd_exists. cbn [bd_exists]. rewrite bg_mem_add. reflexivity.
  - apply IH.
Qed.

Lemma gen_bd_hde_loop1_exit : forall p b,
  let r := gen_bd_handle_dir_exists_loop1 p b in
  andb (negb (mem_path (snd r) (bd_exists (fst r)))) (negb (cnt_mem (bd_counts (fst r)) (snd r))) = false.
Proof.
  induction p as [|y d IH]; intro b; cbn [gen_bd_handle_dir_exists_loop1];
    destruct (andb (negb (mem_path _ (bd_exists b))) _) eqn:E; cbn [fst snd]; try exact E.
  - unfold set_bd_exists at 1. cbn [bd_exists]. rewrite bg_mem_add. reflexivity.
  - apply IH.
Qed.

(* _check_maybe_removed_dir / is_removed_norm_case *)
Definition of_scanres (r : scanres) : gres bdirs bool :=
  match r with
  | ScanOk b removed => GRet b removed
  | ScanErr b e => GOSError b e
  | ScanFuel => GFuel
  end.

Local Arguments gen_bd_handle_dir_exists : simpl never.
Local Arguments handle_dir_exists : simpl never.

Lemma gen_bd_check_maybe_removed_dir_eq : forall fuel fs b d,
  mem_path d (bd_maybe b) = true ->
  gen_bd_check_maybe_removed_dir fuel fs b d = of_scanres (check_maybe fuel fs b d).
Proof.
  induction fuel as [|fuel IHf]; intros fs b d Hm; [reflexivity|].
  cbn [gen_bd_check_maybe_removed_dir check_maybe]. rewrite Hm. cbv zeta.
  destruct (listdir fs d) as [names|e].
  - match goal with
    | |- ?g names ?s1 = of_scanres (?m names ?s2) => change s2 with s1; generalize s1
    end.
    induction names as [|n rest IH]; intro b1.
    + reflexivity.
    + cbv zeta.
      destruct (mem_path (n :: d) (bd_removed b1)) eqn:E1.
      { destruct (isfile fs (n :: d)) eqn:E2; [|apply IH].
        rewrite gen_bd_handle_dir_exists_eq. reflexivity. }
      destruct (mem_path (n :: d) (bd_removed_files b1)) eqn:E3.
      { destruct (isdir fs (n :: d)) eqn:E4; [|apply IH].
        rewrite gen_bd_handle_dir_exists_eq. reflexivity. }
      destruct (mem_path (n :: d) (bd_maybe b1)) eqn:E5.
      { rewrite (IHf fs b1 (n :: d) E5).
        destruct (check_maybe fuel fs b1 (n :: d)) as [b2 [|]|b2 e|]; cbn [of_scanres negb]; try reflexivity.
        apply IH. }
      rewrite !gen_bd_handle_dir_exists_eq.
      destruct (isdir fs (n :: d)); reflexivity.
  - destruct e; cbn [of_scanres]; rewrite ?gen_bd_handle_dir_exists_eq; reflexivity.
Qed.

Lemma gen_bd_is_removed_norm_case_eq : forall fs b d,
  gen_bd_is_removed_norm_case (S (List.length (bd_maybe b))) fs b d = of_scanres (is_removed fs b d).
Proof.
  intros fs b d. unfold gen_bd_is_removed_norm_case, is_removed, in_counts, cnt_mem.
  destruct (cnt_get (bd_counts b) d); [reflexivity|].
  destruct (mem_path d (bd_removed b)); [reflexivity|].
  destruct (mem_path d (bd_maybe b)) eqn:E; cbn [negb]; [|reflexivity].
  apply gen_bd_check_maybe_removed_dir_eq. exact E.
Qed.

(* the fuel is only a budget: with any other amount the generated routine agrees with the model's
   check_maybe run on the same amount (previous lemma); the model's choice is the one above *)

(* started_building_file *)
Lemma gen_bd_started_loop_eq : forall parent x cds b acc,
  gen_bd_started_building_file_loop1 cds (x :: parent) b acc = bd_started_from b cds parent acc.
Proof.
  induction parent as [|y d IH]; intros x cds b acc.
  - cbn [gen_bd_started_building_file_loop1 bd_started_from]. unfold cnt_get_or. cbv zeta.
    destruct (Nat.ltb 0 _); [reflexivity|].
    destruct (mem_path [] cds); reflexivity.
  - remember (y :: d) as p eqn:Hp.
    cbn [gen_bd_started_building_file_loop1]. subst p. cbn [bd_started_from]. unfold cnt_get_or. cbv zeta.
    destruct (Nat.ltb 0 _); [reflexivity|].
    destruct (mem_path (y :: d) cds); rewrite IH; reflexivity.
Qed.

Lemma gen_bd_started_building_file_eq : forall b f cds,
  gen_bd_started_building_file b f cds = bd_started b f cds.
Proof.
  intros b [|x d] cds; [reflexivity|].
  unfold gen_bd_started_building_file, bd_started. cbv zeta. rewrite gen_bd_started_loop_eq.
  match goal with |- (let '(s, l) := ?t in (s, l)) = ?u => change u with t; destruct t end.
  reflexivity.
Qed.

(* error_building_file *)
Lemma gen_bd_error_loop_eq : forall parent x b,
  gen_bd_error_building_file_loop1 (x :: parent) b = bd_error_from b parent.
Proof.
  induction parent as [|y d IH]; intros x [co cr er rm ex mb rf].
  - cbn [gen_bd_error_building_file_loop1 bd_error_from]. cbv zeta.
    unfold set_bd_counts, set_bd_created, set_bd_err_created, set_bd_maybe, set_bd_exists, bd_with.
    cbn [bd_counts bd_created bd_err_created bd_removed bd_exists bd_maybe bd_removed_files].
    destruct (cnt_get co []) as [n|]; [|reflexivity].
    destruct (Nat.ltb 0 (n - 1)); [reflexivity|].
    destruct (mem_path [] cr) eqn:E; [reflexivity|].
    rewrite (bg_del_absent _ _ E). reflexivity.
  - remember (y :: d) as p eqn:Hp.
    cbn [gen_bd_error_building_file_loop1]. cbv zeta.
    unfold set_bd_counts, set_bd_created, set_bd_err_created, set_bd_maybe, set_bd_exists.
    cbn [bd_counts bd_created bd_err_created bd_removed bd_exists bd_maybe bd_removed_files].
    subst p. cbn [bd_error_from]. cbv zeta. unfold bd_with.
    cbn [bd_counts bd_created bd_err_created bd_removed bd_exists bd_maybe bd_removed_files].
    destruct (cnt_get co (y :: d)) as [n|]; [|reflexivity].
    destruct (Nat.ltb 0 (n - 1)); [reflexivity|].
    destruct (mem_path (y :: d) cr) eqn:E.
    + apply IH.
    + rewrite (bg_del_absent _ _ E). apply IH.
Qed.

Lemma gen_bd_error_building_file_eq : forall b f, gen_bd_error_building_file b f = bd_error b f.
Proof.
  intros b [|x d]; [reflexivity|].
  unfold gen_bd_error_building_file, bd_error. cbv zeta. rewrite gen_bd_error_loop_eq.
  destruct (bd_error_from b d); reflexivity.
Qed.

(* created_dirs() / norm_cased_error_created_dirs(): the model reads the fields directly *)
Lemma gen_bd_created_dirs_eq : forall b, gen_bd_created_dirs b = bd_created b.
Proof. reflexivity. Qed.

Lemma gen_bd_norm_cased_error_created_dirs_eq : forall b, gen_bd_norm_cased_error_created_dirs b = bd_err_created b.
Proof. reflexivity. Qed.
