(* Proofs/CoreNextEx.v — validation by computation of the statements of CoreNext*.v on the scenarios of
   CoreLawsEx.v, and the concrete programs behind the findings. *)
From Coq Require Import List String NArith ZArith Bool Arith.
From FB.Base Require Import PyVal Fs.
From FB.Gen Require Import JsonUtilGen.
From FB.Spec Require Import JsonSpec Prog Ref Oracle Faithful.
From FB.Model Require Import Types SimpleOps Builder Persist Dsl Core CoreOracle.
From FB.Proofs Require Import CoreLawsEx CoreNextDefs.
Import ListNotations.
Open Scope list_scope.
Open Scope string_scope.

(* the oracle of the statement: what was known before (the initial tree), else the final tree *)
Definition kq (fs : fsT) (s : kstate) : kappa := kpx (CoreLaws7.kp_of fs) (k_fs s).

Definition rec_ok (kp : kappa) (G : ftable) (o : op) : bool :=
  negb (tame [] o) || op_raised o || faithful_op kp G o.

(* scenario 1 and 2 of CoreLawsEx: every tame non-raised record is faithful for the extended oracle *)
Example sc1_records : forallb (rec_ok (kq fs0 st1) F) (all_records st1) = true.
Proof. vm_compute. reflexivity. Qed.
Example sc1_tame : map (tame []) (all_records st1) = [true; true; true; true; true; true; true; true].
Proof. vm_compute. reflexivity. Qed.
Example sc2_records : forallb (rec_ok (kq fs0 st3) F2) (all_records st3) = true.
Proof. vm_compute. reflexivity. Qed.
Example sc2_tame : forallb (tame []) (all_records st3) = true.
Proof. vm_compute. reflexivity. Qed.

(* records of the SECOND build of scenario 1 (all hits, adopted from the first build's cache) and of scenario 3
   (the input changed: some functions ran again, a read file... ) *)
Definition st_of (c : core_result) : kstate := match cr_state c with Some s => s | None => st1 end.
Example sc1b_records : forallb (rec_ok (kpx (kq fs0 st1) (k_fs (st_of b2c))) F) (all_records (st_of b2c)) = true.
Proof. vm_compute. reflexivity. Qed.
Example sc3_records : forallb (rec_ok (kpx (kpx (kq fs0 st1) fs1') (k_fs (st_of b5c))) F) (all_records (st_of b5c)) = true.
Proof. vm_compute. reflexivity. Qed.

(* ------------------------------------------------------------------ *)
(* Finding 1: a record Core produces, not raised, replayable, that is NOT faithful_op:                *)
(* a subbuild whose function builds x/d (fails: the directory d is pruned) and then builds d.          *)
(* [follows] refuses the second call (d is an ancestor of the claimed x/d).                            *)
(* ------------------------------------------------------------------ *)
Definition s_anc (a k : pyval) : prog :=
  BuildFile false ["x"; "d"] HASH "boom" PNone (PDict []) f_boom (fun _ =>
  BuildFile false ["d"] HASH "copy" PNone (PDict []) f_copy (fun o =>
  match o with inl v => Ret (PTuple [v; PStr "anc"]) | inr e => Raise e end)).
Definition FA : ftable := {| ft_file := ft_file F; ft_sub := fun f => s_anc |}.
Definition rootA : prog :=
  Subbuild false "anc" PNone (PDict []) s_anc (fun o => match o with inl v => Ret v | inr e => Raise e end).
Definition versA : pyval := PDict [(PStr "copy", PInt 1); (PStr "boom", PInt 1); (PStr "anc", PInt 1)].
Definition bA := core_build fs0 cf (empty_cache "b" versA) versA 10 10 rootA.
Definition stA : kstate := st_of bA.
Definition oldA : cache := CoreCache.cache_of_state "b" stA.
Definition fsA : fsT := CoreCache.next_fs cf stA.

Example findingA_first : cr_outcome bA = inl (PList [PInt 1; PStr "anc"]).
Proof. vm_compute. reflexivity. Qed.
(* the subbuild record: not raised, replayable, not tame, NOT faithful (for any of the oracles) *)
Example findingA_record :
  map (fun o => (op_raised o, replayable oldA versA o, tame [] o, faithful_op (kq fs0 stA) FA o,
                 faithful_op (CoreLawsEx.kp_of fsA) FA o)) (map snd (k_newS stA))
  = [(false, true, false, false, false)].
Proof. vm_compute. reflexivity. Qed.
(* the second build serves it from the cache (one log entry) and still agrees with the reference *)
Definition bA2c := core_build fsA cf oldA versA 20 20 rootA.
Definition bA2r := ref_build fsA cf (prev_of_cache oldA) 20 20 rootA.
Example findingA_second : agree bA2c bA2r = true /\ (List.length (cr_log bA2c), List.length (rr_log bA2r)) = (1%nat, 6%nat).
Proof. vm_compute. split; reflexivity. Qed.
