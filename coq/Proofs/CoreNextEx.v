(* Proofs/CoreNextEx.v — validation by computation of the statements of CoreNext*.v on the scenarios of
   CoreLawsEx.v, and the concrete programs behind the findings. *)
From Coq Require Import List String NArith ZArith Bool Arith.
From FB.Base Require Import PyVal Fs.
From FB.Gen Require Import JsonUtilGen.
From FB.Spec Require Import JsonSpec Prog Ref Oracle Faithful.
From FB.Model Require Import Types SimpleOps Builder Persist Dsl Core CoreOracle.
From FB.Proofs Require Import CoreLawsEx CoreNextDefs.
Import ListNotations.
Open Scope list_scope.
Open Scope string_scope.

(* the oracle of the statement: what was known before (the initial tree), else the final tree *)
Definition kq (fs : fsT) (s : kstate) : kappa := kpx (CoreLaws7.kp_of fs) (k_fs s).

Definition rec_ok (kp : kappa) (G : ftable) (o : op) : bool :=
  negb (tame [] o) || op_raised o || faithful_op kp G o.

(* scenario 1 and 2 of CoreLawsEx: every tame non-raised record is faithful for the extended oracle *)
Example sc1_records : forallb (rec_ok (kq fs0 st1) F) (all_records st1) = true.
Proof. vm_compute. reflexivity. Qed.
Example sc1_tame : map (tame []) (all_records st1) = [true; true; true; true; true; true; true; true].
Proof. vm_compute. reflexivity. Qed.
Example sc2_records : forallb (rec_ok (kq fs0 st3) F2) (all_records st3) = true.
Proof. vm_compute. reflexivity. Qed.
Example sc2_tame : forallb (tame []) (all_records st3) = true.
Proof. vm_compute. reflexivity. Qed.

(* records of the SECOND build of scenario 1 (all hits, adopted from the first build's cache) and of scenario 3
   (the input changed: some functions ran again, a read file... ) *)
Definition st_of (c : core_result) : kstate := match cr_state c with Some s => s | None => st1 end.
Example sc1b_records : forallb (rec_ok (kpx (kq fs0 st1) (k_fs (st_of b2c))) F) (all_records (st_of b2c)) = true.
Proof. vm_compute. reflexivity. Qed.
Example sc3_records : forallb (rec_ok (kpx (kpx (kq fs0 st1) fs1') (k_fs (st_of b5c))) F) (all_records (st_of b5c)) = true.
Proof. vm_compute. reflexivity. Qed.

(* ------------------------------------------------------------------ *)
(* Finding 1: a record Core produces, not raised, replayable, that is NOT faithful_op:                *)
(* a subbuild whose function builds x/d (fails: the directory d is pruned) and then builds d.          *)
(* [follows] refuses the second call (d is an ancestor of the claimed x/d).                            *)
(* ------------------------------------------------------------------ *)
Definition s_anc (a k : pyval) : prog :=
  BuildFile false ["x"; "d"] HASH "boom" PNone (PDict []) f_boom (fun _ =>
  BuildFile false ["d"] HASH "copy" PNone (PDict []) f_copy (fun o =>
  match o with inl v => Ret (PTuple [v; PStr "anc"]) | inr e => Raise e end)).
Definition FA : ftable := {| ft_file := ft_file F; ft_sub := fun f => s_anc |}.
Definition rootA : prog :=
  Subbuild false "anc" PNone (PDict []) s_anc (fun o => match o with inl v => Ret v | inr e => Raise e end).
Definition versA : pyval := PDict [(PStr "copy", PInt 1); (PStr "boom", PInt 1); (PStr "anc", PInt 1)].
Definition bA := core_build fs0 cf (empty_cache "b" versA) versA 10 10 rootA.
Definition stA : kstate := st_of bA.
Definition oldA : cache := CoreCache.cache_of_state "b" stA.
Definition fsA : fsT := CoreCache.next_fs cf stA.

Example findingA_first : cr_outcome bA = inl (PList [PInt 1; PStr "anc"]).
Proof. vm_compute. reflexivity. Qed.
(* the subbuild record: not raised, replayable, not tame, NOT faithful (for any of the oracles) *)
Example findingA_record :
  map (fun o => (op_raised o, replayable oldA versA o, tame [] o, faithful_op (kq fs0 stA) FA o,
                 faithful_op (CoreLawsEx.kp_of fsA) FA o)) (map snd (k_newS stA))
  = [(false, true, false, false, false)].
Proof. vm_compute. reflexivity. Qed.
(* the second build serves it from the cache (one log entry) and still agrees with the reference *)
Definition bA2c := core_build fsA cf oldA versA 20 20 rootA.
Definition bA2r := ref_build fsA cf (prev_of_cache oldA) 20 20 rootA.
Example findingA_second : agree bA2c bA2r = true /\ (List.length (cr_log bA2c), List.length (rr_log bA2r)) = (1%nat, 6%nat).
Proof. vm_compute. split; reflexivity. Qed.

(* ------------------------------------------------------------------ *)
(* the coverage condition of the theorems, as a check on a cache      *)
(* ------------------------------------------------------------------ *)
Definition served_tame (c : cache) (vs : pyval) (o : op) : bool :=
  op_raised o || negb (replayable c vs o) || tame [] o.
Definition cache_tameb (c : cache) (vs : pyval) : bool :=
  forallb (fun e => match snd e with Some o => served_tame c vs o | None => true end) (c_files c) &&
  forallb (fun e => match snd e with Some o => served_tame c vs o | None => true end) (c_subs c).

Example sc1_cache_tame : cache_tameb old1 vers = true.
Proof. vm_compute. reflexivity. Qed.
Example sc2_cache_tame : cache_tameb old3 vers3 = true.
Proof. vm_compute. reflexivity. Qed.
Example findingA_not_tame : cache_tameb oldA versA = false.
Proof. vm_compute. reflexivity. Qed.

(* ------------------------------------------------------------------ *)
(* Finding 2: subbuild functions must not distinguish JSON-equal arguments (RespectsS).            *)
(* The function below tells 1 from 1.0; the first build records the call with 1, the second build   *)
(* asks with 1.0: Core serves the record (same key), the reference runs the function.               *)
(* The record of the first build is not faithful for the presentation 1.0 of its argument.          *)
(* ------------------------------------------------------------------ *)
Definition s_ty (a k : pyval) : prog :=
  match a with PInt _ => Ret (PStr "int") | _ => Ret (PStr "other") end.
Definition FT : ftable := {| ft_file := ft_file F; ft_sub := fun f => s_ty |}.
Definition rootT1 : prog := Subbuild false "ty" (PInt 1) (PDict []) s_ty (fun o => match o with inl v => Ret v | inr e => Raise e end).
Definition rootT2 : prog := Subbuild false "ty" (PFloat (FFin false 1 0)) (PDict []) s_ty (fun o => match o with inl v => Ret v | inr e => Raise e end).
Definition versT : pyval := PDict [(PStr "ty", PInt 1)].
Definition bT := core_build fs0 cf (empty_cache "b" versT) versT 10 10 rootT1.
Definition stT : kstate := st_of bT.
Definition oldT : cache := CoreCache.cache_of_state "b" stT.
Definition fsT2 : fsT := CoreCache.next_fs cf stT.
Example findingT_record :
  map (fun o => (faithful_op (kq fs0 stT) FT o, faithful_sub_at (kq fs0 stT) FT o (PFloat (FFin false 1 0)) (PDict []))) (map snd (k_newS stT))
  = [(true, false)].
Proof. vm_compute. reflexivity. Qed.
Example findingT_second :
  (show_outcome (cr_outcome (core_build fsT2 cf oldT versT 20 20 rootT2)),
   show_outcome (rr_outcome (ref_build fsT2 cf (prev_of_cache oldT) 20 20 rootT2)))
  = ("ok:'int'", "ok:'other'").
Proof. vm_compute. reflexivity. Qed.

(* ------------------------------------------------------------------ *)
(* Finding 3: the directory made for the cache file can be pruned during the build: with the cache   *)
(* file at cache/d (d missing at the start) a failed target x/d takes d away again (Core and the     *)
(* reference agree on this); the tree with the cache file in place is then not a tree, which is why  *)
(* [fs_wf (next_fs cf s1)] stays a hypothesis of the two-build corollary.                            *)
(* ------------------------------------------------------------------ *)
Definition cfD : path := ["cache"; "d"].
Definition rootD : prog := BuildFile false ["x"; "d"] HASH "boom" PNone (PDict []) f_boom (fun _ => Ret (PStr "ok")).
Definition bD := core_build fs0 cfD (empty_cache "b" vers) vers 10 10 rootD.
Example findingD :
  cr_outcome bD = inl (PStr "ok") /\ lookup (cr_tree bD) ["d"] = None /\
  rr_outcome (ref_build fs0 cfD (prev_of_cache (empty_cache "b" vers)) 10 10 rootD) = inl (PStr "ok") /\
  lookup (rr_tree (ref_build fs0 cfD (prev_of_cache (empty_cache "b" vers)) 10 10 rootD)) ["d"] = None.
Proof. vm_compute. repeat split; reflexivity. Qed.

(* ------------------------------------------------------------------ *)
(* Finding 4: [faithful_cache] alone is not an invariant.  [follows] matches a nested build_file record  *)
(* by its path only: a cache whose single registered record is faithful can hold, inside that record,   *)
(* a record under a wrong function name.  A hit registers the nested record, and the cache of the next   *)
(* build is no longer faithful.  (The deep form [deep_cache] excludes such caches; Core never writes them.) *)
(* ------------------------------------------------------------------ *)
Definition f_wrap (p : path) (a k : pyval) : prog :=
  BuildFile false ["inner"] HASH "copy" PNone (PDict []) f_copy (fun _ => Write "w" (Ret (PInt 7))).
Definition FJ : ftable :=
  {| ft_file := fun f => if String.eqb f "wrap" then f_wrap else if String.eqb f "copy" then f_copy else f_boom;
     ft_sub := fun f => s_sub |}.
Definition outN : fnode := {| f_bytes := "w"; f_mtime := 11; f_id := 5; f_json := None |}.
Definition innerN : fnode := {| f_bytes := "hello!"; f_mtime := 12; f_id := 6; f_json := None |}.
Definition fsJ : fsT :=
  [(cf, Some (NFile cache_marker)); (["out"], Some (NFile outN)); (["inner"], Some (NFile innerN)); (["src"], Some (NFile src0))].
Definition versJ : pyval := PDict [(PStr "wrap", PInt 1); (PStr "copy", PInt 1); (PStr "JUNK", PInt 1)].
Definition recInner : op :=
  OBuildFile ["inner"] HASH "JUNK" PNone (PDict []) [OSimple (QRead ["src"] METADATA) (cmp_of METADATA src0) None]
             (PInt 1) (cmp_of HASH innerN) false false.
Definition recOut : op :=
  OBuildFile ["out"] METADATA "wrap" PNone (PDict []) [recInner] (PInt 7) (cmp_of METADATA outN) false false.
Definition oldJ : cache :=
  {| c_name := "b"; c_files := [(["out"], Some recOut)]; c_subs := []; c_dirs := []; c_fvers := versJ; c_built := [] |}.
Definition rootJ : prog := BuildFile false ["out"] METADATA "wrap" PNone (PDict []) f_wrap (fun _ => Ret (PStr "ok")).
Definition bJ := core_build fsJ cf oldJ versJ 20 20 rootJ.
Definition stJ : kstate := st_of bJ.
Definition newJ : cache := CoreCache.cache_of_state "b" stJ.

(* the old cache is faithful (its only registered record is), the build is a hit ... *)
Example findingJ_old : faithful_op (CoreLaws7.kp_of fsJ) FJ recOut = true /\ faithful_op (CoreLaws7.kp_of fsJ) FJ recInner = false.
Proof. vm_compute. split; reflexivity. Qed.
Example findingJ_hit : cr_outcome bJ = inl (PStr "ok") /\ List.length (cr_log bJ) = 1%nat.
Proof. vm_compute. split; reflexivity. Qed.
(* ... and the new cache registers the nested record: not raised, replayable, tame, not faithful *)
Example findingJ_new :
  map (fun e => (fst e, op_raised (snd e), replayable newJ versJ (snd e), tame [] (snd e),
                 faithful_op (kpx (CoreLaws7.kp_of fsJ) (k_fs stJ)) FJ (snd e))) (k_newF stJ)
  = [(["out"], false, true, true, true); (["inner"], false, true, true, false)].
Proof. vm_compute. reflexivity. Qed.
