(* Proofs/ViewAnswers.v — C04: walk and read on the view; every live query records
   Core.record_answer on the view tree (= Ref.spec_answer for the non-read queries);
   the consistency laws of the property. *)
From Coq Require Import List String Ascii NArith ZArith Bool Arith Lia.
From FB.Base Require Import PyVal Fs.
From FB.Model Require Import Types Monad CreatedFiles BuildDirs SimpleOps Core.
From FB.Spec Require Import Ref.
From FB.Proofs Require Import FsLemmas CleanLaws JsonLaws CoreLawsChildren ViewDefs ViewLemmas ViewScan ViewQueries.
Import ListNotations.
Open Scope list_scope.
Open Scope m_scope.

(* ------------------------------------------------------------------ walk *)
Definition walk_go (rec : path -> M (list pyval)) (d : path) : list name -> M (list pyval) :=
  fix go (ds : list name) : M (list pyval) :=
    match ds with
    | [] => ret []
    | n :: r => a <- rec (n :: d) ;; b <- go r ;; ret (a ++ b)
    end.

Lemma append_walk_eq : forall f d td cf,
  append_walk (S f) d td cf =
  (sup <- catch (list_dir_superset d cf) (fun e => if is_os e then ret [] else raise e) ;;
   cls <- classify d cf sup ;;
   below <- walk_go (fun a => append_walk f a td cf) d (fst cls) ;;
   ret (if td then walk_entry d (fst cls) (snd cls) :: below
        else below ++ [walk_entry d (fst cls) (snd cls)])).
Proof. reflexivity. Qed.

Lemma vfile_not_vdir : forall w p, vfile w p = true -> vdir w p = false.
Proof.
  intros w p H. unfold vfile, vdir, isfile, isdir in *.
  destruct (lookup (w_fs w) p) as [[f|]|]; try discriminate; reflexivity.
Qed.

Lemma classify_view : forall w0 d l,
  (forall n, In n l -> lexists (w_fs w0) (n :: d) = true) ->
  forall w1, good w0 w1 ->
  yields (classify d None l) w1
         (inl (filter (fun n => vdir w0 (n :: d)) l, filter (fun n => vfile w0 (n :: d)) l)).
Proof.
  intros w0 d l. induction l as [|n r IH]; intros Hl w1 G1.
  - apply yields_ret. apply (good_BInv _ _ G1).
  - cbn [classify filter].
    eapply yields_bind; [apply m_is_file_view; apply (good_BInv _ _ G1)|].
    intros w2 G2. rewrite (same_view_vfile _ _ _ (good_sv _ _ G1)).
    pose proof (good_trans _ _ _ G1 G2) as G02.
    assert (Hisd: yields (if vfile w0 (n :: d) then ret false else m_is_dir (n :: d) None) w2
                         (inl (if vfile w0 (n :: d) then false else vdir w0 (n :: d)))).
    { destruct (vfile w0 (n :: d)); [apply yields_ret; apply (good_BInv _ _ G2)|].
      rewrite <- (same_view_vdir _ _ _ (good_sv _ _ G02)).
      apply m_is_dir_view; [apply (good_BInv _ _ G2)|]. right.
      rewrite (sv_fs _ _ (good_sv _ _ G02)). apply Hl. left; reflexivity. }
    eapply yields_bind; [exact Hisd|]. intros w3 G3. pose proof (good_trans _ _ _ G02 G3) as G03.
    eapply yields_bind; [apply IH; [intros m Hm; apply Hl; right; exact Hm|exact G03]|].
    intros w4 G4. cbn [fst snd].
    destruct (vfile w0 (n :: d)) eqn:Ef.
    + rewrite (vfile_not_vdir _ _ Ef). apply yields_ret. apply (good_BInv _ _ G4).
    + destruct (vdir w0 (n :: d)); apply yields_ret; apply (good_BInv _ _ G4).
Qed.

Lemma walk_go_view : forall w0 (rec : path -> M (list pyval)) (g : name -> list pyval) d ds,
  (forall n w1, In n ds -> good w0 w1 -> yields (rec (n :: d)) w1 (inl (g n))) ->
  forall w1, good w0 w1 -> yields (walk_go rec d ds) w1 (inl (flat_map g ds)).
Proof.
  intros w0 rec g d ds. induction ds as [|n r IH]; intros H w1 G1.
  - apply yields_ret. apply (good_BInv _ _ G1).
  - cbn [walk_go flat_map]. eapply yields_bind; [apply H; [left; reflexivity|exact G1]|].
    intros w2 G2. pose proof (good_trans _ _ _ G1 G2) as G02.
    eapply yields_bind; [apply IH; [intros m w3 Hm G3; apply H; [right; exact Hm|exact G3]|exact G02]|].
    intros w3 G3. apply yields_ret. apply (good_BInv _ _ G3).
Qed.

Lemma filter_filter_imp : forall A (f g : A -> bool) l,
  (forall x, f x = true -> g x = true) -> filter f (filter g l) = filter f l.
Proof.
  intros A f g l H. induction l as [|x r IH]; [reflexivity|]. cbn [filter].
  destruct (g x) eqn:Eg.
  - cbn [filter]. rewrite IH. reflexivity.
  - rewrite IH. destruct (f x) eqn:Ef; [|reflexivity]. apply H in Ef. congruence.
Qed.

Lemma ref_walk_view : forall w f d td,
  ref_walk (S f) (view_fs w) d td =
  let subdirs := filter (fun n => vdir w (n :: d)) (children (w_fs w) d) in
  let subfiles := filter (fun n => vfile w (n :: d)) (children (w_fs w) d) in
  let below := flat_map (fun n => ref_walk f (view_fs w) (n :: d) td) subdirs in
  if td then walk_entry d subdirs subfiles :: below else below ++ [walk_entry d subdirs subfiles].
Proof.
  intros w f d td. cbn [ref_walk]. cbv zeta. rewrite children_view.
  assert (E1: filter (fun n => isdir (view_fs w) (n :: d)) (filter (fun n => visible w (n :: d)) (children (w_fs w) d))
              = filter (fun n => vdir w (n :: d)) (children (w_fs w) d)).
  { rewrite (filter_ext (fun n => isdir (view_fs w) (n :: d)) (fun n => vdir w (n :: d)))
      by (intro n; apply isdir_view; discriminate).
    apply filter_filter_imp. intros n. apply vdir_visible. }
  assert (E2: filter (fun n => isfile (view_fs w) (n :: d)) (filter (fun n => visible w (n :: d)) (children (w_fs w) d))
              = filter (fun n => vfile w (n :: d)) (children (w_fs w) d)).
  { rewrite (filter_ext (fun n => isfile (view_fs w) (n :: d)) (fun n => vfile w (n :: d)))
      by (intro n; apply isfile_view).
    apply filter_filter_imp. intros n. apply vfile_visible. }
  rewrite E1, E2. reflexivity.
Qed.

Theorem append_walk_view : forall w0 td fuel d w1,
  good w0 w1 -> vdir w0 d = true -> maxlen (w_fs w0) < fuel + List.length d ->
  yields (append_walk fuel d td None) w1 (inl (ref_walk fuel (view_fs w0) d td)).
Proof.
  intros w0 td. induction fuel as [|f IH]; intros d w1 G1 Hd Hlen.
  - exfalso. unfold vdir in Hd. apply andb_true_iff in Hd. destruct Hd as [Hd _]. apply isdir_lookup in Hd.
    apply lookup_maxlen in Hd. simpl in Hlen. lia.
  - rewrite append_walk_eq, ref_walk_view. cbv zeta.
    assert (Hl: lookup (w_fs w0) d = Some NDir).
    { unfold vdir in Hd. apply andb_true_iff in Hd. apply isdir_lookup. tauto. }
    pose proof (sv_fs _ _ (good_sv _ _ G1)) as F1.
    eapply yields_bind.
    { exists w1. split; [|apply good_refl, (good_BInv _ _ G1)].
      unfold catch. rewrite list_dir_superset_dir by (rewrite F1; exact Hl). rewrite F1. reflexivity. }
    intros w2 G2. pose proof (good_trans _ _ _ G1 G2) as G02.
    eapply yields_bind.
    { apply (classify_view w0 d (children (w_fs w0) d)); [|exact G02]. intros n Hn. apply children_In. exact Hn. }
    intros w3 G3. pose proof (good_trans _ _ _ G02 G3) as G03. cbn [fst snd].
    eapply yields_bind.
    { apply (walk_go_view w0 (fun a => append_walk f a td None) (fun n => ref_walk f (view_fs w0) (n :: d) td) d); [|exact G03].
      intros n w4 Hn G4. apply filter_In in Hn. destruct Hn as [Hn Hv].
      apply IH; [exact G4|exact Hv|]. simpl. lia. }
    intros w4 G4. apply yields_ret. apply (good_BInv _ _ G4).
Qed.

Theorem m_walk_view : forall w d td, BInv w -> pok w d ->
  (vdir w d = true -> maxlen (w_fs w) < walk_fuel + List.length d) ->
  yields (m_walk d td None) w (inl (PList (if vdir w d then ref_walk walk_fuel (view_fs w) d td else []))).
Proof.
  intros w d td HB Hp Hlen. unfold m_walk. eapply yields_bind; [apply m_is_dir_view; assumption|].
  intros w1 G1. destruct (vdir w d) eqn:Ed.
  - eapply yields_bind; [apply append_walk_view; [exact G1|exact Ed|apply Hlen; reflexivity]|].
    intros w2 G2. apply yields_ret. apply (good_BInv _ _ G2).
  - apply yields_ret. apply (good_BInv _ _ G1).
Qed.

(* ------------------------------------------------------------------ read *)
Lemma hash_ok_set_hash : forall w p f,
  hash_ok w -> lookup (w_fs w) p = Some (NFile f) -> forall bb,
  hash_ok (set_hash ((p, (hash_of (f_bytes f), bb)) :: w_hash w) w).
Proof.
  intros w p f H Hl bb q h b' g. cbn [w_hash w_fs set_hash hash_get].
  destruct (path_eqb p q) eqn:E.
  - apply path_eqb_eq in E. subst q. intros H1 H2. inversion H1; subst. congruence.
  - apply H.
Qed.

Lemma BInv_set_hash : forall w h, BInv w -> BInv (set_hash h w).
Proof. intros w h H. destruct H. constructor; assumption. Qed.

Lemma good_set_hash : forall w h, BInv w -> (hash_ok w -> hash_ok (set_hash h w)) -> good w (set_hash h w).
Proof.
  intros w h HB Hh. split; [apply BInv_set_hash; exact HB|]. split; [|exact Hh].
  constructor; reflexivity.
Qed.

(* file_comparison_result on the physical tree *)
Definition fcr_post (w : world) (p : path) (c : cmpmode) (r : pyval + exn) : Prop :=
  match lookup (w_fs w) p with
  | Some (NFile f) => (c = METADATA \/ hash_ok w) -> r = inl (cmp_of c f)
  | Some NDir => r = inr (XOS XIsADirectory)
  | None => r = inr (XOS XFileNotFound) \/ r = inr (XOS XNotADirectory) \/
            (r = inr (XOS XOSError) /\ path_ok p = false)
  end /\
  (forall f, lookup (w_fs w) p = Some (NFile f) -> exists v, r = inl v).

Lemma stat_err_classes : forall fs p,
  err_of (stat_err fs p) = XFileNotFound \/ err_of (stat_err fs p) = XNotADirectory \/
  (err_of (stat_err fs p) = XOSError /\ path_ok p = false).
Proof.
  intros fs p. unfold stat_err. destruct (absent_err_cases fs p) as [H|[H|H]]; rewrite H; cbn; auto.
  right. right. split; [reflexivity|]. destruct (path_ok p) eqn:E; [|reflexivity].
  exfalso. apply (absent_err_path_ok fs p E H).
Qed.

Lemma fcr_view : forall w p c, BInv w ->
  exists w' r, file_comparison_result p c w = (w', r) /\ good w w' /\ fcr_post w p c r.
Proof.
  intros w p c HB. destruct c; cbn [file_comparison_result].
  - (* METADATA *)
    unfold file_metadata, fcr_post.
    destruct (lookup (w_fs w) p) as [[f|]|] eqn:El.
    + eexists w, _. split; [reflexivity|]. split; [apply good_refl; exact HB|].
      split; [intros _; reflexivity|]. intros g _. eexists. reflexivity.
    + eexists w, _. split; [reflexivity|]. split; [apply good_refl; exact HB|].
      split; [reflexivity|]. intros g Hg. discriminate.
    + eexists w, _. split; [reflexivity|]. split; [apply good_refl; exact HB|].
      split; [|intros g Hg; discriminate].
      destruct (stat_err_classes (w_fs w) p) as [H|[H|[H H']]]; rewrite H; auto.
  - (* HASH *)
    unfold file_hash, fcr_post, isfile, isdir.
    destruct (lookup (w_fs w) p) as [[f|]|] eqn:El.
    + assert (Hfresh: exists w' r,
               (set_hash ((p, (hash_of (f_bytes f), cache_has_file (w_new w) p)) :: w_hash w) w,
                @inl pyval exn (hash_of (f_bytes f))) = (w', r) /\ good w w' /\
               (((HASH = METADATA \/ hash_ok w) -> r = inl (cmp_of HASH f)) /\
                (forall g, Some (NFile f) = Some (NFile g) -> exists v, r = inl v))).
      { eexists _, _. split; [reflexivity|]. split.
        - apply good_set_hash; [exact HB|]. intro Hh. apply hash_ok_set_hash; assumption.
        - split; [intros _; reflexivity|]. intros g _. eexists. reflexivity. }
      destruct (hash_get (w_hash w) p) as [[h bb]|] eqn:Eh; [|exact Hfresh].
      destruct (Bool.eqb bb (cache_has_file (w_new w) p)); [|exact Hfresh].
      eexists w, _. split; [reflexivity|]. split; [apply good_refl; exact HB|].
      split; [|intros g _; eexists; reflexivity].
      intros [H|H]; [discriminate|]. rewrite (H p h bb f Eh El). reflexivity.
    + assert (Hfresh: exists w' r, (w, @inr pyval exn (XOS XIsADirectory)) = (w', r) /\ good w w' /\
               (r = inr (XOS XIsADirectory) /\ (forall g, Some NDir = Some (NFile g) -> exists v, r = inl v))).
      { eexists w, _. split; [reflexivity|]. split; [apply good_refl; exact HB|]. split; [reflexivity|].
        intros g Hg. discriminate. }
      destruct (hash_get (w_hash w) p) as [[h bb]|] eqn:Eh; [|exact Hfresh].
      destruct (Bool.eqb bb (cache_has_file (w_new w) p)); exact Hfresh.
    + assert (Hfresh: exists w' r, (w, @inr pyval exn (XOS (err_of (stat_err (w_fs w) p)))) = (w', r) /\ good w w' /\
               ((r = inr (XOS XFileNotFound) \/ r = inr (XOS XNotADirectory) \/
                 (r = inr (XOS XOSError) /\ path_ok p = false)) /\
                (forall g, @None node = Some (NFile g) -> exists v, r = inl v))).
      { eexists w, _. split; [reflexivity|]. split; [apply good_refl; exact HB|].
        split; [|intros g Hg; discriminate].
        destruct (stat_err_classes (w_fs w) p) as [H|[H|[H H']]]; rewrite H; auto. }
      destruct (hash_get (w_hash w) p) as [[h bb]|] eqn:Eh; [|exact Hfresh].
      destruct (Bool.eqb bb (cache_has_file (w_new w) p)); [|exact Hfresh].
      eexists w, _. split; [reflexivity|]. split; [apply good_refl; exact HB|].
      split; [left; reflexivity|intros g Hg; discriminate].
Qed.

(* what read records: the comparison result of a visible regular file; IsADirectory for a
   visible directory; FileNotFound otherwise (for a path without over-long component) *)
Definition read_answer (w : world) (p : path) (c : cmpmode) : pyval + exn :=
  match lookup (w_fs w) p with
  | Some (NFile f) => if hid w p then inr (XOS XFileNotFound) else inl (cmp_of c f)
  | Some NDir => if dead w p then inr (XOS XFileNotFound) else inr (XOS XIsADirectory)
  | None => inr (XOS XFileNotFound)
  end.

Theorem m_read_view : forall w p c, BInv w -> path_ok p = true -> (c = METADATA \/ hash_ok w) ->
  yields (m_read p c None) w (read_answer w p c).
Proof.
  intros w p c HB Hp Hc. unfold m_read.
  assert (Hpok: pok w p) by (left; exact Hp).
  (* the final is_dir test after an IsADirectory from the real file system, or for a hidden path *)
  assert (Hdirtest: forall w1, good w w1 ->
            yields (d <- m_is_dir p None ;; if d then raise (XOS XIsADirectory) else @raise unit (XOS XFileNotFound)) w1
                   (if vdir w p then inr (XOS XIsADirectory) else inr (XOS XFileNotFound))).
  { intros w1 G1. eapply yields_bind.
    - apply m_is_dir_view; [apply (good_BInv _ _ G1)|eapply pok_good; eassumption].
    - intros w2 G2. rewrite (same_view_vdir _ _ _ (good_sv _ _ G1)).
      destruct (vdir w p); apply yields_raise; apply (good_BInv _ _ G2). }
  assert (Hdirtest': forall w1, good w w1 ->
            yields (d <- m_is_dir p None ;; if d then raise (XOS XIsADirectory) else @raise pyval (XOS XFileNotFound)) w1
                   (if vdir w p then inr (XOS XIsADirectory) else inr (XOS XFileNotFound))).
  { intros w1 G1. eapply yields_bind.
    - apply m_is_dir_view; [apply (good_BInv _ _ G1)|eapply pok_good; eassumption].
    - intros w2 G2. rewrite (same_view_vdir _ _ _ (good_sv _ _ G1)).
      destruct (vdir w p); apply yields_raise; apply (good_BInv _ _ G2). }
  eapply yields_pure; [apply is_file_no_read_None|].
  destruct (hid w p) eqn:Eh.
  - (* hidden path: only a visible directory answers differently from FileNotFound *)
    assert (E: read_answer w p c = if vdir w p then inr (XOS XIsADirectory) else inr (XOS XFileNotFound)).
    { unfold read_answer, vdir, isdir. rewrite Eh. destruct (lookup (w_fs w) p) as [[f|]|]; try reflexivity.
      destruct (dead w p); reflexivity. }
    rewrite E. specialize (Hdirtest w (good_refl _ HB)).
    destruct (vdir w p); apply yields_bind_err; exact Hdirtest.
  - eapply yields_pure; [reflexivity|].
    destruct (fcr_view w p c HB) as [w1 [r [E1 [G1 [P1 P2]]]]].
    unfold read_answer. rewrite Eh.
    destruct (lookup (w_fs w) p) as [[f|]|] eqn:El.
    + (* a visible regular file *)
      specialize (P1 Hc). subst r.
      eapply yields_bind; [exists w1; split; [unfold catch; rewrite E1; reflexivity|exact G1]|].
      intros w2 G2. cbn [cf_has_file].
      eapply yields_bind; [|intros w3 G3; apply yields_ret; apply (good_BInv _ _ G3)].
      apply m_hde_yields; [apply (good_BInv _ _ G2)|].
      destruct p as [|n d]; [discriminate|]. cbn [dirname tl].
      apply (hde_ok_parent w2 n d (bi_wf _ (good_BInv _ _ G2))).
      rewrite (same_view_visible _ _ _ (good_sv _ _ G2)). unfold visible. rewrite El, Eh. reflexivity.
    + (* a directory on disk *)
      subst r.
      assert (E: (if dead w p then @inr pyval exn (XOS XFileNotFound) else inr (XOS XIsADirectory))
                 = if vdir w p then inr (XOS XIsADirectory) else inr (XOS XFileNotFound)).
      { unfold vdir, isdir. rewrite El. destruct (dead w p); reflexivity. }
      rewrite E. destruct (Hdirtest' w1 G1) as [w2 [E2 G2]].
      assert (Hy: yields (catch (file_comparison_result p c)
                  (fun e : exn =>
                     if is_os_class XFileNotFound e || is_os_class XNotADirectory e then raise (XOS XFileNotFound)
                     else if is_os_class XIsADirectory e
                          then d <- m_is_dir p None ;; (if d then raise (XOS XIsADirectory) else raise (XOS XFileNotFound))
                          else raise e)) w
                  (if vdir w p then inr (XOS XIsADirectory) else inr (XOS XFileNotFound))).
      { exists w2. split; [|eapply good_trans; eassumption].
        unfold catch. rewrite E1. cbn. exact E2. }
      destruct (vdir w p); apply yields_bind_err; exact Hy.
    + (* absent *)
      apply yields_bind_err. exists w1. split; [|exact G1]. unfold catch. rewrite E1.
      destruct P1 as [->|[->|[-> H]]]; [reflexivity|reflexivity|congruence].
Qed.

(* ------------------------------------------------------------------ all queries: record_answer on the view *)
Definition to_res (a : pyval + errclass) : pyval + exn :=
  match a with inl v => inl v | inr c => inr (XOS c) end.

Lemma lookup_view_kind : forall w p, BInv w ->
  lookup (view_fs w) p =
  if vfile w p then lookup (w_fs w) p else if vdir w p then Some NDir else None.
Proof.
  intros w p HB. destruct p as [|n d].
  - rewrite (vdir_root _ HB). reflexivity.
  - rewrite lookup_view by discriminate. unfold visible, vfile, vdir, isfile, isdir.
    destruct (lookup (w_fs w) (n :: d)) as [[f|]|];
      [destruct (hid w (n :: d))|destruct (dead w (n :: d))|]; reflexivity.
Qed.

Lemma isdir_view' : forall w p, BInv w -> isdir (view_fs w) p = vdir w p.
Proof.
  intros w p HB. destruct p as [|n d]; [rewrite (vdir_root _ HB); reflexivity|apply isdir_view; discriminate].
Qed.

Lemma lexists_view' : forall w p, BInv w -> lexists (view_fs w) p = visible w p.
Proof.
  intros w p HB. destruct p as [|n d]; [|apply lexists_view; discriminate].
  rewrite visible_split, (vdir_root _ HB), orb_true_r. reflexivity.
Qed.

Lemma stat_err_view_ok : forall w p, path_ok p = true ->
  match stat_err (view_fs w) p with EOTHER => XOSError | _ => XFileNotFound end = XFileNotFound.
Proof.
  intros w p H. unfold stat_err. pose proof (absent_err_path_ok (view_fs w) p H).
  destruct (absent_err (view_fs w) p); try reflexivity. congruence.
Qed.

Theorem exec_query_view : forall w q, BInv w ->
  path_ok (spec_query_path q) = true ->
  (forall p td, q = QWalk p td -> vdir w p = true -> maxlen (w_fs w) < walk_fuel + List.length p) ->
  (forall p c, q = QRead p c -> c = METADATA \/ hash_ok w) ->
  yields (exec_query q None) w (to_res (record_answer (view_fs w) q)).
Proof.
  intros w q HB Hp Hwalk Hread. destruct q as [p|p|p|p|p td|p|p c]; cbn [spec_query_path] in Hp;
    cbn [exec_query record_answer spec_answer_raw to_res].
  - (* exists *)
    eapply yields_bind; [apply m_exists_view; [exact HB|left; exact Hp]|].
    intros w1 G1. rewrite (lexists_view' _ _ HB). apply yields_ret. apply (good_BInv _ _ G1).
  - eapply yields_bind; [apply m_is_file_view; exact HB|].
    intros w1 G1. rewrite isfile_view. apply yields_ret. apply (good_BInv _ _ G1).
  - eapply yields_bind; [apply m_is_dir_view; [exact HB|left; exact Hp]|].
    intros w1 G1. rewrite (isdir_view' _ _ HB). apply yields_ret. apply (good_BInv _ _ G1).
  - (* list_dir *)
    pose proof (m_list_dir_view w p HB (or_introl Hp)) as H.
    rewrite (lookup_view_kind _ _ HB). unfold names_val. rewrite children_view. fold (vnames w p).
    destruct (vfile w p) eqn:Ef.
    + rewrite (vfile_not_vdir _ _ Ef) in H. unfold vfile in Ef. apply andb_true_iff in Ef. destruct Ef as [Ef _].
      apply isfile_lookup in Ef. destruct Ef as [f Ef]. rewrite Ef. exact H.
    + destruct (vdir w p); exact H.
  - (* walk *)
    rewrite (isdir_view' _ _ HB).
    apply m_walk_view; [exact HB|left; exact Hp|]. intro Hd. eapply Hwalk; [reflexivity|exact Hd].
  - (* get_size *)
    pose proof (m_get_size_view w p HB (or_introl Hp)) as H.
    rewrite (lookup_view_kind _ _ HB). rewrite visible_split in H. unfold size_answer in H.
    destruct (vfile w p) eqn:Ef.
    + cbn [orb] in H. unfold vfile in Ef. apply andb_true_iff in Ef. destruct Ef as [Ef _].
      apply isfile_lookup in Ef. destruct Ef as [f Ef]. rewrite Ef in *. exact H.
    + cbn [orb] in H. destruct (vdir w p) eqn:Ed; [|exact H].
      unfold vdir in Ed. apply andb_true_iff in Ed. destruct Ed as [Ed _]. apply isdir_lookup in Ed.
      rewrite Ed in H. exact H.
  - (* read *)
    pose proof (m_read_view w p c HB Hp (Hread p c eq_refl)) as H.
    rewrite (lookup_view_kind _ _ HB). unfold read_answer in H.
    unfold vfile, vdir, isfile, isdir.
    destruct (lookup (w_fs w) p) as [[f|]|] eqn:El; cbn [andb].
    + destruct (hid w p); cbn [negb]; [rewrite (stat_err_view_ok _ _ Hp)|]; exact H.
    + destruct (dead w p); cbn [negb]; [rewrite (stat_err_view_ok _ _ Hp)|]; exact H.
    + rewrite (stat_err_view_ok _ _ Hp). exact H.
Qed.

(* for the queries other than read, what is recorded is the specification's answer on the view *)
Corollary exec_query_spec_answer : forall w q, BInv w ->
  path_ok (spec_query_path q) = true ->
  (forall p c, q <> QRead p c) ->
  (forall p td, q = QWalk p td -> vdir w p = true -> maxlen (w_fs w) < walk_fuel + List.length p) ->
  yields (exec_query q None) w (to_res (spec_answer (view_fs w) q)).
Proof.
  intros w q HB Hp Hnr Hwalk.
  assert (E: spec_answer (view_fs w) q = record_answer (view_fs w) q).
  { unfold spec_answer. rewrite Hp. destruct q; try reflexivity;
      try (cbn [record_answer]; destruct (spec_answer_raw _ _); reflexivity).
    exfalso. eapply Hnr. reflexivity. }
  rewrite E. apply exec_query_view; try assumption.
  intros p c Hq. exfalso. eapply Hnr. exact Hq.
Qed.

(* ------------------------------------------------------------------ consistency laws *)
(* on the view: exists = is_file or is_dir; list_dir = the names that exist; the parent of
   whatever exists is a directory (the view is a well-formed tree) *)
Theorem view_exists_file_or_dir : forall w p, visible w p = vfile w p || vdir w p.
Proof. exact visible_split. Qed.

Theorem view_list_dir_names : forall w d n, BInv w ->
  In n (children (view_fs w) d) <-> visible w (n :: d) = true.
Proof. intros w d n HB. rewrite children_In, lexists_view by discriminate. tauto. Qed.

Theorem view_parent_is_dir : forall w n d, BInv w -> visible w (n :: d) = true -> vdir w d = true.
Proof.
  intros w n d HB H. unfold vdir.
  rewrite (visible_parent_alive _ _ _ (bi_wf _ HB) H).
  pose proof (wf_parent_dir _ _ _ (bi_wf _ HB) (visible_lexists _ _ H)) as Hd.
  unfold isdir. rewrite Hd. reflexivity.
Qed.

Theorem view_tree_wf : forall w, BInv w -> fs_wf (view_fs w).
Proof. intros w HB. apply view_wf. apply (bi_wf _ HB). Qed.

(* the same laws on the model's answers, asked in any order from a world satisfying BInv *)
Theorem answers_consistent : forall w p, BInv w -> pok w p ->
  exists w1 w2 w3 f d e,
    m_is_file p None w = (w1, inl f) /\ m_is_dir p None w1 = (w2, inl d) /\ m_exists p None w2 = (w3, inl e) /\
    e = f || d /\ good w w3.
Proof.
  intros w p HB Hp.
  destruct (m_is_file_view w p HB) as [w1 [E1 G1]].
  destruct (m_is_dir_view w1 p (good_BInv _ _ G1) (pok_good _ _ _ G1 Hp)) as [w2 [E2 G2]].
  pose proof (good_trans _ _ _ G1 G2) as G02.
  destruct (m_exists_view w2 p (good_BInv _ _ G2) (pok_good _ _ _ G02 Hp)) as [w3 [E3 G3]].
  exists w1, w2, w3, (vfile w p), (vdir w1 p), (visible w2 p).
  repeat split; try assumption; try apply (good_trans _ _ _ G02 G3).
  rewrite (same_view_visible _ _ _ (good_sv _ _ G02)), (same_view_vdir _ _ _ (good_sv _ _ G1)).
  apply visible_split.
Qed.

Print Assumptions exec_query_view.
Print Assumptions exec_query_spec_answer.
Print Assumptions answers_consistent.
