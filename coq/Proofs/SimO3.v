(* Proofs/SimO3.v — C05 (unchanged rebuild) transferred to the MECHANISM model, part 3: the side
   condition FilesOld of SimO1.mech_rebuild_tree_identical stated on the START WORLD of the rebuild
   ("no file is dated after the clock": CoreNextDefs.files_old / SimD6.files_old, the invariant kept by
   every run and every committed build, SimD6.build_files_old) instead of on Core's tree.
     core_tree_cf_not_file : a committed all-successful Core build leaves no regular file at the path
       of the cache file in its tree (the cache file is written afterwards: next_fs);
     mech_rebuild_tree_identical_files_old. *)
From Coq Require Import List String Ascii NArith ZArith Bool Arith Lia Permutation.
From FB.Base Require Import PyVal Fs.
From FB.Gen Require Import JsonUtilGen.
From FB.Spec Require Import JsonSpec Prog Ref Oracle Faithful.
From FB.Model Require Import Types Monad SimpleOps Builder Persist Build Run Frame Core CoreOracle CoreCache.
From FB.Proofs Require Import FsLemmas JsonLaws PersistLaws CleanLaws CoreLawsChildren CoreLawsJson CoreLaws1 CoreLaws2 CoreLaws3 CoreLaws4 CoreLaws5 CoreLaws6
     CoreRebuildDefs CoreRebuild1 CoreRebuild2 CoreRebuild3 CoreRebuild4 CoreRebuild5 CoreRebuild6 CoreRebuild7 CoreRebuild8 CoreRebuild9 CoreRebuildMain
     ViewDefs ViewK3 SimO1.
Import ListNotations.
Local Open Scope list_scope.
Local Open Scope string_scope.

Theorem core_tree_cf_not_file : forall fs cf old vers clock nextid root s1,
  let cr1 := core_build fs cf old vers clock nextid root in
  cr_state cr1 = Some s1 ->
  fs_wf fs -> isdir fs cf = false ->
  records_clean s1 = true -> no_foreign_targets fs cf old s1 ->
  cr_tree cr1 = k_fs s1 /\ forall g, lookup (k_fs s1) cf <> Some (NFile g).
Proof.
  intros fs cf old vers clock nextid root s1 cr1 Hst W Hcfd Hcl Hnf.
  destruct (core_build_inv _ _ _ _ _ _ _ _ Hst) as (dirs & t1 & out & pend & recs & Hmd & Hmk & Hrun & Eout & Etree & Elog & Etop).
  fold cr1 in Etree. split; [exact Etree|].
  set (t0 := start_tree fs cf old) in *.
  set (s0 := init_state t1 (stale_of fs (pv_outputs (prev_of_cache old)))
               (filter (fun d => isdir fs d && negb (isdir t0 d)) (pv_dirs (prev_of_cache old))) dirs clock nextid cf old vers) in *.
  destruct (run_of_core _ _ _ _ _ _ _ _ _ Hrun) as [recs' [Erecs R]]. cbn [app] in Erecs. subst recs'.
  unfold records_clean in Hcl. apply andb_true_iff in Hcl. destruct Hcl as [HclF HclS].
  rewrite forallb_forall in HclF, HclS.
  assert (HG1 : GoodEnd t0 s1).
  { split; [|exact HclS]. intros e He. split; [apply HclF; exact He|]. apply Hnf. apply in_map. exact He. }
  assert (Hcf0 : lookup t0 cf = None).
  { unfold t0, start_tree. unfold isdir in Hcfd. destruct (lookup fs cf) as [[g|]|] eqn:E; [| discriminate |].
    - apply ref_clean_removes_cache. unfold isfile. rewrite E. reflexivity.
    - apply ref_clean_no_new. exact E. }
  assert (C0 : CB t0 s0).
  { intro q. cbn [s0 init_state k_fs k_made k_claimedF].
    destruct (mkdir_all_frame _ _ _ Hmk q) as [E|[E1 [E2 E3]]]; [left; exact E|right]. split; [exact E1|]. left. auto. }
  assert (N0 : NCF s0) by reflexivity.
  pose proof (run_tree t0 _ _ _ _ _ _ _ _ R HG1) as [S1 [D1 C1]].
  pose proof (run_ncf t0 _ _ _ _ _ _ _ _ R HG1 N0) as N1.
  pose proof (run_kconst _ _ _ _ _ _ _ _ R) as K01. destruct K01 as [Kcf _].
  cbn [s0 init_state k_cachefile] in Kcf.
  intros g Hg. destruct (C1 C0 cf) as [E|[_ [[E _]|[g' [_ E]]]]].
  - rewrite E, Hcf0 in Hg. discriminate.
  - rewrite E in Hg. discriminate.
  - unfold NCF in N1. rewrite Kcf in N1. rewrite N1 in E. discriminate.
Qed.

Section RebuildOld.
  Variables (fs : fsT) (cf : path) (old0 : cache) (svers : pyval) (clock nextid : N) (root : prog) (v : pyval) (s1 : kstate).
  Let cr1 := core_build fs cf old0 svers clock nextid root.
  Hypothesis Hout : cr_outcome cr1 = inl v.
  Hypothesis Hst : cr_state cr1 = Some s1.
  Hypothesis Hwf : fs_wf fs.
  Hypothesis Hcfd : isdir fs cf = false.
  Hypothesis Hvs : sanitized svers = true.
  Hypothesis Hcl : records_clean s1 = true.
  Hypothesis Hdi : records_distinct s1 = true.
  Hypothesis Hnf : no_foreign_targets fs cf old0 s1.
  Variables (w : world) (nm0 nm : string) (w1 w2 : world) (r : outcome) (l : list op).
  Hypothesis Hfs : w_fs w = next_fs cf s1.
  Hypothesis Hmech : MechBuildHyps w cf (cache_of_state nm0 s1) nm svers root w1 w2 r l.

  (* FilesOld t c is, word for word, SimD6.files_old t c *)
  Theorem mech_rebuild_tree_identical_files_old : FilesOld (w_fs w) (w_clock w) ->
    forall p, lookup (view_fs w2) p = lookup (cr_tree cr1) p.
  Proof.
    intro Hold.
    apply (mech_rebuild_tree_identical fs cf old0 svers clock nextid root v s1 Hout Hst Hwf Hcfd Hvs Hcl Hdi Hnf
             w nm0 nm w1 w2 r l Hfs Hmech).
    destruct (core_tree_cf_not_file fs cf old0 svers clock nextid root s1 Hst Hwf Hcfd Hcl Hnf) as [Et Hn].
    cbv zeta in Et. rewrite Et. intros p f Hl.
    destruct (path_eqb p cf) eqn:E.
    - apply path_eqb_eq in E. subst p. exfalso. exact (Hn f Hl).
    - apply (Hold p f). rewrite Hfs. unfold next_fs. rewrite lookup_upd_neq; [exact Hl|].
      intro K. subst p. rewrite path_eqb_refl in E. discriminate.
  Qed.
End RebuildOld.

Print Assumptions core_tree_cf_not_file.
Print Assumptions mech_rebuild_tree_identical_files_old.
