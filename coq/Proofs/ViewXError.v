(* Proofs/ViewXError.v — C04, reachability: BuildDirs.error_building_file preserves XInv
   (one live target less), provided the failed target is not a regular file on disk any more.
   The directories whose last reservation is released and that this build had created
   become dead: they disappear from the view. *)
From Coq Require Import List String Ascii NArith ZArith Bool Arith Lia.
From FB.Base Require Import PyVal Fs.
From FB.Model Require Import Types Monad CreatedFiles BuildDirs SimpleOps Builder.
From FB.Proofs Require Import FsLemmas CleanLaws JsonLaws CoreLawsChildren
     ViewDefs ViewLemmas ViewScan ViewQueries ViewFrame ViewXDefs ViewXFrame ViewXCount ViewXErr1.
Import ListNotations.
Open Scope list_scope.

Lemma XInv_claw : forall T w, XInv T w -> claw T (w_bd w).
Proof. intros T w H. constructor; [apply (x_keys _ _ H)|apply (x_pos _ _ H)|apply (x_count _ _ H)]. Qed.

Lemma claw_cup : forall T b, claw T b -> cup b.
Proof.
  intros T b [K P C] m x H. apply (in_counts_cval _ _ P). rewrite (C x).
  apply in_counts_keys in H.
  assert (0 < nk b x) by (unfold nk; eapply filter_length_pos; [exact H|apply is_child_cons]). lia.
Qed.

Lemma claw_no_kids : forall T b x, claw T b -> in_counts b x = false ->
  (forall m, in_counts b (m :: x) = false) /\ (forall m, ~ In (m :: x) T).
Proof.
  intros T b x [K P C] H.
  assert (Hz: cval b x = 0).
  { destruct (Nat.eq_dec (cval b x) 0) as [E|E]; [exact E|].
    assert (0 < cval b x) by lia. apply (in_counts_cval _ _ P) in H0. congruence. }
  rewrite (C x) in Hz. split.
  - intro m. destruct (in_counts b (m :: x)) eqn:E; [|reflexivity]. apply in_counts_keys in E.
    assert (0 < nk b x) by (unfold nk; eapply filter_length_pos; [exact E|apply is_child_cons]). lia.
  - intros m Hin. assert (0 < nt T x) by (unfold nt; eapply filter_length_pos; [exact Hin|apply is_child_cons]). lia.
Qed.

Lemma rm1_in : forall p T t, In t (rm1 p T) -> In t T.
Proof.
  intros p T t. induction T as [|q T IH]; cbn [rm1]; [auto|]. destruct (path_eqb q p); [intro; right; assumption|].
  intros [H|H]; [left; exact H|right; apply IH; exact H].
Qed.

Lemma rm1_other : forall p T t, In t T -> t <> p -> In t (rm1 p T).
Proof.
  intros p T t. induction T as [|q T IH]; cbn [rm1]; [auto|]. intros [H|H] Hn.
  - subst q. destruct (path_eqb t p) eqn:E; [apply path_eqb_eq in E; contradiction|left; reflexivity].
  - destruct (path_eqb q p); [exact H|right; apply IH; assumption].
Qed.

Section Err.
  Variables (T : list path) (w : world) (n : name) (d : path) (b' : bdirs).
  Local Notation p := (n :: d).
  Local Notation b := (w_bd w).
  Local Notation T' := (rm1 p T).
  Local Notation w' := (set_bd b' w).
  Hypothesis HX : XInv T w.
  Hypothesis Hin : In p T.
  Hypothesis Hnf : isfile (w_fs w) p = false.
  Hypothesis C' : claw T' b'.
  Hypothesis F : err_frame b d b'.

  Let HB : BInv w := x_binv _ _ HX.
  Let HS : SInv b := x_sinv _ _ HX.

  Lemma e_p_kept : in_counts b p = true -> in_counts b' p = true.
  Proof.
    intro H. destruct (in_counts b' p) eqn:E; [reflexivity|]. exfalso.
    pose proof (ef_rel _ _ _ F p H E) as Hs. apply suffix_length in Hs. simpl in Hs. lia.
  Qed.

  Lemma e_untracked : forall x, untracked b x ->
    (mem_path x (bd_created b) = true -> in_counts b x = true -> in_counts b' x = false -> False) ->
    untracked b' x.
  Proof.
    intros x [H1 H2] Hn. split.
    - destruct (mem_path x (bd_maybe b')) eqn:E; [|reflexivity]. exfalso.
      destruct (ef_mb_sub _ _ _ F x E) as [H|(A & B & C)]; [congruence|]. apply Hn; assumption.
    - rewrite (ef_removed _ _ _ F). exact H2.
  Qed.

  Lemma e_trk_mono : forall x, trk b x = true -> trk b' x = true.
  Proof.
    intros x H. apply trk_true_cases in H. destruct H as [Hc Ht]. unfold trk.
    assert (in_counts b' x = false).
    { destruct (in_counts b' x) eqn:E; [|reflexivity]. apply (ef_sub _ _ _ F) in E. congruence. }
    rewrite H, andb_true_r. apply orb_true_iff. destruct Ht as [Ht|Ht].
    - left. apply (ef_mb_keep _ _ _ F). exact Ht.
    - right. rewrite (ef_removed _ _ _ F). exact Ht.
  Qed.

  (* what was dead stays dead *)
  Lemma e_dead_mono : forall x, dead w x = true -> dead w' x = true.
  Proof.
    apply (depth_ind (w_fs w) (fun x => dead w x = true -> dead w' x = true)).
    intros x IH H. rewrite dead_unfold in H. apply andb_true_iff in H. destruct H as [Ht Hk].
    rewrite dead_unfold. cbn [w_fs w_bd set_bd]. rewrite (e_trk_mono _ Ht). cbn [andb].
    destruct (lookup (w_fs w) x) as [[f|]|]; try discriminate.
    rewrite forallb_forall in Hk. apply forallb_forall. intros m Hm. specialize (Hk m Hm).
    unfold invis, invis_gen in *. cbn [w_fs set_bd]. fold (dead w (m :: x)) in Hk. fold (dead w' (m :: x)).
    change (hid w' (m :: x)) with (hid w (m :: x)).
    destruct (lookup (w_fs w) (m :: x)) as [[g|]|]; try assumption. apply IH; assumption.
  Qed.

  Lemma e_invis_mono : forall a, invis w a = true -> invis w' a = true.
  Proof.
    intros a H. unfold invis, invis_gen in *. cbn [w_fs set_bd]. fold (dead w a) in H. fold (dead w' a).
    change (hid w' a) with (hid w a).
    destruct (lookup (w_fs w) a) as [[g|]|]; try assumption. apply e_dead_mono. exact H.
  Qed.

  Lemma e_invis_dir : forall a, isdir (w_fs w) a = true -> dead w' a = true -> invis w' a = true.
  Proof.
    intros a Hd H. unfold invis, invis_gen. cbn [w_fs set_bd]. fold (dead w' a).
    apply isdir_lookup in Hd. rewrite Hd. exact H.
  Qed.

  (* a released directory that this build had created is dead afterwards *)
  Lemma e_released_dead : forall x, in_counts b x = true -> in_counts b' x = false ->
    mem_path x (bd_created b) = true -> isdir (w_fs w) x = true -> dead w' x = true.
  Proof.
    apply (depth_ind (w_fs w) (fun x => in_counts b x = true -> in_counts b' x = false ->
             mem_path x (bd_created b) = true -> isdir (w_fs w) x = true -> dead w' x = true)).
    intros x IH Hc Hc' Hcr Hd. rewrite dead_unfold. cbn [w_fs w_bd set_bd].
    assert (Ht: trk b' x = true).
    { unfold trk. rewrite Hc', andb_true_r. apply orb_true_iff. left. apply (ef_mb_rel _ _ _ F x Hcr Hc Hc'). }
    rewrite Ht. cbn [andb]. pose proof Hd as Hd'. apply isdir_lookup in Hd'. rewrite Hd'.
    destruct (claw_no_kids _ _ x C' Hc') as [Hnk Hnt].
    apply forallb_forall. intros m Hm. pose proof (proj1 (children_In _ _ _) Hm) as Hex.
    (* a live target directly in x can only be p, which is not a file *)
    assert (Htgt: In (m :: x) T -> invis w' (m :: x) = true).
    { intro Ht'. assert (E: m :: x = p).
      { destruct (path_eqb (m :: x) p) eqn:E; [apply path_eqb_eq in E; exact E|]. apply path_eqb_neq in E.
        exfalso. apply (Hnt m). apply rm1_other; assumption. }
      pose proof (Hnk m) as Hnkm. rewrite E in Hex, Hnkm |- *.
      assert (Hpd: isdir (w_fs w) p = true).
      { unfold lexists in Hex. unfold isfile in Hnf. unfold isdir. destruct (lookup (w_fs w) p) as [[g|]|]; try discriminate; reflexivity. }
      destruct (x_tgt _ _ HX p Hin) as (_ & _ & Hdir). destruct (Hdir Hpd) as [[A _]|[_ A]].
      - pose proof (e_p_kept A) as A'. congruence.
      - apply e_invis_dir; [exact Hpd|apply e_dead_mono; exact A]. }
    destruct (x_kids _ _ HX x m Hcr Hex) as [H|[H|H]].
    - (* a reserved entry: released too, and created *)
      pose proof (x_cc _ _ HX x m Hcr H) as Hcc.
      destruct (isdir (w_fs w) (m :: x)) eqn:Ed.
      + apply e_invis_dir; [exact Ed|]. apply IH; auto.
      + destruct (x_cdir _ _ HX _ H) as [A|[A|A]]; [congruence|apply Htgt; exact A|congruence].
    - apply Htgt. exact H.
    - apply e_invis_mono. exact H.
  Qed.

  Lemma e_released_settled : forall x, in_counts b x = true -> in_counts b' x = false ->
    mem_path x (bd_created b) = false -> untracked b' x.
  Proof.
    intros x Hc Hc' Hcr. destruct (s_nc _ HS x Hc) as [H|H]; [congruence|].
    apply e_untracked; [exact H|]. intros A _ _. congruence.
  Qed.

  Lemma e_sub_false : forall x, in_counts b x = false -> in_counts b' x = false.
  Proof. intros x H. destruct (in_counts b' x) eqn:E; [|reflexivity]. apply (ef_sub _ _ _ F) in E. congruence. Qed.

  Lemma e_BInv : BInv w'.
  Proof.
    pose proof (claw_cup _ _ C') as Hup'.
    constructor; cbn [w_fs w_bd set_bd].
    - apply (bi_wf _ HB).
    - (* the root *)
      destruct (in_counts b' []) eqn:E; [unfold trk; rewrite E, andb_false_r; reflexivity|].
      assert (Hu: untracked b' []).
      { destruct (in_counts b []) eqn:E0.
        - apply e_released_settled; auto. destruct (mem_path [] (bd_created b)) eqn:Ec; [|reflexivity].
          destruct (s_created _ HS [] Ec) as [_ H]. congruence.
        - pose proof (bi_root _ HB) as Hr. unfold trk in Hr. rewrite E0, andb_true_r in Hr. apply orb_false_iff in Hr.
          apply e_untracked; [exact Hr|]. intros _ A _. congruence. }
      destruct Hu as [U1 U2]. unfold trk. rewrite U1, U2. reflexivity.
    - exact Hup'.
    - intros x Hx Hd. rewrite (ef_removed _ _ _ F) in Hx.
      destruct (in_counts b' x) eqn:E; [left; reflexivity|right].
      destruct (in_counts b x) eqn:E0.
      + destruct (s_nc _ HS x E0) as [H|[_ H]]; [|congruence]. apply e_released_dead; assumption.
      + destruct (bi_removed _ HB x Hx Hd) as [H|H]; [congruence|apply e_dead_mono; exact H].
    - intros a H1 H2 _. rewrite (ef_rf _ _ _ F) in H1. apply (x_rf_hid _ _ HX a H1 H2).
    - intros a H1 H2 H3. rewrite (ef_rf _ _ _ F). change (hid w a = true) in H2.
      apply (x_hid_rf _ _ HX a H1 H2). intro Ht.
      assert (E: a = p).
      { destruct (path_eqb a p) eqn:E; [apply path_eqb_eq in E; exact E|]. apply path_eqb_neq in E. exfalso.
        pose proof (rm1_other p T a Ht E) as Ht'.
        destruct a as [|m x]; [destruct (x_tgt _ _ HX [] Ht) as [A _]; congruence|]. cbn [dirname tl] in H3.
        apply (proj2 (claw_no_kids _ _ x C' H3) m). exact Ht'. }
      subst a. congruence.
    - intros a t H1 H2 Hs. rewrite (ef_rf _ _ _ F) in H1. rewrite (ef_removed _ _ _ F) in H2.
      destruct H2 as [H2|H2].
      + destruct (ef_mb_sub _ _ _ F t H2) as [H|(A & B & _)].
        * apply (bi_rf_trk _ HB a t H1 (or_introl H) Hs).
        * pose proof (counts_up_suffix w t a HB B Hs) as Hc. rewrite (s_c_rf _ HS a Hc) in H1. discriminate.
      + apply (bi_rf_trk _ HB a t H1 (or_intror H2) Hs).
    - intros q x Hq Hs. destruct (ef_ex _ _ _ F q Hq) as [Hq0 Hnone].
      pose proof (S_exists_up _ q x HS Hq0 Hs) as Hx. destruct (s_ex _ HS x Hx) as (A & _ & _).
      destruct (in_counts b' x) eqn:E; [apply dead_counts; exact E|].
      apply X_untracked_alive. cbn [w_bd set_bd].
      destruct (in_counts b x) eqn:E0.
      + apply e_released_settled; auto.
      + destruct A as [A|A]; [congruence|]. apply e_untracked; [exact A|]. intros _ B _. congruence.
  Qed.

  Lemma e_SInv : SInv b'.
  Proof.
    constructor.
    - intros x H. pose proof (ef_cr_sub _ _ _ F x H) as H0. destruct (s_created _ HS x H0) as [A B]. split; [|exact B].
      destruct (in_counts b' x) eqn:E; [reflexivity|]. rewrite (ef_rel_cr _ _ _ F x A E) in H. discriminate.
    - intros x H. pose proof (ef_sub _ _ _ F x H) as H0. destruct (s_nc _ HS x H0) as [A|A].
      + left. destruct (mem_path x (bd_created b')) eqn:E; [reflexivity|].
        destruct (ef_cr_rel _ _ _ F x A E) as [_ B]. congruence.
      + right. apply e_untracked; [exact A|]. intros _ _ B. congruence.
    - intros q Hq. destruct (ef_ex _ _ _ F q Hq) as [Hq0 Hnone]. destruct (s_ex _ HS q Hq0) as (A & B & C).
      split; [|split].
      + destruct (in_counts b' q) eqn:E; [left; reflexivity|right].
        destruct (in_counts b q) eqn:E0.
        * apply e_released_settled; auto.
        * destruct A as [A|A]; [congruence|]. apply e_untracked; [exact A|]. intros _ B' _. congruence.
      + rewrite (ef_rf _ _ _ F). exact B.
      + apply (ef_ex_all _ _ _ F q Hq). exact C.
    - intros x H. rewrite (ef_rf _ _ _ F). apply (s_c_rf _ HS). apply (ef_sub _ _ _ F). exact H.
  Qed.

  Theorem e_XInv : XInv T' w'.
  Proof.
    constructor; cbn [w_fs w_bd set_bd].
    - exact e_BInv.
    - exact e_SInv.
    - apply (cl_keys _ _ C').
    - apply (cl_pos _ _ C').
    - apply (cl_count _ _ C').
    - intros x H. destruct (x_cdir _ _ HX x (ef_sub _ _ _ F x H)) as [A|[A|A]]; [left; exact A| |right; right; exact A].
      destruct (path_eqb x p) eqn:E.
      + apply path_eqb_eq in E. subst x. unfold isfile in Hnf. unfold isdir, lexists.
        destruct (lookup (w_fs w) p) as [[g|]|]; [discriminate|left; reflexivity|right; right; reflexivity].
      + right. left. apply rm1_other; [exact A|apply path_eqb_neq; exact E].
    - intros x H1 H2. pose proof (ef_sub _ _ _ F x H1) as H0. apply (x_ncdir _ _ HX x H0).
      destruct (mem_path x (bd_created b)) eqn:E; [|reflexivity].
      destruct (ef_cr_rel _ _ _ F x E H2) as [_ X]. congruence.
    - intros t Ht. pose proof (rm1_in _ _ _ Ht) as Ht0. destruct (x_tgt _ _ HX t Ht0) as (A & B & C).
      split; [exact A|]. split; [rewrite (ef_rf _ _ _ F); exact B|]. intro Hd.
      destruct (C Hd) as [[C1 C2]|[C1 C2]].
      + destruct (in_counts b' t) eqn:E.
        * left. split; [reflexivity|]. destruct (mem_path t (bd_created b')) eqn:E2; [reflexivity|].
          destruct (ef_cr_rel _ _ _ F t C2 E2) as [_ X]. congruence.
        * right. split; [reflexivity|]. apply e_released_dead; assumption.
      + right. split; [apply e_sub_false; exact C1|apply e_dead_mono; exact C2].
    - intros x m Hcr Hex. pose proof (ef_cr_sub _ _ _ F x Hcr) as Hcr0.
      assert (Htgt: In (m :: x) T -> in_counts b' (m :: x) = true \/ In (m :: x) T' \/ invis w' (m :: x) = true).
      { intro Ht. destruct (path_eqb (m :: x) p) eqn:E.
        - apply path_eqb_eq in E. rewrite E in *.
          assert (Hpd: isdir (w_fs w) p = true).
          { unfold lexists in Hex. unfold isfile in Hnf. unfold isdir. destruct (lookup (w_fs w) p) as [[g|]|]; try discriminate; reflexivity. }
          destruct (x_tgt _ _ HX p Hin) as (_ & _ & Hdir). destruct (Hdir Hpd) as [[A _]|[_ A]].
          + left. apply e_p_kept. exact A.
          + right. right. apply e_invis_dir; [exact Hpd|apply e_dead_mono; exact A].
        - right. left. apply rm1_other; [exact Ht|apply path_eqb_neq; exact E]. }
      destruct (x_kids _ _ HX x m Hcr0 Hex) as [H|[H|H]].
      + destruct (in_counts b' (m :: x)) eqn:E; [left; reflexivity|].
        pose proof (x_cc _ _ HX x m Hcr0 H) as Hcc.
        destruct (isdir (w_fs w) (m :: x)) eqn:Ed.
        * right. right. apply e_invis_dir; [exact Ed|apply e_released_dead; assumption].
        * destruct (x_cdir _ _ HX _ H) as [A|[A|A]]; [congruence|apply Htgt; exact A|congruence].
      + apply Htgt. exact H.
      + right. right. apply e_invis_mono. exact H.
    - intros x m Hcr Hc. pose proof (ef_cr_sub _ _ _ F x Hcr) as Hcr0. pose proof (ef_sub _ _ _ F _ Hc) as Hc0.
      pose proof (x_cc _ _ HX x m Hcr0 Hc0) as Hcc.
      destruct (mem_path (m :: x) (bd_created b')) eqn:E; [reflexivity|].
      destruct (ef_cr_rel _ _ _ F _ Hcc E) as [_ X]. congruence.
    - intros a H1 H2 H3. rewrite (ef_rf _ _ _ F). change (hid w a = true) in H2.
      apply (x_hid_rf _ _ HX a H1 H2). intro Ht. apply H3. apply rm1_other; [exact Ht|]. intro; subst a. congruence.
    - intros a H1 H2. rewrite (ef_rf _ _ _ F) in H1. apply (x_rf_hid _ _ HX a H1 H2).
  Qed.
End Err.

(* the lifted routine: no KeyError, and XInv with one live target less *)
Theorem m_bd_error_XInv : forall T w n d, XInv T w -> In (n :: d) T -> isfile (w_fs w) (n :: d) = false ->
  exists b', m_bd_error (n :: d) w = (set_bd b' w, inl tt) /\ XInv (rm1 (n :: d) T) (set_bd b' w).
Proof.
  intros T w n d HX Hin Hnf.
  destruct (bd_error_spec T (w_bd w) n d (XInv_claw _ _ HX) Hin) as (b' & E & C' & F).
  exists b'. split; [unfold m_bd_error; rewrite E; reflexivity|].
  apply (e_XInv T w n d b' HX Hin Hnf C' F).
Qed.

Print Assumptions m_bd_error_XInv.
