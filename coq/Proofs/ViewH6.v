(* Proofs/ViewH6.v — C04, cache hits: registering the adopted record in the new cache
   (use_cached_operation) and the whole attempt lookup / reuse / claim of build_file
   ([bf_try] of ViewXSetup.v): [hit_post] holds whenever
   - the record found for the target, if any, is [goodrec] (ViewH4.v),
   - the lookup itself does not raise,
   - the cache file path is not a directory. *)
From Coq Require Import List String Ascii NArith ZArith Bool Arith Lia.
From FB.Base Require Import PyVal Fs.
From FB.Gen Require Import JsonUtilGen.
From FB.Model Require Import Types Monad CreatedFiles BuildDirs SimpleOps Builder.
From FB.Proofs Require Import FsLemmas CleanLaws JsonLaws CoreLawsChildren ReplayLaws BuildFileLaws
     ViewDefs ViewLemmas ViewScan ViewQueries ViewAnswers ViewPres ViewFrame
     ViewXDefs ViewXFrame ViewXQuery ViewXSteps ViewXMake1 ViewXMake2 ViewXFail ViewXSetup ViewXRun ViewH4 ViewH5.
Import ListNotations.
Open Scope list_scope.
Open Scope m_scope.

(* ------------------------------------------------------------------ claims change at several live targets *)
Section HidMulti.
  Variables (T : list path) (w w' : world).
  Hypothesis HX : XInv T w.
  Hypothesis Efs : w_fs w' = w_fs w.
  Hypothesis Ebd : w_bd w' = w_bd w.
  Hypothesis Hh : forall a, isfile (w_fs w) a = true -> hid w' a = hid w a \/ In a T.

  Let HB : BInv w := x_binv _ _ HX.

  Lemma hm_hid : forall a, isfile (w_fs w) a = true -> in_counts (w_bd w) (dirname a) = false -> hid w' a = hid w a.
  Proof.
    intros a H1 H2. destruct (Hh a H1) as [H|H]; [exact H|]. rewrite (X_target_parent _ _ _ HX H) in H2. discriminate.
  Qed.

  Lemma hm_dead : forall x, dead w' x = dead w x.
  Proof.
    apply (depth_ind (w_fs w)). intros x IH. rewrite (dead_unfold w' x), (dead_unfold w x), Efs, Ebd.
    destruct (trk (w_bd w) x) eqn:Et; [cbn [andb]|reflexivity].
    destruct (lookup (w_fs w) x) as [[f|]|]; try reflexivity.
    apply forallb_ext_in. intros m Hm. rewrite !invis_unfold, Efs.
    destruct (lookup (w_fs w) (m :: x)) as [[g|]|] eqn:El; [|apply IH; exact Hm|reflexivity].
    apply hm_hid; [unfold isfile; rewrite El; reflexivity|]. cbn [dirname tl].
    apply trk_true_cases in Et. tauto.
  Qed.

  Theorem hid_multi_XInv : XInv T w'.
  Proof.
    constructor; rewrite ?Efs, ?Ebd.
    - constructor; rewrite ?Efs, ?Ebd.
      + apply (bi_wf _ HB).
      + apply (bi_root _ HB).
      + apply (bi_counts_up _ HB).
      + intros x H1 H2. rewrite hm_dead. apply (bi_removed _ HB x H1 H2).
      + intros a H1 H2 H3. rewrite (hm_hid a H2 H3). apply (bi_rf_hid _ HB a H1 H2 H3).
      + intros a H1 H2 H3. rewrite (hm_hid a H1 H3) in H2. apply (bi_hid_rf _ HB a H1 H2 H3).
      + apply (bi_rf_trk _ HB).
      + intros q x H1 H2. rewrite hm_dead. apply (bi_exists _ HB q x H1 H2).
    - apply (x_sinv _ _ HX).
    - apply (x_keys _ _ HX).
    - apply (x_pos _ _ HX).
    - apply (x_count _ _ HX).
    - apply (x_cdir _ _ HX).
    - apply (x_ncdir _ _ HX).
    - intros t Ht. rewrite hm_dead. apply (x_tgt _ _ HX t Ht).
    - intros x m H1 H2. destruct (x_kids _ _ HX x m H1 H2) as [H|[H|H]]; [left; exact H|right; left; exact H|].
      rewrite invis_unfold, Efs, hm_dead. rewrite invis_unfold in H.
      destruct (lookup (w_fs w) (m :: x)) as [[g|]|] eqn:El; try (right; right; exact H).
      assert (Hf: isfile (w_fs w) (m :: x) = true) by (unfold isfile; rewrite El; reflexivity).
      destruct (Hh _ Hf) as [K|K]; [right; right; congruence|right; left; exact K].
    - apply (x_cc _ _ HX).
    - intros a H1 H2 H3. destruct (Hh a H1) as [H|H]; [|contradiction]. rewrite H in H2.
      apply (x_hid_rf _ _ HX a H1 H2 H3).
    - intros a H1 H2. pose proof (x_rf_hid _ _ HX a H1 H2) as H.
      destruct (Hh a H2) as [H'|H']; [congruence|].
      destruct (x_tgt _ _ HX a H') as (_ & X & _). congruence.
  Qed.
End HidMulti.

(* ------------------------------------------------------------------ register_op *)
Fixpoint regp (o : op) : list path :=
  match o with
  | OSimple _ _ _ => []
  | OBuildFile p _ _ _ _ subs _ _ _ sf => (if sf then [] else [p]) ++ flat_map regp subs
  | OSubbuild _ _ _ subs _ _ _ => flat_map regp subs
  end.

Definition reg_ok (o : op) : Prop :=
  forall c a, (~ In a (regp o) -> files_get (c_files (register_op c o)) a = files_get (c_files c) a) /\
              (files_get (c_files (register_op c o)) a = Some None -> files_get (c_files c) a = Some None).

Lemma reg_fold : forall subs, Forall reg_ok subs ->
  forall c a, (~ In a (flat_map regp subs) -> files_get (c_files (fold_left register_op subs c)) a = files_get (c_files c) a) /\
              (files_get (c_files (fold_left register_op subs c)) a = Some None -> files_get (c_files c) a = Some None).
Proof.
  intros subs H. induction H as [|s rest Hs Hrest IH]; intros c a; cbn [fold_left flat_map]; [auto|].
  destruct (IH (register_op c s) a) as [I1 I2]. destruct (Hs c a) as [S1 S2]. split.
  - intro Hn. rewrite I1 by (intro K; apply Hn; apply in_or_app; right; exact K).
    apply S1. intro K. apply Hn. apply in_or_app. left. exact K.
  - intro K. apply S2. apply I2. exact K.
Qed.

Lemma reg_all : forall o, reg_ok o.
Proof.
  induction o as [q r e|p c0 f a0 k subs r cr ra sf IH|f a0 k subs r ra sf IH] using op_ind'; intros c a; cbn [register_op regp].
  - auto.
  - destruct (reg_fold subs IH (if sf then c else cache_with c (files_set (c_files c) p (Some (OBuildFile p c0 f a0 k subs r cr ra sf))) (c_subs c) (c_dirs c) (c_built c)) a) as [F1 F2].
    split.
    + intro Hn. rewrite F1 by (intro K; apply Hn; apply in_or_app; right; exact K).
      destruct sf; [reflexivity|]. cbn [c_files cache_with]. apply files_get_set_other. intro; subst a. apply Hn. left. reflexivity.
    + intro K. apply F2 in K. destruct sf; [exact K|]. cbn [c_files cache_with] in K.
      destruct (list_eq_dec string_dec a p) as [->|Hne]; [rewrite files_get_set_same in K; discriminate|].
      rewrite files_get_set_other in K by exact Hne. exact K.
  - destruct (reg_fold subs IH (if sf then c else cache_with c (c_files c) (subs_set (c_subs c) (subbuild_key f a0 k) (Some (OSubbuild f a0 k subs r ra sf))) (c_dirs c) (c_built c)) a) as [F1 F2].
    split.
    + intro Hn. rewrite F1 by exact Hn. destruct sf; reflexivity.
    + intro K. apply F2 in K. destruct sf; exact K.
Qed.

(* registered paths of a reusable record: adopted targets, or absent *)
Lemma regp_cases : forall fs new cfp o, reusable fs new cfp o = true ->
  forall a, In a (regp o) -> In a (adopted o) \/ lexists fs a = false.
Proof.
  intros fs new cfp. induction o as [q r e|p c0 f a0 k subs r cr ra sf IH|f a0 k subs r ra sf IH] using op_ind';
    intros Hr a Ha; cbn [reusable regp adopted] in *.
  - destruct Ha.
  - repeat (apply andb_true_iff in Hr; destruct Hr as [Hr ?]). apply negb_true_iff in Hr. subst sf. cbn [app] in Ha.
    destruct Ha as [<-|Ha].
    + destruct ra; [right; apply negb_true_iff; assumption|left; left; reflexivity].
    + assert (G: In a (flat_map adopted subs) \/ lexists fs a = false).
      { clear -IH H Ha. induction IH as [|s rest Hs Hrest IHr]; cbn [flat_map forallb] in *; [destruct Ha|].
        apply andb_true_iff in H. destruct H as [H1 H2]. apply in_app_iff in Ha. destruct Ha as [Ha|Ha].
        - destruct (Hs H1 a Ha) as [K|K]; [left; apply in_or_app; left; exact K|right; exact K].
        - destruct (IHr H2 Ha) as [K|K]; [left; apply in_or_app; right; exact K|right; exact K]. }
      destruct G as [G|G]; [left; apply in_or_app; right; exact G|right; exact G].
  - repeat (apply andb_true_iff in Hr; destruct Hr as [Hr ?]).
    clear -IH H Ha. induction IH as [|s rest Hs Hrest IHr]; cbn [flat_map forallb] in *; [destruct Ha|].
    apply andb_true_iff in H. destruct H as [H1 H2]. apply in_app_iff in Ha. destruct Ha as [Ha|Ha].
    + destruct (Hs H1 a Ha) as [K|K]; [left; apply in_or_app; left; exact K|right; exact K].
    + destruct (IHr H2 Ha) as [K|K]; [left; apply in_or_app; right; exact K|right; exact K].
Qed.

Lemma reusable_no_repeats : forall fs new cfp o, reusable fs new cfp o = true -> assert_no_repeats new o = true.
Proof.
  intros fs new cfp. induction o as [q r e|p c0 f a0 k subs r cr ra sf IH|f a0 k subs r ra sf IH] using op_ind';
    intro Hr; cbn [reusable assert_no_repeats] in *.
  - reflexivity.
  - repeat (apply andb_true_iff in Hr; destruct Hr as [Hr ?]). apply negb_true_iff in Hr. subst sf. cbn [orb].
    rewrite H2. cbn [andb]. clear -IH H. induction IH as [|s rest Hs Hrest IHr]; cbn [forallb] in *; [reflexivity|].
    apply andb_true_iff in H. destruct H as [H1 H2]. rewrite (Hs H1), (IHr H2). reflexivity.
  - repeat (apply andb_true_iff in Hr; destruct Hr as [Hr ?]). apply negb_true_iff in Hr. subst sf. cbn [orb].
    rewrite H0. cbn [andb]. clear -IH H. induction IH as [|s rest Hs Hrest IHr]; cbn [forallb] in *; [reflexivity|].
    apply andb_true_iff in H. destruct H as [H1 H2]. rewrite (Hs H1), (IHr H2). reflexivity.
Qed.

(* use_cached_operation for the root record of the target p *)
Theorem use_cached_ok : forall T w p c f sa skw subs rt cmp,
  RInv T w -> In p T -> cache_has_file (w_new w) p = false ->
  forallb (reusable (w_fs w) (w_new w) (w_cachefile w)) subs = true ->
  (forall q, In q (flat_map adopted subs) -> In q T) ->
  let o := OBuildFile p c f sa skw subs rt cmp false false in
  exists w1, new_use_cached_operation o w = (w1, inl tt) /\ RInv T w1.
Proof.
  intros T w p c f sa skw subs rt cmp (HX & HP & HF) Hin Hunc Hr Hadopt o.
  assert (Hnr: assert_no_repeats (w_new w) o = true).
  { unfold o. cbn [assert_no_repeats orb]. rewrite Hunc. cbn [negb andb].
    clear -Hr. induction subs as [|s rest IH]; cbn [forallb] in *; [reflexivity|].
    apply andb_true_iff in Hr. destruct Hr as [H1 H2]. rewrite (reusable_no_repeats _ _ _ _ H1), (IH H2). reflexivity. }
  exists (set_new (register_op (w_new w) o) w). split.
  { unfold new_use_cached_operation, bind, get, put. rewrite Hnr. reflexivity. }
  assert (Hreg: forall a, In a (regp o) -> In a T \/ isfile (w_fs w) a = false).
  { intros a Ha. unfold o in Ha. cbn [regp app] in Ha. destruct Ha as [<-|Ha]; [left; exact Hin|].
    assert (G: In a (flat_map adopted subs) \/ lexists (w_fs w) a = false).
    { clear -Hr Ha. induction subs as [|s rest IH]; cbn [flat_map forallb] in *; [destruct Ha|].
      apply andb_true_iff in Hr. destruct Hr as [H1 H2]. apply in_app_iff in Ha. destruct Ha as [Ha|Ha].
      - destruct (regp_cases _ _ _ _ H1 a Ha) as [K|K]; [left; apply in_or_app; left; exact K|right; exact K].
      - destruct (IH H2 Ha) as [K|K]; [left; apply in_or_app; right; exact K|right; exact K]. }
    destruct G as [G|G]; [left; apply Hadopt; exact G|right].
    unfold lexists in G. unfold isfile. destruct (lookup (w_fs w) a); [discriminate|reflexivity]. }
  split; [|split; [|exact HF]].
  - apply (hid_multi_XInv T w (set_new (register_op (w_new w) o) w) HX); try reflexivity.
    intros a Hf. destruct (in_dec (list_eq_dec string_dec) a (regp o)) as [Hi|Hni].
    + destruct (Hreg a Hi) as [K|K]; [right; exact K|congruence].
    + left. unfold hid, cache_has_file, cache_get_file. cbn [w_new w_old w_cachefile set_new].
      rewrite (proj1 (reg_all o (w_new w) a) Hni). reflexivity.
  - intros x Hx. cbn [w_new set_new] in Hx. apply HP. apply (proj2 (reg_all o (w_new w) x) Hx).
Qed.

Print Assumptions use_cached_ok.
