(* Proofs/ViewR9.v — C04, arbitrary previous caches, part 9: no KeyError.

   The KeyError of CreatedFiles.error_building_file needs only the bookkeeping part of the
   overlay: the counting law on cf_counts (ViewH1), "directories = counted paths", and
   "every overlay directory is listed in its parent" — CC0 below.  CC0 is kept by started,
   finished and error_building_file WITHOUT any hypothesis on the tree (unlike CInv, which
   can break for caches that no build writes), and it is all that error_building_file needs
   in order not to raise.  Threaded through the replay of a well-formed record, this shows
   that no cache lookup raises: NoRaise holds for every well-formed previous cache, and the
   final theorem of ViewR3 holds without any statement left.                               *)
From Coq Require Import List String Ascii NArith ZArith Bool Arith Lia.
From FB.Base Require Import PyVal Fs.
From FB.Gen Require Import JsonUtilGen.
From FB.Spec Require Import Prog Ref.
From FB.Model Require Import Types Monad CreatedFiles BuildDirs SimpleOps Builder Persist Build Run Frame.
From FB.Proofs Require Import FsLemmas CleanLaws JsonLaws CoreLawsChildren ReplayLaws BuildFileLaws
     ViewDefs ViewLemmas ViewScan ViewQueries ViewAnswers ViewInit ViewPres ViewOverlay ViewOverlay2
     ViewXDefs ViewXCount ViewXErr1 ViewXError ViewXFail ViewXSetup ViewXReach ViewH1 ViewH4
     ViewR1 ViewR2 ViewR3 ViewR4 ViewR5.
Import ListNotations.
Open Scope list_scope.
Open Scope m_scope.

Record CC0 (T : list path) (c : cfiles) : Prop := {
  c0_claw : claw T (bofc c);
  c0_dirs : forall x, mem_path x (cf_dirs c) = icl (cf_counts c) x;
  c0_list : forall m q, mem_path (m :: q) (cf_dirs c) = true -> In m (cf_list_dir c q)
}.

Lemma CC0_empty : CC0 [] cf_empty.
Proof.
  constructor.
  - apply (cc_claw _ _ _ (CCInv_empty Dsl.init_world)).
  - intro x. reflexivity.
  - intros m q H. discriminate.
Qed.

(* ------------------------------------------------------------------ error_building_file does not raise *)
Theorem cf_error_from_ok : forall parent T c,
  claw_minus T (bofc c) parent -> (forall x, mem_path x (cf_dirs c) = icl (cf_counts c) x) ->
  (forall m q, mem_path (m :: q) (cf_dirs c) = true -> In m (cf_list_dir c q)) ->
  exists c', cf_error_from c parent = Some c' /\ CC0 T c'.
Proof.
  induction parent as [|m q IH]; intros T c HM HD HL;
    destruct (claw_minus_step T (bofc c) _ HM) as (n & En & Hn & S1 & S2); cbn [bofc bd_counts] in En;
    cbn [cf_error_from]; rewrite En; destruct (Nat.ltb 0 (n - 1)) eqn:E.
  - eexists. split; [reflexivity|]. constructor.
    + eapply claw_ext; [|apply S1; reflexivity]. reflexivity.
    + intro x. cbn [cf_dirs cf_counts cf_with]. rewrite icl_set, (HD x).
      destruct (path_eqb [] x) eqn:Ex; [|reflexivity]. apply path_eqb_eq in Ex. subst x. unfold icl. rewrite En. reflexivity.
    + exact HL.
  - assert (Hin: mem_path [] (cf_dirs c) = true) by (rewrite HD; unfold icl; rewrite En; reflexivity).
    rewrite Hin. cbn [negb cf_remove_from_subfiles].
    eexists. split; [reflexivity|]. constructor.
    + eapply claw_ext; [|apply S2; reflexivity]. rewrite er_counts_b2. reflexivity.
    + intro x. cbn [cf_dirs cf_counts cf_with]. rewrite icl_del, mem_del_path, (HD x). reflexivity.
    + intros k d' H. cbn [cf_dirs cf_with] in H. rewrite mem_del_path in H. apply andb_true_iff in H.
      apply (HL k d'). apply H.
  - eexists. split; [reflexivity|]. constructor.
    + eapply claw_ext; [|apply S1; reflexivity]. reflexivity.
    + intro x. cbn [cf_dirs cf_counts cf_with]. rewrite icl_set, (HD x).
      destruct (path_eqb (m :: q) x) eqn:Ex; [|reflexivity]. apply path_eqb_eq in Ex. subst x. unfold icl. rewrite En. reflexivity.
    + exact HL.
  - assert (Hin: mem_path (m :: q) (cf_dirs c) = true) by (rewrite HD; unfold icl; rewrite En; reflexivity).
    rewrite Hin. cbn [negb].
    set (c1 := cf_with c (cf_files c) (del_path (m :: q) (cf_dirs c)) (cf_sub c) (cnt_del (cf_counts c) (m :: q))).
    assert (Hlisted: In m (cf_list_dir c1 q)) by (apply (HL m q Hin)).
    destruct (remove_sub_ok c1 m q Hlisted) as (c2 & E2 & F2 & D2 & N2 & L2). rewrite E2.
    assert (HM2: claw_minus T (bofc c2) q).
    { eapply claw_minus_ext; [|apply S2; reflexivity]. rewrite er_counts_b2. cbn [bofc bd_counts]. rewrite N2. reflexivity. }
    assert (HD2: forall x, mem_path x (cf_dirs c2) = icl (cf_counts c2) x).
    { intro x. rewrite D2, N2. cbn [cf_dirs cf_counts cf_with c1]. rewrite icl_del, mem_del_path, (HD x). reflexivity. }
    assert (HL2: forall k d', mem_path (k :: d') (cf_dirs c2) = true -> In k (cf_list_dir c2 d')).
    { intros k d' H. rewrite D2 in H. cbn [cf_dirs cf_with c1] in H. rewrite mem_del_path in H.
      apply andb_true_iff in H. destruct H as [Hne Hk]. pose proof (HL k d' Hk) as Hold.
      rewrite L2. change (cf_list_dir c1) with (cf_list_dir c).
      destruct (path_eqb q d') eqn:Eq; [|exact Hold].
      apply path_eqb_eq in Eq. subst d'. apply In_del_str. split; [exact Hold|]. intro; subst k.
      rewrite path_eqb_refl in Hne. discriminate. }
    apply (IH T c2 HM2 HD2 HL2).
Qed.

Theorem cf_error_ok : forall T c n d, CC0 T c -> In (n :: d) T ->
  exists c', cf_error c (n :: d) = Some c' /\ CC0 (rm1 (n :: d) T) c'.
Proof.
  intros T c n d [[K P C] HD HL] Hin. unfold cf_error.
  assert (HM: claw_minus (rm1 (n :: d) T) (bofc c) d).
  { constructor; [exact K|exact P|]. intro x. rewrite (C x), (nt_rm1 (n :: d) T x Hin), is_child_eqb. lia. }
  apply (cf_error_from_ok d (rm1 (n :: d) T) c HM HD HL).
Qed.

(* ------------------------------------------------------------------ started / finished keep CC0 *)
Lemma In_add_str : forall n l m, In m l -> In m (if mem_str n l then l else l ++ [n]).
Proof. intros n l m H. destruct (mem_str n l); [exact H|apply in_or_app; left; exact H]. Qed.

Lemma In_add_str_new : forall n l, In n (if mem_str n l then l else l ++ [n]).
Proof.
  intros n l. destruct (mem_str n l) eqn:E; [apply mem_str_In; exact E|apply in_or_app; right; left; reflexivity].
Qed.

Lemma cf_started_from_list : forall parent c,
  (forall m q, mem_path (m :: q) (cf_dirs c) = true -> In m (cf_list_dir c q)) ->
  forall m q, mem_path (m :: q) (cf_dirs (cf_started_from c parent)) = true -> In m (cf_list_dir (cf_started_from c parent) q).
Proof.
  induction parent as [|n d IH]; intros c HL; cbn [cf_started_from].
  - destruct (Nat.ltb 0 _); [exact HL|].
    intros m q H. cbn [cf_add_to_subfiles cf_dirs cf_with] in H |- *. rewrite mem_add_path in H.
    cbn [path_eqb orb] in H. apply (HL m q H).
  - destruct (Nat.ltb 0 _); [exact HL|]. apply IH.
    intros m q H. rewrite (proj2 (add_sub_fields _ _)) in H. cbn [cf_dirs cf_with] in H. rewrite mem_add_path in H.
    rewrite list_add_sub.
    assert (Eold: forall q', cf_list_dir (cf_with
               (cf_with c (cf_files c) (cf_dirs c) (cf_sub c) (cnt_set (cf_counts c) (n :: d)
                  (S match cnt_get (cf_counts c) (n :: d) with Some k => k | None => 0 end)))
               (cf_files c) (add_path (n :: d) (cf_dirs c)) (cf_sub c)
               (cnt_set (cf_counts c) (n :: d) (S match cnt_get (cf_counts c) (n :: d) with Some k => k | None => 0 end))) q'
             = cf_list_dir c q') by reflexivity.
    cbn [cf_files cf_dirs cf_sub cf_counts cf_with] in *.
    apply orb_true_iff in H. destruct H as [H|H].
    + apply path_eqb_eq in H. inversion H; subst m q. rewrite path_eqb_refl. rewrite Eold. apply In_add_str_new.
    + pose proof (HL m q H) as Hold. destruct (path_eqb d q) eqn:Eq.
      * apply path_eqb_eq in Eq. subst q. rewrite Eold. apply In_add_str. exact Hold.
      * rewrite Eold. exact Hold.
Qed.

Theorem cf_started_CC0 : forall T c n d, CC0 T c -> CC0 ((n :: d) :: T) (cf_started c (n :: d)).
Proof.
  intros T c n d [[K P C] HD HL]. unfold cf_started. constructor.
  - assert (Hp: claw_plus ((n :: d) :: T) (bofc c) d).
    { constructor; [exact K|exact P|]. intro x. rewrite nt_cons, is_child_eqb, (C x). lia. }
    pose proof (started_from_claw d ((n :: d) :: T) (bofc c) [] [] Hp) as [K' P' C'].
    assert (E: bd_counts (bofc (cf_started_from c d)) = bd_counts (fst (bd_started_from (bofc c) [] d [])))
      by (apply cf_started_from_counts).
    constructor.
    + unfold ckeys. rewrite E. exact K'.
    + intro x. rewrite E. apply P'.
    + intro x. unfold cval, nk, ckeys. rewrite E. apply C'.
  - apply cf_started_from_dirs; [exact P|exact HD].
  - apply cf_started_from_list. exact HL.
Qed.

Theorem cf_finished_CC0 : forall T c p, CC0 T c -> CC0 T (cf_finished c p).
Proof.
  intros T c p [HK HD HL]. unfold cf_finished.
  assert (Ec: cf_counts (cf_add_to_subfiles (cf_with c (add_path p (cf_files c)) (cf_dirs c) (cf_sub c) (cf_counts c)) p) = cf_counts c)
    by (destruct p; reflexivity).
  assert (Ed: cf_dirs (cf_add_to_subfiles (cf_with c (add_path p (cf_files c)) (cf_dirs c) (cf_sub c) (cf_counts c)) p) = cf_dirs c)
    by (destruct p; reflexivity).
  constructor.
  - eapply claw_ext; [|exact HK]. cbn [bofc bd_counts]. exact Ec.
  - intro x. rewrite Ed, Ec. apply HD.
  - intros m q H. rewrite Ed in H. pose proof (HL m q H) as Hold. destruct p as [|n d]; [exact Hold|].
    rewrite list_add_sub. destruct (path_eqb d q) eqn:Eq; [|exact Hold].
    apply path_eqb_eq in Eq. subst q. apply In_add_str. exact Hold.
Qed.

(* ------------------------------------------------------------------ the replay *)
Definition postk (T : list path) (r : (bool * cfiles) + exn) : Prop :=
  match r with
  | inl (b, cf') => DL cf' /\ (b = true -> exists T', CC0 T' cf' /\ msub T T')
  | inr e => False
  end.

Lemma subs_go_k : forall subs,
  Forall (fun o => forall T cf w w' r, wfrec o = true -> WB w -> DL cf -> CC0 T cf ->
                   is_op_cached o cf w = (w', r) -> postk T r) subs ->
  forall T cf w w' r, forallb wfrec subs = true -> WB w -> DL cf -> CC0 T cf -> GO subs cf w = (w', r) -> postk T r.
Proof.
  intros subs H. induction H as [|s rest Hs Hrest IH]; intros T cf w w' r Hg HW HD HC Hgo; cbn [GO] in Hgo.
  - inversion Hgo; subst. split; [exact HD|]. intros _. exists T. split; [exact HC|apply msub_refl].
  - cbn [forallb] in Hg. apply andb_true_iff in Hg. destruct Hg as [Hg1 Hg2].
    apply bind_inv in Hgo. destruct Hgo as [[wa [r1 [E Hgo]]]|[e [E Er]]].
    + pose proof (Hs T cf w wa (inl r1) Hg1 HW HD HC E) as P1. destruct r1 as [b1 cf1]. cbn [postk] in P1. cbn [fst snd] in Hgo.
      destruct P1 as [D1 K1].
      pose proof (WB_step _ _ _ _ _ HW (is_op_cached_v _ _) (is_op_cached_svb _ _) E) as HWa.
      destruct b1.
      * destruct (K1 eq_refl) as (T1 & C1 & M1).
        pose proof (IH T1 cf1 wa w' r Hg2 HWa D1 C1 Hgo) as P2. destruct r as [[b2 cf2]|e]; [|exact P2].
        cbn [postk] in P2 |- *. destruct P2 as [D2 K2]. split; [exact D2|]. intro Hb.
        destruct (K2 Hb) as (T2 & C2 & M2). exists T2. split; [exact C2|eapply msub_trans; eassumption].
      * inversion Hgo; subst. split; [exact D1|discriminate].
    + subst r. apply (Hs T cf w w' (inr e) Hg1 HW HD HC E).
Qed.

Theorem is_op_cached_k : forall o T cf w w' r, wfrec o = true -> WB w -> DL cf -> CC0 T cf ->
  is_op_cached o cf w = (w', r) -> postk T r.
Proof.
  induction o as [q rt ex|p c f a k subs rt cr ra sf IH|f a k subs rt ra sf IH] using op_ind';
    intros T cf w w' r Hg HW HD HC H; cbn [is_op_cached] in H; cbn [wfrec] in Hg.
  - apply bind_inv in H. destruct H as [[wa [b [Eb H]]]|[e [Eb _]]].
    + inversion H; subst. split; [exact HD|]. intros _. exists T. split; [exact HC|apply msub_refl].
    + exfalso. apply (simple_noraise _ _ _ _ _ _ _ HW HD Eb).
  - pose proof (subs_go_k subs IH) as Hgo. fold GO in H.
    assert (Hfalse: forall c0, DL c0 -> postk T (inl (false, c0))) by (intros c0 H0; split; [exact H0|discriminate]).
    apply andb_true_iff in Hg. destruct Hg as [Hg Hg3]. apply andb_true_iff in Hg. destruct Hg as [Hg1 Hg2].
    unfold tgt_ok in Hg2. apply andb_true_iff in Hg2. destruct Hg2 as [Hpok Hplen]. apply Nat.ltb_lt in Hplen.
    apply bind_inv in H. unfold get in H. destruct H as [[w1 [w0 [E H]]]|[e [E _]]]; [|discriminate].
    inversion E; subst w1 w0.
    destruct (cache_has_file (w_new w) p || path_eqb p (w_cachefile w)); [inversion H; subst; apply Hfalse; exact HD|].
    apply bind_inv in H. destruct H as [[w1 [ve [Ev H]]]|[e [Ev _]]].
    2:{ unfold version_equal, bind, get, ret in Ev. discriminate. }
    pose proof (WB_step _ _ _ _ _ HW (version_equal_v _) (version_equal_svb _) Ev) as HW1.
    destruct (negb ve); [inversion H; subst; apply Hfalse; exact HD|].
    apply bind_inv in H. destruct H as [[w2 [ok [Eo H]]]|[e [Eo _]]].
    2:{ exfalso. destruct ra; [discriminate|]. unfold is_build_file_cached in Eo. apply bind_inv in Eo.
        destruct Eo as [[w3 [cur [En Eo]]]|[e' [En _]]]; [discriminate|]. apply (noneable_cmp_noraise _ _ _ _ _ Hpok En). }
    assert (HW2: WB w2).
    { destruct ra; [inversion Eo; subst; exact HW1|].
      apply (WB_step _ _ _ _ _ HW1 (is_build_file_cached_v _ _ _) (is_build_file_cached_svb _ _ _) Eo). }
    destruct (negb ok); [inversion H; subst; apply Hfalse; exact HD|].
    apply bind_inv in H. unfold get in H. destruct H as [[w3 [w0 [E3 H]]]|[e [E3 _]]]; [|discriminate].
    inversion E3; subst w3 w0.
    destruct (ra && lexists (w_fs w2) p); [inversion H; subst; apply Hfalse; exact HD|].
    destruct sf; [inversion H; subst; apply Hfalse; exact HD|].
    apply bind_inv in H. destruct H as [[w3 [dres [Ed H]]]|[e [Ed _]]].
    2:{ unfold attempt in Ed. destruct (dirs_to_make (dirname p) (Some cf) w2); discriminate. }
    unfold attempt in Ed. destruct (dirs_to_make (dirname p) (Some cf) w2) as [w4 x] eqn:E4. inversion Ed; subst w4 dres.
    pose proof (WB_step _ _ _ _ _ HW2 (dirs_to_make_v _ _) (dirs_to_make_svb _ _) E4) as HW3.
    destruct x as [ds|e].
    2:{ pose proof (dirs_to_make_oso _ _ _ _ _ (proj1 HW2) E4) as K. cbn in K. rewrite K in H. inversion H; subst. apply Hfalse; exact HD. }
    (* the target is started in the overlay *)
    assert (Hst: exists T0, CC0 T0 (cf_started cf p) /\
                  (forall T1, msub T0 T1 -> msub T T1) /\
                  (forall T1 c1, CC0 T1 c1 -> msub T0 T1 ->
                     exists c2 T2, cf_error c1 p = Some c2 /\ CC0 T2 c2 /\ msub T T2)).
    { destruct p as [|n d].
      - exists T. split; [exact HC|]. split; [auto|]. intros T1 c1 C1 M1. exists c1, T1. auto.
      - exists ((n :: d) :: T). split; [apply cf_started_CC0; exact HC|]. split.
        + intros T1 M1. eapply msub_trans; [apply msub_cons|exact M1].
        + intros T1 c1 C1 M1.
          assert (Hin: In (n :: d) T1) by (apply (msub_in _ _ _ M1); left; reflexivity).
          destruct (cf_error_ok T1 c1 n d C1 Hin) as (c2 & E2 & C2).
          exists c2, (rm1 (n :: d) T1). split; [exact E2|]. split; [exact C2|apply msub_rm1; exact M1]. }
    destruct Hst as (T0 & C0 & Hsub & Herr).
    apply bind_inv in H. destruct H as [[w4 [rr [Es H]]]|[e [Es Er]]].
    2:{ subst r. apply (Hgo T0 _ _ _ _ Hg3 HW3 (DL_started _ _ HD Hplen) C0 Es). }
    pose proof (Hgo T0 _ _ _ _ Hg3 HW3 (DL_started _ _ HD Hplen) C0 Es) as P1. destruct rr as [b1 cf1]. cbn [postk] in P1.
    destruct P1 as [D1 K1].
    cbn [fst snd] in H. destruct b1; cbn [negb] in H; [|inversion H; subst; apply Hfalse; exact D1].
    destruct (K1 eq_refl) as (T1 & C1 & M1).
    destruct ra.
    + destruct (Herr T1 cf1 C1 M1) as (c2 & T2 & E2 & C2 & M2). rewrite E2 in H. inversion H; subst.
      split; [apply (DL_error _ _ _ E2 D1)|]. intros _. exists T2. split; [exact C2|exact M2].
    + inversion H; subst. split; [apply DL_finished; exact D1|]. intros _.
      exists T1. split; [apply cf_finished_CC0; exact C1|apply Hsub; exact M1].
  - pose proof (subs_go_k subs IH) as Hgo. fold GO in H.
    assert (Hfalse: forall c0, DL c0 -> postk T (inl (false, c0))) by (intros c0 H0; split; [exact H0|discriminate]).
    apply bind_inv in H. destruct H as [[w1 [ve [Ev H]]]|[e [Ev _]]].
    2:{ unfold version_equal, bind, get, ret in Ev. discriminate. }
    pose proof (WB_step _ _ _ _ _ HW (version_equal_v _) (version_equal_svb _) Ev) as HW1.
    destruct (negb ve || sf); [inversion H; subst; apply Hfalse; exact HD|].
    apply bind_inv in H. unfold get in H. destruct H as [[w2 [w0 [E2 H]]]|[e [E2 _]]]; [|discriminate].
    inversion E2; subst w2 w0.
    destruct (cache_has_subbuild (w_new w1) (subbuild_key f a k)); [inversion H; subst; apply Hfalse; exact HD|].
    apply (Hgo T _ _ _ _ Hg HW1 HD HC H).
Qed.

Lemma are_subs_cached_k : forall subs T cf w w' r, forallb wfrec subs = true -> WB w -> DL cf -> CC0 T cf ->
  are_subs_cached subs cf w = (w', r) -> postk T r.
Proof.
  induction subs as [|s rest IH]; intros T cf w w' r Hg HW HD HC H; cbn [are_subs_cached] in H.
  - inversion H; subst. split; [exact HD|]. intros _. exists T. split; [exact HC|apply msub_refl].
  - cbn [forallb] in Hg. apply andb_true_iff in Hg. destruct Hg as [Hg1 Hg2].
    apply bind_inv in H. destruct H as [[wa [r1 [E H]]]|[e [E Er]]].
    + pose proof (is_op_cached_k s T cf w wa (inl r1) Hg1 HW HD HC E) as P1. destruct r1 as [b1 cf1]. cbn [postk] in P1. cbn [fst snd] in H.
      destruct P1 as [D1 K1].
      pose proof (WB_step _ _ _ _ _ HW (is_op_cached_v _ _) (is_op_cached_svb _ _) E) as HWa.
      destruct b1.
      * destruct (K1 eq_refl) as (T1 & C1 & M1).
        pose proof (IH T1 cf1 wa w' r Hg2 HWa D1 C1 H) as P2. destruct r as [[b2 cf2]|e]; [|exact P2].
        cbn [postk] in P2 |- *. destruct P2 as [D2 K2]. split; [exact D2|]. intro Hb.
        destruct (K2 Hb) as (T2 & C2 & M2). exists T2. split; [exact C2|eapply msub_trans; eassumption].
      * inversion H; subst. split; [exact D1|discriminate].
    + subst r. apply (is_op_cached_k s T cf w w' (inr e) Hg1 HW HD HC E).
Qed.

(* ------------------------------------------------------------------ the lookups raise nothing *)
Theorem lookup_noraise : forall p f a k w wl e, WB w -> WfCache (w_old w) ->
  build_file_cache_lookup p f a k w <> (wl, inr e).
Proof.
  intros p f a k w wl e HW [HWf _] H. unfold build_file_cache_lookup in H. apply bind_inv in H. unfold get in H.
  destruct H as [[w1 [w0 [E H]]]|[e' [E _]]]; [|discriminate]. inversion E; subst w1 w0.
  destruct (cache_get_file (w_old w) p) as [[q r ex|p' c' f' a' k' subs' r' cr' ra' sf'|f' a' k' subs' r' ra' sf']|] eqn:Eg;
    try (inversion H; fail).
  pose proof (HWf _ _ Eg) as Hg. cbn [wfrec] in Hg.
  apply andb_true_iff in Hg. destruct Hg as [Hg Hg3]. apply andb_true_iff in Hg. destruct Hg as [Hg1 Hg2].
  unfold tgt_ok in Hg2. apply andb_true_iff in Hg2. destruct Hg2 as [Hpok _].
  destruct ra'; [inversion H|]. destruct (negb (String.eqb f' f)); [inversion H|].
  apply bind_inv in H. destruct H as [[w1 [ve [Ev H]]]|[e' [Ev _]]].
  2:{ unfold version_equal, bind, get, ret in Ev. discriminate. }
  pose proof (WB_step _ _ _ _ _ HW (version_equal_v _) (version_equal_svb _) Ev) as HW1.
  destruct (negb ve); [inversion H|].
  destruct (negb (is_equal a' a)); [inversion H|]. destruct (negb (is_equal k' k)); [inversion H|].
  apply bind_inv in H. destruct H as [[w2 [ok [Eo H]]]|[e' [Eo _]]].
  2:{ unfold is_build_file_cached in Eo. apply bind_inv in Eo.
      destruct Eo as [[w3 [cur [En Eo]]]|[e'' [En _]]]; [discriminate|]. apply (noneable_cmp_noraise _ _ _ _ _ Hpok En). }
  pose proof (WB_step _ _ _ _ _ HW1 (is_build_file_cached_v _ _ _) (is_build_file_cached_svb _ _ _) Eo) as HW2.
  destruct (negb ok); [inversion H|].
  apply bind_inv in H. destruct H as [[w3 [rr [Es H]]]|[e' [Es Er]]].
  - destruct (fst rr); inversion H.
  - apply (are_subs_cached_k _ [] _ _ _ _ Hg3 HW2 DL_empty CC0_empty Es).
Qed.

Theorem sublookup_noraise : forall key f w wl e, WB w -> WfCache (w_old w) ->
  subbuild_cache_lookup key f w <> (wl, inr e).
Proof.
  intros key f w wl e HW [_ HWf] H. unfold subbuild_cache_lookup in H. apply bind_inv in H. unfold get in H.
  destruct H as [[w1 [w0 [E H]]]|[e' [E _]]]; [|discriminate]. inversion E; subst w1 w0.
  destruct (subs_get (c_subs (w_old w)) key) as [[[q r ex|p' c' f' a' k' subs' r' cr' ra' sf'|f' a' k' subs' r' ra' sf']|]|] eqn:Eg;
    try (inversion H; fail).
  pose proof (HWf _ _ Eg) as Hg. cbn [wfrec] in Hg.
  destruct ra'; [inversion H|].
  apply bind_inv in H. destruct H as [[w1 [ve [Ev H]]]|[e' [Ev _]]].
  2:{ unfold version_equal, bind, get, ret in Ev. discriminate. }
  pose proof (WB_step _ _ _ _ _ HW (version_equal_v _) (version_equal_svb _) Ev) as HW1.
  destruct (negb ve); [inversion H|].
  apply bind_inv in H. destruct H as [[w3 [rr [Es H]]]|[e' [Es Er]]].
  - destruct (fst rr); inversion H.
  - apply (are_subs_cached_k _ [] _ _ _ _ Hg HW1 DL_empty CC0_empty Es).
Qed.

(* ------------------------------------------------------------------ NoRaise, and the final theorem *)
Theorem noraise_holds : forall Xc, NoRaise Xc.
Proof.
  intros Xc T w HR. pose proof (RInv2_WB _ _ _ HR) as HW. destruct HR as (_ & _ & HWf & _). split.
  - intros p f a k wl e. apply lookup_noraise; assumption.
  - intros k f wl e. apply sublookup_noraise; assumption.
Qed.

(* For every program whose targets are creatable and shallow, every well-formed previous cache,
   every shallow initial tree in which the cache file path is not a directory: every query
   (other than read, on a path with creatable names) asked at any point of a fault-free build
   answers like POSIX on the view of the world it is asked in. *)
Theorem reachable_answers_view_all : forall w0 cachefile old nm vers pr subs q wq,
  fs_wf (w_fs w0) -> old_ok old cachefile -> WfCache old -> w_faults w0 = [] ->
  isdir (w_fs w0) cachefile = false -> maxlen (w_fs w0) < walk_fuel ->
  AllTargets tgtP pr ->
  AskAt pr None subs (start_world w0 cachefile old nm vers) q wq ->
  path_ok (spec_query_path q) = true ->
  (forall p c, q <> QRead p c) ->
  BInv wq /\ yields (exec_query q None) wq (to_res (spec_answer (view_fs wq) q)).
Proof.
  intros w0 cachefile old nm vers pr subs q wq Hwf Hok HW HF Hnc Hml Hat HA Hp Hnr.
  apply (reachable_answers_view2 (fun _ => True) (noraise_holds _) w0 cachefile old nm vers pr subs q wq); auto.
Qed.

(* the same from the world in which m_build starts the root function (after _make_dirs of the
   directory of the cache file, when that directory is visible) *)
Theorem reachable_answers_view_all_root : forall w0 cachefile old nm vers,
  fs_wf (w_fs w0) -> old_ok old cachefile -> WfCache old -> w_faults w0 = [] ->
  path_ok (dirname cachefile) = true ->
  isdir (w_fs w0) cachefile = false -> maxlen (w_fs w0) < walk_fuel ->
  vdir (start_world w0 cachefile old nm vers) (dirname cachefile) = true ->
  exists w1, make_dirs (dirname cachefile) (start_world w0 cachefile old nm vers) = (w1, inl []) /\
    forall pr subs q wq, AllTargets tgtP pr ->
      AskAt pr None subs (set_log (LInvoke "<root>" None PNone PNone :: w_log w1) w1) q wq ->
      path_ok (spec_query_path q) = true -> (forall p c, q <> QRead p c) ->
      BInv wq /\ yields (exec_query q None) wq (to_res (spec_answer (view_fs wq) q)).
Proof.
  intros w0 cachefile old nm vers Hwf Hok HW HF Hp Hnc Hml Hd.
  destruct (RInv2_root_entry (fun _ => True) w0 cachefile old nm vers Hwf Hok HF Hp Hnc Hml HW I Hd) as (w1 & E & HR).
  exists w1. split; [exact E|]. intros pr subs q wq Hat HA Hq Hnr.
  apply (reachable_answers_view2_from (fun _ => True) (noraise_holds _) pr None subs _ q wq [] HA Hat HR); auto.
  intros p Hp0. discriminate.
Qed.

Print Assumptions cf_error_ok.
Print Assumptions is_op_cached_k.
Print Assumptions noraise_holds.
Print Assumptions reachable_answers_view_all.
Print Assumptions reachable_answers_view_all_root.
