(* Proofs/SimI2.v — C10, the clause that Properties/C10.v lists as not proved: "no directory made by
   the build survives unless the new cache records it" (the third alternative of clause (b1) of
   CommitDirsMain.CommitPost never happens).

   STATE BEFORE THIS FILE.  CommitDirs3Main.commit_leaves_exact_wf (round 4) already proves the
   clause, but only when NOTHING HAS TO BE MADE FOR THE CACHE FILE: its hypotheses
       path_ok (dirname cf) = true,  vdir (start_world ..) (dirname cf) = true,  isdir (w_fs w) cf = false
   exclude (i) every first build whose cache file lies in a directory that does not exist yet and
   (ii) every rebuild whose cache file lies in a directory that the previous build made and that
   holds nothing but outputs and the cache file (that directory is DEAD in the view when the build
   starts; _make_dirs lists it and mkdir answers EEXIST).
   HERE: the three hypotheses are dropped (SimI1.RInv2_root_entry_rebuild / _nodirs give the invariant
   RInv2 when the root function starts, in both cases; a committed build never finds a directory at
   the path of the cache file).  What is left beyond the side conditions of
   C10_state_after_a_committed_build: the previous cache is well formed (WfCache, old_ok: kept by every
   build and by the write/read cycle, ViewR7 / ViewR8), the targets are creatable and shallow (tgtP),
   the tree and the directory of the cache file are shallow (walk_fuel, an artefact of the model).
   NOT PROVED: the clause for programs with targets that are NOT creatable (a component longer than
   255 bytes: mkdir fails part-way) -- [no_unrecorded_directory_survives_any_target_statement];
   true on all computed histories (SimIEx.v).
   New file; edits nothing. *)
From Coq Require Import List String Ascii NArith ZArith Bool Arith Lia Sorted.
From FB.Base Require Import PyVal Fs.
From FB.Gen Require Import JsonUtilGen.
From FB.Spec Require Import Prog Ref Oracle.
From FB.Model Require Import Types Monad CreatedFiles BuildDirs SimpleOps Builder Persist Build Run Frame.
From FB.Proofs Require Import CoreLawsChildren ViewDefs ViewLemmas ViewInit ViewXDefs ViewXInit ViewXQuery ViewXSteps ViewXFail
     ViewXSetup ViewXRun ViewXReach ViewXC04 ViewR1 ViewR2 ViewR3 ViewR9.
From FB.Proofs Require Import FsLemmas ReplayLaws FrameLaws CleanLaws RollbackDirsLaws
  RollbackDirsView RollbackDirsBase RollbackDirsInv RollbackDirsMake RollbackDirsRun
  RollbackDirsMain CommitDirsInv CommitDirsRun CommitDirsMain
  CommitDirs2Y CommitDirs2Bd CommitDirs2Step CommitDirs2Run CommitDirs2Main CommitDirs3Adopt CommitDirs3Run CommitDirs3Main SimI1.
Import ListNotations.
Local Open Scope list_scope.

(* a committed build did not find a directory at the path of the cache file *)
Lemma committed_cf_not_dir : forall cf nm vers svers root w w' v,
  sanitize vers = Some svers -> run_build cf nm vers root w = (w', Done (inl v)) ->
  lookup (w_fs w) cf <> Some NDir.
Proof.
  intros cf nm vers svers root w w' v Hsv H Y. unfold run_build in H.
  destruct (m_build cf nm vers (fun w0 => run root None [] w0) w) as [w1 r1] eqn:E.
  inversion H; subst w' r1; clear H.
  rewrite m_build_unfold, Hsv in E. rewrite Y in E. discriminate E.
Qed.

Theorem dirs_exact : forall cf nm vers svers root w w' v (P : path -> Prop),
  w_faults w = [] ->
  sanitize vers = Some svers ->
  AllTargets P root ->
  fs_wf (w_fs w) ->
  (forall a t, (P t \/ t = cf \/ In t (cache_targets (old_cache_of (w_fs w) cf nm svers))) ->
     below a t = true -> (forall f, lookup (w_fs w) a <> Some (NFile f)) /\ ~ P a) ->
  (forall d, In d (c_dirs (old_cache_of (w_fs w) cf nm svers)) -> path_ok d = true) ->
  WfCache (old_cache_of (w_fs w) cf nm svers) ->
  old_ok (old_cache_of (w_fs w) cf nm svers) cf ->
  (forall p, P p -> tgtP p) ->
  maxlen (w_fs w) < walk_fuel -> List.length (dirname cf) < walk_fuel ->
  run_build cf nm vers root w = (w', Done (inl v)) ->
  forall d, lookup (w_fs w') d = Some NDir ->
    lookup (w_fs w) d = Some NDir \/ In d (c_dirs (w_new w')).
Proof.
  intros cf nm vers svers root w w' v P Hf Hsv Hat Hwf HA HE HW Hok HPt Hml Hlen H.
  pose proof (committed_cf_not_dir cf nm vers svers root w w' v Hsv H) as Hnd.
  set (old := old_cache_of (w_fs w) cf nm svers) in *.
  assert (Hentry : forall wx ccd, make_dirs (dirname cf) (start_world w cf old nm svers) = (wx, inl ccd) ->
            ViewR2.RInv2 (fun _ : cache => True) [] (set_log (LInvoke "<root>" None PNone PNone :: w_log wx) wx)).
  { intros wx ccd Ex. destruct (lookup (w_fs w) cf) as [[g|]|] eqn:Ecf.
    - exact (RInv2_root_entry_rebuild w cf old nm svers g wx ccd Hwf Hok Hf Ecf Hml HW Ex).
    - exfalso. apply Hnd. reflexivity.
    - assert (Hc : c_dirs old = []) by (unfold old, old_cache_of; rewrite Ecf; reflexivity).
      assert (Hnc : isdir (w_fs w) cf = false) by (unfold isdir; rewrite Ecf; reflexivity).
      exact (RInv2_root_entry_nodirs w cf old nm svers wx ccd Hwf Hok Hf Hnc Hml HW Hc Hlen Ex). }
  unfold run_build in H.
  destruct (m_build cf nm vers (fun w0 => run root None [] w0) w) as [w1 r1] eqn:E.
  inversion H; subst w' r1; clear H.
  assert (HA2 : forall a t, Tgt old cf P t -> below a t = true -> ~ P a) by (intros a t Ht Hb; exact (proj2 (HA a t Ht Hb))).
  assert (HS : forall a t, Tgt old cf P t -> below a t = true -> notorig (w_fs w) a) by (intros a t Ht Hb; exact (proj1 (HA a t Ht Hb))).
  assert (G : forall old0, old0 = old -> m_accept cf nm svers (fun w0 => run root None [] w0) w old0 = (w1, Done (inl v)) ->
              forall d, lookup (w_fs (end_build w1)) d = Some NDir ->
                lookup (w_fs w) d = Some NDir \/ In d (c_dirs (w_new (end_build w1)))).
  { intros old0 -> Y.
    exact (accept_dirs_exact_wf (w_fs w) old cf P HA2 HS Hwf HE HPt nm svers root w w1 v eq_refl Hf Hat Hentry Y). }
  rewrite m_build_unfold, Hsv in E. subst old. unfold old_cache_of in G |- *.
  destruct (lookup (w_fs w) cf) as [[g|]|].
  - destruct (cache_of_json (f_json g)) as [old0| |]; try discriminate E.
    destruct (String.eqb (c_name old0) nm); [|discriminate E]. exact (G old0 eq_refl E).
  - discriminate E.
  - exact (G _ eq_refl E).
Qed.

(* ------------------------------------------------------------------ the theorem *)
(* After a committed fault-free build, a directory of the final tree that was no directory of the
   initial tree is recorded as created by the new cache (hence FileBuilder.clean removes it). *)
Theorem no_unrecorded_directory_survives : forall cf nm vers svers root w w' v (P : path -> Prop),
  w_faults w = [] ->
  sanitize vers = Some svers ->
  AllTargets P root ->
  fs_wf (w_fs w) ->
  (forall a t, (P t \/ t = cf \/ In t (cache_targets (old_cache_of (w_fs w) cf nm svers))) ->
     below a t = true -> (forall f, lookup (w_fs w) a <> Some (NFile f)) /\ ~ P a) ->
  (forall d, In d (c_dirs (old_cache_of (w_fs w) cf nm svers)) -> path_ok d = true) ->
  WfCache (old_cache_of (w_fs w) cf nm svers) ->
  old_ok (old_cache_of (w_fs w) cf nm svers) cf ->
  (forall p, P p -> tgtP p) ->
  maxlen (w_fs w) < walk_fuel -> List.length (dirname cf) < walk_fuel ->
  run_build cf nm vers root w = (w', Done (inl v)) ->
  forall d, lookup (w_fs w') d = Some NDir -> lookup (w_fs w) d <> Some NDir -> In d (c_dirs (w_new w')).
Proof.
  intros cf nm vers svers root w w' v P Hf Hsv Hat Hwf HA HE HW Hok HPt Hml Hlen H d Hd Hn.
  destruct (dirs_exact cf nm vers svers root w w' v P Hf Hsv Hat Hwf HA HE HW Hok HPt Hml Hlen H d Hd) as [Y|Y];
    [contradiction|exact Y].
Qed.

(* the directories the build made and left behind are exactly the recorded ones *)
Theorem made_directories_are_the_recorded_ones : forall cf nm vers svers root w w' v (P : path -> Prop),
  w_faults w = [] -> sanitize vers = Some svers -> AllTargets P root -> fs_wf (w_fs w) ->
  (forall a t, (P t \/ t = cf \/ In t (cache_targets (old_cache_of (w_fs w) cf nm svers))) ->
     below a t = true -> (forall f, lookup (w_fs w) a <> Some (NFile f)) /\ ~ P a) ->
  (forall d, In d (c_dirs (old_cache_of (w_fs w) cf nm svers)) -> path_ok d = true) ->
  WfCache (old_cache_of (w_fs w) cf nm svers) -> old_ok (old_cache_of (w_fs w) cf nm svers) cf ->
  (forall p, P p -> tgtP p) -> maxlen (w_fs w) < walk_fuel -> List.length (dirname cf) < walk_fuel ->
  run_build cf nm vers root w = (w', Done (inl v)) ->
  forall d, lookup (w_fs w) d <> Some NDir ->
    (lookup (w_fs w') d = Some NDir <-> In d (c_dirs (w_new w'))).
Proof.
  intros cf nm vers svers root w w' v P Hf Hsv Hat Hwf HA HE HW Hok HPt Hml Hlen H.
  apply (made_dirs_recorded (w_fs w) (old_cache_of (w_fs w) cf nm svers) cf w').
  - exact (commit_leaves cf nm vers svers root w w' v P Hf Hsv Hat Hwf HA HE H).
  - exact (dirs_exact cf nm vers svers root w w' v P Hf Hsv Hat Hwf HA HE HW Hok HPt Hml Hlen H).
Qed.

(* C10: an error-created directory (a parent that a failed build_file call made) that the new cache
   does not record and that was no directory before the build is gone at the end of the build *)
Theorem failed_parents_removed_any_cachefile_dir : forall cf nm vers svers root w w' v (P : path -> Prop),
  w_faults w = [] -> sanitize vers = Some svers -> AllTargets P root -> fs_wf (w_fs w) ->
  (forall a t, (P t \/ t = cf \/ In t (cache_targets (old_cache_of (w_fs w) cf nm svers))) ->
     below a t = true -> (forall f, lookup (w_fs w) a <> Some (NFile f)) /\ ~ P a) ->
  (forall d, In d (c_dirs (old_cache_of (w_fs w) cf nm svers)) -> path_ok d = true) ->
  WfCache (old_cache_of (w_fs w) cf nm svers) -> old_ok (old_cache_of (w_fs w) cf nm svers) cf ->
  (forall p, P p -> tgtP p) -> maxlen (w_fs w) < walk_fuel -> List.length (dirname cf) < walk_fuel ->
  run_build cf nm vers root w = (w', Done (inl v)) ->
  forall d, In d (bd_err_created (w_bd w')) -> ~ In d (c_dirs (w_new w')) -> lookup (w_fs w) d <> Some NDir ->
    lookup (w_fs w') d <> Some NDir.
Proof.
  intros cf nm vers svers root w w' v P Hf Hsv Hat Hwf HA HE HW Hok HPt Hml Hlen H.
  apply (failed_parents_removed (w_fs w) w').
  exact (dirs_exact cf nm vers svers root w w' v P Hf Hsv Hat Hwf HA HE HW Hok HPt Hml Hlen H).
Qed.

(* C12: a committed build followed by clean leaves what was there before the build *)
Theorem build_then_clean_exact_any_cachefile_dir : forall cf nm vers svers root w w' v (P : path -> Prop) nm' f c',
  w_faults w = [] -> sanitize vers = Some svers -> AllTargets P root -> fs_wf (w_fs w) ->
  (forall a t, (P t \/ t = cf \/ In t (cache_targets (old_cache_of (w_fs w) cf nm svers))) ->
     below a t = true -> (forall f, lookup (w_fs w) a <> Some (NFile f)) /\ ~ P a) ->
  (forall d, In d (c_dirs (old_cache_of (w_fs w) cf nm svers)) -> path_ok d = true) ->
  WfCache (old_cache_of (w_fs w) cf nm svers) -> old_ok (old_cache_of (w_fs w) cf nm svers) cf ->
  (forall p, P p -> tgtP p) -> maxlen (w_fs w) < walk_fuel -> List.length (dirname cf) < walk_fuel ->
  run_build cf nm vers root w = (w', Done (inl v)) ->
  w_faults w' = [] ->
  lookup (w_fs w') cf = Some (NFile f) -> cache_of_json (f_json f) = ReadOk c' ->
  cache_created_files c' = cache_created_files (w_new w') -> c_dirs c' = c_dirs (w_new w') ->
  (match nm' with Some n => String.eqb (c_name c') n | None => true end) = true ->
  exists w'', m_clean cf nm' w' = (w'', Done (inl PNone)) /\
    (forall p g, lookup (w_fs w'') p = Some (NFile g) -> lookup (w_fs w) p = Some (NFile g)) /\
    (forall d, lookup (w_fs w'') d = Some NDir -> lookup (w_fs w) d = Some NDir).
Proof.
  intros cf nm vers svers root w w' v P nm' f c' Hf Hsv Hat Hwf HA HE HW Hok HPt Hml Hlen H Hf' Hl Hc E1 E2 Hn.
  apply (clean_after_commit_exact (w_fs w) (old_cache_of (w_fs w) cf nm svers) cf w' nm' f c' Hwf); try assumption.
  - exact (commit_leaves cf nm vers svers root w w' v P Hf Hsv Hat Hwf HA HE H).
  - exact (dirs_exact cf nm vers svers root w w' v P Hf Hsv Hat Hwf HA HE HW Hok HPt Hml Hlen H).
Qed.

(* ------------------------------------------------------------------ what remains *)
(* the same clause for programs whose targets need not be creatable: a path component longer than
   255 bytes makes mkdir (or the write) fail part-way; tgtP also bounds the depth of a target by
   walk_fuel, an artefact of the model.  True on every computed history (SimIEx.v). *)
Definition no_unrecorded_directory_survives_any_target_statement : Prop :=
  forall cf nm vers svers root w w' v (P : path -> Prop),
  w_faults w = [] -> sanitize vers = Some svers -> AllTargets P root -> fs_wf (w_fs w) ->
  (forall a t, (P t \/ t = cf \/ In t (cache_targets (old_cache_of (w_fs w) cf nm svers))) ->
     below a t = true -> (forall f, lookup (w_fs w) a <> Some (NFile f)) /\ ~ P a) ->
  (forall d, In d (c_dirs (old_cache_of (w_fs w) cf nm svers)) -> path_ok d = true) ->
  WfCache (old_cache_of (w_fs w) cf nm svers) -> old_ok (old_cache_of (w_fs w) cf nm svers) cf ->
  (forall p, P p -> List.length p < walk_fuel) ->
  maxlen (w_fs w) < walk_fuel -> List.length (dirname cf) < walk_fuel ->
  run_build cf nm vers root w = (w', Done (inl v)) ->
  forall d, lookup (w_fs w') d = Some NDir -> lookup (w_fs w) d <> Some NDir -> In d (c_dirs (w_new w')).

Print Assumptions dirs_exact.
Print Assumptions no_unrecorded_directory_survives.
Print Assumptions made_directories_are_the_recorded_ones.
Print Assumptions failed_parents_removed_any_cachefile_dir.
Print Assumptions build_then_clean_exact_any_cachefile_dir.
