(* Proofs/FrameLaws.v — the frame law of a build (property C03): a build never
   changes the bytes or timestamp of, moves, deletes — or creates — a regular
   file outside the managed set: the cache file, the paths passed to build_file
   in this build, and the output files recorded by the previous build.

   Method.  [fkeeps Q fs fs']: the regular files at paths outside Q are the same
   nodes in fs and fs'.  [Inv]: facts about the bookkeeping of a running build
   that make every mutation land inside Q (backed-up paths, paths claimed in the
   new cache, built paths are all in Q; the old cache and the cache file name
   are fixed).  [Rel w w' := Inv w -> Inv w' /\ fkeeps (w_fs w) (w_fs w')] is a
   preorder, so the [pres] toolkit of ReplayLaws applies; every routine of the
   model is shown to preserve it, bottom-up.

   Which paths are mutated where (all in Q = Managed P old cf):
   - remove: the current target and c_built of the new cache (P), the created
     files of the old cache (commit), the cache file;
   - rename into the backup area: an old created file in the way of a directory
     (make_one_dir), the target (P), the cache file, and in make_room an entry
     the virtual view denies although a file is there — by is_file_no_read that
     is the cache file, a path claimed and still in progress in the new cache
     (P), or a created file of the old cache; never a directory (every call
     site has just seen isfile, or isdir = false);
   - replace from the backup area: backed-up paths only;
   - write: the cache file, the current target (P);
   - mkdir/makedirs/rmdir never touch a regular file. *)
From Coq Require Import List String Ascii NArith ZArith Bool Arith Lia.
From FB.Base Require Import PyVal Fs.
From FB.Gen Require Import JsonUtilGen.
From FB.Spec Require Import Prog.
From FB.Model Require Import Types Monad CreatedFiles BuildDirs SimpleOps Builder Persist Build Run Frame.
From FB.Proofs Require Import FsLemmas ReplayLaws.
Import ListNotations.
Local Open Scope list_scope.

(* the footprint lemmas of ReplayLaws are hints local to that file *)
#[local] Hint Resolve m_handle_dir_exists_svb m_is_removed_svb is_file_no_read_svb is_cache_file_svb
  file_metadata_svb file_hash_svb list_dir_superset_svb file_comparison_result_svb
  m_is_file_svb m_is_dir_svb m_exists_svb exec_query_svb noneable_cmp_svb version_equal_svb
  is_build_file_cached_svb dirs_to_make_svb is_op_cached_svb are_subs_cached_svb
  build_file_cache_lookup_svb subbuild_cache_lookup_svb m_bd_started_svb m_bd_error_svb
  new_assert_no_file_svb new_assert_no_subbuild_svb m_query_svb : pres.

(* ================================================================== *)
(* 0. Auxiliary facts                                                  *)
(* ================================================================== *)

Lemma pres_mapM_In : forall (P : PO) A (f : A -> M unit) l,
  (forall x, In x l -> pres P (f x)) -> pres P (mapM_ f l).
Proof.
  intros P A f l. induction l as [|x l IH]; intro Hf; cbn [mapM_].
  - apply pres_ret.
  - apply pres_bind; [apply Hf; left; reflexivity | intro; apply IH; intros y Hy; apply Hf; right; exact Hy].
Qed.

Lemma In_del_path : forall p q l, In q (del_path p l) -> In q l.
Proof.
  intros p q l. induction l as [|x l IH]; cbn [del_path]; intro H; [exact H|].
  destruct (path_eqb x p); [right; auto|]. destruct H as [H|H]; [left; exact H | right; auto].
Qed.

Lemma files_get_In : forall l p o, files_get l p = Some o -> In (p, o) l.
Proof.
  induction l as [|[q o'] l IH]; intros p o H; cbn [files_get] in H; [discriminate|].
  destruct (path_eqb q p) eqn:E.
  - apply path_eqb_eq in E. inversion H; subst. left; reflexivity.
  - right. apply IH, H.
Qed.

Lemma rename_out_dir : forall fs p fs', rename_out fs p = inl (fs', NDir) -> lookup fs p = Some NDir.
Proof.
  intros fs p fs' H. unfold rename_out in H.
  destruct (lookup fs p) as [[g|]|] eqn:E1; destruct p as [|n d]; try discriminate; reflexivity.
Qed.

(* registering a cached record changes neither c_built nor the set of paths that
   are claimed and still in progress (entries [Some None] of c_files) *)
Lemma register_op_built : forall o c, c_built (register_op c o) = c_built c.
Proof.
  induction o as [q r e | p c0 f a k subs r cr ra sf IH | f a k subs r ra sf IH] using op_ind';
    intro c; cbn [register_op]; [reflexivity | |].
  - assert (G : forall c1, c_built (fold_left register_op subs c1) = c_built c1).
    { induction IH as [|s rest Hs HF IHl]; intro c1; cbn [fold_left]; [reflexivity|]. rewrite IHl. apply Hs. }
    rewrite G. destruct sf; reflexivity.
  - assert (G : forall c1, c_built (fold_left register_op subs c1) = c_built c1).
    { induction IH as [|s rest Hs HF IHl]; intro c1; cbn [fold_left]; [reflexivity|]. rewrite IHl. apply Hs. }
    rewrite G. destruct sf; reflexivity.
Qed.

Definition pending (c : cache) (p : path) : Prop := files_get (c_files c) p = Some None.

Lemma fold_register_pending : forall subs,
  Forall (fun o => forall c q, pending (register_op c o) q -> pending c q) subs ->
  forall c q, pending (fold_left register_op subs c) q -> pending c q.
Proof.
  intros subs HF. induction HF as [|s rest Hs HF IH]; intros c q H; cbn [fold_left] in H; [exact H|].
  apply Hs, IH, H.
Qed.

Lemma register_op_pending : forall o c q, pending (register_op c o) q -> pending c q.
Proof.
  induction o as [q0 r e | p c0 f a k subs r cr ra sf IH | f a k subs r ra sf IH] using op_ind';
    intros c q H; cbn [register_op] in H.
  - exact H.
  - apply (fold_register_pending subs IH) in H. destruct sf; [exact H|].
    unfold pending in *. cbn [c_files cache_with] in H. rewrite files_get_set in H.
    destruct (path_eqb p q); [discriminate H | exact H].
  - apply (fold_register_pending subs IH) in H. destruct sf; exact H.
Qed.

(* ================================================================== *)
(* 1. The relation                                                     *)
(* ================================================================== *)

Section FrameRel.

Variable Q : path -> Prop.        (* the managed paths *)
Variable old : cache.             (* the previous build *)
Variable cf : path.               (* the cache file *)

(* regular files outside Q are the same before and after: none changed, moved
   or deleted, and none created *)
Definition fkeeps (fs fs' : fsT) : Prop :=
  forall p, ~ Q p -> forall f, lookup fs p = Some (NFile f) <-> lookup fs' p = Some (NFile f).

Lemma fkeeps_refl : forall fs, fkeeps fs fs.
Proof. intros fs p _ f. split; auto. Qed.

Lemma fkeeps_trans : forall a b c, fkeeps a b -> fkeeps b c -> fkeeps a c.
Proof.
  intros a b c H1 H2 p Hp f. split; intro H.
  - apply (H2 p Hp f), (H1 p Hp f), H.
  - apply (H1 p Hp f), (H2 p Hp f), H.
Qed.

(* a step that changes one path: a managed one, or one that holds no regular
   file before or after *)
Lemma fkeeps_one : forall fs fs' p0,
  (forall q, q <> p0 -> lookup fs' q = lookup fs q) ->
  (Q p0 \/ ((forall f, lookup fs p0 <> Some (NFile f)) /\ (forall f, lookup fs' p0 <> Some (NFile f)))) ->
  fkeeps fs fs'.
Proof.
  intros fs fs' p0 Hfr Hp0 p Hp f.
  destruct (path_eqb p p0) eqn:E.
  - apply path_eqb_eq in E. subst p0. destruct Hp0 as [HQ | [H1 H2]].
    + exfalso. exact (Hp HQ).
    + split; intro H; exfalso; [exact (H1 f H) | exact (H2 f H)].
  - apply path_eqb_neq in E. rewrite (Hfr p E). split; auto.
Qed.

Lemma mkdir_fkeeps : forall fs p fs', mkdir fs p = inl fs' -> fkeeps fs fs'.
Proof.
  intros fs p fs' H. apply mkdir_frame in H. destruct H as (H1 & H2 & H3).
  apply (fkeeps_one fs fs' p H3). right. split; intros f E; congruence.
Qed.

Lemma rmdir_fkeeps : forall fs p fs', rmdir fs p = inl fs' -> fkeeps fs fs'.
Proof.
  intros fs p fs' H. apply rmdir_frame in H. destruct H as (H1 & _ & _ & H2 & H3).
  apply (fkeeps_one fs fs' p H3). right. split; intros f E; congruence.
Qed.

Lemma remove_fkeeps : forall fs p fs', Q p -> remove fs p = inl fs' -> fkeeps fs fs'.
Proof.
  intros fs p fs' Hp H. apply remove_frame in H. destruct H as (_ & _ & H3).
  apply (fkeeps_one fs fs' p H3). left. exact Hp.
Qed.

Lemma replace_in_fkeeps : forall fs p f fs', Q p -> replace_in fs p f = inl fs' -> fkeeps fs fs'.
Proof.
  intros fs p f fs' Hp H. apply replace_in_frame in H. destruct H as (_ & H3).
  apply (fkeeps_one fs fs' p H3). left. exact Hp.
Qed.

Lemma write_file_fkeeps : forall fs p b j m i fs', Q p -> write_file fs p b j m i = inl fs' -> fkeeps fs fs'.
Proof.
  intros fs p b j m i fs' Hp H. apply write_file_frame in H. destruct H as (_ & H3).
  apply (fkeeps_one fs fs' p H3). left. exact Hp.
Qed.

(* os.makedirs only ever adds directories at absent paths, also when it fails half-way *)
Lemma makedirs_p_fkeeps : forall p fs fs' e, makedirs_p fs p = (fs', e) -> fkeeps fs fs'.
Proof.
  induction p as [|n d IH]; intros fs fs' e H; cbn [makedirs_p] in H.
  - rewrite lookup_root in H. inversion H; subst. apply fkeeps_refl.
  - destruct (lookup fs (n :: d)) as [[g|]|].
    + inversion H; subst. apply fkeeps_refl.
    + inversion H; subst. apply fkeeps_refl.
    + destruct (makedirs_p fs d) as [fs1 [e1|]] eqn:E1.
      * inversion H; subst. eapply IH; eauto.
      * apply IH in E1. destruct (mkdir fs1 (n :: d)) as [fs2|e2] eqn:E2; inversion H; subst.
        -- eapply fkeeps_trans; [exact E1|]. eapply mkdir_fkeeps; eauto.
        -- exact E1.
Qed.

(* ---- the invariant carried through a build ---- *)
Definition Inv (w : world) : Prop :=
  w_old w = old /\ w_cachefile w = cf /\
  (forall x, In x (w_backups w) -> Q (fst x)) /\
  (forall p, In p (c_built (w_new w)) -> Q p) /\
  (forall p, pending (w_new w) p -> Q p).

Definition Rel (w w' : world) : Prop := Inv w -> Inv w' /\ fkeeps (w_fs w) (w_fs w').

Lemma Rel_refl : forall w, Rel w w.
Proof. intros w H. split; [exact H | apply fkeeps_refl]. Qed.

Lemma Rel_trans : forall a b c, Rel a b -> Rel b c -> Rel a c.
Proof.
  intros a b c H1 H2 Ha. destruct (H1 Ha) as [Hb K1]. destruct (H2 Hb) as [Hc K2].
  split; [exact Hc | eapply fkeeps_trans; eauto].
Qed.

Definition RPO : PO := {| rel := Rel; po_refl := Rel_refl; po_trans := Rel_trans |}.

Lemma Inv_step : forall w w', Inv w ->
  w_old w' = w_old w -> w_cachefile w' = w_cachefile w -> w_new w' = w_new w ->
  (forall x, In x (w_backups w') -> In x (w_backups w) \/ Q (fst x)) -> Inv w'.
Proof.
  intros w w' (A & B & C & D & E) Ho Hc Hn Hb. unfold Inv. rewrite Ho, Hc, Hn.
  repeat split; auto.
  intros x Hx. destruct (Hb x Hx) as [H|H]; auto.
Qed.

Lemma Inv_same : forall w w', Inv w ->
  w_old w' = w_old w -> w_cachefile w' = w_cachefile w -> w_new w' = w_new w ->
  w_backups w' = w_backups w -> Inv w'.
Proof.
  intros w w' Hinv Ho Hc Hn Hb. eapply Inv_step; eauto. intros x Hx. left. rewrite <- Hb. exact Hx.
Qed.

Lemma Rel_same : forall w w',
  w_fs w' = w_fs w -> w_old w' = w_old w -> w_cachefile w' = w_cachefile w -> w_new w' = w_new w ->
  w_backups w' = w_backups w -> Rel w w'.
Proof.
  intros w w' Hf Ho Hc Hn Hb Hinv. rewrite Hf. split; [|apply fkeeps_refl].
  eapply Inv_same; eauto.
Qed.

Lemma svb_Rel : forall w w', svbPO w w' -> RPO w w'.
Proof.
  cbn. unfold same_but_view. intros w w' H.
  destruct H as (A1 & A2 & A3 & A4 & A5 & A6 & A7 & A8 & A9 & A10 & A11).
  apply Rel_same; auto.
Qed.

Hint Extern 8 (pres RPO _) => apply (pres_weaken svbPO RPO _ _ svb_Rel) : pres.

Lemma pres_svb_R : forall X (m : world -> world * X), pres svbPO m -> pres RPO m.
Proof. intros X m. apply pres_weaken. exact svb_Rel. Qed.

(* [w <- get ;; k w] when the invariant of the world read is all that matters *)
Lemma pres_bind_get : forall A (k : world -> M A),
  (forall w0, Inv w0 -> pres RPO (k w0)) -> pres RPO (bind get k).
Proof.
  intros A k Hk w w' r H Hinv. unfold bind, get in H. exact (Hk w Hinv w w' r H Hinv).
Qed.

Lemma Rel_set_log : forall l w, Rel w (set_log l w).
Proof. intros l w. apply Rel_same; reflexivity. Qed.

(* ================================================================== *)
(* 2. Primitives                                                       *)
(* ================================================================== *)

Lemma effect_R : forall what p f,
  (forall fs fs', f fs = inl fs' -> fkeeps fs fs') -> pres RPO (effect what p f).
Proof.
  intros what p f Hf w w' r H Hinv. unfold effect in H. cbv zeta in H.
  destruct (existsb (Nat.eqb (w_effects w)) (w_faults w)).
  - inversion H; subst. split; [|apply fkeeps_refl]. eapply Inv_same; eauto.
  - cbn [w_fs set_effects] in H. destruct (f (w_fs w)) as [fs'|e] eqn:E; inversion H; subst.
    + cbn [w_fs set_log set_fs]. split; [|eapply Hf; eauto]. eapply Inv_same; eauto.
    + split; [|apply fkeeps_refl]. eapply Inv_same; eauto.
Qed.

Lemma effect_p_R : forall what p f,
  (forall fs fs' e, f fs = (fs', e) -> fkeeps fs fs') -> pres RPO (effect_p what p f).
Proof.
  intros what p f Hf w w' r H Hinv. unfold effect_p in H. cbv zeta in H.
  destruct (existsb (Nat.eqb (w_effects w)) (w_faults w)).
  - inversion H; subst. split; [|apply fkeeps_refl]. eapply Inv_same; eauto.
  - cbn [w_fs set_effects] in H. destruct (f (w_fs w)) as [fs' [e|]] eqn:E; inversion H; subst.
    + cbn [w_fs set_log set_fs]. split; [|eapply Hf; eauto]. eapply Inv_same; eauto.
    + cbn [w_fs set_log set_fs]. split; [|eapply Hf; eauto]. eapply Inv_same; eauto.
Qed.

Lemma effect_mkdir_R : forall what p, pres RPO (effect what p (fun fs => mkdir fs p)).
Proof. intros. apply effect_R. intros fs fs' H. eapply mkdir_fkeeps; eauto. Qed.

Lemma effect_rmdir_R : forall what p, pres RPO (effect what p (fun fs => rmdir fs p)).
Proof. intros. apply effect_R. intros fs fs' H. eapply rmdir_fkeeps; eauto. Qed.

Lemma effect_remove_R : forall what p, Q p -> pres RPO (effect what p (fun fs => remove fs p)).
Proof. intros what p Hp. apply effect_R. intros fs fs' H. eapply remove_fkeeps; eauto. Qed.

Lemma effect_replace_R : forall what p f, Q p -> pres RPO (effect what p (fun fs => replace_in fs p f)).
Proof. intros what p f Hp. apply effect_R. intros fs fs' H. eapply replace_in_fkeeps; eauto. Qed.

Lemma effect_write_R : forall what p b j m i, Q p ->
  pres RPO (effect what p (fun fs => write_file fs p b j m i)).
Proof. intros what p b j m i Hp. apply effect_R. intros fs fs' H. eapply write_file_fkeeps; eauto. Qed.

Lemma effect_makedirs_R : forall what p d, pres RPO (effect_p what p (fun fs => makedirs_p fs d)).
Proof. intros. apply effect_p_R. intros fs fs' e H. eapply makedirs_p_fkeeps; eauto. Qed.

Hint Resolve effect_mkdir_R effect_rmdir_R effect_makedirs_R : pres.

(* what a single [effect] can do to the components of the world *)
Lemma effect_fields : forall what p f w w' r, effect what p f w = (w', r) ->
  w_old w' = w_old w /\ w_cachefile w' = w_cachefile w /\ w_new w' = w_new w /\ w_backups w' = w_backups w /\
  (w_fs w' = w_fs w \/ f (w_fs w) = inl (w_fs w')).
Proof.
  intros what p f w w' r H. unfold effect in H. cbv zeta in H.
  destruct (existsb (Nat.eqb (w_effects w)) (w_faults w)).
  - inversion H; subst. cbn. repeat split; auto.
  - cbn [w_fs set_effects] in H. destruct (f (w_fs w)) as [fs'|e] eqn:E; inversion H; subst; cbn; repeat split; auto.
Qed.

(* back_up_and_remove of something that is not a directory, and is managed if it is a file *)
Lemma back_up_and_remove_R : forall p w w' r,
  back_up_and_remove p w = (w', r) -> Inv w ->
  isdir (w_fs w) p = false -> (isfile (w_fs w) p = true -> Q p) ->
  Inv w' /\ fkeeps (w_fs w) (w_fs w').
Proof.
  intros p w w' r H Hinv Hnd Hf. unfold back_up_and_remove in H.
  apply bind_inv in H. destruct H as [(w1 & u & E1 & H) | (e & E1 & _)].
  2:{ refine (effect_R _ _ _ _ w w' _ E1 Hinv). intros fs fs' X. inversion X; subst. apply fkeeps_refl. }
  destruct (effect_fields _ _ _ _ _ _ E1) as (Fo & Fc & Fn & Fb & Ffs).
  assert (Ffs' : w_fs w1 = w_fs w) by (destruct Ffs as [X|X]; [exact X | inversion X; reflexivity]).
  assert (Hinv1 : Inv w1) by (eapply Inv_same; eauto).
  rewrite <- Ffs' in *. clear E1 Fo Fc Fn Fb Ffs Ffs' Hinv w. rename w1 into w. rename Hinv1 into Hinv.
  cbv zeta in H.
  destruct (existsb (Nat.eqb (w_effects w)) (w_faults w)).
  { inversion H; subst. split; [|apply fkeeps_refl]. eapply Inv_same; eauto. }
  cbn [w_fs set_effects] in H.
  destruct (rename_out (w_fs w) p) as [[fs' [f|]]|e] eqn:E.
  - inversion H; subst. cbn [w_fs set_log set_backups set_fs set_effects].
    pose proof (rename_out_file_frame _ _ _ _ E) as (G1 & G2 & G3).
    assert (HQ : Q p) by (apply Hf; unfold isfile; rewrite G1; reflexivity).
    split; [|apply (fkeeps_one _ _ p G3); left; exact HQ].
    eapply Inv_step; eauto.
    cbn [w_backups set_log set_backups set_fs set_effects]. intros x Hx.
    apply in_app_or in Hx. destruct Hx as [Hx | [<- | []]]; [left; exact Hx | right; exact HQ].
  - apply rename_out_dir in E. unfold isdir in Hnd. rewrite E in Hnd. discriminate Hnd.
  - assert (G : w' = set_effects (S (w_effects w)) w) by (destruct e; inversion H; reflexivity).
    subst w'. split; [|apply fkeeps_refl]. eapply Inv_same; eauto.
Qed.

(* [if c then back_up_and_remove p ...] where c implies that p is a managed regular file *)
Lemma guarded_backup_R : forall p (c : bool) w w' r,
  (if c then bind (back_up_and_remove p) (fun _ => ret tt) else ret tt) w = (w', r) -> Inv w ->
  (c = true -> isfile (w_fs w) p = true /\ Q p) -> Inv w' /\ fkeeps (w_fs w) (w_fs w').
Proof.
  intros p c w w' r H Hinv Hc. destruct c.
  - destruct (Hc eq_refl) as [G Hp].
    assert (Hd : isdir (w_fs w) p = false).
    { unfold isfile in G. unfold isdir. destruct (lookup (w_fs w) p) as [[?|]|]; congruence. }
    apply bind_inv in H. destruct H as [(w1 & u & E1 & H) | (e & E1 & _)].
    + inversion H; subst. eapply back_up_and_remove_R; eauto.
    + eapply back_up_and_remove_R; eauto.
  - inversion H; subst. split; [exact Hinv | apply fkeeps_refl].
Qed.

Lemma guarded_backup_pres_k : forall p A (k : M A), Q p -> pres RPO k ->
  pres RPO (bind get (fun w => bind (if isfile (w_fs w) p then bind (back_up_and_remove p) (fun _ => ret tt) else ret tt)
                                    (fun _ => k))).
Proof.
  intros p A k Hp Hk w w' r H Hinv. unfold bind at 1, get in H.
  apply bind_inv in H. destruct H as [(w1 & u & E1 & H) | (e & E1 & _)].
  - eapply guarded_backup_R in E1; eauto. destruct E1 as [Hinv1 K1].
    destruct (Hk _ _ _ H Hinv1) as [Hinv2 K2]. split; [exact Hinv2 | eapply fkeeps_trans; eauto].
  - eapply guarded_backup_R in E1; eauto.
Qed.

Lemma guarded_backup_pres : forall p, Q p ->
  pres RPO (bind get (fun w => if isfile (w_fs w) p then bind (back_up_and_remove p) (fun _ => ret tt) else ret tt)).
Proof.
  intros p Hp w w' r H Hinv. unfold bind at 1, get in H. eapply guarded_backup_R; eauto.
Qed.

Lemma try_to_remove_file_R : forall p, Q p -> pres RPO (try_to_remove_file p).
Proof.
  intros p Hp. unfold try_to_remove_file. pres_auto. apply effect_remove_R. exact Hp.
Qed.

Lemma restore_one_R : forall x, Q (fst x) -> pres RPO (restore_one x).
Proof.
  intros [p f] Hp. cbn [fst] in Hp. unfold restore_one. pres_auto. apply effect_replace_R. exact Hp.
Qed.

Lemma restore_all_R : pres RPO restore_all.
Proof.
  intros w w' r H Hinv. unfold restore_all in H. unfold bind at 1, get in H.
  apply bind_inv in H. destruct H as [(w1 & u & E1 & H) | (e & E1 & _)]; [|discriminate E1].
  unfold put in E1. inversion E1; subst w1; clear E1.
  assert (Hinv1 : Inv (set_backups [] w)).
  { eapply Inv_step; eauto. cbn. intros x []. }
  destruct Hinv as (A & B & C & D & E).
  refine (pres_mapM_In RPO _ restore_one (w_backups w) _ _ _ _ H Hinv1).
  intros x Hx. apply restore_one_R. apply C. exact Hx.
Qed.

Lemma remove_empty_dirs_R : forall ds, pres RPO (remove_empty_dirs ds).
Proof. intro ds. unfold remove_empty_dirs. pres_auto. Qed.

Lemma create_dirs_R : forall ds, pres RPO (create_dirs ds).
Proof. intro ds. unfold create_dirs. pres_auto. Qed.

Hint Resolve remove_empty_dirs_R create_dirs_R restore_all_R : pres.

(* ================================================================== *)
(* 3. Directory preparation                                            *)
(* ================================================================== *)

Hypothesis HQcf : Q cf.
Hypothesis HQold : forall p, cache_created_file old p = true -> Q p.

Lemma make_one_dir_R : forall d, pres RPO (make_one_dir d).
Proof.
  intros d w w' r H Hinv. unfold make_one_dir in H. unfold bind at 1, get in H.
  assert (G : pres RPO (catch (bind (effect "mkdir" d (fun fs => mkdir fs d)) (fun _ => ret true))
                              (fun e => if is_os_class XFileExists e then ret false else raise e))) by pres_auto.
  assert (C : isfile (w_fs w) d && cache_created_file (w_old w) d = true -> isfile (w_fs w) d = true /\ Q d).
  { intro C. apply andb_true_iff in C. destruct C as [C1 C2]. split; [exact C1|].
    apply HQold. destruct Hinv as (A & _). rewrite <- A. exact C2. }
  apply bind_inv in H. destruct H as [(w1 & u & E1 & H) | (e & E1 & _)].
  - apply guarded_backup_R in E1; [| exact Hinv | exact C].
    destruct E1 as [Hinv1 K1]. destruct (G _ _ _ H Hinv1) as [Hinv2 K2].
    split; [exact Hinv2 | eapply fkeeps_trans; eauto].
  - apply guarded_backup_R in E1; [exact E1 | exact Hinv | exact C].
Qed.
Hint Resolve make_one_dir_R : pres.

Lemma make_dirs_loop_R : forall ds made, pres RPO (make_dirs_loop ds made).
Proof.
  induction ds as [|d ds IH]; intro made; cbn [make_dirs_loop]; pres_auto.
Qed.
Hint Resolve make_dirs_loop_R : pres.

Lemma make_dirs_R : forall d, pres RPO (make_dirs d).
Proof. intro d. unfold make_dirs. pres_auto. Qed.
Hint Resolve make_dirs_R : pres.

(* the virtual view denies a regular file that is really there only at managed
   paths: the cache file, a path claimed and in progress, an old created file *)
Lemma m_is_file_false_managed : forall a w w', m_is_file a None w = (w', inl false) -> Inv w ->
  isfile (w_fs w) a = true -> Q a.
Proof.
  intros a w w' H (A & B & C & D & E) Hf. unfold m_is_file in H.
  apply bind_inv in H. destruct H as [(w1 & x & E1 & H) | (e & E1 & H)]; [|discriminate H].
  unfold is_file_no_read in E1. cbn [cf_has_file cf_has_dir] in E1.
  destruct (path_eqb a (w_cachefile w)) eqn:G1.
  { apply path_eqb_eq in G1. rewrite G1, B. exact HQcf. }
  destruct (cache_has_file (w_new w) a) eqn:G2.
  { unfold cache_get_file in E1. unfold cache_has_file in G2.
    destruct (files_get (c_files (w_new w)) a) as [[o|]|] eqn:G3; try discriminate G2.
    - inversion E1; subst. unfold bind at 1, get in H. rewrite Hf in H.
      apply bind_inv in H. destruct H as [(w2 & y & E2 & H) | (e & E2 & H)]; [inversion H | discriminate H].
    - apply E. exact G3. }
  destruct (cache_created_file (w_old w) a) eqn:G3.
  { apply HQold. rewrite <- A. exact G3. }
  inversion E1; subst. unfold bind at 1, get in H. rewrite Hf in H.
  apply bind_inv in H. destruct H as [(w2 & y & E2 & H) | (e & E2 & H)]; [inversion H | discriminate H].
Qed.

Lemma make_room_R : forall fuel d, pres RPO (make_room fuel d).
Proof.
  induction fuel as [|fuel IH]; intro d; cbn [make_room]; [apply pres_raise|].
  apply pres_bind; [apply pres_get|]. intro w0.
  destruct (listdir (w_fs w0) d) as [names|e]; [|apply pres_raise].
  apply pres_bind; [|intros _; pres_auto].
  apply pres_mapM_. intro n.
  intros w w' r H Hinv. unfold bind at 1, get in H.
  destruct (isdir (w_fs w) (n :: d)) eqn:Ed.
  - refine ((_ : pres RPO _) w w' r H Hinv). pres_auto.
  - apply bind_inv in H. destruct H as [(w1 & vf & E1 & H) | (e & E1 & _)].
    2:{ exact (pres_svb_R _ _ (m_is_file_svb _ _) _ _ _ E1 Hinv). }
    pose proof (m_is_file_svb _ _ _ _ _ E1) as SV.
    pose proof (svb_Rel _ _ SV Hinv) as [Hinv1 K1].
    assert (Ffs : w_fs w1 = w_fs w) by (destruct SV as (X & _); exact X).
    destruct vf.
    + inversion H; subst. split; assumption.
    + assert (X : Inv w' /\ fkeeps (w_fs w1) (w_fs w')).
      { apply bind_inv in H. destruct H as [(w2 & b & E2 & H) | (e & E2 & _)].
        - inversion H; subst. eapply back_up_and_remove_R; eauto.
          + rewrite Ffs. exact Ed.
          + rewrite Ffs. eapply m_is_file_false_managed; eauto.
        - eapply back_up_and_remove_R; eauto.
          + rewrite Ffs. exact Ed.
          + rewrite Ffs. eapply m_is_file_false_managed; eauto. }
      destruct X as [X1 X2]. split; [exact X1 | eapply fkeeps_trans; eauto].
Qed.
Hint Resolve make_room_R : pres.

Lemma prepare_file_creation_R : forall p, pres RPO (prepare_file_creation p).
Proof. intro p. unfold prepare_file_creation. pres_auto. Qed.
Hint Resolve prepare_file_creation_R : pres.

Lemma apply_cached_subs_of_R : forall o, pres RPO (apply_cached_subs_of o).
Proof.
  induction o as [q r e | p c f a k subs r cr ra sf IH | f a k subs r ra sf IH] using op_ind';
    cbn [apply_cached_subs_of].
  - apply pres_ret.
  - induction IH as [|s rest Hs HF IHl]; cbn beta iota fix; [apply pres_ret|].
    apply pres_bind; [|intros _; exact IHl]. pres_auto.
  - induction IH as [|s rest Hs HF IHl]; cbn beta iota fix; [apply pres_ret|].
    apply pres_bind; [|intros _; exact IHl]. pres_auto.
Qed.
Hint Resolve apply_cached_subs_of_R : pres.

(* ================================================================== *)
(* 4. The new cache                                                    *)
(* ================================================================== *)

Lemma new_start_building_file_R : forall p, Q p -> pres RPO (new_start_building_file p).
Proof.
  intros p Hp. unfold new_start_building_file. apply pres_bind; [auto with pres|]. intros _.
  apply pres_modify. intros w (A & B & C & D & E). split; [|apply fkeeps_refl].
  unfold Inv, pending. cbn [w_old w_cachefile w_backups w_new w_fs set_new c_built c_files cache_with].
  repeat split; auto.
  - intros q Hq. apply in_app_or in Hq. destruct Hq as [Hq|[<-|[]]]; auto.
  - intros q Hq. rewrite files_get_set in Hq.
    destruct (path_eqb p q) eqn:G. { apply path_eqb_eq in G. subst q. exact Hp. }
    apply E; auto.
Qed.

Lemma new_abort_building_file_R : forall p, pres RPO (new_abort_building_file p).
Proof.
  intros p. unfold new_abort_building_file.
  apply pres_modify. intros w (A & B & C & D & E). split; [|apply fkeeps_refl].
  unfold Inv, pending. cbn [w_old w_cachefile w_backups w_new w_fs set_new c_built c_files cache_with].
  repeat split; auto.
  - intros q Hq. apply In_del_path in Hq. auto.
  - intros q Hq. rewrite files_get_del in Hq.
    destruct (path_eqb p q) eqn:G; [discriminate Hq|]. apply E; auto.
Qed.

Lemma new_finish_building_file_R : forall p o, pres RPO (new_finish_building_file p o).
Proof.
  intros p o. unfold new_finish_building_file.
  apply pres_modify. intros w (A & B & C & D & E). split; [|apply fkeeps_refl].
  unfold Inv, pending. cbn [w_old w_cachefile w_backups w_new w_fs set_new c_built c_files cache_with].
  repeat split; auto.
  intros q Hq. rewrite files_get_set in Hq.
  destruct (path_eqb p q) eqn:G; [discriminate Hq|]. apply E; auto.
Qed.

Lemma new_start_subbuild_R : forall k, pres RPO (new_start_subbuild k).
Proof.
  intros k. unfold new_start_subbuild. apply pres_bind; [auto with pres|]. intros _.
  apply pres_modify. intros w (A & B & C & D & E). split; [|apply fkeeps_refl].
  unfold Inv, pending. cbn [w_old w_cachefile w_backups w_new w_fs set_new c_built c_files cache_with].
  repeat split; auto.
Qed.

Lemma new_finish_subbuild_R : forall k o, pres RPO (new_finish_subbuild k o).
Proof.
  intros k o. unfold new_finish_subbuild.
  apply pres_modify. intros w (A & B & C & D & E). split; [|apply fkeeps_refl].
  unfold Inv, pending. cbn [w_old w_cachefile w_backups w_new w_fs set_new c_built c_files cache_with].
  repeat split; auto.
Qed.

Lemma new_use_cached_operation_R : forall o, pres RPO (new_use_cached_operation o).
Proof.
  intros o w w' r H (A & B & C & D & E). unfold new_use_cached_operation in H.
  unfold bind at 1, get in H. destruct (assert_no_repeats (w_new w) o).
  - unfold put in H. inversion H; subst. cbn [w_fs set_new]. split; [|apply fkeeps_refl].
    unfold Inv. cbn [w_old w_cachefile w_backups w_new w_fs set_new]. rewrite register_op_built.
    repeat split; auto.
    intros q Hq. apply E. eapply register_op_pending; eauto.
  - inversion H; subst. split; [unfold Inv; auto | apply fkeeps_refl].
Qed.

Lemma set_created_dirs_R : forall ccd, pres RPO (set_created_dirs ccd).
Proof.
  intros ccd w w' r H Hinv. unfold set_created_dirs in H. unfold bind at 1, get in H. cbv zeta in H.
  apply bind_inv in H. destruct H as [(w1 & u & E1 & H) | (e & E1 & _)]; [|discriminate E1].
  unfold put in E1. inversion E1; subst w1; clear E1. inversion H; subst; clear H.
  destruct Hinv as (A & B & C & D & E). split; [|apply fkeeps_refl].
  unfold Inv, pending. cbn [w_old w_cachefile w_backups w_new w_fs set_new c_built c_files cache_with].
  repeat split; auto.
Qed.
Hint Resolve new_abort_building_file_R new_finish_building_file_R new_start_subbuild_R new_finish_subbuild_R
  new_use_cached_operation_R set_created_dirs_R : pres.

(* ================================================================== *)
(* 5. Commit, roll back, the cache file                                *)
(* ================================================================== *)

Hypothesis HQcreated : forall p, In p (cache_created_files old) -> Q p.

Lemma commit_R : forall err, pres RPO (commit err).
Proof.
  intro err. unfold commit. apply pres_bind_get. intros w0 (A & B & C & D & E).
  apply pres_bind; [|intros _; apply pres_bind; [|intro; auto with pres]].
  - apply pres_mapM_In. intros f Hf. pres_auto. apply try_to_remove_file_R.
    apply HQcreated. rewrite <- A. exact Hf.
  - generalize (c_dirs (w_old w0)). intro ds. induction ds as [|d ds IH]; pres_auto.
Qed.

Lemma roll_back_R : forall ccd, pres RPO (roll_back ccd).
Proof.
  intro ccd. unfold roll_back. apply pres_bind_get. intros w0 (A & B & C & D & E). cbv zeta.
  apply pres_bind; [|intros _; pres_auto].
  apply pres_mapM_In. intros f Hf. apply try_to_remove_file_R. apply D. exact Hf.
Qed.

Lemma write_cache_R : pres RPO write_cache.
Proof.
  unfold write_cache. apply pres_bind_get. intros w0 (A & B & C & D & E).
  destruct (cache_to_json (w_new w0)) as [j|]; [|apply pres_raise]. cbv zeta.
  assert (Hp : Q (w_cachefile w0)) by (rewrite B; exact HQcf).
  apply pres_bind; [apply effect_write_R; exact Hp|]. intros _.
  apply pres_bind; [|intros _; apply effect_write_R; exact Hp].
  apply pres_modify. intro w. apply Rel_same; reflexivity.
Qed.
Hint Resolve commit_R roll_back_R write_cache_R : pres.

(* ================================================================== *)
(* 6. build_file, subbuild, queries, user code                         *)
(* ================================================================== *)

Variable P : path -> Prop.        (* the targets of this build *)
Hypothesis HQP : forall p, P p -> Q p.

(* collect the facts of the runs in the context, then chain them *)
Ltac rel_facts :=
  repeat match goal with
  | E : ?m ?w = (?w1, _) |- _ =>
      lazymatch goal with
      | _ : Rel w w1 |- _ => fail
      | _ => let X := fresh "RL" in
             assert (X : Rel w w1) by (refine ((_ : pres RPO m) w w1 _ E); solve [pres_auto])
      end
  end.
Ltac rel_chain :=
  repeat first [ eassumption
               | apply Rel_refl
               | apply Rel_set_log
               | eapply Rel_trans; [eassumption|]
               | eapply Rel_trans; [apply Rel_set_log|];
                 first [ eassumption | eapply Rel_trans; [eassumption|] ] ].

Lemma m_build_file_R : forall p c f a kw fn, P p ->
  (forall sa skw, pres RPO (fn p sa skw)) -> pres RPO (m_build_file p c f a kw fn).
Proof.
  intros p c f a kw fn Hp Hfn w w' r H. unfold m_build_file in H.
  assert (HQp : Q p) by (apply HQP, Hp).
  destruct (sanitize a) as [sa|]; [|inversion H; subst; apply Rel_refl].
  destruct (sanitize kw) as [skw|]; [|inversion H; subst; apply Rel_refl].
  cbv zeta in H.
  pose proof (try_to_remove_file_R p HQp) as T1.
  pose proof (new_start_building_file_R p HQp) as T2.
  pose proof (guarded_backup_pres p HQp) as T3.
  match type of H with (match ?X with _ => _ end) = _ => destruct X as [w1 res] eqn:Hs end.
  change (Rel w w').
  repeat dm H; inversion H; subst; rel_facts; rel_chain.
Qed.

Lemma m_subbuild_R : forall f a kw fn,
  (forall sa skw, pres RPO (fn sa skw)) -> pres RPO (m_subbuild f a kw fn).
Proof.
  intros f a kw fn Hfn w w' r H. unfold m_subbuild in H.
  destruct (sanitize a) as [sa|]; [|inversion H; subst; apply Rel_refl].
  destruct (sanitize kw) as [skw|]; [|inversion H; subst; apply Rel_refl].
  cbv zeta in H.
  match type of H with (match ?X with _ => _ end) = _ => destruct X as [w1 res] eqn:Hs end.
  change (Rel w w').
  repeat dm H; inversion H; subst; rel_facts; rel_chain.
Qed.

Lemma m_query_R : forall q, pres RPO (m_query q).
Proof. intro q. apply pres_svb_R, m_query_svb. Qed.

Lemma Rel_log_answer : forall q r w, Rel w (log_answer q r w).
Proof.
  intros q r w. unfold log_answer.
  repeat match goal with |- context [match ?x with _ => _ end] => destruct x end;
    first [apply Rel_refl | apply Rel_set_log].
Qed.

(* user code: it can only write the target it was given *)
Theorem run_R : forall pr, AllTargets P pr ->
  forall target subs, (forall p, target = Some p -> P p) -> pres RPO (run pr target subs).
Proof.
  intros pr Hat.
  induction Hat as [v | e | s q k Hk IHk | c k Hk IHk | s p c f a kw fn k Hp Hfn IHfn Hk IHk
                    | s f a kw fn k Hfn IHfn Hk IHk];
    intros target subs Ht w w' r H; cbn [run] in H; change (Rel w w').
  - inversion H; subst. apply Rel_refl.
  - inversion H; subst. apply Rel_refl.
  - destruct s; [eapply IHk; eauto|].
    destruct (m_query q w) as [w1 [r1 o]] eqn:E.
    apply m_query_R in E. apply IHk in H; [|exact Ht].
    eapply Rel_trans; [exact E|]. eapply Rel_trans; [apply Rel_log_answer | exact H].
  - destruct target as [p|]; [|eapply IHk; eauto].
    destruct (write_file (w_fs w) p c None (N.succ (w_clock w)) (w_nextid w)) as [fs'|e] eqn:E.
    + apply IHk in H; [|exact Ht]. eapply Rel_trans; [|exact H].
      assert (K : fkeeps (w_fs w) fs').
      { eapply write_file_fkeeps; [|exact E]. apply HQP, Ht. reflexivity. }
      intro Hinv. split; [|exact K]. eapply Inv_same; eauto.
    + inversion H; subst. apply Rel_refl.
  - destruct s; [eapply IHk; eauto|].
    match type of H with (let '(_, _) := ?X in _) = _ => destruct X as [w1 [r1 o]] eqn:E end.
    apply m_build_file_R in E; [| exact Hp |].
    + apply IHk in H; [|exact Ht]. eapply Rel_trans; eauto.
    + intros sa skw. apply IHfn. intros p0 X. inversion X; subst. exact Hp.
  - destruct s; [eapply IHk; eauto|].
    match type of H with (let '(_, _) := ?X in _) = _ => destruct X as [w1 [r1 o]] eqn:E end.
    apply m_subbuild_R in E.
    + apply IHk in H; [|exact Ht]. eapply Rel_trans; eauto.
    + intros sa skw. apply IHfn. intros p0 X. discriminate X.
Qed.

(* ================================================================== *)
(* 7. The whole build                                                  *)
(* ================================================================== *)

Lemma Inv_start : forall w nm svers, Inv (start_world w cf old nm svers).
Proof.
  intros w nm svers. unfold Inv, pending, start_world.
  cbn [w_old w_cachefile w_backups w_new w_fs empty_cache c_built c_files].
  repeat split; auto.
  intros p H. cbn in H. discriminate H.
Qed.

Lemma m_build_fkeeps : forall nm vers svers root w w' r,
  sanitize vers = Some svers -> old = old_cache_of (w_fs w) cf nm svers -> pres RPO root ->
  m_build cf nm vers root w = (w', r) -> fkeeps (w_fs w) (w_fs w').
Proof.
  intros nm vers svers root w w' r Hsv Hold Hroot H. unfold m_build in H. rewrite Hsv in H.
  cbv beta iota zeta in H. unfold old_cache_of in Hold.
  pose proof (try_to_remove_file_R cf HQcf) as T1.
  assert (T2 : forall ccd, pres RPO
    (bind (set_created_dirs ccd) (fun err => bind get (fun w =>
       bind (if isfile (w_fs w) cf then bind (back_up_and_remove cf) (fun _ => ret tt) else ret tt)
            (fun _ => ret err))))).
  { intro ccd. apply pres_bind; [auto with pres|]. intro err.
    apply guarded_backup_pres_k; [exact HQcf | apply pres_ret]. }
  pose proof (Inv_start w nm svers) as Hinv0.
  assert (HA : forall w2, Rel (start_world w cf old nm svers) w2 -> fkeeps (w_fs w) (w_fs w2)).
  { intros w2 X. destruct (X Hinv0) as [_ K]. exact K. }
  destruct (lookup (w_fs w) cf) as [[f|]|].
  - destruct (cache_of_json (f_json f)) as [old0| |].
    + subst old0. destruct (String.eqb (c_name old) nm); [| inversion H; subst; apply fkeeps_refl].
      apply HA. clear HA Hinv0.
      repeat dm H; inversion H; subst; rel_facts; rel_chain.
    + inversion H; subst; apply fkeeps_refl.
    + inversion H; subst; apply fkeeps_refl.
  - inversion H; subst; apply fkeeps_refl.
  - rewrite <- Hold in H. apply HA. clear HA Hinv0.
    repeat dm H; inversion H; subst; rel_facts; rel_chain.
Qed.

End FrameRel.

(* ================================================================== *)
(* 8. The frame theorems                                               *)
(* ================================================================== *)

Lemma cache_created_file_In : forall c p, cache_created_file c p = true -> In p (cache_created_files c).
Proof.
  intros c p H. unfold cache_created_file, cache_get_file in H.
  destruct (files_get (c_files c) p) as [[o|]|] eqn:E; try discriminate H.
  apply files_get_In in E. unfold cache_created_files. apply in_flat_map.
  exists (p, Some o). split; [exact E|]. cbn [snd fst]. destruct (op_raised o); [discriminate H | left; reflexivity].
Qed.

Lemma cache_created_files_keys : forall c p, In p (cache_created_files c) -> In p (map fst (c_files c)).
Proof.
  intros c p H. unfold cache_created_files in H. apply in_flat_map in H. destruct H as ([q o] & H1 & H2).
  cbn [snd fst] in H2. destruct o as [o|]; [|destruct H2].
  destruct (op_raised o); [destruct H2|]. destruct H2 as [H2|[]]. subst q. apply (in_map fst) in H1. exact H1.
Qed.

Lemma Managed_ManagedL : forall P old cf p, Managed P old cf p -> ManagedL P old cf p.
Proof.
  intros P old cf p [H|[H|H]]; [left; exact H | right; left; apply cache_created_files_keys, H | right; right; exact H].
Qed.

(* both directions at once, for any build: outside the managed set the regular
   files before and after are the same nodes *)
Theorem run_build_frame : forall cf nm vers svers root w w' r (P : path -> Prop),
  sanitize vers = Some svers ->
  AllTargets P root ->
  run_build cf nm vers root w = (w', r) ->
  fkeeps (Managed P (old_cache_of (w_fs w) cf nm svers) cf) (w_fs w) (w_fs w').
Proof.
  intros cf nm vers svers root w w' r P Hsv Hat H.
  set (old := old_cache_of (w_fs w) cf nm svers). set (Q := Managed P old cf).
  unfold run_build in H.
  destruct (m_build cf nm vers (fun w0 => run root None [] w0) w) as [w1 r1] eqn:E.
  inversion H; subst w' r; clear H.
  change (w_fs (end_build w1)) with (w_fs w1).
  assert (HQcf : Q cf) by (right; right; reflexivity).
  assert (HQcr : forall p, In p (cache_created_files old) -> Q p) by (intros p Hp; right; left; exact Hp).
  assert (HQold : forall p, cache_created_file old p = true -> Q p).
  { intros p Hp. apply HQcr, cache_created_file_In, Hp. }
  assert (HQP : forall p, P p -> Q p) by (intros p Hp; left; exact Hp).
  eapply (m_build_fkeeps Q old cf HQcf HQold HQcr); [exact Hsv | reflexivity | | exact E].
  apply (run_R Q old cf HQcf HQold P HQP root Hat None []). intros p X. discriminate X.
Qed.

(* C03, tight form: only the recorded outputs of successful old records count as managed *)
Theorem build_preserves_foreign_files_tight : forall cf nm vers svers root w w' r (P : path -> Prop),
  sanitize vers = Some svers ->
  AllTargets P root ->
  run_build cf nm vers root w = (w', r) ->
  forall p f, lookup (w_fs w) p = Some (NFile f) ->
    ~ Managed P (old_cache_of (w_fs w) cf nm svers) cf p ->
    lookup (w_fs w') p = Some (NFile f).
Proof.
  intros cf nm vers svers root w w' r P Hsv Hat H p f Hl Hn.
  exact (proj1 (run_build_frame cf nm vers svers root w w' r P Hsv Hat H p Hn f) Hl).
Qed.

(* C03 *)
Theorem build_preserves_foreign_files : forall cf nm vers svers root w w' r (P : path -> Prop),
  sanitize vers = Some svers ->
  AllTargets P root ->
  run_build cf nm vers root w = (w', r) ->
  forall p f, lookup (w_fs w) p = Some (NFile f) ->
    ~ ManagedL P (old_cache_of (w_fs w) cf nm svers) cf p ->
    lookup (w_fs w') p = Some (NFile f).
Proof.
  intros cf nm vers svers root w w' r P Hsv Hat H p f Hl Hn.
  eapply build_preserves_foreign_files_tight; eauto.
  intro X. apply Hn, Managed_ManagedL, X.
Qed.

(* the converse: a build creates no regular file at an unmanaged path *)
Theorem build_creates_no_foreign_files : forall cf nm vers svers root w w' r (P : path -> Prop),
  sanitize vers = Some svers ->
  AllTargets P root ->
  run_build cf nm vers root w = (w', r) ->
  forall p f, lookup (w_fs w') p = Some (NFile f) ->
    ~ Managed P (old_cache_of (w_fs w) cf nm svers) cf p ->
    lookup (w_fs w) p = Some (NFile f).
Proof.
  intros cf nm vers svers root w w' r P Hsv Hat H p f Hl Hn.
  exact (proj2 (run_build_frame cf nm vers svers root w w' r P Hsv Hat H p Hn f) Hl).
Qed.
