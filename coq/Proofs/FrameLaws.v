(* Proofs/FrameLaws.v — the frame law of a build (property C03): a build never
   changes, moves or deletes a regular file outside the managed set (the cache
   file, the targets of this build, the outputs recorded by the previous build). *)
From Coq Require Import List String Ascii NArith ZArith Bool Arith Lia.
From FB.Base Require Import PyVal Fs.
From FB.Gen Require Import JsonUtilGen.
From FB.Spec Require Import Prog.
From FB.Model Require Import Types Monad CreatedFiles BuildDirs SimpleOps Builder Persist Build Run Frame.
From FB.Proofs Require Import FsLemmas ReplayLaws.
Import ListNotations.
Local Open Scope list_scope.

(* the footprint lemmas of ReplayLaws are hints local to that file *)
#[local] Hint Resolve m_handle_dir_exists_svb m_is_removed_svb is_file_no_read_svb is_cache_file_svb
  file_metadata_svb file_hash_svb list_dir_superset_svb file_comparison_result_svb
  m_is_file_svb m_is_dir_svb m_exists_svb exec_query_svb noneable_cmp_svb version_equal_svb
  is_build_file_cached_svb dirs_to_make_svb is_op_cached_svb are_subs_cached_svb
  build_file_cache_lookup_svb subbuild_cache_lookup_svb m_bd_started_svb m_bd_error_svb
  new_assert_no_file_svb new_assert_no_subbuild_svb m_query_svb : pres.

(* ================================================================== *)
(* 0. Records registered by a cached operation                         *)
(* ================================================================== *)

(* the (path, raised) pairs that [register_op] / [register_parsed] enter into c_files *)
Fixpoint op_regs (o : op) : list (path * bool) :=
  match o with
  | OSimple _ _ _ => []
  | OBuildFile p _ _ _ _ subs _ _ raised sf => (if sf then [] else [(p, raised)]) ++ flat_map op_regs subs
  | OSubbuild _ _ _ subs _ _ _ => flat_map op_regs subs
  end.

Lemma pres_mapM_In : forall (P : PO) A (f : A -> M unit) l,
  (forall x, In x l -> pres P (f x)) -> pres P (mapM_ f l).
Proof.
  intros P A f l. induction l as [|x l IH]; intro Hf; cbn [mapM_].
  - apply pres_ret.
  - apply pres_bind; [apply Hf; left; reflexivity | intro; apply IH; intros y Hy; apply Hf; right; exact Hy].
Qed.

Lemma In_del_path : forall p q l, In q (del_path p l) -> In q l.
Proof.
  intros p q l. induction l as [|x l IH]; cbn [del_path]; intro H; [exact H|].
  destruct (path_eqb x p); [right; auto|]. destruct H as [H|H]; [left; exact H | right; auto].
Qed.

Lemma files_get_In : forall l p o, files_get l p = Some o -> In (p, o) l.
Proof.
  induction l as [|[q o'] l IH]; intros p o H; cbn [files_get] in H; [discriminate|].
  destruct (path_eqb q p) eqn:E.
  - apply path_eqb_eq in E. inversion H; subst. left; reflexivity.
  - right. apply IH, H.
Qed.

Lemma subs_get_In : forall l k o, subs_get l k = Some o -> exists k', In (k', o) l.
Proof.
  induction l as [|[q o'] l IH]; intros k o H; cbn [subs_get] in H; [discriminate|].
  destruct (py_eq q k) eqn:E.
  - inversion H; subst. exists q. left; reflexivity.
  - destruct (IH _ _ H) as [k' Hk']. exists k'. right; exact Hk'.
Qed.

Lemma register_op_built : forall o c, c_built (register_op c o) = c_built c.
Proof.
  induction o as [q r e | p c0 f a k subs r cr ra sf IH | f a k subs r ra sf IH] using op_ind';
    intro c; cbn [register_op]; [reflexivity | |].
  - assert (G : forall c1, c_built (fold_left register_op subs c1) = c_built c1).
    { induction IH as [|s rest Hs HF IHl]; intro c1; cbn [fold_left]; [reflexivity|]. rewrite IHl. apply Hs. }
    rewrite G. destruct sf; reflexivity.
  - assert (G : forall c1, c_built (fold_left register_op subs c1) = c_built c1).
    { induction IH as [|s rest Hs HF IHl]; intro c1; cbn [fold_left]; [reflexivity|]. rewrite IHl. apply Hs. }
    rewrite G. destruct sf; reflexivity.
Qed.

Lemma fold_register_has_file : forall subs,
  Forall (fun o => forall c q, cache_has_file (register_op c o) q = true ->
                   cache_has_file c q = true \/ exists b, In (q, b) (op_regs o)) subs ->
  forall c q, cache_has_file (fold_left register_op subs c) q = true ->
    cache_has_file c q = true \/ exists b, In (q, b) (flat_map op_regs subs).
Proof.
  intros subs HF. induction HF as [|s rest Hs HF IH]; intros c q H; cbn [fold_left flat_map] in *.
  - left; exact H.
  - destruct (IH _ _ H) as [H1 | [b Hb]].
    + destruct (Hs _ _ H1) as [H2 | [b Hb]]; [left; exact H2|].
      right. exists b. apply in_or_app. left; exact Hb.
    + right. exists b. apply in_or_app. right; exact Hb.
Qed.

Lemma register_op_has_file : forall o c q, cache_has_file (register_op c o) q = true ->
  cache_has_file c q = true \/ exists b, In (q, b) (op_regs o).
Proof.
  induction o as [q0 r e | p c0 f a k subs r cr ra sf IH | f a k subs r ra sf IH] using op_ind';
    intros c q H; cbn [register_op op_regs] in *.
  - left; exact H.
  - destruct (fold_register_has_file subs IH _ _ H) as [H1 | [b Hb]].
    + destruct sf; [left; exact H1|].
      unfold cache_has_file in H1. cbn [c_files cache_with] in H1. rewrite files_get_set in H1.
      destruct (path_eqb p q) eqn:E.
      * apply path_eqb_eq in E. subst q. right. exists ra. apply in_or_app. left. left. reflexivity.
      * left. exact H1.
    + right. exists b. apply in_or_app. right. exact Hb.
  - destruct (fold_register_has_file subs IH _ _ H) as [H1 | [b Hb]].
    + left. destruct sf; exact H1.
    + right. exists b. exact Hb.
Qed.

(* ---- file-system level facts ---- *)

Lemma rename_out_dir : forall fs p fs', rename_out fs p = inl (fs', NDir) -> lookup fs p = Some NDir.
Proof.
  intros fs p fs' H. unfold rename_out in H.
  destruct (lookup fs p) as [[g|]|] eqn:E1; destruct p as [|n d]; try discriminate; reflexivity.
Qed.

(* ================================================================== *)
(* 1. The relation                                                     *)
(* ================================================================== *)

Section FrameRel.

Variable Q : path -> Prop.        (* the managed paths *)
Variable old : cache.             (* the previous build *)
Variable cf : path.               (* the cache file *)

(* [Q] need not be decidable: "managed" is used in its doubly negated form *)
Definition QQ (p : path) : Prop := ~ ~ Q p.

Lemma Q_QQ : forall p, Q p -> QQ p.
Proof. intros p H N. exact (N H). Qed.

(* regular files outside Q are the same before and after: none changed, moved,
   deleted, and none created *)
Definition fkeeps (fs fs' : fsT) : Prop :=
  forall p, ~ Q p -> forall f, lookup fs p = Some (NFile f) <-> lookup fs' p = Some (NFile f).

Lemma fkeeps_refl : forall fs, fkeeps fs fs.
Proof. intros fs p _ f. split; auto. Qed.

Lemma fkeeps_trans : forall a b c, fkeeps a b -> fkeeps b c -> fkeeps a c.
Proof.
  intros a b c H1 H2 p Hp f. split; intro H.
  - apply (H2 p Hp f), (H1 p Hp f), H.
  - apply (H1 p Hp f), (H2 p Hp f), H.
Qed.

Lemma fkeeps_isfile_false : forall fs fs' p, fkeeps fs fs' -> ~ Q p -> isfile fs p = false -> isfile fs' p = false.
Proof.
  intros fs fs' p K Hp H. destruct (isfile fs' p) eqn:E; [|reflexivity].
  apply isfile_lookup in E. destruct E as [f Ef]. apply (K p Hp f) in Ef.
  unfold isfile in H. rewrite Ef in H. discriminate H.
Qed.

(* a step that changes one path *)
Lemma fkeeps_one : forall fs fs' p0,
  (forall q, q <> p0 -> lookup fs' q = lookup fs q) ->
  (QQ p0 \/ ((forall f, lookup fs p0 <> Some (NFile f)) /\ (forall f, lookup fs' p0 <> Some (NFile f)))) ->
  fkeeps fs fs'.
Proof.
  intros fs fs' p0 Hfr Hp0 p Hp f.
  destruct (path_eqb p p0) eqn:E.
  - apply path_eqb_eq in E. subst p0. destruct Hp0 as [HQ | [H1 H2]].
    + exfalso. exact (HQ Hp).
    + split; intro H; exfalso; [exact (H1 f H) | exact (H2 f H)].
  - apply path_eqb_neq in E. rewrite (Hfr p E). split; auto.
Qed.

Lemma mkdir_fkeeps : forall fs p fs', mkdir fs p = inl fs' -> fkeeps fs fs'.
Proof.
  intros fs p fs' H. apply mkdir_frame in H. destruct H as (H1 & H2 & H3).
  apply (fkeeps_one fs fs' p H3). right. split; intros f E; congruence.
Qed.

Lemma rmdir_fkeeps : forall fs p fs', rmdir fs p = inl fs' -> fkeeps fs fs'.
Proof.
  intros fs p fs' H. apply rmdir_frame in H. destruct H as (H1 & _ & _ & H2 & H3).
  apply (fkeeps_one fs fs' p H3). right. split; intros f E; congruence.
Qed.

Lemma remove_fkeeps : forall fs p fs', QQ p -> remove fs p = inl fs' -> fkeeps fs fs'.
Proof.
  intros fs p fs' Hp H. apply remove_frame in H. destruct H as (_ & _ & H3).
  apply (fkeeps_one fs fs' p H3). left. exact Hp.
Qed.

Lemma replace_in_fkeeps : forall fs p f fs', QQ p -> replace_in fs p f = inl fs' -> fkeeps fs fs'.
Proof.
  intros fs p f fs' Hp H. apply replace_in_frame in H. destruct H as (_ & H3).
  apply (fkeeps_one fs fs' p H3). left. exact Hp.
Qed.

Lemma write_file_fkeeps : forall fs p b j m i fs', QQ p -> write_file fs p b j m i = inl fs' -> fkeeps fs fs'.
Proof.
  intros fs p b j m i fs' Hp H. apply write_file_frame in H. destruct H as (_ & H3).
  apply (fkeeps_one fs fs' p H3). left. exact Hp.
Qed.

Lemma makedirs_p_fkeeps : forall p fs fs' e, makedirs_p fs p = (fs', e) -> fkeeps fs fs'.
Proof.
  induction p as [|n d IH]; intros fs fs' e H; cbn [makedirs_p] in H.
  - rewrite lookup_root in H. inversion H; subst. apply fkeeps_refl.
  - destruct (lookup fs (n :: d)) as [[g|]|].
    + inversion H; subst. apply fkeeps_refl.
    + inversion H; subst. apply fkeeps_refl.
    + destruct (makedirs_p fs d) as [fs1 [e1|]] eqn:E1.
      * inversion H; subst. eapply IH; eauto.
      * apply IH in E1. destruct (mkdir fs1 (n :: d)) as [fs2|e2] eqn:E2; inversion H; subst.
        -- eapply fkeeps_trans; [exact E1|]. eapply mkdir_fkeeps; eauto.
        -- exact E1.
Qed.

(* ---- the invariant carried through a build ---- *)
Definition Inv (w : world) : Prop :=
  w_old w = old /\ w_cachefile w = cf /\
  (forall x, In x (w_backups w) -> QQ (fst x)) /\
  (forall p, In p (c_built (w_new w)) -> QQ p) /\
  (forall p, cache_has_file (w_new w) p = true -> ~ Q p -> isfile (w_fs w) p = false).

Definition Rel (w w' : world) : Prop := Inv w -> Inv w' /\ fkeeps (w_fs w) (w_fs w').

Lemma Rel_refl : forall w, Rel w w.
Proof. intros w H. split; [exact H | apply fkeeps_refl]. Qed.

Lemma Rel_trans : forall a b c, Rel a b -> Rel b c -> Rel a c.
Proof.
  intros a b c H1 H2 Ha. destruct (H1 Ha) as [Hb K1]. destruct (H2 Hb) as [Hc K2].
  split; [exact Hc | eapply fkeeps_trans; eauto].
Qed.

Definition RPO : PO := {| rel := Rel; po_refl := Rel_refl; po_trans := Rel_trans |}.

Lemma Inv_step : forall w w', Inv w ->
  w_old w' = w_old w -> w_cachefile w' = w_cachefile w -> w_new w' = w_new w ->
  (forall x, In x (w_backups w') -> In x (w_backups w) \/ QQ (fst x)) ->
  fkeeps (w_fs w) (w_fs w') -> Inv w'.
Proof.
  intros w w' (A & B & C & D & E) Ho Hc Hn Hb K. unfold Inv. rewrite Ho, Hc, Hn.
  repeat split; auto.
  - intros x Hx. destruct (Hb x Hx) as [H|H]; auto.
  - intros p Hp Hq. eapply fkeeps_isfile_false; eauto.
Qed.

Lemma Rel_same : forall w w',
  w_fs w' = w_fs w -> w_old w' = w_old w -> w_cachefile w' = w_cachefile w -> w_new w' = w_new w ->
  w_backups w' = w_backups w -> Rel w w'.
Proof.
  intros w w' Hf Ho Hc Hn Hb Hinv. rewrite Hf. split; [|apply fkeeps_refl].
  eapply Inv_step; eauto.
  - intros x Hx. left. rewrite <- Hb. exact Hx.
  - rewrite Hf. apply fkeeps_refl.
Qed.

Lemma svb_Rel : forall w w', svbPO w w' -> RPO w w'.
Proof.
  cbn. unfold same_but_view. intros w w' H.
  destruct H as (A1 & A2 & A3 & A4 & A5 & A6 & A7 & A8 & A9 & A10 & A11).
  apply Rel_same; auto.
Qed.

Hint Extern 8 (pres RPO _) => apply (pres_weaken svbPO RPO _ _ svb_Rel) : pres.

Lemma pres_svb_R : forall X (m : world -> world * X), pres svbPO m -> pres RPO m.
Proof. intros X m. apply pres_weaken. exact svb_Rel. Qed.

(* [w <- get ;; k w] when the invariant of the world read is all that matters *)
Lemma pres_bind_get : forall A (k : world -> M A),
  (forall w0, Inv w0 -> pres RPO (k w0)) -> pres RPO (bind get k).
Proof.
  intros A k Hk w w' r H Hinv. unfold bind, get in H. exact (Hk w Hinv w w' r H Hinv).
Qed.

(* ================================================================== *)
(* 2. Primitives                                                       *)
(* ================================================================== *)

Lemma effect_R : forall what p f,
  (forall fs fs', f fs = inl fs' -> fkeeps fs fs') -> pres RPO (effect what p f).
Proof.
  intros what p f Hf w w' r H Hinv. unfold effect in H. cbv zeta in H.
  destruct (existsb (Nat.eqb (w_effects w)) (w_faults w)).
  - inversion H; subst. split; [|apply fkeeps_refl].
    eapply Inv_step; eauto; try reflexivity. apply fkeeps_refl.
  - cbn [w_fs set_effects] in H. destruct (f (w_fs w)) as [fs'|e] eqn:E; inversion H; subst.
    + cbn [w_fs set_log set_fs]. split; [|eapply Hf; eauto].
      eapply Inv_step; eauto; try reflexivity; try (cbn [w_fs set_log set_fs]; eapply Hf; eauto).
    + split; [|apply fkeeps_refl]. eapply Inv_step; eauto; try reflexivity. apply fkeeps_refl.
Qed.

Lemma effect_p_R : forall what p f,
  (forall fs fs' e, f fs = (fs', e) -> fkeeps fs fs') -> pres RPO (effect_p what p f).
Proof.
  intros what p f Hf w w' r H Hinv. unfold effect_p in H. cbv zeta in H.
  destruct (existsb (Nat.eqb (w_effects w)) (w_faults w)).
  - inversion H; subst. split; [|apply fkeeps_refl].
    eapply Inv_step; eauto; try reflexivity. apply fkeeps_refl.
  - cbn [w_fs set_effects] in H. destruct (f (w_fs w)) as [fs' [e|]] eqn:E; inversion H; subst.
    + cbn [w_fs set_log set_fs]. split; [|eapply Hf; eauto].
      eapply Inv_step; eauto; try reflexivity; try (cbn [w_fs set_log set_fs]; eapply Hf; eauto).
    + cbn [w_fs set_log set_fs]. split; [|eapply Hf; eauto].
      eapply Inv_step; eauto; try reflexivity; try (cbn [w_fs set_log set_fs]; eapply Hf; eauto).
Qed.

Lemma effect_mkdir_R : forall what p, pres RPO (effect what p (fun fs => mkdir fs p)).
Proof. intros. apply effect_R. intros fs fs' H. eapply mkdir_fkeeps; eauto. Qed.

Lemma effect_rmdir_R : forall what p, pres RPO (effect what p (fun fs => rmdir fs p)).
Proof. intros. apply effect_R. intros fs fs' H. eapply rmdir_fkeeps; eauto. Qed.

Lemma effect_remove_R : forall what p, QQ p -> pres RPO (effect what p (fun fs => remove fs p)).
Proof. intros what p Hp. apply effect_R. intros fs fs' H. eapply remove_fkeeps; eauto. Qed.

Lemma effect_replace_R : forall what p f, QQ p -> pres RPO (effect what p (fun fs => replace_in fs p f)).
Proof. intros what p f Hp. apply effect_R. intros fs fs' H. eapply replace_in_fkeeps; eauto. Qed.

Lemma effect_write_R : forall what p b j m i, QQ p ->
  pres RPO (effect what p (fun fs => write_file fs p b j m i)).
Proof. intros what p b j m i Hp. apply effect_R. intros fs fs' H. eapply write_file_fkeeps; eauto. Qed.

Lemma effect_makedirs_R : forall what p d, pres RPO (effect_p what p (fun fs => makedirs_p fs d)).
Proof. intros. apply effect_p_R. intros fs fs' e H. eapply makedirs_p_fkeeps; eauto. Qed.

Hint Resolve effect_mkdir_R effect_rmdir_R effect_makedirs_R : pres.

(* what a single [effect] can do to the components of the world *)
Lemma effect_fields : forall what p f w w' r, effect what p f w = (w', r) ->
  w_old w' = w_old w /\ w_cachefile w' = w_cachefile w /\ w_new w' = w_new w /\ w_backups w' = w_backups w /\
  (w_fs w' = w_fs w \/ f (w_fs w) = inl (w_fs w')).
Proof.
  intros what p f w w' r H. unfold effect in H. cbv zeta in H.
  destruct (existsb (Nat.eqb (w_effects w)) (w_faults w)).
  - inversion H; subst. cbn. repeat split; auto.
  - cbn [w_fs set_effects] in H. destruct (f (w_fs w)) as [fs'|e] eqn:E; inversion H; subst; cbn; repeat split; auto.
Qed.

(* back_up_and_remove of something that is not a directory, and is managed if it is a file *)
Lemma back_up_and_remove_R : forall p w w' r,
  back_up_and_remove p w = (w', r) -> Inv w ->
  isdir (w_fs w) p = false -> (~ Q p -> isfile (w_fs w) p = false) ->
  Inv w' /\ fkeeps (w_fs w) (w_fs w').
Proof.
  intros p w w' r H Hinv Hnd Hf. unfold back_up_and_remove in H.
  apply bind_inv in H. destruct H as [(w1 & u & E1 & H) | (e & E1 & _)].
  2:{ refine (effect_R _ _ _ _ w w' _ E1 Hinv). intros fs fs' X. inversion X; subst. apply fkeeps_refl. }
  destruct (effect_fields _ _ _ _ _ _ E1) as (Fo & Fc & Fn & Fb & Ffs).
  assert (Ffs' : w_fs w1 = w_fs w) by (destruct Ffs as [X|X]; [exact X | inversion X; reflexivity]).
  assert (Hinv1 : Inv w1).
  { eapply Inv_step; eauto. intros x Hx. left. rewrite <- Fb. exact Hx. rewrite Ffs'. apply fkeeps_refl. }
  rewrite <- Ffs' in *. clear E1 Fo Fc Fn Fb Ffs Ffs' Hinv w. rename w1 into w. rename Hinv1 into Hinv.
  cbv zeta in H.
  destruct (existsb (Nat.eqb (w_effects w)) (w_faults w)).
  { inversion H; subst. split; [|apply fkeeps_refl]. eapply Inv_step; eauto; try reflexivity. apply fkeeps_refl. }
  cbn [w_fs set_effects] in H.
  destruct (rename_out (w_fs w) p) as [[fs' [f|]]|e] eqn:E.
  - inversion H; subst. cbn [w_fs set_log set_backups set_fs set_effects].
    pose proof (rename_out_file_frame _ _ _ _ E) as (G1 & G2 & G3).
    assert (HQ : QQ p).
    { intro N. specialize (Hf N). unfold isfile in Hf. rewrite G1 in Hf. discriminate Hf. }
    assert (K : fkeeps (w_fs w) fs') by (apply (fkeeps_one _ _ p G3); left; exact HQ).
    split; [|exact K]. eapply Inv_step; eauto; try reflexivity.
    cbn [w_backups set_log set_backups set_fs set_effects]. intros x Hx.
    apply in_app_or in Hx. destruct Hx as [Hx | [<- | []]]; [left; exact Hx | right; exact HQ].
  - apply rename_out_dir in E. unfold isdir in Hnd. rewrite E in Hnd. discriminate Hnd.
  - assert (G : w' = set_effects (S (w_effects w)) w) by (destruct e; inversion H; reflexivity).
    subst w'. split; [|apply fkeeps_refl]. eapply Inv_step; eauto; try reflexivity. apply fkeeps_refl.
Qed.

(* [w <- get ;; if isfile (w_fs w) p then back_up_and_remove p ... ] *)
Lemma guarded_backup_R : forall p (g : world -> bool), QQ p ->
  pres RPO (bind get (fun w => if isfile (w_fs w) p && g w
                               then bind (back_up_and_remove p) (fun _ => ret tt) else ret tt)).
Proof.
  intros p g Hp w w' r H Hinv. unfold bind at 1, get in H.
  destruct (isfile (w_fs w) p && g w) eqn:G.
  - apply andb_true_iff in G. destruct G as [G _].
    apply bind_inv in H. destruct H as [(w1 & u & E1 & H) | (e & E1 & _)].
    + inversion H; subst. eapply back_up_and_remove_R; eauto.
      * unfold isfile in G. unfold isdir. destruct (lookup (w_fs w) p) as [[?|]|]; congruence.
      * intro N. exfalso. exact (Hp N).
    + eapply back_up_and_remove_R; eauto.
      * unfold isfile in G. unfold isdir. destruct (lookup (w_fs w) p) as [[?|]|]; congruence.
      * intro N. exfalso. exact (Hp N).
  - inversion H; subst. split; [exact Hinv | apply fkeeps_refl].
Qed.

Lemma try_to_remove_file_R : forall p, QQ p -> pres RPO (try_to_remove_file p).
Proof.
  intros p Hp. unfold try_to_remove_file. pres_auto. apply effect_remove_R. exact Hp.
Qed.

Lemma restore_one_R : forall x, QQ (fst x) -> pres RPO (restore_one x).
Proof.
  intros [p f] Hp. cbn [fst] in Hp. unfold restore_one. pres_auto. apply effect_replace_R. exact Hp.
Qed.

Lemma restore_all_R : pres RPO restore_all.
Proof.
  intros w w' r H Hinv. unfold restore_all in H. unfold bind at 1, get in H.
  apply bind_inv in H. destruct H as [(w1 & u & E1 & H) | (e & E1 & _)]; [|discriminate E1].
  unfold put in E1. inversion E1; subst w1; clear E1.
  assert (Hinv1 : Inv (set_backups [] w)).
  { eapply Inv_step; eauto; try reflexivity; [cbn; intros x [] | apply fkeeps_refl]. }
  destruct Hinv as (A & B & C & D & E).
  refine (pres_mapM_In RPO _ restore_one (w_backups w) _ _ _ _ H Hinv1).
  intros x Hx. apply restore_one_R. apply C. exact Hx.
Qed.

Lemma remove_empty_dirs_R : forall ds, pres RPO (remove_empty_dirs ds).
Proof. intro ds. unfold remove_empty_dirs. pres_auto. Qed.

Lemma create_dirs_R : forall ds, pres RPO (create_dirs ds).
Proof. intro ds. unfold create_dirs. pres_auto. Qed.

Hint Resolve remove_empty_dirs_R create_dirs_R restore_all_R : pres.

End FrameRel.
