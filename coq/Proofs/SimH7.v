(* Proofs/SimH7.v — CacheRTOpen.committed_cache_wf_statement, proved: the cache a committed first
   build of the mechanism model holds at the end is writable, its tables are those of its forest
   (as lists up to order, and by lookup in the file table), the forest has the shape of a
   committed one, no created directory is listed twice, and the cache file holds cache_to_json
   of it.  (The hypotheses fs_wf and w_faults = [] of the statement are not used.)
   Assembly of SimH1 (commit phase), SimH2 (well-formed records), SimH3 (name / versions /
   directories, writable), SimH4 (tables in claim order), SimH5 (different keys), SimH6 (forest). *)
From Coq Require Import List String Ascii NArith ZArith Bool Arith Lia Permutation.
From FB.Base Require Import PyVal Fs.
From FB.Gen Require Import JsonUtilGen.
From FB.Spec Require Import JsonSpec Prog.
From FB.Model Require Import Types Monad CreatedFiles BuildDirs SimpleOps Builder PathNorm Persist PersistSpec Build Run.
From FB.Proofs Require Import FsLemmas JsonLaws PersistLaws ReplayLaws BuildFileLaws
  CacheRTDefs CacheRTForest CacheRTOpen SimH1 SimH2 SimH3 SimH4 SimH5 SimH6.
Import ListNotations.
Local Open Scope list_scope.

Lemma sequence_all_some : forall A (l : list (option A)) r, sequence l = Some r -> forall x, In x l -> x <> None.
Proof.
  intros A l. induction l as [|o l IH]; intros r H x Hx; [destruct Hx|].
  cbn [sequence fold_right] in H. fold (sequence l) in H. destruct o as [a|]; [|discriminate H].
  destruct (sequence l) as [r'|] eqn:E; [|discriminate H].
  destruct Hx as [<-|Hx]; [discriminate | eapply IH; eauto].
Qed.

Lemma nnf_zero : forall fl, (forall e, In e fl -> snd e <> None) -> nnf fl = 0.
Proof.
  induction fl as [|[p o] fl IH]; intro H; [reflexivity|]. unfold nnf in *. cbn [filter snd].
  destruct o as [x|]; cbn [is_none]; [apply IH; intros e He; apply H; right; exact He|].
  exfalso. apply (H (p, None)); [left; reflexivity | reflexivity].
Qed.

Theorem committed_cache_wf : committed_cache_wf_statement.
Proof.
  intros cf nm vers svers root w w' v Hs Hcf Hroot _ _ Hl H c.
  destruct (committed_cache_writable_partial _ _ _ _ _ _ _ _ Hs Hcf Hroot Hl H) as (roots & Wr & Nd & Hf).
  fold c in Wr, Nd, Hf.
  destruct (first_build_facts _ _ _ _ _ _ _ _ Hs Hcf Hroot Hl H)
    as (ccd & w2 & l & ops & j & Hn & W2 & Hl2 & Hccd & Mn & Mv & Md & Hj & Ho & _ & w1 & E1 & E2).
  (* the world in which the root function starts *)
  pose proof (W_start w cf nm svers) as W0.
  pose proof (presW _ _ _ _ _ (make_dirs_wk _) E1 W0) as W1.
  destruct (make_dirs_new _ _ _ _ E1) as (N1 & O1 & _).
  set (wi := set_log (LInvoke "<root>" None PNone PNone :: w_log w1) w1) in *.
  assert (Ci : Cold wi) by exact (proj2 (proj2 (proj2 W1))).
  assert (Ni : w_new wi = empty_cache nm svers) by (unfold wi; cbn [w_new set_log]; rewrite N1; reflexivity).
  destruct (run_T _ _ _ _ _ _ _ Ci E2) as (new & El & Hsh & Hstep). cbn [app] in El. subst new.
  assert (Ki : KI (w_new wi)) by (rewrite Ni; split; reflexivity).
  destruct (run_K _ _ _ _ _ _ E2 Ki) as [Kf Ks].
  assert (Ef : c_files c = c_files (w_new w2)) by (unfold c; rewrite Hn; reflexivity).
  assert (Es : c_subs c = c_subs (w_new w2)) by (unfold c; rewrite Hn; reflexivity).
  assert (G : Good wi w2 l).
  { destruct Hstep as [G|B]; [exact G|]. exfalso. unfold Bad in B. rewrite Ni in B. cbn [c_files empty_cache] in B.
    fold c in Ho. unfold cache_operations in Ho. rewrite <- Ef in B.
    rewrite (nnf_zero (c_files c)) in B; [unfold nnf in B; cbn in B; lia|].
    intros e He. apply (sequence_all_some _ _ _ Ho). apply in_or_app. left. apply in_map. exact He. }
  destruct G as [Gf Gs]. rewrite Ni in Gf, Gs. cbn [c_files c_subs empty_cache app] in Gf, Gs.
  rewrite Gf in Kf. rewrite Gs in Ks.
  destruct (claim_order_forest l Hsh Hl2 Kf Ks c (eq_trans Ef Gf) (eq_trans Es Gs)) as (CF & TP & FG & GD).
  assert (roots = forest_of l).
  { destruct Wr as (Wr1 & _). rewrite CF in Wr1. inversion Wr1; reflexivity. }
  subst roots. exists (forest_of l).
  split; [exact Wr|]. split; [exact TP|]. split; [exact FG|]. split; [exact GD|]. split; [exact Nd | exact Hf].
Qed.

Print Assumptions committed_cache_wf.
