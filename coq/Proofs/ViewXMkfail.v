(* Proofs/ViewXMkfail.v — C04, reachability: a failing _make_dirs.  Without injected faults
   the directories made before the failing mkdir are removed again, so the tree is the
   initial one minus some hidden previous outputs that were moved to the backup area:
   RInv is kept (mkfail_statement of ViewXSetup.v). *)
From Coq Require Import List String Ascii NArith ZArith Bool Arith Lia.
From FB.Base Require Import PyVal Fs.
From FB.Gen Require Import JsonUtilGen.
From FB.Spec Require Import Ref.
From FB.Model Require Import Types Monad CreatedFiles BuildDirs SimpleOps Builder.
From FB.Proofs Require Import FsLemmas CleanLaws JsonLaws CoreLawsChildren ReplayLaws BuildFileLaws
     ViewDefs ViewLemmas ViewScan ViewQueries ViewAnswers ViewPres ViewFrame ViewPrepare ViewClean
     ViewXDefs ViewXFrame ViewXQuery ViewXSteps ViewXMake1 ViewXMake2 ViewXFail ViewXRoom2 ViewXSetup ViewXExt.
Import ListNotations.
Open Scope list_scope.
Open Scope m_scope.

(* ------------------------------------------------------------------ removing a set of empty-able directories *)
Lemma rmdir_all : forall L2 L1 fs0 T,
  sdesc L2 ->
  (forall y, lookup T y = if mem_path y L1 then None else lookup fs0 y) ->
  (forall m, In m (L1 ++ L2) -> lookup fs0 m = Some NDir /\ m <> [] /\
                                forall n, lookup fs0 (n :: m) <> None -> In (n :: m) (L1 ++ L2)) ->
  forall y, lookup (fold_left try_rmdir L2 T) y = if mem_path y (L1 ++ L2) then None else lookup fs0 y.
Proof.
  induction L2 as [|a L2 IH]; intros L1 fs0 T Hs HT Hm y.
  - rewrite app_nil_r. apply HT.
  - cbn [fold_left]. destruct Hs as [Ha Hs].
    replace (L1 ++ a :: L2) with ((L1 ++ [a]) ++ L2) in * by (rewrite <- app_assoc; reflexivity).
    apply IH; [exact Hs| |exact Hm].
    destruct (Hm a) as (Hd & Hne & Hk); [apply in_or_app; left; apply in_or_app; right; left; reflexivity|].
    intro z. destruct (mem_path a L1) eqn:E1.
    + (* already removed *)
      assert (Es: try_rmdir T a = T).
      { unfold try_rmdir, rmdir. destruct a as [|n d]; [reflexivity|]. rewrite (HT (n :: d)), E1. reflexivity. }
      rewrite Es, HT. destruct (mem_path z L1) eqn:E2.
      * replace (mem_path z (L1 ++ [a])) with true; [reflexivity|]. symmetry. apply mem_path_In. apply in_or_app. left. apply mem_path_In. exact E2.
      * destruct (mem_path z (L1 ++ [a])) eqn:E3; [|reflexivity]. apply mem_path_In in E3. apply in_app_iff in E3.
        destruct E3 as [E3|[E3|[]]]; [apply mem_path_In in E3; congruence|subst z; congruence].
    + assert (Hl: lookup T a = Some NDir) by (rewrite HT, E1; exact Hd).
      assert (Hkids: children T a = []).
      { apply children_nil_iff. intro n. rewrite HT. destruct (mem_path (n :: a) L1) eqn:E2; [reflexivity|].
        destruct (lookup fs0 (n :: a)) as [x|] eqn:El; [|reflexivity]. exfalso.
        assert (Hin: In (n :: a) ((L1 ++ [a]) ++ L2)) by (apply Hk; congruence).
        apply in_app_iff in Hin. destruct Hin as [Hin|Hin].
        - apply in_app_iff in Hin. destruct Hin as [Hin|[Hin|[]]]; [apply mem_path_In in Hin; congruence|].
          apply (f_equal (@List.length _)) in Hin. simpl in Hin. lia.
        - specialize (Ha _ Hin). pose proof (plen_cons n a). lia. }
      assert (Es: try_rmdir T a = upd a None T).
      { unfold try_rmdir, rmdir. destruct a as [|n d]; [contradiction|]. rewrite Hl, Hkids. reflexivity. }
      rewrite Es. destruct (path_eqb z a) eqn:Ez.
      * apply path_eqb_eq in Ez. subst z. rewrite lookup_upd_eq by exact Hne.
        replace (mem_path a (L1 ++ [a])) with true; [reflexivity|]. symmetry. apply mem_path_In. apply in_or_app. right. left. reflexivity.
      * apply path_eqb_neq in Ez. rewrite lookup_upd_neq by exact Ez. rewrite HT.
        replace (mem_path z (L1 ++ [a])) with (mem_path z L1); [reflexivity|].
        destruct (mem_path z L1) eqn:E2.
        -- symmetry. apply mem_path_In. apply in_or_app. left. apply mem_path_In. exact E2.
        -- destruct (mem_path z (L1 ++ [a])) eqn:E3; [|reflexivity]. apply mem_path_In in E3. apply in_app_iff in E3.
           destruct E3 as [E3|[E3|[]]]; [apply mem_path_In in E3; congruence|congruence].
Qed.

(* ------------------------------------------------------------------ remove_empty_dirs without faults *)
Lemma remove_empty_dirs_core : forall ds w w1 r, remove_empty_dirs ds w = (w1, r) -> same_core w w1.
Proof.
  intros ds. unfold remove_empty_dirs. generalize (sort_longest_first ds). clear ds.
  induction l as [|q l IH]; intros w w1 r H; cbn [mapM_] in H.
  - inversion H; subst. apply same_core_refl.
  - apply bind_inv in H.
    assert (Hs: forall wa x, catch (effect "rmdir" q (fun fs => rmdir fs q)) (fun e => if is_os e then ret tt else raise e) w = (wa, x) ->
                             same_core w wa).
    { intros wa x Hc. unfold catch in Hc. destruct (effect "rmdir" q (fun fs => rmdir fs q) w) as [wb [u|e]] eqn:E.
      - inversion Hc; subst. apply (effect_ok _ _ _ _ _ _ E).
      - apply effect_err in E. destruct E as [_ E]. destruct (is_os e); inversion Hc; subst; exact E. }
    destruct H as [[wa [u [E H]]]|[e [E _]]].
    + eapply same_core_trans; [eapply Hs; exact E|eapply IH; exact H].
    + eapply Hs; exact E.
Qed.

Lemma remove_empty_dirs_nofault : forall ds w, w_faults w = [] ->
  exists w1, remove_empty_dirs ds w = (w1, inl tt) /\ same_core w w1 /\ w_faults w1 = [] /\
             w_fs w1 = fold_left try_rmdir (deepest_first ds) (w_fs w).
Proof.
  intros ds w HF. destruct (remove_empty_dirs_runs ds w HF) as (w1 & E & Efs & F1).
  exists w1. split; [exact E|]. split; [eapply remove_empty_dirs_core; exact E|]. auto.
Qed.

(* ------------------------------------------------------------------ the loop, relative to the initial tree *)
Record LI (Pd : path -> Prop) (fs0 : fsT) (w0 w : world) (made B : list path) : Prop := {
  li_core : same_core w0 w;
  li_faults : w_faults w = [];
  li_fs : forall y, lookup (w_fs w) y =
                    if mem_path y made then Some NDir else if mem_path y B then None else lookup fs0 y;
  li_B : forall y, In y B -> isfile fs0 y = true /\ cache_created_file (w_old w0) y = true /\ Pd y;
  li_made : forall m, In m made -> m <> [] /\ (lookup fs0 m = None \/ In m B)
}.

Lemma mem_app_path : forall y a b, mem_path y (a ++ b) = mem_path y a || mem_path y b.
Proof. intros y a b. induction a as [|x a IH]; cbn [app mem_path]; [reflexivity|]. rewrite IH. apply orb_assoc. Qed.

(* one directory, every outcome *)
Lemma make_one_dir_LI : forall Pd fs0 w0 q w made B w1 r, LI Pd fs0 w0 w made B -> Pd q ->
  make_one_dir q w = (w1, r) ->
  exists B', (forall y, In y B -> In y B') /\
    match r with
    | inl true => LI Pd fs0 w0 w1 (made ++ [q]) B'
    | inl false => LI Pd fs0 w0 w1 made B'
    | inr e => LI Pd fs0 w0 w1 made B' /\ is_os e = true
    end.
Proof.
  intros Pd fs0 w0 q w made B w1 r [C HF Hfs HB Hmade] HPq H.
  unfold make_one_dir in H. apply bind_inv in H. unfold get in H.
  destruct H as [[wa [w' [E H]]]|[e [E _]]]; [|discriminate]. inversion E; subst wa w'.
  apply bind_inv in H.
  (* the optional backup *)
  assert (Hfirst: forall wa (ra : unit + exn),
            (if isfile (w_fs w) q && cache_created_file (w_old w) q
             then b <- back_up_and_remove q ;; ret tt else ret tt) w = (wa, ra) ->
            ra = inl tt /\ exists B', (forall y, In y B -> In y B') /\ LI Pd fs0 w0 wa made B').
  { intros wa ra H0. destruct (isfile (w_fs w) q && cache_created_file (w_old w) q) eqn:Ec.
    - apply andb_true_iff in Ec. destruct Ec as [Ef Eo].
      apply bind_inv in H0.
      assert (Hb: forall wb rb, back_up_and_remove q w = (wb, rb) -> rb = inl true /\ LI Pd fs0 w0 wb made (q :: B)).
      { intros wb rb Eb. destruct (back_up_nofault _ _ _ _ HF Eb) as (Fb & Cb & Hfile & _).
        destruct (Hfile Ef) as (Er & Hg & Ho). split; [exact Er|].
        (* q is a regular file now: not made, not backed up before *)
        assert (Hq: mem_path q made = false /\ mem_path q B = false /\ isfile fs0 q = true).
        { unfold isfile in Ef. rewrite Hfs in Ef. destruct (mem_path q made); [discriminate|].
          destruct (mem_path q B); [discriminate|]. auto. }
        destruct Hq as (Q1 & Q2 & Q3).
        constructor.
        - eapply same_core_trans; eassumption.
        - exact Fb.
        - intro y. cbn [mem_path]. destruct (path_eqb q y) eqn:Ey.
          + apply path_eqb_eq in Ey. subst y. rewrite Hg, Q1. reflexivity.
          + apply path_eqb_neq in Ey. rewrite (Ho y) by (intro; subst; congruence). rewrite Hfs. reflexivity.
        - intros y [<-|Hy]; [|apply HB; exact Hy]. split; [exact Q3|]. split; [|exact HPq]. destruct C as (_ & C2 & _). rewrite <- C2. exact Eo.
        - intros m Hm. destruct (Hmade m Hm) as [A [K|K]]; split; auto. right. right. exact K. }
      destruct H0 as [[wb [bb [Eb H0]]]|[e [Eb _]]].
      + inversion H0; subst. destruct (Hb _ _ Eb) as [_ L]. split; [reflexivity|]. exists (q :: B). split; [intros y Hy; right; exact Hy|exact L].
      + destruct (Hb _ _ Eb) as [K _]. discriminate.
    - inversion H0; subst. split; [reflexivity|]. exists B. split; [auto|]. constructor; assumption. }
  destruct H as [[wa [u [E1 H]]]|[e [E1 _]]].
  2:{ destruct (Hfirst _ _ E1) as [K _]. discriminate. }
  destruct (Hfirst _ _ E1) as [_ (B' & HBB & [C' HF' Hfs' HB' Hmade'])].
  exists B'. split; [exact HBB|].
  unfold catch in H.
  destruct ((effect "mkdir" q (fun fs => mkdir fs q) ;;; ret true) wa) as [wb [bb|e]] eqn:E2.
  - (* mkdir succeeded *)
    inversion H; subst w1 r. apply bind_inv in E2. destruct E2 as [[wc [u' [E3 E4]]]|[e [_ E4]]]; [|discriminate].
    inversion E4; subst wc bb.
    destruct (effect_nofault_inv _ _ _ _ _ _ HF' E3) as (Fb & Cb & [[fs' (R1 & R2 & _)]|[e (_ & _ & R3)]]); [|discriminate].
    apply mkdir_frame in R1. destruct R1 as (M1 & M2 & M3).
    constructor.
    + eapply same_core_trans; eassumption.
    + exact Fb.
    + intro y. rewrite mem_app_path. cbn [mem_path]. rewrite orb_false_r. rewrite R2.
      destruct (path_eqb q y) eqn:Ey.
      * apply path_eqb_eq in Ey. subst y. rewrite M1, orb_true_r. reflexivity.
      * rewrite orb_false_r. apply path_eqb_neq in Ey. rewrite (M3 y) by (intro; subst; congruence). apply Hfs'.
    + exact HB'.
    + intros m Hm. apply in_app_iff in Hm. destruct Hm as [Hm|[<-|[]]]; [apply Hmade'; exact Hm|].
      split; [intro; subst; discriminate|].
      rewrite Hfs' in M2. destruct (mem_path q made); [discriminate|].
      destruct (mem_path q B') eqn:Eq; [right; apply mem_path_In; exact Eq|left; exact M2].
  - apply bind_inv in E2. destruct E2 as [[wc [u' [_ E4]]]|[e' [E3 E4]]]; [discriminate|].
    inversion E4; subst e'.
    destruct (effect_nofault_inv _ _ _ _ _ _ HF' E3) as (Fb & Cb & [[fs' (_ & _ & R3)]|[er (_ & R2 & R3)]]); [discriminate|].
    inversion R3; subst e.
    assert (L: LI Pd fs0 w0 wb made B').
    { constructor; [eapply same_core_trans; eassumption|exact Fb| |exact HB'|exact Hmade']. intro y. rewrite R2. apply Hfs'. }
    cbn [is_os_class] in H. destruct (errclass_eqb XFileExists (err_of er)); inversion H; subst; [exact L|].
    split; [exact L|reflexivity].
Qed.

Lemma mem_deepest_first : forall y l, mem_path y (deepest_first l) = mem_path y l.
Proof.
  intros y l. destruct (mem_path y l) eqn:E.
  - apply mem_path_In. unfold deepest_first. apply In_sort_by. apply mem_path_In. exact E.
  - destruct (mem_path y (deepest_first l)) eqn:E2; [|reflexivity]. apply mem_path_In in E2.
    unfold deepest_first in E2. apply In_sort_by in E2. apply mem_path_In in E2. congruence.
Qed.

Lemma cleanup_LI : forall (Pd : path -> Prop) fs0 w0 w made B, fs_wf fs0 -> LI Pd fs0 w0 w made B ->
  exists w1, remove_empty_dirs made w = (w1, inl tt) /\ LI Pd fs0 w0 w1 [] B.
Proof.
  intros Pd fs0 w0 w made B W [C HF Hfs HB Hmade].
  destruct (remove_empty_dirs_nofault made w HF) as (w1 & E & C1 & F1 & Efs).
  exists w1. split; [exact E|]. constructor; [eapply same_core_trans; eassumption|exact F1| |exact HB|intros m []].
  intro y. cbn [mem_path]. rewrite Efs.
  rewrite (rmdir_all (deepest_first made) [] (w_fs w) (w_fs w) (deepest_first_sdesc made)).
  - cbn [app]. rewrite mem_deepest_first, Hfs. destruct (mem_path y made) eqn:Em; [|reflexivity].
    apply mem_path_In in Em. destruct (Hmade y Em) as [_ [K|K]].
    + rewrite K. destruct (mem_path y B); reflexivity.
    + apply mem_path_In in K. rewrite K. reflexivity.
  - intro z. reflexivity.
  - intros m Hm. cbn [app] in Hm |- *. unfold deepest_first in Hm. apply In_sort_by in Hm.
    destruct (Hmade m Hm) as [Hne Hm0]. split; [|split; [exact Hne|]].
    + rewrite Hfs. replace (mem_path m made) with true; [reflexivity|]. symmetry. apply mem_path_In. exact Hm.
    + intros n Hn. unfold deepest_first. apply In_sort_by. rewrite Hfs in Hn.
      destruct (mem_path (n :: m) made) eqn:E1; [apply mem_path_In; exact E1|]. exfalso.
      destruct (mem_path (n :: m) B); [congruence|].
      destruct (lookup fs0 (n :: m)) as [x|] eqn:El; [|congruence].
      pose proof (W _ _ El) as Hp. cbn [dirname tl] in Hp.
      destruct Hm0 as [K|K]; [congruence|]. destruct (HB m K) as [Kf _]. unfold isfile in Kf. rewrite Hp in Kf. discriminate.
Qed.

Lemma loop_fail_LI : forall (Pd : path -> Prop) ds fs0 w0 made B w w1 e, fs_wf fs0 -> (forall q, In q ds -> Pd q) ->
  LI Pd fs0 w0 w made B -> make_dirs_loop ds made w = (w1, inr e) ->
  exists B', LI Pd fs0 w0 w1 [] B'.
Proof.
  intros Pd. induction ds as [|q ds IH]; intros fs0 w0 made B w w1 e W HP L H; cbn [make_dirs_loop] in H; [discriminate|].
  apply bind_inv in H. destruct H as [[wa [res [E H]]]|[e0 [E _]]].
  2:{ unfold attempt in E. destruct (make_one_dir q w); discriminate. }
  unfold attempt in E. destruct (make_one_dir q w) as [wb rr] eqn:E1. inversion E; subst wb res.
  destruct (make_one_dir_LI Pd fs0 w0 q w made B wa rr L (HP q (or_introl eq_refl)) E1) as (B' & _ & K).
  destruct rr as [[|]|e0].
  - eapply IH; [exact W|intros x Hx; apply HP; right; exact Hx|exact K|exact H].
  - eapply IH; [exact W|intros x Hx; apply HP; right; exact Hx|exact K|exact H].
  - destruct K as [K Hos]. rewrite Hos in H.
    destruct (cleanup_LI Pd fs0 w0 wa made B' W K) as (wc & Ec & Lc).
    apply bind_inv in H. rewrite Ec in H. destruct H as [[wd [u [E2 H]]]|[e' [E2 _]]]; [|discriminate].
    inversion E2; subst wd u. inversion H; subst. exists B'. exact Lc.
Qed.

(* ------------------------------------------------------------------ mkfail_statement *)
Theorem mkfail_holds : mkfail_statement.
Proof.
  intros T w d w1 e HR H. pose proof HR as (HX & HP & HF).
  unfold make_dirs in H. apply bind_inv in H. destruct H as [[wa [ds [Eds H]]]|[e0 [Eds _]]].
  2:{ apply (qrel_RInv T _ _ (dirs_to_make_q _ _ _ _ _ Eds) HR). }
  pose proof (qrel_RInv T _ _ (dirs_to_make_q _ _ _ _ _ Eds) HR) as (HXa & HPa & HFa).
  destruct (dirs_to_make_spec d T w wa ds HX Eds) as [Q I _].
  destruct (qrel_facts _ _ _ HX Q) as (_ & Sa & _ & _).
  apply bind_inv in H. destruct H as [[wb [u [Eloop H]]]|[e0 [Eloop _]]]; [discriminate|].
  set (Pd := fun y : path => vfile wa y = false).
  assert (L0: LI Pd (w_fs wa) wa wa [] []).
  { constructor; [apply same_core_refl|exact HFa|intro y; reflexivity|intros y []|intros m []]. }
  assert (HPd: forall q, In q ds -> Pd q).
  { intros q Hq. unfold Pd. rewrite (same_view_vfile _ _ _ Sa). apply (I q Hq). }
  destruct (loop_fail_LI Pd ds (w_fs wa) wa [] [] wa w1 e0 (bi_wf _ (x_binv _ _ HXa)) HPd L0 Eloop) as (B' & [C F1 Hfs HB _]).
  destruct C as (C1 & C2 & C3 & C4).
  assert (HX1: XInv T (set_fs (w_fs w1) wa)).
  { apply (remove_hidden_files_XInv B' T wa (w_fs w1) HXa).
    - intros y Hy. destruct (HB y Hy) as (A & _ & A3). unfold Pd, vfile in A3. rewrite A in A3. cbn [andb] in A3.
      apply negb_false_iff in A3. split; [exact A3|]. unfold isfile in A. unfold isdir.
      destruct (lookup (w_fs wa) y) as [[g|]|]; try discriminate; reflexivity.
    - intro y. rewrite Hfs. reflexivity. }
  split; [eapply XInv_fields; [exact HX1|..]; cbn; auto|]. split; [|exact F1].
  intros x Hx. apply HPa. rewrite <- C3. exact Hx.
Qed.

Print Assumptions mkfail_holds.
