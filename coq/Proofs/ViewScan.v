(* Proofs/ViewScan.v — C04: soundness of the BuildDirs scan.
   Under BInv, is_removed answers exactly [dead], never runs out of fuel, fails only on
   an absent candidate whose path has an over-long component, and its cache updates
   (handle_dir_exists, moving candidates from bd_maybe to bd_removed) change neither the
   view nor the invariant. *)
From Coq Require Import List String Ascii NArith ZArith Bool Arith Lia.
From FB.Base Require Import PyVal Fs.
From FB.Model Require Import Types Monad CreatedFiles BuildDirs SimpleOps.
From FB.Proofs Require Import FsLemmas CleanLaws JsonLaws CoreLawsChildren ViewDefs ViewLemmas.
Import ListNotations.
Open Scope list_scope.

(* ------------------------------------------------------------------ handle_dir_exists: frame *)
Record hde_frame (b : bdirs) (p : path) (b' : bdirs) : Prop := {
  hf_counts : bd_counts b' = bd_counts b;
  hf_created : bd_created b' = bd_created b;
  hf_err : bd_err_created b' = bd_err_created b;
  hf_removed_sub : forall x, mem_path x (bd_removed b') = true -> mem_path x (bd_removed b) = true;
  hf_removed_del : forall x, mem_path x (bd_removed b) = true -> mem_path x (bd_removed b') = false -> suffix x p;
  hf_maybe_sub : forall x, mem_path x (bd_maybe b') = true -> mem_path x (bd_maybe b) = true;
  hf_maybe_del : forall x, mem_path x (bd_maybe b) = true -> mem_path x (bd_maybe b') = false -> suffix x p;
  hf_rf_sub : forall x, mem_path x (bd_removed_files b') = true -> mem_path x (bd_removed_files b) = true;
  hf_rf_del : forall x, mem_path x (bd_removed_files b) = true -> mem_path x (bd_removed_files b') = false -> suffix x p;
  hf_exists : forall x, mem_path x (bd_exists b') = true -> mem_path x (bd_exists b) = true \/ suffix x p;
  hf_len : List.length (bd_maybe b') <= List.length (bd_maybe b)
}.

Lemma hde_frame_refl : forall b p, hde_frame b p b.
Proof.
  intros b p. constructor; try reflexivity; try (intros; assumption); try (intros; congruence); auto.
Qed.

Lemma hde_frame_step : forall b n d b1 b',
  hde_frame b (n :: d) b1 -> hde_frame b1 d b' -> hde_frame b (n :: d) b'.
Proof.
  intros b n d b1 b' H1 H2. constructor.
  - rewrite (hf_counts _ _ _ H2). apply (hf_counts _ _ _ H1).
  - rewrite (hf_created _ _ _ H2). apply (hf_created _ _ _ H1).
  - rewrite (hf_err _ _ _ H2). apply (hf_err _ _ _ H1).
  - intros x Hx. apply (hf_removed_sub _ _ _ H1), (hf_removed_sub _ _ _ H2), Hx.
  - intros x Hx Hx'. destruct (mem_path x (bd_removed b1)) eqn:E.
    + apply suffix_cons. apply (hf_removed_del _ _ _ H2 x E Hx').
    + apply (hf_removed_del _ _ _ H1 x Hx E).
  - intros x Hx. apply (hf_maybe_sub _ _ _ H1), (hf_maybe_sub _ _ _ H2), Hx.
  - intros x Hx Hx'. destruct (mem_path x (bd_maybe b1)) eqn:E.
    + apply suffix_cons. apply (hf_maybe_del _ _ _ H2 x E Hx').
    + apply (hf_maybe_del _ _ _ H1 x Hx E).
  - intros x Hx. apply (hf_rf_sub _ _ _ H1), (hf_rf_sub _ _ _ H2), Hx.
  - intros x Hx Hx'. destruct (mem_path x (bd_removed_files b1)) eqn:E.
    + apply suffix_cons. apply (hf_rf_del _ _ _ H2 x E Hx').
    + apply (hf_rf_del _ _ _ H1 x Hx E).
  - intros x Hx. destruct (hf_exists _ _ _ H2 x Hx) as [H|H].
    + apply (hf_exists _ _ _ H1 x H).
    + right. apply suffix_cons. exact H.
  - pose proof (hf_len _ _ _ H1). pose proof (hf_len _ _ _ H2). lia.
Qed.

(* one step of either loop: p is marked as existing, and possibly discarded from the three sets *)
Lemma hde_step1 : forall b p,
  hde_frame b p (bd_with b (bd_counts b) (bd_created b) (bd_err_created b) (bd_removed b)
                         (add_path p (bd_exists b)) (bd_maybe b) (bd_removed_files b)).
Proof.
  intros b p. constructor; cbn; try reflexivity; try (intros; assumption); try (intros; congruence); try lia.
  intros x Hx. rewrite mem_add_path in Hx. apply orb_true_iff in Hx. destruct Hx as [Hx|Hx]; [|left; exact Hx].
  right. apply path_eqb_eq in Hx. subst. apply suffix_refl.
Qed.

Lemma del_mem_suffix : forall p x l, mem_path x l = true -> mem_path x (del_path p l) = false -> suffix x p.
Proof.
  intros p x l H1 H2. rewrite mem_del_path, H1, andb_true_r in H2. apply negb_false_iff in H2.
  apply path_eqb_eq in H2. subst. apply suffix_refl.
Qed.

Lemma del_mem_sub : forall p x l, mem_path x (del_path p l) = true -> mem_path x l = true.
Proof. intros p x l H. rewrite mem_del_path in H. apply andb_true_iff in H. tauto. Qed.

Lemma hde_step2 : forall b p,
  hde_frame b p (bd_with b (bd_counts b) (bd_created b) (bd_err_created b) (del_path p (bd_removed b))
                         (add_path p (bd_exists b)) (del_path p (bd_maybe b)) (del_path p (bd_removed_files b))).
Proof.
  intros b p. constructor; cbn; try reflexivity.
  - intros x Hx. eapply del_mem_sub; eassumption.
  - intros x H1 H2. eapply del_mem_suffix; eassumption.
  - intros x Hx. eapply del_mem_sub; eassumption.
  - intros x H1 H2. eapply del_mem_suffix; eassumption.
  - intros x Hx. eapply del_mem_sub; eassumption.
  - intros x H1 H2. eapply del_mem_suffix; eassumption.
  - intros x Hx. rewrite mem_add_path in Hx. apply orb_true_iff in Hx. destruct Hx as [Hx|Hx]; [|left; exact Hx].
    right. apply path_eqb_eq in Hx. subst. apply suffix_refl.
  - apply length_del_path_le.
Qed.

Lemma hde2_frame : forall p b, hde_frame b p (hde2 b p).
Proof.
  induction p as [|n d IH]; intro b; cbn [hde2].
  - destruct (mem_path [] (bd_exists b)); [apply hde_frame_refl|apply hde_step1].
  - destruct (mem_path (n :: d) (bd_exists b)); [apply hde_frame_refl|].
    eapply hde_frame_step; [apply hde_step1|apply IH].
Qed.

Lemma hde_frame_ok : forall p b, hde_frame b p (handle_dir_exists b p).
Proof.
  induction p as [|n d IH]; intro b; cbn [handle_dir_exists].
  - destruct (mem_path [] (bd_exists b) || in_counts b []); [apply hde2_frame|apply hde_step2].
  - destruct (mem_path (n :: d) (bd_exists b) || in_counts b (n :: d)); [apply hde2_frame|].
    eapply hde_frame_step; [apply hde_step2|apply IH].
Qed.

(* ------------------------------------------------------------------ caches relative to a fixed world *)
(* [Rel w P b1]: b1 is a state of the BuildDirs caches that is as good as (w_bd w) for the
   fixed view of w, except that the candidates in P are pending (taken out of bd_maybe by
   a scan in progress, not decided yet). *)
Record Rel (w : world) (P : path -> Prop) (b1 : bdirs) : Prop := {
  rl_counts : bd_counts b1 = bd_counts (w_bd w);
  rl_created : bd_created b1 = bd_created (w_bd w);
  rl_err : bd_err_created b1 = bd_err_created (w_bd w);
  rl_trk_sub : forall x, mem_path x (bd_maybe b1) = true \/ mem_path x (bd_removed b1) = true ->
               mem_path x (bd_maybe (w_bd w)) = true \/ mem_path x (bd_removed (w_bd w)) = true;
  rl_untrk : forall x, trk (w_bd w) x = true -> trk b1 x = false -> dead w x = false \/ P x;
  rl_removed : forall x, mem_path x (bd_removed b1) = true -> isdir (w_fs w) x = true ->
               in_counts (w_bd w) x = true \/ dead w x = true;
  rl_rf_sub : forall a, mem_path a (bd_removed_files b1) = true -> mem_path a (bd_removed_files (w_bd w)) = true;
  rl_rf_keep : forall a, mem_path a (bd_removed_files (w_bd w)) = true -> mem_path a (bd_removed_files b1) = false ->
               ~ (isfile (w_fs w) a = true /\ hid w a = true /\ in_counts (w_bd w) (dirname a) = false);
  rl_exists : forall q x, mem_path q (bd_exists b1) = true -> suffix x q -> dead w x = false
}.

Lemma in_counts_eq : forall b b' x, bd_counts b' = bd_counts b -> in_counts b' x = in_counts b x.
Proof. intros b b' x H. unfold in_counts. rewrite H. reflexivity. Qed.

Lemma Rel_refl : forall w, BInv w -> Rel w (fun _ => False) (w_bd w).
Proof.
  intros w HB. constructor; try reflexivity; auto.
  - intros x H1 H2. congruence.
  - apply (bi_removed _ HB).
  - intros a H1 H2. congruence.
  - apply (bi_exists _ HB).
Qed.

Lemma Rel_weaken : forall w (P P' : path -> Prop) b1,
  (forall x, P x -> dead w x = false \/ P' x) -> Rel w P b1 -> Rel w P' b1.
Proof.
  intros w P P' b1 H R. destruct R. constructor; auto.
  intros x H1 H2. destruct (rl_untrk0 x H1 H2) as [H3|H3]; [left; exact H3|apply H; exact H3].
Qed.

Lemma hid_set_bd : forall b w p, hid (set_bd b w) p = hid w p.
Proof. reflexivity. Qed.

(* the pay-off: when nothing is pending, the caches can be installed *)
Lemma Rel_final : forall w b', BInv w -> Rel w (fun _ => False) b' -> good w (set_bd b' w).
Proof.
  intros w b' HB R. unfold good. rewrite <- and_assoc. split; [|intro H; exact H].
  assert (HD: forall x, dead (set_bd b' w) x = dead w x).
  { unfold dead. cbn [w_fs w_bd set_bd].
    change (hid (set_bd b' w)) with (hid w).
    apply dead_gen_ext.
    - intros x Hx. unfold trk in *. rewrite (in_counts_eq _ _ _ (rl_counts _ _ _ R)) in Hx.
      apply andb_true_iff in Hx. destruct Hx as [H1 H2]. rewrite H2, andb_true_r.
      apply orb_true_iff in H1. apply orb_true_iff. apply (rl_trk_sub _ _ _ R). exact H1.
    - intros x H1 H2. destruct (rl_untrk _ _ _ R x H1 H2) as [H|[]]. exact H. }
  split.
  - constructor; cbn [w_fs w_bd set_bd].
    + apply (bi_wf _ HB).
    + destruct (trk b' []) eqn:T; [|reflexivity]. rewrite <- (bi_root _ HB).
      unfold trk in *. rewrite (in_counts_eq _ _ _ (rl_counts _ _ _ R)) in T.
      apply andb_true_iff in T. destruct T as [T1 T2]. rewrite T2, andb_true_r.
      symmetry. apply orb_true_iff. apply (rl_trk_sub _ _ _ R). apply orb_true_iff. exact T1.
    + intros n d. rewrite !(in_counts_eq _ _ _ (rl_counts _ _ _ R)). apply (bi_counts_up _ HB).
    + intros d Hd Hi. rewrite HD, (in_counts_eq _ _ _ (rl_counts _ _ _ R)). apply (rl_removed _ _ _ R d Hd Hi).
    + intros a H1 H2 H3. rewrite (in_counts_eq _ _ _ (rl_counts _ _ _ R)) in H3.
      change (hid (set_bd b' w) a) with (hid w a).
      apply (bi_rf_hid _ HB a (rl_rf_sub _ _ _ R a H1) H2 H3).
    + intros a H1 H2 H3. rewrite (in_counts_eq _ _ _ (rl_counts _ _ _ R)) in H3.
      change (hid (set_bd b' w) a) with (hid w a) in H2.
      pose proof (bi_hid_rf _ HB a H1 H2 H3) as H4.
      destruct (mem_path a (bd_removed_files b')) eqn:E; [reflexivity|].
      exfalso. apply (rl_rf_keep _ _ _ R a H4 E). auto.
    + intros a d H1 H2. apply (bi_rf_trk _ HB a d (rl_rf_sub _ _ _ R a H1)). apply (rl_trk_sub _ _ _ R). exact H2.
    + intros q x H1 H2. rewrite HD. apply (rl_exists _ _ _ R q x H1 H2).
  - constructor; cbn [w_fs w_bd w_old w_new w_cachefile set_bd]; try reflexivity.
    + apply (rl_counts _ _ _ R).
    + apply (rl_created _ _ _ R).
    + apply (rl_err _ _ _ R).
    + exact HD.
Qed.

(* when handle_dir_exists may be called on p: nothing on the way up is dead, and no hidden
   regular file of an unreserved directory is on the way *)
Definition hde_ok (w : world) (p : path) : Prop :=
  forall x, suffix x p ->
    dead w x = false /\
    ~ (isfile (w_fs w) x = true /\ hid w x = true /\ in_counts (w_bd w) (dirname x) = false).

Lemma trk_false_cases : forall b x, trk b x = false ->
  in_counts b x = true \/ (mem_path x (bd_maybe b) = false /\ mem_path x (bd_removed b) = false).
Proof.
  intros b x H. unfold trk in H. apply andb_false_iff in H. destruct H as [H|H].
  - right. apply orb_false_iff in H. exact H.
  - left. apply negb_false_iff in H. exact H.
Qed.

Lemma trk_true_cases : forall b x, trk b x = true ->
  in_counts b x = false /\ (mem_path x (bd_maybe b) = true \/ mem_path x (bd_removed b) = true).
Proof.
  intros b x H. unfold trk in H. apply andb_true_iff in H. destruct H as [H1 H2].
  apply negb_true_iff in H2. apply orb_true_iff in H1. tauto.
Qed.

Lemma Rel_frame : forall w P b1 p b2, Rel w P b1 -> hde_ok w p -> hde_frame b1 p b2 -> Rel w P b2.
Proof.
  intros w P b1 p b2 R Hok F. constructor.
  - rewrite (hf_counts _ _ _ F). apply (rl_counts _ _ _ R).
  - rewrite (hf_created _ _ _ F). apply (rl_created _ _ _ R).
  - rewrite (hf_err _ _ _ F). apply (rl_err _ _ _ R).
  - intros x [H|H]; apply (rl_trk_sub _ _ _ R); [left; apply (hf_maybe_sub _ _ _ F); exact H|right; apply (hf_removed_sub _ _ _ F); exact H].
  - intros x H1 H2. destruct (trk b1 x) eqn:E; [|apply (rl_untrk _ _ _ R x H1 E)].
    left. apply trk_true_cases in E. destruct E as [E1 E2].
    apply trk_false_cases in H2. rewrite (in_counts_eq _ _ _ (hf_counts _ _ _ F)) in H2.
    destruct H2 as [H2|[H2 H3]]; [congruence|].
    destruct E2 as [E2|E2].
    + apply (Hok x). apply (hf_maybe_del _ _ _ F x E2 H2).
    + apply (Hok x). apply (hf_removed_del _ _ _ F x E2 H3).
  - intros x Hx Hi. apply (rl_removed _ _ _ R); [|exact Hi]. apply (hf_removed_sub _ _ _ F). exact Hx.
  - intros a Ha. apply (rl_rf_sub _ _ _ R). apply (hf_rf_sub _ _ _ F). exact Ha.
  - intros a H1 H2. destruct (mem_path a (bd_removed_files b1)) eqn:E; [|apply (rl_rf_keep _ _ _ R a H1 E)].
    apply (Hok a). apply (hf_rf_del _ _ _ F a E H2).
  - intros q x H1 H2. destruct (hf_exists _ _ _ F q H1) as [H|H].
    + apply (rl_exists _ _ _ R q x H H2).
    + apply (Hok x). eapply suffix_trans; eassumption.
Qed.

Lemma Rel_hde : forall w P b1 p, Rel w P b1 -> hde_ok w p -> Rel w P (handle_dir_exists b1 p).
Proof. intros w P b1 p R H. eapply Rel_frame; [exact R|exact H|apply hde_frame_ok]. Qed.

(* a visible directory, or the directory of anything visible, may be passed to handle_dir_exists *)
Lemma hde_ok_dir : forall w p, fs_wf (w_fs w) -> lookup (w_fs w) p = Some NDir ->
  (forall x, suffix x p -> dead w x = false) -> hde_ok w p.
Proof.
  intros w p Hwf Hp Ha x Hx. split; [apply Ha; exact Hx|].
  intros [H _]. pose proof (wf_suffix_dir _ _ _ Hwf Hp Hx) as Hd. unfold isfile in H. rewrite Hd in H. discriminate.
Qed.

Lemma hde_ok_vdir : forall w p, fs_wf (w_fs w) -> vdir w p = true -> hde_ok w p.
Proof.
  intros w p Hwf H. pose proof (vdir_visible _ _ H) as Hv. unfold vdir in H. apply andb_true_iff in H.
  destruct H as [H _]. apply isdir_lookup in H.
  apply hde_ok_dir; [exact Hwf|exact H|]. intros x Hx. eapply visible_alive_up; eassumption.
Qed.

Lemma hde_ok_parent : forall w n d, fs_wf (w_fs w) -> visible w (n :: d) = true -> hde_ok w d.
Proof.
  intros w n d Hwf Hv. apply hde_ok_dir; [exact Hwf| |].
  - apply (wf_parent_dir _ _ _ Hwf (visible_lexists _ _ Hv)).
  - intros x Hx. eapply visible_alive_up; [exact Hwf|exact Hv|apply suffix_cons; exact Hx].
Qed.

(* a candidate that is, or hangs below, a regular file *)
Definition notdir (fs : fsT) (d : path) : Prop :=
  isfile fs d = true \/ (lookup fs d = None /\ absent_err fs d = ENOTDIR).

Lemma notdir_ok : forall w t, BInv w ->
  (mem_path t (bd_maybe (w_bd w)) = true \/ mem_path t (bd_removed (w_bd w)) = true) ->
  forall d, suffix d t -> notdir (w_fs w) d -> hde_ok w d.
Proof.
  intros w t HB Ht. pose proof (bi_wf _ HB) as Hwf.
  induction d as [|n d IH]; intros Hs Hn.
  - destruct Hn as [Hn|[Hn _]]; [unfold isfile in Hn|]; cbn in Hn; discriminate.
  - assert (Hs': suffix d t). { eapply suffix_trans; [|exact Hs]. apply suffix_cons, suffix_refl. }
    destruct Hn as [Hn|[Hn1 Hn2]].
    + (* n :: d is a regular file *)
      assert (Hnh: ~ (isfile (w_fs w) (n :: d) = true /\ hid w (n :: d) = true /\ in_counts (w_bd w) (dirname (n :: d)) = false)).
      { intros (H1 & H2 & H3). apply (bi_rf_trk _ HB (n :: d) t (bi_hid_rf _ HB _ H1 H2 H3) Ht Hs). }
      assert (Hh: hid w (n :: d) = true \/ hid w (n :: d) = false) by (destruct (hid w (n :: d)); auto).
      destruct Hh as [Hh|Hh].
      * (* hidden: then its directory is reserved, and so are all ancestors *)
        assert (Hc: in_counts (w_bd w) d = true).
        { destruct (in_counts (w_bd w) d) eqn:E; [reflexivity|]. exfalso. apply Hnh. auto. }
        intros x Hx. apply suffix_inv in Hx. destruct Hx as [->|Hx].
        -- split; [apply dead_file; exact Hn|exact Hnh].
        -- split; [apply dead_counts; eapply counts_up_suffix; eassumption|].
           intros [H _]. apply isfile_lookup in Hn. destruct Hn as [f Hf].
           pose proof (wf_suffix_dir _ _ _ Hwf (Hwf _ _ Hf) Hx) as Hd. unfold isfile in H. rewrite Hd in H. discriminate.
      * assert (Hv: visible w (n :: d) = true).
        { unfold visible. apply isfile_lookup in Hn. destruct Hn as [f Hf]. rewrite Hf, Hh. reflexivity. }
        intros x Hx. apply suffix_inv in Hx. destruct Hx as [->|Hx].
        -- split; [apply dead_file; exact Hn|exact Hnh].
        -- apply (hde_ok_parent _ _ _ Hwf Hv x Hx).
    + (* absent, below a regular file *)
      assert (Hn': notdir (w_fs w) d).
      { cbn [absent_err] in Hn2. unfold notdir, isfile.
        destruct (lookup (w_fs w) d) as [[f|]|] eqn:E; [left; reflexivity| |right; auto].
        destruct (name_ok n); discriminate. }
      intros x Hx. apply suffix_inv in Hx. destruct Hx as [->|Hx].
      * split.
        -- apply dead_notdir. unfold isdir. rewrite Hn1. reflexivity.
        -- intros [H _]. unfold isfile in H. rewrite Hn1 in H. discriminate.
      * apply (IH Hs' Hn' x Hx).
Qed.

(* ------------------------------------------------------------------ the scan loop, named *)
Definition scan_loop (rec : bdirs -> path -> scanres) (fs : fsT) (d : path)
  : list name -> bdirs -> scanres :=
  fix loop (ns : list name) (b1 : bdirs) : scanres :=
    match ns with
    | [] => ScanOk (bd_with b1 (bd_counts b1) (bd_created b1) (bd_err_created b1) (add_path d (bd_removed b1))
                            (bd_exists b1) (bd_maybe b1) (bd_removed_files b1)) true
    | n :: rest =>
        let a := n :: d in
        if mem_path a (bd_removed b1) then
          if isfile fs a then ScanOk (handle_dir_exists b1 d) false else loop rest b1
        else if mem_path a (bd_removed_files b1) then
          if isdir fs a then ScanOk (handle_dir_exists b1 a) false else loop rest b1
        else if mem_path a (bd_maybe b1) then
          match rec b1 a with
          | ScanOk b2 true => loop rest b2
          | r => r
          end
        else
          ScanOk (if isdir fs a then handle_dir_exists b1 a else handle_dir_exists b1 d) false
    end.

Definition drop_maybe (b : bdirs) (d : path) : bdirs :=
  bd_with b (bd_counts b) (bd_created b) (bd_err_created b) (bd_removed b)
          (bd_exists b) (del_path d (bd_maybe b)) (bd_removed_files b).
Definition add_removed (b : bdirs) (d : path) : bdirs :=
  bd_with b (bd_counts b) (bd_created b) (bd_err_created b) (add_path d (bd_removed b))
          (bd_exists b) (bd_maybe b) (bd_removed_files b).

Lemma check_maybe_eq : forall f fs b d,
  check_maybe (S f) fs b d =
  match listdir fs d with
  | inr ENOENT => ScanOk (add_removed (drop_maybe b d) d) true
  | inr ENOTDIR => ScanOk (handle_dir_exists (drop_maybe b d) (dirname d)) false
  | inr e => ScanErr (drop_maybe b d) e
  | inl names => scan_loop (check_maybe f fs) fs d names (drop_maybe b d)
  end.
Proof. reflexivity. Qed.

(* pending one more candidate *)
Lemma Rel_drop_maybe : forall w P b1 d, Rel w P b1 -> Rel w (fun x => P x \/ x = d) (drop_maybe b1 d).
Proof.
  intros w P b1 d R. constructor; cbn [drop_maybe bd_with bd_counts bd_created bd_err_created bd_removed bd_exists bd_maybe bd_removed_files];
    try apply R.
  - intros x [H|H]; apply (rl_trk_sub _ _ _ R); [left; eapply del_mem_sub; exact H|right; exact H].
  - intros x H1 H2. destruct (trk b1 x) eqn:E.
    + right. right. unfold trk in E, H2. cbn in H2. unfold in_counts in *. cbn in H2.
      destruct (path_eqb d x) eqn:Ed; [apply path_eqb_eq in Ed; auto|].
      rewrite mem_del_path, Ed in H2. cbn [negb andb] in H2. congruence.
    + destruct (rl_untrk _ _ _ R x H1 E) as [H|H]; auto.
Qed.

(* a pending candidate found dead is filed under bd_removed *)
Lemma Rel_add_removed : forall w (P : path -> Prop) b1 d,
  Rel w (fun x => P x \/ x = d) b1 -> trk (w_bd w) d = true ->
  (isdir (w_fs w) d = true -> dead w d = true) ->
  Rel w P (add_removed b1 d).
Proof.
  intros w P b1 d R Ht Hd.
  apply trk_true_cases in Ht. destruct Ht as [Hc Ht].
  constructor; cbn [add_removed bd_with bd_counts bd_created bd_err_created bd_removed bd_exists bd_maybe bd_removed_files];
    try apply R.
  - intros x [H|H]; [apply (rl_trk_sub _ _ _ R); left; exact H|].
    rewrite mem_add_path in H. apply orb_true_iff in H. destruct H as [H|H].
    + apply path_eqb_eq in H. subst x. exact Ht.
    + apply (rl_trk_sub _ _ _ R). right. exact H.
  - intros x H1 H2.
    assert (E: trk b1 x = false).
    { unfold trk in *. cbn in H2. unfold in_counts in *. cbn in H2. rewrite mem_add_path in H2.
      destruct (match cnt_get (bd_counts b1) x with Some _ => true | None => false end); cbn [negb] in *;
        [rewrite andb_false_r; reflexivity|].
      rewrite andb_true_r in *. apply orb_false_iff in H2. destruct H2 as [H2 H3].
      apply orb_false_iff in H3. destruct H3 as [H3 H4]. rewrite H2, H4. reflexivity. }
    destruct (rl_untrk _ _ _ R x H1 E) as [H|[H|H]]; auto.
    subst x. exfalso. unfold trk in H2. cbn in H2. rewrite mem_add_path, path_eqb_refl in H2.
    unfold in_counts in H2, Hc. cbn in H2. rewrite (rl_counts _ _ _ R) in H2. rewrite Hc in H2.
    rewrite orb_true_r in H2. discriminate.
  - intros x Hx Hi. rewrite mem_add_path in Hx. apply orb_true_iff in Hx. destruct Hx as [Hx|Hx].
    + apply path_eqb_eq in Hx. subst x. right. apply Hd. exact Hi.
    + apply (rl_removed _ _ _ R x Hx Hi).
Qed.

(* ------------------------------------------------------------------ soundness of check_maybe *)
Definition scan_post (w : world) (P : path -> Prop) (b1 : bdirs) (d : path) (res : scanres) : Prop :=
  match res with
  | ScanOk b2 r =>
      (isdir (w_fs w) d = true -> r = dead w d) /\ (isfile (w_fs w) d = true -> r = false) /\
      List.length (bd_maybe b2) <= List.length (bd_maybe b1) /\
      (if r then Rel w P b2 else Rel w (fun _ => False) b2)
  | ScanErr b2 e =>
      lookup (w_fs w) d = None /\ absent_err (w_fs w) d = e /\ e <> ENOENT /\ e <> ENOTDIR /\
      Rel w P b2 /\ dead w d = false
  | ScanFuel => False
  end.

Section Scan.
  Variable w : world.
  Hypothesis HB : BInv w.
  Let fs := w_fs w.
  Let b := w_bd w.

  Lemma alive_clears : forall (P : path -> Prop) d b1,
    (forall x, P x -> suffix x d) -> (forall x, suffix x d -> dead w x = false) ->
    Rel w P b1 -> Rel w (fun _ => False) b1.
  Proof. intros P d b1 HP Ha R. eapply Rel_weaken; [|exact R]. intros x Hx. left. apply Ha, HP, Hx. Qed.

  (* a candidate that is a regular file on disk is a visible file, when its directory is not reserved *)
  Lemma tracked_file_visible : forall a, isfile fs a = true -> in_counts b (dirname a) = false ->
    (mem_path a (bd_maybe b) = true \/ mem_path a (bd_removed b) = true) -> visible w a = true.
  Proof.
    intros a Hf Hc Ht. unfold visible. fold fs. apply isfile_lookup in Hf. destruct Hf as [g Hg]. rewrite Hg.
    destruct (hid w a) eqn:Hh; [|reflexivity]. exfalso.
    assert (Hif: isfile (w_fs w) a = true) by (unfold isfile; fold fs; rewrite Hg; reflexivity).
    apply (bi_rf_trk _ HB a a (bi_hid_rf _ HB _ Hif Hh Hc) Ht). apply suffix_refl.
  Qed.

  Lemma scan_loop_sound : forall f,
    (forall (P : path -> Prop) b1 a, (forall x, P x -> psuffix x a) -> Rel w P b1 -> mem_path a (bd_maybe b1) = true ->
        in_counts b a = false -> List.length (bd_maybe b1) <= f ->
        scan_post w P b1 a (check_maybe f fs b1 a)) ->
    forall (P : path -> Prop) d, (forall x, P x -> psuffix x d) ->
    trk b d = true -> lookup fs d = Some NDir ->
    forall ns b1, (forall n, In n ns -> lexists fs (n :: d) = true) ->
      Rel w (fun x => P x \/ x = d) b1 -> List.length (bd_maybe b1) <= f ->
      ((forall n, In n ns -> invis w (n :: d) = true) -> dead w d = true) ->
      scan_post w P b1 d (scan_loop (check_maybe f fs) fs d ns b1).
  Proof.
    intros f IH P d HP Ht Hd.
    pose proof (bi_wf _ HB) as Hwf.
    destruct (trk_true_cases _ _ Ht) as [Hc Htm].
    assert (Hnf: isfile (w_fs w) d = true -> False).
    { intro H. unfold isfile in H. fold fs in H. rewrite Hd in H. discriminate. }
    assert (HP': forall x, P x \/ x = d -> suffix x d).
    { intros x [Hx | ->]; [apply psuffix_suffix, HP, Hx|apply suffix_refl]. }
    (* a visible entry: the directory is alive and handle_dir_exists is justified *)
    assert (Halive: forall n b1 p, visible w (n :: d) = true -> Rel w (fun x => P x \/ x = d) b1 ->
              (p = d \/ (p = n :: d /\ isdir fs (n :: d) = true)) ->
              scan_post w P b1 d (ScanOk (handle_dir_exists b1 p) false)).
    { intros n b1 p Hv R Hp.
      assert (Hup: forall x, suffix x d -> dead w x = false).
      { intros x Hx. eapply visible_alive_up; [exact Hwf|exact Hv|apply suffix_cons; exact Hx]. }
      cbn [scan_post]. split; [intros _; symmetry; apply Hup, suffix_refl|].
      split; [intros _; reflexivity|].
      split; [apply (hf_len _ _ _ (hde_frame_ok p b1))|].
      apply Rel_hde.
      - eapply alive_clears; [exact HP'|exact Hup|exact R].
      - destruct Hp as [->|[-> Hi]].
        + eapply hde_ok_parent; eassumption.
        + apply hde_ok_vdir; [exact Hwf|]. unfold vdir. fold fs. rewrite Hi. cbn [andb].
          unfold visible in Hv. fold fs in Hv. apply isdir_lookup in Hi. rewrite Hi in Hv. exact Hv. }
    induction ns as [|n rest IHns]; intros b1 Hns R Hlen Hpre.
    - (* every entry is invisible: dead *)
      cbn [scan_loop]. fold (add_removed b1 d).
      assert (Hdead: dead w d = true) by (apply Hpre; intros n []).
      cbn [scan_post]. split; [intros _; symmetry; exact Hdead|]. split; [intro H; destruct (Hnf H)|].
      split; [cbn; lia|].
      apply Rel_add_removed; [exact R|exact Ht|intros _; exact Hdead].
    - cbn [scan_loop]. cbv zeta.
      assert (Hex: lexists fs (n :: d) = true) by (apply Hns; left; reflexivity).
      assert (Hca: in_counts b (n :: d) = false).
      { destruct (in_counts b (n :: d)) eqn:E; [|reflexivity]. apply (bi_counts_up _ HB) in E. fold b in E. congruence. }
      (* continuing after an invisible entry *)
      assert (Hnext: forall b2, invis w (n :: d) = true -> Rel w (fun x => P x \/ x = d) b2 ->
                List.length (bd_maybe b2) <= List.length (bd_maybe b1) ->
                scan_post w P b1 d (scan_loop (check_maybe f fs) fs d rest b2)).
      { intros b2 Hi R2 Hl2.
        assert (G: scan_post w P b2 d (scan_loop (check_maybe f fs) fs d rest b2)).
        { apply IHns; [intros m Hm; apply Hns; right; exact Hm|exact R2|lia|].
          intro Hrest. apply Hpre. intros m [<-|Hm]; [exact Hi|apply Hrest; exact Hm]. }
        destruct (scan_loop (check_maybe f fs) fs d rest b2) as [b3 r|b3 e|]; cbn [scan_post] in *; [|exact G|exact G].
        destruct G as (G1 & G1' & G2 & G3). split; [exact G1|]. split; [exact G1'|]. split; [lia|exact G3]. }
      destruct (mem_path (n :: d) (bd_removed b1)) eqn:E1.
      { destruct (isfile fs (n :: d)) eqn:Ef.
        - (* a regular file where a candidate was: visible *)
          apply (Halive n); [|exact R|left; reflexivity].
          apply tracked_file_visible; [exact Ef|exact Hc|]. apply (rl_trk_sub _ _ _ R). right. exact E1.
        - (* known dead *)
          assert (Hi: isdir (w_fs w) (n :: d) = true).
          { unfold isdir, isfile, lexists in *. fold fs. destruct (lookup fs (n :: d)) as [[g|]|]; try discriminate; reflexivity. }
          destruct (rl_removed _ _ _ R _ E1 Hi) as [H|H]; [fold b in H; congruence|].
          apply Hnext; [|exact R|lia].
          unfold invis, invis_gen. fold fs. apply isdir_lookup in Hi. fold fs in Hi. rewrite Hi. exact H. }
      destruct (mem_path (n :: d) (bd_removed_files b1)) eqn:E2.
      { pose proof (rl_rf_sub _ _ _ R _ E2) as Hrf.
        destruct (isdir fs (n :: d)) eqn:Ei.
        - (* a directory where a previous output was: not a candidate, hence visible *)
          apply (Halive n); [|exact R|right; auto].
          unfold visible. fold fs. apply isdir_lookup in Ei. rewrite Ei.
          rewrite dead_untracked; [reflexivity|].
          destruct (trk (w_bd w) (n :: d)) eqn:T; [|reflexivity]. exfalso.
          apply trk_true_cases in T. destruct T as [_ T].
          apply (bi_rf_trk _ HB _ _ Hrf T). apply suffix_refl.
        - (* a hidden regular file *)
          apply Hnext; [|exact R|lia].
          unfold invis, invis_gen. fold fs. unfold lexists in Hex. unfold isdir in Ei.
          destruct (lookup fs (n :: d)) as [[g|]|] eqn:El; try discriminate.
          apply (bi_rf_hid _ HB _ Hrf); [unfold isfile; fold fs; rewrite El; reflexivity|exact Hc]. }
      destruct (mem_path (n :: d) (bd_maybe b1)) eqn:E3.
      { (* a candidate: recursive scan *)
        assert (G: scan_post w (fun x => P x \/ x = d) b1 (n :: d) (check_maybe f fs b1 (n :: d))).
        { apply IH; [|exact R|exact E3|exact Hca|exact Hlen].
          intros x Hx. apply psuffix_cons. apply HP'. exact Hx. }
        destruct (check_maybe f fs b1 (n :: d)) as [b2 r|b2 e|]; cbn [scan_post] in G.
        - destruct G as (G1 & G1' & G2 & G3).
          assert (Hkind: isdir (w_fs w) (n :: d) = true \/ isfile (w_fs w) (n :: d) = true).
          { unfold isdir, isfile, lexists in *. fold fs. destruct (lookup fs (n :: d)) as [[g|]|]; try discriminate; auto. }
          destruct r.
          + destruct Hkind as [Hi|Hi]; [|specialize (G1' Hi); discriminate].
            apply Hnext; [|exact G3|exact G2].
            unfold invis, invis_gen. pose proof Hi as Hi'. apply isdir_lookup in Hi'. rewrite Hi'.
            symmetry. apply G1. exact Hi.
          + (* alive: then the entry is visible *)
            assert (Hv: visible w (n :: d) = true).
            { destruct Hkind as [Hi|Hi].
              - unfold visible. pose proof Hi as Hi'. apply isdir_lookup in Hi'. rewrite Hi'. rewrite <- (G1 Hi). reflexivity.
              - apply tracked_file_visible; [exact Hi|exact Hc|]. apply (rl_trk_sub _ _ _ R). left. exact E3. }
            cbn [scan_post]. split; [intros _; symmetry; eapply visible_parent_alive; eassumption|].
            split; [intros _; reflexivity|]. split; [exact G2|exact G3].
        - exfalso. destruct G as (G1 & _). unfold lexists in Hex. fold fs in G1. rewrite G1 in Hex. discriminate.
        - contradiction. }
      (* neither a known-dead directory, nor a recorded output, nor a candidate: visible *)
      assert (Hv: visible w (n :: d) = true).
      { unfold visible. fold fs. unfold lexists in Hex.
        destruct (lookup fs (n :: d)) as [[g|]|] eqn:El; try discriminate.
        - destruct (hid w (n :: d)) eqn:Hh; [|reflexivity]. exfalso.
          assert (Hif: isfile (w_fs w) (n :: d) = true) by (unfold isfile; fold fs; rewrite El; reflexivity).
          pose proof (bi_hid_rf _ HB _ Hif Hh Hc) as Hrf.
          apply (rl_rf_keep _ _ _ R _ Hrf E2). auto.
        - destruct (trk (w_bd w) (n :: d)) eqn:T; [|rewrite dead_untracked; [reflexivity|exact T]].
          assert (T1: trk b1 (n :: d) = false).
          { unfold trk. rewrite E3, E1. reflexivity. }
          destruct (rl_untrk _ _ _ R _ T T1) as [H|H]; [rewrite H; reflexivity|]. exfalso.
          apply HP' in H. apply suffix_length in H. simpl in H. lia. }
      destruct (isdir fs (n :: d)) eqn:Ei.
      + apply (Halive n); [exact Hv|exact R|right; auto].
      + apply (Halive n); [exact Hv|exact R|left; reflexivity].
  Qed.

  Lemma check_maybe_sound : forall f (P : path -> Prop) b1 d,
    (forall x, P x -> psuffix x d) -> Rel w P b1 -> mem_path d (bd_maybe b1) = true ->
    in_counts b d = false -> List.length (bd_maybe b1) <= f ->
    scan_post w P b1 d (check_maybe f fs b1 d).
  Proof.
    induction f as [|f IH]; intros P b1 d HP R Hm Hc Hlen.
    - exfalso. destruct (bd_maybe b1); [discriminate|simpl in Hlen; lia].
    - rewrite check_maybe_eq.
      assert (Ht: trk b d = true).
      { unfold trk. fold b in Hc. rewrite Hc, andb_true_r. apply orb_true_iff.
        apply (rl_trk_sub _ _ _ R). left. exact Hm. }
      pose proof (Rel_drop_maybe _ _ _ d R) as R0.
      assert (Hl0: List.length (bd_maybe (drop_maybe b1 d)) <= f).
      { cbn. pose proof (length_del_path_lt _ _ Hm). lia. }
      assert (Hl0': List.length (bd_maybe (drop_maybe b1 d)) <= List.length (bd_maybe b1)).
      { cbn. apply length_del_path_le. }
      assert (HP': forall x, P x \/ x = d -> suffix x d).
      { intros x [Hx | ->]; [apply psuffix_suffix, HP, Hx|apply suffix_refl]. }
      (* ENOTDIR: the candidate is, or hangs below, a regular file *)
      assert (Hnotdir: notdir fs d ->
                scan_post w P b1 d (ScanOk (handle_dir_exists (drop_maybe b1 d) (dirname d)) false)).
      { intro Hn.
        assert (Hok: hde_ok w d).
        { apply (notdir_ok w d HB); [apply (rl_trk_sub _ _ _ R); left; exact Hm|apply suffix_refl|exact Hn]. }
        cbn [scan_post]. split; [intros _; symmetry; apply (Hok d (suffix_refl d))|].
        split; [intros _; reflexivity|].
        split; [pose proof (hf_len _ _ _ (hde_frame_ok (dirname d) (drop_maybe b1 d))); lia|].
        apply Rel_hde.
        * eapply alive_clears; [exact HP'|intros x Hx; apply (Hok x Hx)|exact R0].
        * intros x Hx. apply Hok. destruct d as [|m d']; [exact Hx|apply suffix_cons; exact Hx]. }
      unfold listdir. destruct (lookup fs d) as [[g|]|] eqn:El.
      + apply Hnotdir. left. unfold isfile. rewrite El. reflexivity.
      + (* a directory: scan the entries *)
        assert (G: scan_post w P (drop_maybe b1 d) d (scan_loop (check_maybe f fs) fs d (children fs d) (drop_maybe b1 d))).
        { apply scan_loop_sound; try assumption.
          - intros n Hn. apply children_In. exact Hn.
          - intro Hall. rewrite dead_unfold. fold fs b. rewrite Ht, El. cbn [andb].
            apply forallb_forall. exact Hall. }
        destruct (scan_loop (check_maybe f fs) fs d (children fs d) (drop_maybe b1 d)) as [b2 r|b2 e|];
          cbn [scan_post] in *; [|exact G|exact G].
        destruct G as (G1 & G1' & G2 & G3). split; [exact G1|]. split; [exact G1'|]. split; [lia|exact G3].
      + unfold stat_err.
        assert (Hnd: isdir (w_fs w) d = false) by (unfold isdir; fold fs; rewrite El; reflexivity).
        assert (Hnf: isfile (w_fs w) d = false) by (unfold isfile; fold fs; rewrite El; reflexivity).
        assert (Hcases: forall e, absent_err fs d = e ->
                  scan_post w P b1 d (match e with
                     | ENOENT => ScanOk (add_removed (drop_maybe b1 d) d) true
                     | ENOTDIR => ScanOk (handle_dir_exists (drop_maybe b1 d) (dirname d)) false
                     | _ => ScanErr (drop_maybe b1 d) e end)).
        { intros e He.
          assert (Herr: e <> ENOENT -> e <> ENOTDIR -> scan_post w P b1 d (ScanErr (drop_maybe b1 d) e)).
          { intros N1 N2. cbn [scan_post]. split; [exact El|]. split; [exact He|]. split; [exact N1|]. split; [exact N2|]. split.
            - eapply Rel_weaken; [|exact R0]. intros x [Hx | ->].
              + right. exact Hx.
              + left. apply dead_notdir. exact Hnd.
            - apply dead_notdir. exact Hnd. }
          destruct e; try (apply Herr; discriminate).
          - (* ENOENT: removed *)
            cbn [scan_post]. split; [intro H; congruence|]. split; [intro H; congruence|]. split; [cbn in *; lia|].
            apply Rel_add_removed; [exact R0|exact Ht|intro H; congruence].
          - (* ENOTDIR: below a regular file *)
            apply Hnotdir. right. auto. }
        specialize (Hcases _ eq_refl).
        destruct (absent_err fs d); exact Hcases.
  Qed.

  (* -------------------------------------------------------------- is_removed *)
  Theorem is_removed_sound : forall d,
    match is_removed fs b d with
    | ScanOk b' r => (isdir fs d = true -> r = dead w d) /\ good w (set_bd b' w)
    | ScanErr b' e =>
        lookup fs d = None /\ absent_err fs d = EOTHER /\ e = EOTHER /\ path_ok d = false /\
        mem_path d (bd_maybe b) = true /\ good w (set_bd b' w)
    | ScanFuel => False
    end.
  Proof.
    intro d. unfold is_removed.
    assert (Hsame: good w (set_bd b w)).
    { apply Rel_final; [exact HB|apply Rel_refl; exact HB]. }
    destruct (in_counts b d) eqn:Ec.
    { split; [intros _; symmetry; apply dead_counts; exact Ec|exact Hsame]. }
    destruct (mem_path d (bd_removed b)) eqn:Er.
    { split; [|exact Hsame]. intro Hi. destruct (bi_removed _ HB d Er Hi) as [H|H]; [fold b in H; congruence|symmetry; exact H]. }
    destruct (mem_path d (bd_maybe b)) eqn:Em; cbn [negb].
    2:{ split; [|exact Hsame]. intros _. symmetry. apply dead_untracked. unfold trk. fold b. rewrite Em, Er. reflexivity. }
    pose proof (check_maybe_sound (S (List.length (bd_maybe b))) (fun _ => False) b d) as G.
    assert (G': scan_post w (fun _ => False) b d (check_maybe (S (List.length (bd_maybe b))) fs b d)).
    { apply G; [intros x []|apply Rel_refl; exact HB|exact Em|exact Ec|lia]. }
    destruct (check_maybe (S (List.length (bd_maybe b))) fs b d) as [b2 r|b2 e|]; cbn [scan_post] in G'.
    - destruct G' as (G1 & _ & _ & G3). split; [exact G1|].
      apply Rel_final; [exact HB|]. destruct r; exact G3.
    - destruct G' as (G1 & G2 & G3 & G4 & G5 & _).
      assert (He: e = EOTHER).
      { fold fs in G2. destruct (absent_err_cases fs d) as [H|[H|H]]; rewrite G2 in H; [contradiction|contradiction|exact H]. }
      rewrite He in G2. split; [exact G1|]. split; [exact G2|]. split; [exact He|]. split; [|split; [reflexivity|]].
      + destruct (path_ok d) eqn:Ep; [|reflexivity]. exfalso. apply (absent_err_path_ok fs d Ep). exact G2.
      + apply Rel_final; [exact HB|exact G5].
    - contradiction.
  Qed.
End Scan.

(* handle_dir_exists on a justified path: the view and the invariant stay *)
Lemma hde_good : forall w p, BInv w -> hde_ok w p -> good w (set_bd (handle_dir_exists (w_bd w) p) w).
Proof.
  intros w p HB H. apply Rel_final; [exact HB|]. apply Rel_hde; [apply Rel_refl; exact HB|exact H].
Qed.

(* the lifted routine of SimpleOps *)
Theorem m_is_removed_sound : forall w d, BInv w ->
  exists w', good w w' /\
    ((exists r, m_is_removed d w = (w', inl r) /\ (isdir (w_fs w) d = true -> r = dead w d)) \/
     (m_is_removed d w = (w', inr (XOS XOSError)) /\ lookup (w_fs w) d = None /\ path_ok d = false)).
Proof.
  intros w d HB. pose proof (is_removed_sound w HB d) as H. unfold m_is_removed.
  destruct (is_removed (w_fs w) (w_bd w) d) as [b' r|b' e|].
  - destruct H as [H1 H2]. exists (set_bd b' w). split; [exact H2|]. left. exists r. split; [reflexivity|exact H1].
  - destruct H as (H1 & H2 & H3 & H4 & H5 & H6). exists (set_bd b' w). split; [exact H6|]. right.
    subst e. auto.
  - contradiction.
Qed.

Print Assumptions is_removed_sound.
Print Assumptions m_is_removed_sound.
