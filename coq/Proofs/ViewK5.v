(* Proofs/ViewK5.v — C04, the link to Core, part 5: view equations.  What the view of the
   mechanism world becomes when (1) the regular file of a live, hidden target changes (the
   function writes; the old file is moved away; a failed output is removed): nothing;
   (2) the claim on a path changes (started / finished / aborted): at most the entry of that
   path.  With these: the Write step of the simulation (Core keeps the bytes pending).    *)
From Coq Require Import List String Ascii NArith ZArith Bool Arith Lia.
From FB.Base Require Import PyVal Fs.
From FB.Gen Require Import JsonUtilGen.
From FB.Spec Require Import Prog Ref Oracle Faithful.
From FB.Model Require Import Types Monad CreatedFiles BuildDirs SimpleOps Builder Persist Build Run Frame Core CoreOracle.
From FB.Proofs Require Import FsLemmas CleanLaws JsonLaws CoreLawsChildren ReplayLaws FrameLaws CoreLaws1
     ViewDefs ViewLemmas ViewScan ViewQueries ViewAnswers ViewInit ViewPres ViewFrame
     ViewXDefs ViewXFrame ViewXQuery ViewXSteps ViewXMake1 ViewXFail ViewXRun ViewK1 ViewK2 ViewK3 ViewK4.
Import ListNotations.
Open Scope list_scope.

Lemma visible_invis : forall w a, visible w a = negb (invis w a).
Proof.
  intros w a. unfold visible. rewrite invis_unfold. destruct (lookup (w_fs w) a) as [[f|]|]; reflexivity.
Qed.

Lemma lookup_view_invis : forall w a, a <> [] ->
  lookup (view_fs w) a = if invis w a then None else lookup (w_fs w) a.
Proof. intros w a Ha. rewrite (lookup_view w a Ha), visible_invis. destruct (invis w a); reflexivity. Qed.

(* ------------------------------------------------------------------ (1) the file of a hidden live target changes *)
Theorem view_target_change : forall T w p fs',
  XInv T w -> In p T -> hid w p = true -> fs_wf fs' ->
  (forall q, q <> p -> lookup fs' q = lookup (w_fs w) q) ->
  isdir (w_fs w) p = false -> isdir fs' p = false ->
  forall a, lookup (view_fs (set_fs fs' w)) a = lookup (view_fs w) a.
Proof.
  intros T w p fs' HX Hin Hh Hwf Hoth Hd1 Hd2 a. pose proof (x_binv _ _ HX) as HB.
  pose proof (X_target_parent _ _ _ HX Hin) as Hc.
  destruct (target_change_BInv w p fs' HB Hc Hwf Hoth Hd1 Hd2) as [HB' Hdead].
  destruct a as [|m q]; [reflexivity|].
  rewrite !lookup_view_invis by discriminate. rewrite !invis_unfold. cbn [w_fs set_fs].
  destruct (list_eq_dec string_dec (m :: q) p) as [E|E].
  - rewrite E. assert (Hh': hid (set_fs fs' w) p = true) by exact Hh.
    unfold isdir in Hd1, Hd2.
    destruct (lookup fs' p) as [[g|]|]; [rewrite Hh'|discriminate|];
      (destruct (lookup (w_fs w) p) as [[g'|]|]; [rewrite Hh|discriminate|]); reflexivity.
  - rewrite (Hoth _ E), Hdead. reflexivity.
Qed.

Corollary view_write_target : forall T w p bytes j m i fs',
  XInv T w -> In p T -> hid w p = true -> write_file (w_fs w) p bytes j m i = inl fs' ->
  forall a, lookup (view_fs (set_fs fs' w)) a = lookup (view_fs w) a.
Proof.
  intros T w p bytes j m i fs' HX Hin Hh H. pose proof (x_binv _ _ HX) as HB.
  destruct (write_file_frame _ _ _ _ _ _ _ H) as [[f [Hf _]] Hoth].
  assert (Hnd: isdir (w_fs w) p = false).
  { unfold write_file in H. destruct p as [|n d]; [discriminate|]. unfold isdir.
    destruct (lookup (w_fs w) (n :: d)) as [[g|]|]; try reflexivity. discriminate. }
  apply (view_target_change T w p fs' HX Hin Hh); auto.
  - apply (wf_write_file _ _ _ _ _ _ _ (bi_wf _ HB) H).
  - unfold isdir. rewrite Hf. reflexivity.
Qed.

(* ------------------------------------------------------------------ (2) the claim on a path changes *)
Section ClaimChange.
  Variables (T : list path) (w : world) (p : path) (c' : cache).
  Hypothesis HX : XInv T w.
  Hypothesis Hp : In p T \/ isfile (w_fs w) p = false.
  Hypothesis Hf : forall a, a <> p -> files_get (c_files c') a = files_get (c_files (w_new w)) a.

  Let w' := set_new c' w.

  Lemma cc_Hh : forall a, isfile (w_fs w) a = true -> hid w' a = hid w a \/ (a = p /\ In p T).
  Proof.
    intros a Ha. destruct (path_eqb a p) eqn:E.
    - apply path_eqb_eq in E. subst a. destruct Hp as [K|K]; [right; auto|congruence].
    - left. apply path_eqb_neq in E. unfold hid, cache_has_file, cache_get_file. cbn [w' w_new w_old w_cachefile set_new].
      rewrite (Hf a E). reflexivity.
  Qed.

  (* every other entry of the view is the same *)
  Lemma view_claim_other : forall a, a <> p -> lookup (view_fs w') a = lookup (view_fs w) a.
  Proof.
    intros a Ha. destruct a as [|m q]; [reflexivity|].
    rewrite !lookup_view_invis by discriminate.
    rewrite (hc_invis T w w' p HX eq_refl eq_refl cc_Hh (m :: q) (or_introl Ha)). reflexivity.
  Qed.

  (* the entry of p: a regular file there is shown iff it is not hidden now; a directory is as before *)
  Lemma view_claim_at : p <> [] ->
    lookup (view_fs w') p =
    match lookup (w_fs w) p with
    | Some (NFile f) => if hid w' p then None else Some (NFile f)
    | _ => lookup (view_fs w) p
    end.
  Proof.
    intro Hne. rewrite !lookup_view_invis by exact Hne. rewrite !invis_unfold. cbn [w' w_fs set_new].
    destruct (lookup (w_fs w) p) as [[f|]|] eqn:El; try reflexivity.
    rewrite (hc_dead T w w' p HX eq_refl eq_refl cc_Hh). reflexivity.
  Qed.
End ClaimChange.

(* ------------------------------------------------------------------ the Write step *)
Lemma stale_same_at_claimed : forall w p fs', cache_has_file (w_new w) p = true ->
  (match lookup fs' p with
   | Some (NFile f) => if cache_created_file (w_old w) p && negb (cache_has_file (w_new w) p) then Some f else None
   | _ => None
   end : option fnode) =
  match lookup (w_fs w) p with
  | Some (NFile f) => if cache_created_file (w_old w) p && negb (cache_has_file (w_new w) p) then Some f else None
  | _ => None
  end.
Proof.
  intros w p fs' H. rewrite H. cbn [negb]. rewrite andb_false_r.
  destruct (lookup fs' p) as [[f|]|]; destruct (lookup (w_fs w) p) as [[g|]|]; reflexivity.
Qed.

Theorem sim3_write : forall T W w s p c fs',
  Sim3 W w s -> RInv T w -> In p T -> files_get (c_files (w_new w)) p = Some None ->
  write_file (w_fs w) p c None (N.succ (w_clock w)) (w_nextid w) = inl fs' ->
  let w' := set_clock (N.succ (w_clock w)) (N.succ (w_nextid w)) (set_fs fs' w) in
  let s' := ks_with s (k_fs s) (k_stale s) (k_claimedF s) (k_claimedS s) (k_need s) (k_made s)
                    (N.succ (k_clock s)) (k_nextid s) (k_log s) (k_newF s) (k_newS s) in
  Sim3 W w' s' /\ RInv T w' /\ pend_rel (Some p) (Some c) w'.
Proof.
  intros T W w s p c fs' HS HR Hin Hprog Ew w' s'. pose proof (RInv_X _ _ HR) as HX.
  assert (Hh: hid w p = true).
  { unfold hid, cache_has_file, cache_get_file. rewrite Hprog. cbn. apply orb_true_r. }
  assert (Hclaimed: cache_has_file (w_new w) p = true) by (unfold cache_has_file; rewrite Hprog; reflexivity).
  pose proof (view_write_target T w p _ _ _ _ _ HX Hin Hh Ew) as Hview.
  destruct (write_file_frame _ _ _ _ _ _ _ Ew) as [[f [Hf [Hb _]]] Hoth].
  split; [|split].
  - destruct HS as [S1 S2 S3 S4 S5 S6 S7 S8 S9 S10].
    constructor; cbn [s' w' ks_with k_fs k_cachefile k_old k_vers k_claimedF k_claimedS k_log k_newF k_newS k_stale
                         w_cachefile w_old w_new w_log w_fs set_clock set_fs]; try assumption.
    + intro a. specialize (S1 a). change (view_fs w') with (view_fs (set_fs fs' w)). rewrite (Hview a). exact S1.
    + intro a. rewrite (S10 a). destruct (list_eq_dec string_dec a p) as [->|Hne].
      * symmetry. apply (stale_same_at_claimed w p fs' Hclaimed).
      * rewrite (Hoth a Hne). reflexivity.
  - destruct HR as (HX0 & HP & HF).
    pose proof (write_target_XInv T w p _ _ _ _ _ HX0 Hin Ew) as HX'.
    split; [eapply XInv_fields; [exact HX'|..]; reflexivity|]. split; [exact HP|exact HF].
  - cbn [pend_rel w' w_new w_fs set_clock set_fs]. split; [exact Hprog|]. exists f. split; [exact Hf|exact Hb].
Qed.

Print Assumptions view_target_change.
Print Assumptions view_claim_other.
Print Assumptions sim3_write.
