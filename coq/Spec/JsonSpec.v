(* Spec/JsonSpec.v — what "JSON value", "sanitized" and "sanitized up to tuples"
   mean, as boolean predicates on the value universe (json_util.py class
   docstring). No reference to the generated functions. *)
From Coq Require Import List String ZArith Bool Arith.
From FB.Base Require Import PyVal.
Import ListNotations.

Definition is_pstr (v : pyval) : bool := match v with PStr _ => true | _ => false end.

Fixpoint str_mem (s : string) (l : list string) : bool :=
  match l with [] => false | x :: r => String.eqb s x || str_mem s r end.

Fixpoint str_nodup (l : list string) : bool :=
  match l with [] => true | x :: r => negb (str_mem x r) && str_nodup r end.

(* keys json.dumps accepts: str, int, float, bool, None *)
Definition json_key (k : pyval) : bool :=
  match k with
  | PStr _ | PInt _ | PBool _ | PNone | PFloat _ => true
  | _ => false
  end.

(* any value json.dumps accepts (no NaN in the universe): tuples allowed,
   keys of the five scalar kinds *)
Fixpoint jsonable (v : pyval) : bool :=
  match v with
  | PNone | PBool _ | PInt _ | PStr _ | PFloat _ => true
  | PList l | PTuple l => forallb jsonable l
  | PDict d => forallb (fun kv => json_key (fst kv) && jsonable (snd kv)) d
  | POther _ => false
  end.

(* possible results of json.loads(json.dumps(_)); [tuples] allows tuples in
   place of lists (the precondition of is_equal) *)
Fixpoint sanitized_gen (tuples : bool) (v : pyval) : bool :=
  match v with
  | PNone | PBool _ | PInt _ | PStr _ | PFloat _ => true
  | PList l => forallb (sanitized_gen tuples) l
  | PTuple l => tuples && forallb (sanitized_gen tuples) l
  | PDict d =>
      forallb (fun kv => is_pstr (fst kv) && sanitized_gen tuples (snd kv)) d
      && str_nodup (map (fun kv => key_str (fst kv)) d)
  | POther _ => false
  end.

Definition sanitized := sanitized_gen false.
Definition sanitized_t := sanitized_gen true.

(* every float inside the value is in canonical form (odd mantissa): the
   well-formedness of the value universe, needed where two floats must be
   compared through an int (transitivity) *)
Fixpoint pv_wf (v : pyval) : bool :=
  match v with
  | PFloat f => fl_wf f
  | PList l | PTuple l => forallb pv_wf l
  | PDict d => forallb (fun kv => pv_wf (fst kv) && pv_wf (snd kv)) d
  | _ => true
  end.
