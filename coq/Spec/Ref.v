(* Spec/Ref.v — the reference ("from scratch") semantics of a build, DESIGN.md
   appendix A: remove what the previous build made, then run every function
   with no cache on a plain tree.  No counters, no overlay, no records. *)
From Coq Require Import List String NArith ZArith Bool Arith.
From FB.Base Require Import PyVal Fs.
From FB.Gen Require Import JsonUtilGen.
From FB.Spec Require Import Prog.
From FB.Model Require Import Types.
Import ListNotations.
Open Scope list_scope.

(* what the previous committed build left behind, as recorded *)
Record prev := { pv_name : string; pv_outputs : list path; pv_dirs : list path }.

(* textual form of a path (components joined with "/") *)
Definition path_text (p : path) : string :=
  fold_left (fun acc n => (acc ++ "/" ++ n)%string) (rev p) ""%string.

(* "deepest first": any order in which a directory comes after everything below
   it would do; the linearisation used is the one of the code (longest text
   first, ties in list order) *)
Definition plen (p : path) : nat := String.length (path_text p).
Definition deepest_first (l : list path) : list path := sort_by (fun a b => Nat.leb (plen b) (plen a)) l.

Definition try_remove (fs : fsT) (p : path) : fsT :=
  if isfile fs p then match remove fs p with inl fs' => fs' | inr _ => fs end else fs.
Definition try_rmdir (fs : fsT) (p : path) : fsT :=
  match rmdir fs p with inl fs' => fs' | inr _ => fs end.

(* ref_clean: outputs that are regular files, the cache file, then the recorded
   directories that are empty, deepest first *)
Definition ref_clean (fs : fsT) (cachefile : path) (pv : prev) : fsT :=
  let fs1 := fold_left try_remove (pv_outputs pv) fs in
  let fs2 := try_remove fs1 cachefile in
  fold_left try_rmdir (deepest_first (pv_dirs pv)) fs2.

(* ---- answers on a plain tree ---- *)
Definition names_val (l : list name) : pyval := PList (map PStr l).

Fixpoint ref_walk (fuel : nat) (fs : fsT) (d : path) (top_down : bool) : list pyval :=
  match fuel with
  | O => []
  | S f =>
      let ns := children fs d in
      let subdirs := filter (fun n => isdir fs (n :: d)) ns in
      let subfiles := filter (fun n => isfile fs (n :: d)) ns in
      let entry := PTuple [PStr (path_text d); names_val subdirs; names_val subfiles] in
      let below := flat_map (fun n => ref_walk f fs (n :: d) top_down) subdirs in
      if top_down then entry :: below else below ++ [entry]
  end.

Definition spec_answer_raw (fs : fsT) (q : query) : pyval + errclass :=
  match q with
  | QExists p => inl (PBool (lexists fs p))
  | QIsFile p => inl (PBool (isfile fs p))
  | QIsDir p => inl (PBool (isdir fs p))
  | QListDir p =>
      match lookup fs p with
      | Some NDir => inl (names_val (children fs p))
      | Some (NFile _) => inr XNotADirectory
      | None => inr XFileNotFound
      end
  | QWalk p td => inl (PList (if isdir fs p then ref_walk 32 fs p td else []))
  | QGetSize p =>
      match lookup fs p with
      | Some (NFile f) => inl (PInt (Z.of_nat (String.length (f_bytes f))))
      | Some NDir => inl (PInt (-1))
      | None => inr XFileNotFound
      end
  | QRead p _ =>
      match lookup fs p with
      | Some (NFile f) => inl (PStr (f_bytes f))
      | Some NDir => inr XIsADirectory
      | None => inr XFileNotFound
      end
  end.

Definition spec_query_path (q : query) : path :=
  match q with
  | QExists p | QIsFile p | QIsDir p | QListDir p | QWalk p _ | QGetSize p | QRead p _ => p
  end.

(* the OSError subclass for a path with an over-long component is unspecified *)
Definition spec_answer (fs : fsT) (q : query) : pyval + errclass :=
  match spec_answer_raw fs q with
  | inr c => if path_ok (spec_query_path q) then inr c else inr XOSError
  | r => r
  end.

(* ---- state of a reference build ---- *)
Record rstate := {
  r_fs : fsT;                       (* T: the visible tree *)
  r_claimedF : list path;
  r_claimedS : list pyval;
  r_need : list path;               (* targets done or in progress (a multiset is not needed: claims are unique) *)
  r_made : list path;               (* directories created for targets *)
  r_clock : N;
  r_nextid : N;
  r_log : list logentry;            (* newest first *)
  r_cachefile : path;
}.

Definition rs_with (s : rstate) fs cf cs need made clock nextid lg : rstate :=
  {| r_fs := fs; r_claimedF := cf; r_claimedS := cs; r_need := need; r_made := made;
     r_clock := clock; r_nextid := nextid; r_log := lg; r_cachefile := r_cachefile s |}.

Definition rlog (e : logentry) (s : rstate) : rstate :=
  rs_with s (r_fs s) (r_claimedF s) (r_claimedS s) (r_need s) (r_made s) (r_clock s) (r_nextid s) (e :: r_log s).

(* is p a proper prefix (ancestor) of q? *)
Fixpoint is_ancestor (p q : path) : bool :=
  match q with
  | [] => false
  | _ :: d => path_eqb d p || is_ancestor p d
  end.

(* missing ancestors of p, outermost first; error if the nearest existing
   ancestor is a regular file or the cache file path *)
Fixpoint missing_dirs (fs : fsT) (cachefile : path) (d : path) : list path + errclass :=
  match lookup fs d with
  | Some NDir => inl []
  | Some (NFile _) => inr XNotADirectory
  | None =>
      if path_eqb d cachefile then inr XNotADirectory else
      match d with
      | [] => inl []
      | _ :: up =>
          match missing_dirs fs cachefile up with
          | inl l => inl (l ++ [d])
          | inr e => inr e
          end
      end
  end.

Definition mkdir_all (fs : fsT) (l : list path) : fsT + oserr :=
  fold_left (fun acc d => match acc with inl f => mkdir f d | inr e => inr e end) l (inl fs).

(* remove the directories made for a failed target that nothing else needs *)
Definition prune_made (s : rstate) (p : path) : rstate :=
  let need := del_path p (r_need s) in
  let dead := filter (fun d => is_ancestor d p && negb (existsb (is_ancestor d) need)) (r_made s) in
  let fs' := fold_left try_rmdir (deepest_first dead) (r_fs s) in
  rs_with s fs' (r_claimedF s) (r_claimedS s) need
          (filter (fun d => negb (mem_path d dead)) (r_made s)) (r_clock s) (r_nextid s) (r_log s).

Definition meta_result (f : fnode) : unit := tt.

(* [pending]: what the innermost build_file function has written so far *)
Fixpoint ref_run (pr : prog) (target : option path) (pending : option string) (s : rstate) {struct pr}
  : rstate * (outcome * option string) :=
  match pr with
  | Ret v => (s, (inl v, pending))
  | Raise e => (s, (inr e, pending))
  | Ask stale q k =>
      if stale then ref_run (k (inr (XRuntime RFinished))) target pending s else
      match spec_answer (r_fs s) q with
      | inl v => ref_run (k (inl v)) target pending (rlog (LAnswer q (inl v)) s)
      | inr c => ref_run (k (inr (XOS c))) target pending (rlog (LAnswer q (inr c)) s)
      end
  | Write c k =>
      match target with
      | None => ref_run k target pending s
      | Some p =>
          if path_ok p then
            ref_run k target (Some c)
                    (rs_with s (r_fs s) (r_claimedF s) (r_claimedS s) (r_need s) (r_made s)
                             (N.succ (r_clock s)) (r_nextid s) (r_log s))
          else (s, (inr (XOS XOSError), pending))
      end
  | BuildFile stale p c fname a kw fn k =>
      if stale then ref_run (k (inr (XRuntime RFinished))) target pending s else
      match sanitize a, sanitize kw with
      | Some sa, Some skw =>
          if mem_path p (r_claimedF s) then ref_run (k (inr (XRuntime RDupFile))) target pending s else
          if path_eqb p (r_cachefile s) then ref_run (k (inr (XRuntime RCacheFileTarget))) target pending s else
          if isdir (r_fs s) p then ref_run (k (inr (XOS XIsADirectory))) target pending s else
          match missing_dirs (r_fs s) (r_cachefile s) (dirname p) with
          | inr c' => ref_run (k (inr (XOS c'))) target pending s
          | inl dirs =>
              match mkdir_all (r_fs s) dirs with
              | inr e => ref_run (k (inr (XOS (err_of e)))) target pending s
              | inl fs1 =>
                  let fs2 := try_remove fs1 p in
                  let s1 := rlog (LInvoke fname (Some p) sa skw)
                                 (rs_with s fs2 (p :: r_claimedF s) (r_claimedS s) (p :: r_need s)
                                          (r_made s ++ dirs) (r_clock s) (r_nextid s) (r_log s)) in
                  let '(s2, (res, pend)) := ref_run (fn p sa skw) (Some p) None s1 in
                  let fail (e : exn) := ref_run (k (inr e)) target pending (prune_made s2 p) in
                  match res with
                  | inr e => fail e
                  | inl v =>
                      match sanitize v with
                      | None => fail XType
                      | Some sv =>
                          match pend with
                          | None => fail (if path_ok p then XRuntime RNotCreated else XOS XOSError)   (* over-long name: class unspecified *)
                          | Some bytes =>
                              match write_file (r_fs s2) p bytes None (r_clock s2) (r_nextid s2) with
                              | inl fs3 =>
                                  ref_run (k (inl sv)) target pending
                                          (rs_with s2 fs3 (r_claimedF s2) (r_claimedS s2) (r_need s2) (r_made s2)
                                                   (r_clock s2) (N.succ (r_nextid s2)) (r_log s2))
                              | inr e => fail (XOS (err_of e))
                              end
                          end
                      end
                  end
              end
          end
      | _, _ => ref_run (k (inr XType)) target pending s
      end
  | Subbuild stale fname a kw fn k =>
      if stale then ref_run (k (inr (XRuntime RFinished))) target pending s else
      match sanitize a, sanitize kw with
      | Some sa, Some skw =>
          let key := to_hashable (PList [PStr fname; sa; skw]) in
          if existsb (py_eq key) (r_claimedS s) then ref_run (k (inr (XRuntime RDupSubbuild))) target pending s else
          let s1 := rlog (LInvoke fname None sa skw)
                         (rs_with s (r_fs s) (r_claimedF s) (key :: r_claimedS s) (r_need s) (r_made s)
                                  (r_clock s) (r_nextid s) (r_log s)) in
          let '(s2, (res, _)) := ref_run (fn sa skw) None None s1 in
          match res with
          | inr e => ref_run (k (inr e)) target pending s2
          | inl v =>
              match sanitize v with
              | None => ref_run (k (inr XType)) target pending s2
              | Some sv => ref_run (k (inl sv)) target pending s2
              end
          end
      | _, _ => ref_run (k (inr XType)) target pending s
      end
  end.

(* a whole reference build on the cleaned tree: result, final visible tree
   (without the cache file), created directories *)
Record ref_result := {
  rr_outcome : outcome;
  rr_tree : fsT;           (* after success: T; after failure: meaningless (the pre-state is required) *)
  rr_made : list path;
  rr_log : list logentry;
  rr_clock : N;
  rr_nextid : N;
}.

Definition ref_build (fs : fsT) (cachefile : path) (pv : prev) (clock nextid : N) (root : prog) : ref_result :=
  let t0 := ref_clean fs cachefile pv in
  match missing_dirs t0 cachefile (dirname cachefile) with
  | inr c => {| rr_outcome := inr (XOS c); rr_tree := t0; rr_made := []; rr_log := []; rr_clock := clock; rr_nextid := nextid |}
  | inl dirs =>
      match mkdir_all t0 dirs with
      | inr e => {| rr_outcome := inr (XOS (err_of e)); rr_tree := t0; rr_made := []; rr_log := []; rr_clock := clock; rr_nextid := nextid |}
      | inl t1 =>
          let s0 := {| r_fs := t1; r_claimedF := []; r_claimedS := []; r_need := []; r_made := dirs;
                       r_clock := clock; r_nextid := nextid;
                       r_log := [LInvoke "<root>" None PNone PNone]; r_cachefile := cachefile |} in
          let '(s1, (res, _)) := ref_run root None None s0 in
          {| rr_outcome := res; rr_tree := r_fs s1; rr_made := r_made s1; rr_log := rev (r_log s1);
             rr_clock := r_clock s1; rr_nextid := r_nextid s1 |}
      end
  end.
