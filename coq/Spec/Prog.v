(* Spec/Prog.v — user code as a strategy tree (DESIGN.md 3.3): every builder
   call is a node whose continuation receives the call's outcome; bodies of
   build_file / subbuild functions are Gallina functions of the (sanitised)
   path and arguments the library hands them. *)
From Coq Require Import List String.
From FB.Base Require Import PyVal Fs.
From FB.Model Require Import Types.
Import ListNotations.

Definition outcome : Type := pyval + exn.

Inductive prog :=
| Ret (v : pyval)
| Raise (e : exn)
| Ask (stale : bool) (q : query) (k : outcome -> prog)
| Write (c : string) (k : prog)            (* create / overwrite the innermost build_file target *)
| BuildFile (stale : bool) (p : path) (c : cmpmode) (fname : string) (a kw : pyval)
            (fn : path -> pyval -> pyval -> prog) (k : outcome -> prog)
| Subbuild (stale : bool) (fname : string) (a kw : pyval)
           (fn : pyval -> pyval -> prog) (k : outcome -> prog).
