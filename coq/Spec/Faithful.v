(* Spec/Faithful.v — what it means for the records of a previous build to be
   faithful: a record of function f is a trace of f's body.  [follows] runs a
   strategy tree against a recorded list of suboperations instead of a file
   system: every query is answered from the record, every nested call is
   matched with its nested record (and the nested body is followed against the
   nested trace).  Cache transparency (C01) = "if the replay of a faithful
   record succeeds now, running the body now follows the same trace".
   Hypotheses of the transparency theorem live here too. *)
From Coq Require Import List String NArith ZArith Bool Arith.
From FB.Base Require Import PyVal Fs.
From FB.Gen Require Import JsonUtilGen.
From FB.Spec Require Import Prog Ref.
From FB.Model Require Import Types SimpleOps Builder Persist Core.
Import ListNotations.
Open Scope list_scope.

(* content oracle: what the file at p held when its comparison result (mode c) was r *)
Definition kappa := path -> cmpmode -> pyval -> option string.

(* walk results come back from the cache file with lists in place of tuples *)
Definition retuple (v : pyval) : pyval :=
  match v with
  | PList l => PList (map (fun e => match e with PList x | PTuple x => PTuple x | o => o end) l)
  | o => o
  end.

(* what user code saw when the executor recorded r for q *)
Definition user_value (k : kappa) (q : query) (r : pyval) : option pyval :=
  match q with
  | QRead p c => option_map PStr (k p c r)
  | QWalk _ _ => Some (retuple r)
  | _ => Some r
  end.

Definition user_class (q : query) (c : errclass) : errclass :=
  if path_ok (spec_query_path q) then c else XOSError.

(* result of a body: outcome, bytes written to the target (if any), unconsumed records *)
Fixpoint follows (kp : kappa) (pr : prog) (subs : list op) (written : option string) {struct pr}
  : option (outcome * option string * list op) :=
  match pr with
  | Ret v => Some (inl v, written, subs)
  | Raise e => Some (inr e, written, subs)
  | Ask stale q k =>
      if stale then follows kp (k (inr (XRuntime RFinished))) subs written else
      match subs with
      | OSimple q' r ex :: rest =>
          if negb (query_eqb q q') then None else
          match ex with
          | Some c => follows kp (k (inr (XOS (user_class q c)))) rest written
          | None => match user_value kp q r with
                    | Some v => follows kp (k (inl v)) rest written
                    | None => None
                    end
          end
      | _ => None
      end
  | Write c k => follows kp k subs (Some c)
  | BuildFile stale p c fname a kw fn k =>
      if stale then follows kp (k (inr (XRuntime RFinished))) subs written else
      match sanitize a, sanitize kw with
      | Some sa, Some skw =>
          match subs with
          | OBuildFile p' c' f' a' k' nsubs ret_ cmpres raised sf :: rest =>
              if negb (path_eqb p p' && cmp_eqb c c' && String.eqb fname f' && is_equal a' sa && is_equal k' skw) then None else
              if sf then None else            (* the outcome of a setup failure is not determined by the record *)
              match follows kp (fn p sa skw) nsubs None with
              | Some (out_n, bytes_n, []) =>
                  match out_n with
                  | inr e => if raised then follows kp (k (inr e)) rest written else None
                  | inl v =>
                      match sanitize v with
                      | None => if raised then follows kp (k (inr XType)) rest written else None
                      | Some sv =>
                          match bytes_n with
                          | None => if raised then follows kp (k (inr (if path_ok p then XRuntime RNotCreated else XOS XOSError))) rest written
                                    else None
                          | Some b =>
                              if negb raised && pyval_same ret_ sv &&
                                 match kp p c cmpres with Some b' => String.eqb b b' | None => false end
                              then follows kp (k (inl sv)) rest written else None
                          end
                      end
                  end
              | _ => None
              end
          | _ => None
          end
      | _, _ => follows kp (k (inr XType)) subs written
      end
  | Subbuild stale fname a kw fn k =>
      if stale then follows kp (k (inr (XRuntime RFinished))) subs written else
      match sanitize a, sanitize kw with
      | Some sa, Some skw =>
          match subs with
          | OSubbuild f' a' k' nsubs ret_ raised sf :: rest =>
              if negb (String.eqb fname f' && is_equal a' sa && is_equal k' skw) then None else
              if sf then None else
              match follows kp (fn sa skw) nsubs None with
              | Some (out_n, _, []) =>
                  match out_n with
                  | inr e => if raised then follows kp (k (inr e)) rest written else None
                  | inl v =>
                      match sanitize v with
                      | None => if raised then follows kp (k (inr XType)) rest written else None
                      | Some sv => if negb raised && pyval_same ret_ sv then follows kp (k (inl sv)) rest written else None
                      end
                  end
              | _ => None
              end
          | _ => None
          end
      | _, _ => follows kp (k (inr XType)) subs written
      end
  end.

(* the functions of this build, by name *)
Record ftable := { ft_file : string -> path -> pyval -> pyval -> prog; ft_sub : string -> pyval -> pyval -> prog }.

(* documented user obligation: a name denotes one function (the version is part of what selects the table) *)
Inductive Obeys (F : ftable) : prog -> Prop :=
| Ob_Ret : forall v, Obeys F (Ret v)
| Ob_Raise : forall e, Obeys F (Raise e)
| Ob_Ask : forall s q k, (forall o, Obeys F (k o)) -> Obeys F (Ask s q k)
| Ob_Write : forall c k, Obeys F k -> Obeys F (Write c k)
| Ob_BuildFile : forall s p c f a kw fn k,
    (forall p' a' k', fn p' a' k' = ft_file F f p' a' k') ->
    (forall p' a' k', Obeys F (ft_file F f p' a' k')) ->
    (forall o, Obeys F (k o)) -> Obeys F (BuildFile s p c f a kw fn k)
| Ob_Subbuild : forall s f a kw fn k,
    (forall a' k', fn a' k' = ft_sub F f a' k') ->
    (forall a' k', Obeys F (ft_sub F f a' k')) ->
    (forall o, Obeys F (k o)) -> Obeys F (Subbuild s f a kw fn k).

(* a record of the previous build whose function has the same version now is a trace of that function *)
Definition faithful_op (kp : kappa) (F : ftable) (o : op) : bool :=
  match o with
  | OSimple _ _ _ => true
  | OBuildFile p c f a k subs ret_ cmpres raised sf =>
      sf ||
      match follows kp (ft_file F f p a k) subs None with
      | Some (out_n, bytes_n, []) =>
          match out_n with
          | inr _ => raised
          | inl v => match sanitize v with
                     | None => raised
                     | Some sv => match bytes_n with
                                  | None => raised
                                  | Some b => negb raised && pyval_same ret_ sv &&
                                              match kp p c cmpres with Some b' => String.eqb b b' | None => false end
                                  end
                     end
          end
      | _ => false
      end
  | OSubbuild f a k subs ret_ raised sf =>
      sf ||
      match follows kp (ft_sub F f a k) subs None with
      | Some (out_n, _, []) =>
          match out_n with
          | inr _ => raised
          | inl v => match sanitize v with None => raised | Some sv => negb raised && pyval_same ret_ sv end
          end
      | _ => false
      end
  end.

(* every registered record whose function version is unchanged is faithful (records containing a
   setup failure are never replayed and are exempt) *)
Definition faithful_cache (kp : kappa) (F : ftable) (old : cache) (vers : pyval) : Prop :=
  (forall p o, files_get (c_files old) p = Some (Some o) ->
     is_equal (func_version old (match o with OBuildFile _ _ f _ _ _ _ _ _ _ => f | OSubbuild f _ _ _ _ _ _ => f | _ => "" end))
              (py_dict_get (PStr (match o with OBuildFile _ _ f _ _ _ _ _ _ _ => f | OSubbuild f _ _ _ _ _ _ => f | _ => "" end)) vers) = true ->
     faithful_op kp F o = true) /\
  (forall key o, subs_get (c_subs old) key = Some (Some o) ->
     is_equal (func_version old (match o with OBuildFile _ _ f _ _ _ _ _ _ _ => f | OSubbuild f _ _ _ _ _ _ => f | _ => "" end))
              (py_dict_get (PStr (match o with OBuildFile _ _ f _ _ _ _ _ _ _ => f | OSubbuild f _ _ _ _ _ _ => f | _ => "" end)) vers) = true ->
     faithful_op kp F o = true).

(* comparison results determine contents: for the files present at the start of the build ... *)
Definition meta_sound_init (kp : kappa) (fs : fsT) (stale : list (path * fnode)) : Prop :=
  forall p f, (lookup fs p = Some (NFile f) \/ stale_get stale p = Some f) ->
    forall c r, is_equal r (cmp_of c f) = true -> kp p c r = Some (f_bytes f).
(* ... and for whatever is written from now on (new modification times lie in the future of every
   recorded METADATA result; HASH results determine the bytes) *)
Definition meta_sound_new (kp : kappa) (clock0 : N) : Prop :=
  forall p bytes m i j c r, (clock0 < m)%N ->
    is_equal r (cmp_of c {| f_bytes := bytes; f_mtime := m; f_id := i; f_json := j |}) = true -> kp p c r = Some bytes.

(* trees that differ at most in the modification time / inode of regular files *)
Definition node_equiv (a b : option node) : Prop :=
  match a, b with
  | None, None => True
  | Some NDir, Some NDir => True
  | Some (NFile f), Some (NFile g) => f_bytes f = f_bytes g
  | _, _ => False
  end.
Definition tree_equiv (a b : fsT) : Prop := forall p, node_equiv (lookup a p) (lookup b p).

Definition same_paths (a b : list path) : Prop := forall p, mem_path p a = mem_path p b.
Definition same_keys (a b : list pyval) : Prop := forall k, existsb (py_eq k) a = existsb (py_eq k) b.

(* Core state vs reference state *)
Definition sim (s : kstate) (r : rstate) : Prop :=
  tree_equiv (k_fs s) (r_fs r) /\ same_paths (k_claimedF s) (r_claimedF r) /\ same_keys (k_claimedS s) (r_claimedS r) /\
  same_paths (k_need s) (r_need r) /\ same_paths (k_made s) (r_made r) /\ k_cachefile s = r_cachefile r.
