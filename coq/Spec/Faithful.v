(* Spec/Faithful.v — what it means for the records of a previous build to be
   faithful: a record of function f is a trace of f's body.  [follows] runs a
   strategy tree against a recorded list of suboperations instead of a file
   system: every query is answered from the record, every nested call is
   matched with its nested record (and the nested body is followed against the
   nested trace).  Cache transparency (C01) = "if the replay of a faithful
   record succeeds now, running the body now follows the same trace".
   The hypotheses of the transparency theorem (Proofs/CoreLaws*.v) live here too.
   Definitions only. *)
From Coq Require Import List String NArith ZArith Bool Arith.
From FB.Base Require Import PyVal Fs.
From FB.Gen Require Import JsonUtilGen.
From FB.Spec Require Import JsonSpec Prog Ref.
From FB.Model Require Import Types SimpleOps Builder Persist Core.
Import ListNotations.
Open Scope list_scope.

(* ------------------------------------------------------------------ *)
(* content oracle: the bytes the file at p held when its comparison   *)
(* result in mode c was r                                             *)
(* ------------------------------------------------------------------ *)
Definition kappa := path -> cmpmode -> pyval -> option string.

(* "if defined then right": whenever the oracle speaks about a comparison result
   that matches the file f (JSON equality, in either direction), it tells f's bytes *)
Definition agrees (kp : kappa) (p : path) (f : fnode) : Prop :=
  forall c r x, kp p c r = Some x ->
    (is_equal r (cmp_of c f) = true \/ is_equal (cmp_of c f) r = true) -> x = f_bytes f.

(* the regular files physically present when the build starts (visible or about to be hidden as
   stale outputs) *)
Definition kp_init (kp : kappa) (fs : fsT) : Prop :=
  forall p f, lookup fs p = Some (NFile f) -> agrees kp p f.
(* whatever is written during the build carries a modification time after the start *)
Definition kp_new (kp : kappa) (clock0 : N) : Prop :=
  forall p f, (clock0 < f_mtime f)%N -> agrees kp p f.

(* ------------------------------------------------------------------ *)
(* what user code saw when the executor recorded r for query q        *)
(* ------------------------------------------------------------------ *)
Fixpoint strs_of (l : list pyval) : option (list string) :=
  match l with
  | [] => Some []
  | PStr s :: r => match strs_of r with Some ns => Some (s :: ns) | None => None end
  | _ => None
  end.
(* a listing: a list (tuple) of strings *)
Definition canon_strlist (v : pyval) : option pyval :=
  match v with
  | PList l | PTuple l => match strs_of l with Some ns => Some (names_val ns) | None => None end
  | _ => None
  end.
(* walk results come back from the cache file with lists in place of tuples *)
Definition canon_entry (e : pyval) : option pyval :=
  match e with
  | PList [PStr d; a; b] | PTuple [PStr d; a; b] =>
      match canon_strlist a, canon_strlist b with
      | Some a', Some b' => Some (PTuple [PStr d; a'; b'])
      | _, _ => None
      end
  | _ => None
  end.
Fixpoint canon_entries (l : list pyval) : option (list pyval) :=
  match l with
  | [] => Some []
  | e :: r => match canon_entry e, canon_entries r with
              | Some e', Some r' => Some (e' :: r')
              | _, _ => None
              end
  end.
Definition canon_walk (v : pyval) : option pyval :=
  match v with
  | PList l | PTuple l => option_map PList (canon_entries l)
  | _ => None
  end.

Definition user_value (k : kappa) (q : query) (r : pyval) : option pyval :=
  match q with
  | QExists _ | QIsFile _ | QIsDir _ => match r with PBool b => Some (PBool b) | _ => None end
  | QListDir _ => canon_strlist r
  | QWalk _ _ => canon_walk r
  | QGetSize _ => match r with PInt z => Some (PInt z) | _ => None end
  | QRead p c => option_map PStr (k p c r)
  end.

Definition user_class (q : query) (c : errclass) : errclass :=
  if path_ok (spec_query_path q) then c else XOSError.

(* Leibniz equality of queries, decided *)
Definition query_beq (a b : query) : bool :=
  match a, b with
  | QExists p, QExists p' | QIsFile p, QIsFile p' | QIsDir p, QIsDir p'
  | QListDir p, QListDir p' | QGetSize p, QGetSize p' => path_eqb p p'
  | QWalk p t, QWalk p' t' => path_eqb p p' && Bool.eqb t t'
  | QRead p c, QRead p' c' => path_eqb p p' && cmp_eqb c c'
  | _, _ => false
  end.

(* ------------------------------------------------------------------ *)
(* following a trace                                                  *)
(* ------------------------------------------------------------------ *)
(* targets and subbuild keys claimed so far in this trace, in the order of Cache._use_cached_operation *)
Definition claims : Type := (list path * list pyval)%type.

(* how a build_file function's run must end, given what its body did, for the record to be right:
   the outcome handed to the caller (None: the record does not fit / not covered) *)
Definition bf_end (kp : kappa) (p : path) (c : cmpmode) (nsubs : list op) (ret_ cmpres : pyval) (raised : bool)
           (out_n : outcome) (bytes_n : option string) (cl2 : claims) : option outcome :=
  let failed (e : exn) := if raised then Some (inr e) else None in
  match out_n with
  | inr e => failed e
  | inl v =>
      match sanitize v with
      | None => failed XType
      | Some sv =>
          match bytes_n with
          | None => failed (if path_ok p then XRuntime RNotCreated else XOS XOSError)
          | Some b =>
              (* a nested output below p: p is a directory now, the write fails *)
              if existsb (is_ancestor p) (flat_map tree_outputs nsubs) then failed (XOS XIsADirectory)
              (* only failed targets below p: whether p is still a directory depends on the tree; not covered *)
              else if existsb (is_ancestor p) (fst cl2) then None
              else if negb raised && pyval_same ret_ sv &&
                      match kp p c cmpres with Some b' => String.eqb b b' | None => false end
                   then Some (inl sv) else None
          end
      end
  end.

Definition sb_end (ret_ : pyval) (raised : bool) (out_n : outcome) : option outcome :=
  match out_n with
  | inr e => if raised then Some (inr e) else None
  | inl v =>
      match sanitize v with
      | None => if raised then Some (inr XType) else None
      | Some sv => if negb raised && pyval_same ret_ sv then Some (inl sv) else None
      end
  end.

(* result of a body: outcome, bytes written to the target (if any), unconsumed records, claims *)
Fixpoint follows (kp : kappa) (tgt : option path) (pr : prog) (subs : list op) (written : option string)
         (cl : claims) {struct pr} : option (outcome * option string * list op * claims) :=
  match pr with
  | Ret v => Some (inl v, written, subs, cl)
  | Raise e => Some (inr e, written, subs, cl)
  | Ask stale q k =>
      if stale then follows kp tgt (k (inr (XRuntime RFinished))) subs written cl else
      match subs with
      | OSimple q' r ex :: rest =>
          if negb (query_beq q q') then None else
          match ex with
          | Some c => follows kp tgt (k (inr (XOS (user_class q c)))) rest written cl
          | None => match user_value kp q r with
                    | Some v => follows kp tgt (k (inl v)) rest written cl
                    | None => None
                    end
          end
      | _ => None
      end
  | Write c k =>
      match tgt with
      | None => follows kp tgt k subs written cl
      | Some p => if path_ok p then follows kp tgt k subs (Some c) cl
                  else Some (inr (XOS XOSError), written, subs, cl)
      end
  | BuildFile stale p c fname a kw fn k =>
      if stale then follows kp tgt (k (inr (XRuntime RFinished))) subs written cl else
      match sanitize a, sanitize kw with
      | Some sa, Some skw =>
          match subs with
          | OBuildFile p' c' f' a' k' nsubs ret_ cmpres raised sf :: rest =>
              if negb (path_eqb p p') then None else
              if sf then None else            (* the outcome of a setup failure is not determined by the record *)
              (* a target claimed before, or an ancestor of one, cannot have been set up *)
              if mem_path p (fst cl) || existsb (is_ancestor p) (fst cl) then None else
              match follows kp (Some p) (fn p sa skw) nsubs None (fst cl ++ [p], snd cl) with
              | Some (out_n, bytes_n, [], cl2) =>
                  match bf_end kp p c' nsubs ret_ cmpres raised out_n bytes_n cl2 with
                  | Some o => follows kp tgt (k o) rest written cl2
                  | None => None
                  end
              | _ => None
              end
          | _ => None
          end
      | _, _ => follows kp tgt (k (inr XType)) subs written cl
      end
  | Subbuild stale fname a kw fn k =>
      if stale then follows kp tgt (k (inr (XRuntime RFinished))) subs written cl else
      match sanitize a, sanitize kw with
      | Some sa, Some skw =>
          match subs with
          | OSubbuild f' a' k' nsubs ret_ raised sf :: rest =>
              if negb (String.eqb fname f' && pyval_same a' sa && pyval_same k' skw) then None else
              if sf then None else
              let key := subbuild_key fname sa skw in
              if existsb (py_eq key) (snd cl) then None else
              match follows kp None (fn sa skw) nsubs None (fst cl, snd cl ++ [key]) with
              | Some (out_n, _, [], cl2) =>
                  match sb_end ret_ raised out_n with
                  | Some o => follows kp tgt (k o) rest written cl2
                  | None => None
                  end
              | _ => None
              end
          | _ => None
          end
      | _, _ => follows kp tgt (k (inr XType)) subs written cl
      end
  end.

(* ------------------------------------------------------------------ *)
(* the functions of this build, by name                               *)
(* ------------------------------------------------------------------ *)
Record ftable := { ft_file : string -> path -> pyval -> pyval -> prog; ft_sub : string -> pyval -> pyval -> prog }.

(* documented user obligation: a name denotes one function (the version is part of what selects the table) *)
Inductive Obeys (F : ftable) : prog -> Prop :=
| Ob_Ret : forall v, Obeys F (Ret v)
| Ob_Raise : forall e, Obeys F (Raise e)
| Ob_Ask : forall s q k, (forall o, Obeys F (k o)) -> Obeys F (Ask s q k)
| Ob_Write : forall c k, Obeys F k -> Obeys F (Write c k)
| Ob_BuildFile : forall s p c f a kw fn k,
    (forall p' a' k', fn p' a' k' = ft_file F f p' a' k') ->
    (forall p' a' k', Obeys F (ft_file F f p' a' k')) ->
    (forall o, Obeys F (k o)) -> Obeys F (BuildFile s p c f a kw fn k)
| Ob_Subbuild : forall s f a kw fn k,
    (forall a' k', fn a' k' = ft_sub F f a' k') ->
    (forall a' k', Obeys F (ft_sub F f a' k')) ->
    (forall o, Obeys F (k o)) -> Obeys F (Subbuild s f a kw fn k).

(* cache identity is JSON equality: build_file functions do not distinguish JSON-equal arguments
   (for subbuild functions see [faithful_cache]) *)
Definition Respects (F : ftable) : Prop :=
  forall f p a a' k k', is_equal a a' = true -> is_equal k k' = true -> ft_file F f p a k = ft_file F f p a' k'.

(* ------------------------------------------------------------------ *)
(* faithful records                                                   *)
(* ------------------------------------------------------------------ *)
Definition vers_equal (old : cache) (vers : pyval) (fname : string) : bool :=
  is_equal (func_version old fname) (py_dict_get (PStr fname) vers).

(* a record that the replay could accept: no setup failure anywhere inside, every function inside unchanged *)
Fixpoint replayable (old : cache) (vers : pyval) (o : op) {struct o} : bool :=
  match o with
  | OSimple _ _ _ => true
  | OBuildFile _ _ f _ _ subs _ _ _ sf => negb sf && vers_equal old vers f && forallb (replayable old vers) subs
  | OSubbuild f _ _ subs _ _ sf => negb sf && vers_equal old vers f && forallb (replayable old vers) subs
  end.

(* a subbuild record as a trace of its function called with (sa, skw): the key claimed by the call is
   the key of THESE arguments (a nested call is a duplicate if its key equals the key of the running call) *)
Definition faithful_sub_at (kp : kappa) (F : ftable) (o : op) (sa skw : pyval) : bool :=
  match o with
  | OSubbuild f _ _ subs ret_ raised _ =>
      match follows kp None (ft_sub F f sa skw) subs None ([], [subbuild_key f sa skw]) with
      | Some (out_n, _, [], _) => match sb_end ret_ raised out_n with Some _ => true | None => false end
      | _ => false
      end
  | _ => false
  end.

(* the record is a trace of its function, started with nothing but itself claimed *)
Definition faithful_op (kp : kappa) (F : ftable) (o : op) : bool :=
  match o with
  | OSimple _ _ _ => true
  | OBuildFile p c f a k subs ret_ cmpres raised sf =>
      match follows kp (Some p) (ft_file F f p a k) subs None ([p], []) with
      | Some (out_n, bytes_n, [], cl2) =>
          match bf_end kp p c subs ret_ cmpres raised out_n bytes_n cl2 with Some _ => true | None => false end
      | _ => false
      end
  | OSubbuild f a k subs ret_ raised sf => faithful_sub_at kp F o a k
  end.

(* shape of the registered records (what Cache.add / the cache file reader guarantee) *)
Definition cache_wf (old : cache) : Prop :=
  (forall p o, files_get (c_files old) p = Some (Some o) ->
     exists c f a k subs ret_ cmpres raised sf,
       o = OBuildFile p c f a k subs ret_ cmpres raised sf /\ (sf = true -> raised = true)) /\
  (forall key o, subs_get (c_subs old) key = Some (Some o) ->
     exists f a k subs ret_ raised sf,
       o = OSubbuild f a k subs ret_ raised sf /\ (sf = true -> raised = true) /\
       sanitized a = true /\ sanitized k = true /\ py_eq (subbuild_key f a k) key = true).

(* every registered record that could be served from the cache (not raised, replayable) is faithful.
   A subbuild record is looked up by key, i.e. up to JSON equality of the arguments: it must be a trace of
   the function for every such presentation (sa, skw) of its arguments (with well-formed floats JSON
   equality is transitive and the instance sa = a, skw = k implies the others) *)
Definition faithful_cache (kp : kappa) (F : ftable) (old : cache) (vers : pyval) : Prop :=
  (forall p o, files_get (c_files old) p = Some (Some o) ->
     op_raised o = false -> replayable old vers o = true -> faithful_op kp F o = true) /\
  (forall key f a k subs ret_ raised sf, subs_get (c_subs old) key = Some (Some (OSubbuild f a k subs ret_ raised sf)) ->
     raised = false -> replayable old vers (OSubbuild f a k subs ret_ raised sf) = true ->
     forall sa skw, sanitized sa = true -> sanitized skw = true -> is_equal a sa = true -> is_equal k skw = true ->
       faithful_sub_at kp F (OSubbuild f a k subs ret_ raised sf) sa skw = true).

(* ------------------------------------------------------------------ *)
(* Core state vs reference state                                      *)
(* ------------------------------------------------------------------ *)
(* trees that differ at most in the modification time / inode / json of regular files *)
Definition node_equiv (a b : option node) : Prop :=
  match a, b with
  | None, None => True
  | Some NDir, Some NDir => True
  | Some (NFile f), Some (NFile g) => f_bytes f = f_bytes g
  | _, _ => False
  end.
Definition tree_equiv (a b : fsT) : Prop := forall p, node_equiv (lookup a p) (lookup b p).

Definition same_paths (a b : list path) : Prop := forall p, mem_path p a = mem_path p b.
Definition same_keys (a b : list pyval) : Prop := forall k, existsb (py_eq k) a = existsb (py_eq k) b.

Definition sim (s : kstate) (r : rstate) : Prop :=
  tree_equiv (k_fs s) (r_fs r) /\ same_paths (k_claimedF s) (r_claimedF r) /\ same_keys (k_claimedS s) (r_claimedS r) /\
  k_need s = r_need r /\ k_made s = r_made r /\ k_cachefile s = r_cachefile r.

(* subsequence (both logs newest first, or both oldest first) *)
Inductive sublog {A : Type} : list A -> list A -> Prop :=
| sl_nil : forall l, sublog [] l
| sl_keep : forall x a b, sublog a b -> sublog (x :: a) (x :: b)
| sl_skip : forall y a b, sublog a b -> sublog a (y :: b).

(* ------------------------------------------------------------------ *)
(* invariants of the two states                                       *)
(* ------------------------------------------------------------------ *)
(* reference state: the tree is a tree, every target done or in progress has its parent directory,
   the target of the running function is one of them *)
Definition RInv (tgt : option path) (r : rstate) : Prop :=
  fs_wf (r_fs r) /\
  (forall n, In n (r_need r) -> n <> [] /\ lookup (r_fs r) (dirname n) = Some NDir) /\
  (forall p, tgt = Some p -> In p (r_need r)).

(* Core state: the records and versions are those of the build; the oracle is right about every regular
   file physically there; an old output that is visible has been claimed (so a stale output is hidden);
   the clock has not run backwards *)
Definition KInv (kp : kappa) (old : cache) (vers : pyval) (clock0 : N) (s : kstate) : Prop :=
  k_old s = old /\ k_vers s = vers /\
  (forall p f, lookup (k_fs s) p = Some (NFile f) \/ stale_get (k_stale s) p = Some f -> agrees kp p f) /\
  (forall p o, cache_get_file old p = Some o -> op_raised o = false ->
               isfile (k_fs s) p = true -> mem_path p (k_claimedF s) = true) /\
  (clock0 <= k_clock s)%N.
