(* Spec/Oracle.v — the executable oracle of C01/C04/C05/C12 for one history:
   what the reference semantics (Spec/Ref.v) requires of each step, computed
   from the actual pre-state of the step.  The pre-states are threaded by the
   model (which T2 ties to the implementation). *)
From Coq Require Import List String NArith ZArith Bool Arith.
From FB.Base Require Import PyVal Fs.
From FB.Gen Require Import JsonUtilGen.
From FB.Spec Require Import Prog Ref.
From FB.Model Require Import Types Monad Builder Persist Build Run Dsl.
Import ListNotations.
Open Scope list_scope.

Definition prev_of_cache (c : cache) : prev :=
  {| pv_name := c_name c; pv_outputs := cache_created_files c; pv_dirs := c_dirs c |}.

Definition red_node (fs : fsT) (cachefile : path) (p : path) : string :=
  match lookup fs p with
  | Some NDir => (show_path p ++ "|D")%string
  | Some (NFile f) =>
      if path_eqb p cachefile then (show_path p ++ "|CACHE")%string
      else (show_path p ++ "|F|" ++ f_bytes f)%string
  | None => ""%string
  end.
Definition red_tree (fs : fsT) (cachefile : path) : list string :=
  sort_strs (map (red_node fs cachefile) (all_paths fs)).

Record step_req := {
  sq_result : string;
  sq_log : list string;             (* the reference log: the implementation's log must be a subsequence *)
  sq_tree : option (list string);   (* required reduced tree (None: not constrained here) *)
}.

Definition cache_marker : fnode := {| f_bytes := "<cache>"; f_mtime := 0; f_id := 0; f_json := None |}.

Definition ref_build_req (w : world) (cachefile : path) (nm : string) (vers : pyval) (root : prog) : step_req :=
  let refuse (s : string) := {| sq_result := s; sq_log := []; sq_tree := Some (red_tree (w_fs w) cachefile) |} in
  match sanitize vers with
  | None => refuse "err:TypeError"
  | Some _ =>
      let go (pv : prev) :=
        let rr := ref_build (w_fs w) cachefile pv (w_clock w) (w_nextid w) root in
        match rr_outcome rr with
        | inl v =>
            {| sq_result := show_outcome (inl v);
               sq_log := flat_map show_log1 (rr_log rr);
               sq_tree := Some (red_tree (upd cachefile (Some (NFile cache_marker)) (rr_tree rr)) cachefile) |}
        | inr e =>
            {| sq_result := show_outcome (inr e); sq_log := flat_map show_log1 (rr_log rr); sq_tree := None |}
        end in
      match lookup (w_fs w) cachefile with
      | Some (NFile f) =>
          match cache_of_json (f_json f) with
          | ReadOk c => if String.eqb (c_name c) nm then go (prev_of_cache c) else refuse "err:RuntimeError"
          | ReadRuntime => refuse "err:RuntimeError"
          | ReadMalformed => refuse "err:Crash"
          end
      | Some NDir => refuse "err:IsADirectoryError"
      | None => go {| pv_name := nm; pv_outputs := []; pv_dirs := [] |}
      end
  end.

Definition ref_clean_req (w : world) (cachefile : path) (nm : option string) : step_req :=
  let same (s : string) := {| sq_result := s; sq_log := []; sq_tree := Some (red_tree (w_fs w) cachefile) |} in
  match lookup (w_fs w) cachefile with
  | None => same "ok:N"
  | Some NDir => same "err:IsADirectoryError"
  | Some (NFile f) =>
      match cache_of_json (f_json f) with
      | ReadOk c =>
          if match nm with Some n => negb (String.eqb (c_name c) n) | None => false end then same "err:RuntimeError"
          else {| sq_result := "ok:N"; sq_log := [];
                  sq_tree := Some (red_tree (ref_clean (w_fs w) cachefile (prev_of_cache c)) cachefile) |}
      | ReadRuntime => same "err:RuntimeError"
      | ReadMalformed => same "err:Crash"
      end
  end.

(* requirements for every step of a history *)
Fixpoint ref_history (cachefile : path) (nm : string) (h : list hstep) (w : world) : list step_req :=
  match h with
  | [] => []
  | HMutate ops :: r =>
      let w' := fold_left apply_fsop ops w in
      {| sq_result := "mutated"; sq_log := []; sq_tree := None |} :: ref_history cachefile nm r w'
  | HBuild vers root :: r =>
      let req := ref_build_req w cachefile nm vers root in
      let '(w', _) := run_build cachefile nm vers root w in
      req :: ref_history cachefile nm r w'
  | HClean n :: r =>
      let req := ref_clean_req w cachefile n in
      let '(w', _) := m_clean cachefile n w in
      req :: ref_history cachefile nm r w'
  end.

Fixpoint subseq (a b : list string) : bool :=
  match a, b with
  | [], _ => true
  | _ :: _, [] => false
  | x :: a', y :: b' => if String.eqb x y then subseq a' b' else subseq a b'
  end.

(* observed by the implementation: result, log lines, reduced tree lines *)
Definition step_ok (req : step_req) (got : string * list string * list string) : bool :=
  let '(res, lg, tree) := got in
  String.eqb (sq_result req) "mutated" ||
  (String.eqb res (sq_result req) && subseq lg (sq_log req) ||
   (* refusals have no log *) false) &&
  match sq_tree req with Some t => str_list_eqb t tree | None => true end.

Definition first_bad (reqs : list step_req) (got : list (string * list string * list string)) : option nat :=
  (fix go (i : nat) (r : list step_req) (g : list (string * list string * list string)) : option nat :=
     match r, g with
     | [], [] => None
     | x :: r', y :: g' => if step_ok x y then go (S i) r' g' else Some i
     | _, _ => Some i
     end) 0 reqs got.
