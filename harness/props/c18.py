"""C18 — JSON helper laws.  T2: generated Gallina functions vs the real
JsonUtil on an exhaustive small universe; T3: the laws themselves on the real
functions (json round trip, idempotence, freshness, equivalence, hashable iff)."""
import itertools
import json
import random

from .. import common
from ..codec import Opaque, to_coq, to_coq_opt, same

GEN = ['JsonUtilGen.v']
TRUSTED = ["translator json_util_tr.py", "value-universe model of Python == / sorted / dict (Base/PyVal.v); no NaN, no subclasses of built-ins"]
ATOMS = [None, False, True, 0, 1, 2, 1.0, -0.0, "", "0", "a", 2 ** 63, float("inf")]
KEYS = ["a", "0", "", 1, True, None, 1.0, 2]
DVALS = [None, True, 1, 1.0, "a"]


def universe(tier, rng):
    vals = list(ATOMS) + [[], (), {}]
    vals += [[a] for a in ATOMS] + [(a,) for a in ATOMS]
    vals += [{k: a} for k in KEYS for a in DVALS]
    two = [[a, b] for a in ATOMS for b in ATOMS] + [(a, b) for a in DVALS for b in DVALS]
    dd = []
    for k1, k2 in itertools.permutations(KEYS, 2):
        for a in DVALS[:3]:
            for b in DVALS[:3]:
                d = {k1: a}
                d[k2] = b
                dd.append(d)
    nest = ([[[a]] for a in ATOMS] + [[(a,)] for a in ATOMS] + [[{k: a}] for k in KEYS[:3] for a in DVALS] +
            [{k: [a]} for k in KEYS[:3] for a in DVALS] + [{k: {"a": a}} for k in KEYS[:2] for a in DVALS] +
            [[[]], [()], [{}], {"a": []}, {"a": {}}, ([],), ((),)])
    extra = [Opaque(0), [Opaque(1)], {"a": Opaque(0)}, {(1, 2): 1}, {"a": {(1,): 2}}, [[Opaque(2)]],
             -1, 10 ** 20, -2 ** 63, 0.5, -2.25, 1.5, float("-inf"), 2.0 ** 70, "é", "\U0001f600", 'q"t', "a b",
             {1: "x", "1": "y"}, {"1": "x", 1: "y"}, {True: 1, "true": 2}, {None: 1, "null": 2},
             {1.0: 1, "1.0": 2}, {0.5: 1}, {float("inf"): 1, float("-inf"): 2}, {-0.0: 1}, {2 ** 63: 1},
             {"b": 1, "a": 2}, {"a": 2, "b": 1}, {"a": [1, {"b": (2, 3)}]}, [1, [2, [3, [4]]]]]
    if tier == "quick":
        rng.shuffle(two)
        rng.shuffle(dd)
        two, dd = two[:60], dd[:40]
    vals += two + dd + nest + extra
    # random deeper values
    def rnd(depth):
        r = rng.random()
        if depth == 0 or r < 0.35:
            return rng.choice(ATOMS + [-1, 0.5, "b", 3])
        if r < 0.6:
            return [rnd(depth - 1) for _ in range(rng.randint(0, 3))]
        if r < 0.7:
            return tuple(rnd(depth - 1) for _ in range(rng.randint(0, 3)))
        d = {}
        for _ in range(rng.randint(0, 3)):
            d[rng.choice(KEYS + ["b", "c"])] = rnd(depth - 1)
        return d
    for _ in range(40 if tier == "quick" else 300):
        vals.append(rnd(4))
    return vals


def real(fb):
    from file_builder.json_util import JsonUtil
    return JsonUtil


def t2(rep, tier, workdir):
    """Model (generated Gallina) vs implementation."""
    common.import_repo()
    from file_builder.json_util import JsonUtil
    rng = random.Random(common.seed() * 7919 + 18)
    vals = universe(tier, rng)
    lines = ["From Coq Require Import List String ZArith Bool NArith. Import ListNotations.",
             "From FB.Base Require Import PyVal. From FB.Gen Require Import JsonUtilGen.",
             "Open Scope string_scope. Open Scope list_scope.",
             "Definition vals : list pyval := ["]
    lines.append(";\n".join(to_coq(v) for v in vals))
    lines.append("].")
    # expected results from the implementation
    san, hsh, kts = [], [], []
    for v in vals:
        try:
            san.append(to_coq_opt(JsonUtil.sanitize(v), True))
        except TypeError:
            san.append("None")
        # to_hashable's domain is sanitized values (string keys only)
        try:
            is_san = same(JsonUtil.sanitize(v), v)
        except TypeError:
            is_san = False
        hsh.append(to_coq(JsonUtil.to_hashable(v)) if is_san else None)
        # repr of floats is modelled for the floats of float_repr's domain only
        if isinstance(v, float) and not _float_in_domain(v):
            kts.append(None)
        else:
            try:
                kts.append(to_coq_opt(JsonUtil._key_to_str(v), True))
            except TypeError:
                kts.append("None")
    lines.append("Definition exp_san : list (option pyval) := [%s]." % ";\n".join(san))
    lines.append("Definition exp_kts : list (option (option pyval)) := [%s]." % ";\n".join(
        "None" if k is None else "(Some %s)" % k for k in kts))
    lines.append("Definition exp_hsh : list (option pyval) := [%s]." % ";\n".join(
        "None" if h is None else "(Some %s)" % h for h in hsh))
    # is_equal on all pairs of values in is_equal's domain (sanitized up to tuples)
    dom = []
    for i, v in enumerate(vals):
        try:
            s = JsonUtil.sanitize(v)
        except TypeError:
            continue
        if same(_detuple(v), s):
            dom.append(i)
    rows = []
    npairs = 0
    for i in dom:
        bits = 0
        for jx, j in enumerate(dom):
            try:
                r = JsonUtil.is_equal(vals[i], vals[j])
            except Exception:
                r = False
            if r:
                bits |= 1 << jx
            npairs += 1
        rows.append(bits)
    lines.append("Definition dom : list nat := [%s]%%nat." % "; ".join(map(str, dom)))
    lines.append("Definition rows : list N := [%s]%%N." % "; ".join(map(str, rows)))
    lines.append("""
Definition nthv (i : nat) := nth i vals PNone.
Definition chk_san := map (fun p => opt_same (sanitize (fst p)) (snd p)) (combine vals exp_san).
Definition chk_kts := map (fun p => match snd p with None => true | Some e => opt_same (key_to_str (fst p)) e end) (combine vals exp_kts).
Definition chk_hsh := map (fun p => match snd p with None => true | Some h => pyval_same (to_hashable (fst p)) h end) (combine vals exp_hsh).
Definition chk_eq := map (fun p =>
   let a := nthv (fst p) in
   forallb (fun q => Bool.eqb (is_equal a (nthv (snd q))) (N.testbit (snd p) (N.of_nat (fst q))))
           (combine (seq 0 (List.length dom)) dom)) (combine dom rows).
""")
    for tag in ["san", "kts", "hsh", "eq"]:
        lines.append(common.marker(tag))
        lines.append("Eval vm_compute in failing chk_%s." % tag)
    rc, out = common.coq_eval(workdir, "C18cases", "\n".join(lines))
    res = {"values": len(vals), "pairs": npairs, "disagreements": []}
    if rc != 0:
        res["error"] = out[-1500:]
        return res
    for tag in ["san", "kts", "hsh", "eq"]:
        bad = common.parse_nat_list(out, tag)
        if bad is None:
            res["error"] = "no output for " + tag
            return res
        for i in bad:
            idx = dom[i] if tag == "eq" else i
            res["disagreements"].append({"function": tag, "value": repr(vals[idx])})
    for v in vals:
        rep.case()
    rep.evaluations += npairs
    rep.extra["t2_values"] = len(vals)
    rep.extra["t2_pairs"] = npairs
    return res


def _float_in_domain(x):
    if x != x or x in (float("inf"), float("-inf")) or x == 0:
        return True
    return abs(x) < 1e15 and (x * 8) == int(x * 8)


def _detuple(v):
    if isinstance(v, (list, tuple)):
        return [_detuple(x) for x in v]
    if isinstance(v, dict):
        return {k: _detuple(x) for k, x in v.items()}
    return v


def _ids(v, acc):
    if isinstance(v, (list, dict)):
        acc.add(id(v))
        for x in (v.values() if isinstance(v, dict) else v):
            _ids(x, acc)
    elif isinstance(v, tuple):
        for x in v:
            _ids(x, acc)
    return acc


def t3(rep, tier, budget=1):
    """The laws on the real functions. Returns list of failing cases."""
    common.import_repo()
    from file_builder.json_util import JsonUtil
    rng = random.Random(common.seed() * 104729 + 18)
    vals = universe("thorough" if budget > 1 else tier, rng)
    fails = []
    sane = []
    kinds = {}
    for v in vals:
        kinds[type(v).__name__] = kinds.get(type(v).__name__, 0) + 1
        try:
            ref = json.loads(json.dumps(v))
            ok = True
        except (TypeError, ValueError):
            ok = False
        try:
            s = JsonUtil.sanitize(v)
            sok = True
        except TypeError:
            sok = False
        except Exception as e:       # any other exception class is a violation
            fails.append({"law": "sanitize raises only TypeError", "value": repr(v), "got": repr(e)})
            continue
        if ok != sok:
            fails.append({"law": "sanitize accepts exactly JSON values", "value": repr(v), "json_ok": ok, "sanitize_ok": sok})
            continue
        if not ok:
            continue
        if not same(s, ref):
            fails.append({"law": "sanitize v = loads(dumps v)", "value": repr(v), "sanitize": repr(s), "json": repr(ref)})
        if not same(JsonUtil.sanitize(s), s):
            fails.append({"law": "idempotent", "value": repr(v)})
        if _ids(s, set()) & _ids(v, set()):
            fails.append({"law": "shares no mutable structure", "value": repr(v)})
        sane.append(s)
    # equivalence + hashable iff, on sanitized values (and their tuple forms for is_equal)
    n = len(sane)
    eq = [[JsonUtil.is_equal(a, b) for b in sane] for a in sane]
    hs = [JsonUtil.to_hashable(a) for a in sane]
    nontriv = 0
    for i in range(n):
        if not eq[i][i]:
            fails.append({"law": "reflexive", "value": repr(sane[i])})
        for j in range(n):
            rep.evaluations += 1
            if eq[i][j] != eq[j][i]:
                fails.append({"law": "symmetric", "a": repr(sane[i]), "b": repr(sane[j])})
            try:
                he = (hs[i] == hs[j]) and (hash(hs[i]) == hash(hs[j]))
            except TypeError:
                he = None
            if he is not None and he != eq[i][j]:
                fails.append({"law": "hashable iff is_equal", "a": repr(sane[i]), "b": repr(sane[j])})
            if i != j and type(sane[i]) is type(sane[j]) or eq[i][j] and i != j:
                if not same(sane[i], sane[j]):
                    nontriv += 1
                    rep.nontrivial.add((min(i, j), max(i, j)))
    for i in range(n):
        cls = [j for j in range(n) if eq[i][j]]
        for j in cls:
            for k in range(n):
                if eq[j][k] and not eq[i][k]:
                    fails.append({"law": "transitive", "a": repr(sane[i]), "b": repr(sane[j]), "c": repr(sane[k])})
    # documented distinctions
    for a, b, want in [(True, 1, False), (False, 0, False), (1, 1.0, True), ([1], (1,), True), (True, 1.0, False),
                       ({"a": 1, "b": 2}, {"b": 2, "a": 1}, True), ([1, 2], [2, 1], False)]:
        if JsonUtil.is_equal(a, b) != want:
            fails.append({"law": "is_equal(%r, %r) = %r" % (a, b, want)})
    rep.extra["t3_values"] = len(vals)
    rep.extra["t3_value_kinds"] = kinds
    rep.samples.append({"value": repr(vals[len(vals) // 2]), "sanitized": repr(sane[len(sane) // 2])})
    return fails


RULE = ("values: exhaustive up to size 3 over the collision atom set (quick: a seeded subset of the two-element "
        "containers) plus seeded random deeper values; a pair counts as non-trivial when the two values are "
        "not structurally identical and are either of the same top-level type or JSON-equal")
