"""C13 — comparison modes: HASH tracks content, METADATA tracks size+mtime."""
import json
from .. import gen
from . import seqprop

GEN = ['JsonUtilGen.v', 'Decisions.v', 'ExecGen.v', 'OpsGen.v']
DECISIONS = ['Cache._assert_no_repeats', 'Cache._use_cached_operation', 'Cache.created_file', 'Cache.created_norm_cased_file', 'FileBuilder._are_suboperations_cached', 'FileBuilder._build_file_cache_lookup', 'FileBuilder._is_build_file_cached', 'FileBuilder._is_build_file_operation_cached', 'FileBuilder._is_simple_operation_cached', 'FileBuilder._is_subbuild_operation_cached', 'FileBuilder._noneable_file_comparison_result', 'FileBuilder._subbuild_cache_lookup', 'FileBuilder._try_to_reuse_cached_file', 'SimpleOperationExecutor._file_hash', 'SimpleOperationExecutor._file_metadata', 'SimpleOperationExecutor.file_comparison_result']
SITES = False
ORDER = False


def make_cases(rng, tier, budget):
    """{input read, output integrity, output read back} x {HASH, METADATA} x
    (content changed?, metadata changed?) x {top level, nested in a reused subtree}."""
    out = []
    n = (6 if tier == "quick" else 40) * budget
    muts = {
        (False, False): lambda p: [],
        (True, True): lambda p: [["write", p, "ZZ"]],
        (False, True): lambda p: [["touch", p]],
        (True, False): lambda p: [["rewrite", p, "ba"]],     # same size, same mtime
    }
    # content changes that a sloppy hash could absorb: trailing NUL bytes, a longer file with a repeated tail
    tricky = [lambda p: [["rewrite", p, "ab\u0000\u0000\u0000"]], lambda p: [["rewrite", p, "ab" + "ab" * 40000]]]
    for _ in range(n):
        for cmp_ in ("HASH", "METADATA"):
            for what in ("input", "output", "readback"):
                for nested in (False, True):
                    for (cc, mc), mk in muts.items():
                        inp = [rng.choice(gen.NAMES[:3]) + "in"]
                        outp = [rng.choice(gen.NAMES[:3]), "o"]
                        funcs = {
                            "f": {"*": [["ask", "r", "read", inp, cmp_], ["write", ["lit", "ab"]], ["ret", ["digest", ["r"]]]]},
                            "g": {"*": [["ask", "r2", "read", outp, cmp_], ["ret", ["digest", ["r2"]]]]},
                            "s": {"*": [["build_file", "x", outp, cmp_, "f", [], {}], ["subbuild", "y", "g", [], {}],
                                        ["ret", ["digest", ["x", "y"]]]]},
                        }
                        if nested:
                            root = [["subbuild", "t", "s", [], {}], ["ret", ["var", "t"]]]
                        else:
                            root = [["build_file", "x", outp, cmp_, "f", [], {}], ["subbuild", "y", "g", [], {}],
                                    ["ret", ["digest", ["x", "y"]]]]
                        target = inp if what == "input" else outp
                        hist = [["mutate", [["write", inp, "ab"]]], ["build", {}, root], ["mutate", mk(target)],
                                ["build", {}, root], ["build", {}, root]]
                        out.append({"cache": ["cache"], "name": "n", "funcs": funcs, "history": hist,
                                    "tag": {"cmp": cmp_, "what": what, "nested": nested, "content_changed": cc, "meta_changed": mc}})
    # a tampered output NESTED in a container that nothing else would invalidate (no reader of the output inside it):
    # the container must not be served as it is
    for cmp_ in ("HASH", "METADATA"):
        for (cc, mc), mk in muts.items():
            for outer in ("subbuild", "build_file"):
                inp, outp = ["nin"], ["nd", "o"]
                funcs = {"f": {"*": [["ask", "r", "read", inp, cmp_], ["write", ["lit", "ab"]], ["ret", ["digest", ["r"]]]]},
                         "g": {"*": [["ret", ["lit", 0]]]},
                         "s2": {"*": [["build_file", "x", outp, cmp_, "f", [], {}], ["ret", ["digest", ["x"]]]]},
                         "c2": {"*": [["build_file", "x", outp, cmp_, "f", [], {}], ["write", ["digest", ["x"]]], ["ret", ["lit", 1]]]}}
                root = ([["subbuild", "t", "s2", [], {}], ["ret", ["var", "t"]]] if outer == "subbuild"
                        else [["build_file", "t", ["container"], cmp_, "c2", [], {}], ["ret", ["var", "t"]]])
                hist = [["mutate", [["write", inp, "ab"]]], ["build", {}, root], ["mutate", mk(outp)], ["build", {}, root], ["build", {}, root]]
                out.append({"cache": ["cache"], "name": "n", "funcs": funcs, "history": hist,
                            "tag": {"cmp": cmp_, "what": "output", "nested": True, "content_changed": cc, "meta_changed": mc}})
    for mk in tricky:
        for what in ("input", "output"):
            inp, outp = ["tin"], ["t", "o"]
            funcs = {"f": {"*": [["ask", "r", "read", inp, "HASH"], ["write", ["lit", "ab"]], ["ret", ["lit", 1]]]},
                     "g": {"*": [["ask", "r2", "get_size", ["tin"]], ["ret", ["lit", 2]]]}}
            root = [["build_file", "x", outp, "HASH", "f", [], {}], ["ret", ["var", "x"]]]
            target = inp if what == "input" else outp
            out.append({"cache": ["cache"], "name": "n", "funcs": funcs,
                        "history": [["mutate", [["write", inp, "ab"]]], ["build", {}, root], ["mutate", mk(target)], ["build", {}, root], ["build", {}, root]],
                        "tag": {"cmp": "HASH", "what": what, "nested": False, "content_changed": True, "meta_changed": False}})
    # plus random histories that use both modes and same-meta rewrites of HASH-compared files only
    g = gen.Gen(rng, dict(hash=0.5))
    for _ in range((20 if tier == "quick" else 200) * budget):
        out.append(g.case())
    return out


def oracle_modes(case, obs, stats):
    """Expected re-execution, stated directly from the property."""
    tag = case.get("tag")
    if not tag:
        return []
    fails = []
    second = seqprop.log_of(obs[3])
    ran_f = any(l.startswith("invoke f ") for l in second)
    ran_g = any(l.startswith("invoke g ") for l in second)
    cc, mc, cmp_, what = tag["content_changed"], tag["meta_changed"], tag["cmp"], tag["what"]
    detect = cc if cmp_ == "HASH" else mc
    if what == "input":
        want_f = detect
        if ran_f != want_f:
            fails.append({"oracle": "input read with %s: re-executed iff %s changed" % (cmp_, "content" if cmp_ == "HASH" else "size/mtime"),
                          "tag": tag, "f_ran": ran_f})
    else:
        # the output itself was tampered: its builder re-runs iff the change is detected; the reader of
        # the output re-runs iff what it recorded differs from the rebuilt output's comparison result
        if ran_f != detect:
            fails.append({"oracle": "output integrity with %s: rebuilt iff %s changed" % (cmp_, "content" if cmp_ == "HASH" else "size/mtime"),
                          "tag": tag, "f_ran": ran_f})
        if cmp_ == "HASH" and ran_g:
            # the rebuilt output has the original content again: a HASH reader must stay cached
            fails.append({"oracle": "HASH reader of a rebuilt output with equal content stays cached", "tag": tag})
    # a pure timestamp change never re-executes a HASH dependant; third build is always quiet
    third = [l for l in seqprop.log_of(obs[4]) if l.startswith("invoke ") and not l.startswith("invoke <root>")]
    if third:
        fails.append({"oracle": "second unchanged rebuild runs nothing", "tag": tag, "ran": third})
    return fails


seqprop.ORACLES["modes"] = oracle_modes


def nontrivial(c, o, st):
    t = c.get("tag")
    return bool(t) or seqprop.has_hit_and_miss(c, o, st)


_t2, _t3 = seqprop.make_module("C13", ["modes"], make_cases, nontrivial, use_spec=True)


def t2(rep, tier, workdir):
    return _t2(rep, tier, workdir)


def t3(rep, tier, budget=1):
    fails = _t3(rep, tier, budget)
    # the reference semantics does not see a same-size-same-mtime rewrite of a METADATA-compared file
    # (the documented weakness of METADATA): not a violation of this property
    out = []
    for f in fails:
        t = f.get("case", {}).get("tag")
        if f.get("oracle", "").startswith("reference semantics") and t and t["cmp"] == "METADATA" and t["content_changed"] and not t["meta_changed"]:
            continue
        out.append(f)
    return out


RULE = ("all (content changed?, metadata changed?) x {input read, output integrity, output read back} x {HASH, METADATA} "
        "x {top level, nested} scenarios, plus random histories; a scenario case is non-trivial by construction, a random one "
        "when a build had a hit and a miss")
TRUSTED = ["SHA-256 collision freedom (the model's hash is injective by construction)", "DSL interpreter/emitter"]
