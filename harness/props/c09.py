"""C09 — thread-safety: concurrent use is equivalent to sequential use.
T3: every schedule (bounded pre-emptions at file-system calls and lock
operations of the package) of scenarios with shared new parent directories,
stale directories, failures; compared with the sequential run of the same
operations (results, tree, what the next build and clean do)."""
import copy
import random

from .. import common, conc

GEN = ['Locks.v', 'Decisions.v', 'BookGen.v', 'CacheGen.v']
DECISIONS = ['BuildDirs.error_building_file', 'BuildDirs.started_building_file', 'Cache._assert_doesnt_have_norm_cased_file', 'Cache._assert_doesnt_have_subbuild', 'Cache.abort_building_file', 'Cache.finish_building_file', 'Cache.finish_subbuild', 'Cache.start_building_file', 'Cache.start_subbuild', 'Cache.use_cached_operation', 'SimpleOperationExecutor.__init__', 'SimpleOperationExecutor._file_hash', 'SimpleOperationExecutor._file_metadata', 'SimpleOperationExecutor.file_comparison_result']
SITES = False
ORDER = False

W = {"*": [["write", ["lit", "x"]], ["ret", ["lit", 1]]]}
FAIL_AFTER = {"*": [["write", ["lit", "x"]], ["raise", 1]]}
FAIL_BEFORE = {"*": [["raise", 2]]}
NOCREATE = {"*": [["ret", ["lit", 0]]]}
SUB = {"*": [["ask", "q", "list_dir", ["N"]], ["ask", "e", "exists", ["N", "a"]], ["ret", ["lit", 5]]]}
SUBQ = {"*": [["ask", "q", "is_dir", ["Q"]], ["ask", "l", "exists", ["Q", "z"]], ["ret", ["lit", 6]]]}


def bf(x, path, f):
    return [["build_file", x, path, "METADATA", f, [], {}], ["ret", ["var", x]]]


def scen(name, funcs, blocks, pre=None, post_fail=False, rebuilds=2):
    root = [["par", blocks, "r"]] + ([["raise", 9]] if post_fail else [["ret", ["var", "r"]]])
    ok_root = [["par", blocks, "r"], ["ret", ["var", "r"]]]
    hist = (pre or []) + [["build", {}, root]] + [["build", {}, ok_root]] * rebuilds + [["clean", None]]
    return {"cache": ["cache"], "name": "n", "funcs": funcs, "history": hist, "tag": name}


def scenarios():
    F = {"w": W, "fa": FAIL_AFTER, "fb": FAIL_BEFORE, "nc": NOCREATE, "s": SUB, "sq": SUBQ}
    out = [
        scen("shared-new-parent", F, [bf("a", ["N", "a"], "w"), bf("b", ["N", "b"], "w")]),
        scen("one-fails-after-write", F, [bf("a", ["N", "a"], "w"), bf("b", ["N", "b"], "fa")]),
        # the failing thread first: its error handling can run while the other thread is between
        # looking at N and registering (two pre-emptions; always explored at bound 2)
        scen("first-fails-after-write", F, [bf("a", ["N", "a"], "fa"), bf("b", ["N", "b"], "w")]),
        scen("first-fails-before-write", F, [bf("a", ["N", "a"], "fb"), bf("b", ["N", "b"], "w")]),
        # two threads hash different outputs at the same time (scheduling points after every chunk read)
        scen("hash-two-files", dict(F, wa={"*": [["write", ["arg", 0]], ["ret", ["lit", 1]]]}),
             [[["build_file", "a", ["N", "a"], "HASH", "wa", ["AAAA-first-content"], {}], ["ret", ["var", "a"]]],
              [["build_file", "b", ["N", "b"], "HASH", "wa", ["BBBB-second-content-longer"], {}], ["ret", ["var", "b"]]]]),
        # a cached operation is re-applied (its directories re-registered) while another thread's output in the same
        # directory fails: always explored at bound 2
        scen("first-fails-reuse-other", dict(F, sa={"*": [["build_file", "x", ["N", "a"], "METADATA", "w", [], {}], ["ret", ["var", "x"]]]}),
             [bf("b", ["N", "b"], "fa"), [["subbuild", "s", "sa", [], {}], ["ret", ["var", "s"]]]],
             pre=[["build", {}, [["subbuild", "s", "sa", [], {}], ["ret", ["var", "s"]]]]], rebuilds=0),
        scen("first-fails-reuse-first", dict(F, sa={"*": [["build_file", "x", ["N", "a"], "METADATA", "w", [], {}], ["ret", ["var", "x"]]]}),
             [[["subbuild", "s", "sa", [], {}], ["ret", ["var", "s"]]], bf("b", ["N", "b"], "fb")],
             pre=[["build", {}, [["subbuild", "s", "sa", [], {}], ["ret", ["var", "s"]]]]], rebuilds=0),
        scen("both-fail", F, [bf("a", ["N", "a"], "fb"), bf("b", ["N", "b"], "fa")]),
        scen("one-does-not-create", F, [bf("a", ["N", "a"], "nc"), bf("b", ["N", "b"], "w")]),
        scen("nested-parents", F, [bf("a", ["N", "M", "a"], "w"), bf("b", ["N", "b"], "w")]),
        scen("deep-both", F, [bf("a", ["N", "M", "a"], "fa"), bf("b", ["N", "M", "b"], "w")]),
        scen("three-threads", F, [bf("a", ["N", "a"], "w"), bf("b", ["N", "b"], "fb"), bf("c", ["N", "c"], "w")]),
        scen("subbuild-and-file", F, [bf("b", ["M", "b"], "w"), [["subbuild", "s", "sq", [], {}], ["ret", ["var", "s"]]]]),
        scen("rollback-after-threads", F, [bf("a", ["N", "a"], "w"), bf("b", ["N", "b"], "w")], post_fail=True),
        scen("stale-dirs", F, [bf("a", ["N", "a"], "w"), bf("b", ["N", "b"], "fa")],
             pre=[["build", {}, [["build_file", "a", ["N", "a"], "METADATA", "w", [], {}], ["build_file", "b", ["N", "b"], "METADATA", "w", [], {}],
                                 ["ret", ["lit", 0]]]],
                  ["mutate", [["rm", ["N", "a"]], ["write", ["N", "b"], "tampered"]]]]),
        scen("stale-dir-to-file", F, [bf("a", ["N"], "w"), bf("b", ["P", "b"], "w")],
             pre=[["build", {}, [["build_file", "a", ["N", "a"], "METADATA", "w", [], {}], ["ret", ["lit", 0]]]]]),
    ]
    return out


def t2(rep, tier, workdir):
    t2.workdir = workdir
    # the concurrent protocol has no executable Gallina twin that runs against the code (DESIGN 3.6):
    # the tie for this property is T1d (lock table) and the schedule exploration below
    return {"disagreements": []}


def t3(rep, tier, budget=1):
    fails = []
    # a broken tie (budget > 1) widens the search to two pre-emptions everywhere
    bound = 1 if (tier == "quick" and budget == 1) else 2
    limit = (120 if tier == "quick" else 2500) * budget
    total = 0
    for case in scenarios():
        deep = case["tag"].startswith("first-fails")
        ref, bad, n = conc.explore(case, t2.workdir, bound=2 if deep else bound, limit=(8000 if case["tag"].startswith("first-fails-reuse") else max(limit, 3000)) if deep or bound == 2 else limit)
        total += n
        rep.extra.setdefault("schedules", {})[case["tag"]] = n
        rep.evaluations += n
        for k in range(n):
            rep.nontrivial.add((case["tag"], k)) if k > 0 else None
        # look at more than three failing schedules and report those that do not match a known finding first
        # (a change that adds a new way to fail must not hide behind a finding that fails the same way)
        annotated = []
        for choices, obs, info in bad[:40]:
            fx = {}
            if obs is not None and not info["deadlock"]:
                try:
                    fx = stale_memo_facts(case, choices, t2.workdir)
                except Exception as e:      # noqa
                    fx = {"error": repr(e)}
            annotated.append((bool(fx.get("stale_dir_memo_after_release")), choices, obs, info, fx))
        annotated.sort(key=lambda a: a[0])
        picked = [a for a in annotated if not a[0]][:3] + [a for a in annotated if a[0]][:1]
        for _known, choices, obs, info, facts0 in picked:
            diff = None
            if obs is not None:
                ps = [i for i, s in enumerate(case["history"]) if s[0] == "build" and conc._has_par(s[2], case)]
                a, b = conc.canon(ref, ps), conc.canon(obs, ps)
                for i, (x, y) in enumerate(zip(a, b)):
                    if x != y:
                        diff = {"step": i, "sequential": x, "concurrent": y}
                        break
            facts = facts0
            fails.append({"oracle": "every schedule equals the sequential run", "scenario": case["tag"], "schedule": choices,
                          "signature_facts": facts,
                          "deadlock": info["deadlock"], "difference": diff, "case": case,
                          "trace_tail": [list(x) for x in info.get("trace", [])[-30:]]})
    if tier == "thorough":
        fails += stress(rep)
    rep.samples.append({"scenario": "shared-new-parent", "threads": 2, "schedules": rep.extra["schedules"].get("shared-new-parent")})
    return fails


def stress(rep):
    """free-running threads: a smoke test only"""
    fails = []
    F = {"w": W, "fb": FAIL_BEFORE}
    blocks = [bf("x%d" % i, ["N", "d%d" % (i % 3), "o%d" % i], "w" if i % 4 else "fb") for i in range(8)]
    case = scen("stress", F, blocks)
    ref, _, _ = conc.run_case(case, t2.workdir, "seq")
    ps = [0, 1, 2]
    for k in range(20):
        obs, _, _ = conc.run_case(case, t2.workdir, "free")
        rep.evaluations += 1
        if conc.canon(obs, ps) != conc.canon(ref, ps):
            fails.append({"oracle": "free-running stress equals the sequential run", "scenario": "stress", "case": case})
            break
    return fails


def stale_memo_facts(case, choices, workdir):
    """Re-runs one schedule with harness-side wrappers around three BuildDirs methods and reports whether it
    contains the pattern of the known finding: a thread asks is_removed_norm_case(d) (answer False because another
    thread holds a reservation on d), that other thread's error_building_file releases d (d becomes error-created),
    and only then the first thread memoises "d exists" (handle_norm_cased_dir_exists)."""
    import threading
    common.import_repo()
    from file_builder.build_dirs import BuildDirs
    ev = []
    orig = (BuildDirs.is_removed_norm_case, BuildDirs.handle_norm_cased_dir_exists, BuildDirs.error_building_file)

    def w_isrem(self, d):
        r = orig[0](self, d)
        ev.append(("isrem", threading.get_ident(), d, r))
        return r

    def w_handle(self, d):
        ev.append(("handle", threading.get_ident(), d, None))
        return orig[1](self, d)

    def w_error(self, filename):
        r = orig[2](self, filename)
        ev.append(("error", threading.get_ident(), None, set(self._error_created_dirs)))
        return r
    BuildDirs.is_removed_norm_case, BuildDirs.handle_norm_cased_dir_exists, BuildDirs.error_building_file = w_isrem, w_handle, w_error
    try:
        conc.run_case(case, workdir, "sched", tuple(choices))
    finally:
        BuildDirs.is_removed_norm_case, BuildDirs.handle_norm_cased_dir_exists, BuildDirs.error_building_file = orig
    hit = False
    for k, (kind, th, d, _x) in enumerate(ev):
        if kind != "handle":
            continue
        last = [i for i in range(k) if ev[i][0] == "isrem" and ev[i][1] == th and ev[i][2] == d]
        if not last or ev[last[-1]][3] is not False:
            continue
        i = last[-1]
        if any(ev[j][0] == "error" and ev[j][1] != th and d in ev[j][3] for j in range(i + 1, k)):
            hit = True
            break
    return {"stale_dir_memo_after_release": hit}


def signature(sig, payload):
    if sig == "stale-dir-memo-after-release":
        return bool((payload.get("signature_facts") or {}).get("stale_dir_memo_after_release"))
    return False


RULE = ("all schedules with at most 1 (quick) / 2 (thorough) pre-emptions, at every file-system call and lock operation of the package, "
        "of 11 scenarios (shared new parents, nested parents, failures, no-create, stale directories, rollback after threads, three threads); "
        "a schedule is non-trivial when it deviates from the run-to-completion order")
TRUSTED = ["deterministic scheduler harness/shim.py (switch points = os / os.path calls and Lock acquisitions of the package; the GIL, byte-code "
           "pre-emption inside unlocked regions and real time-outs are not explored)", "mutual exclusion of threading.Lock"]
ASSUMES = ["operations issued from different threads do not depend on each other"]
