"""C16 — cache persistence is faithful."""
import copy
from .. import gen
from . import seqprop

GEN = ['JsonUtilGen.v', 'Decisions.v', 'CacheGen.v']
DECISIONS = ['Cache._complex_operation_to_json', 'Cache._operation_from_json', 'Cache._operation_to_json', 'Cache._operations_from_json', 'Cache._simple_operation_to_json', 'Cache.read_immutable', 'Cache.write']
SITES = False
ORDER = False
VALUES = [None, True, False, 0, -1, 2 ** 63, 10 ** 30, 1.5, -0.0, float("inf"), "", "é", "\U0001f600", "a b", "q'",
          [], {}, [1, [2, [3]]], {"b": 1, "a": {"d": [1.0, None], "c": "x"}}, [{"k": []}], {"": 0}, [[], {}], "line\nbreak", "é́"]
FNAMES = ["plain", "with space", "é", ".hidden", "..dots", "a.b.c", "trailing.", "üñí", "-dash", "~tilde", "#hash", "%25"]


def make_cases(rng, tier, budget):
    out = []
    n = (30 if tier == "quick" else 300) * budget
    for i in range(n):
        v1, v2, v3 = (copy.deepcopy(rng.choice(VALUES)) for _ in range(3))
        n1, n2, n3 = rng.sample(FNAMES, 3)
        cmp_ = rng.choice(["HASH", "METADATA"])
        funcs = {
            "leaf": {"*": [["write", ["arg", 0]], ["ret", ["arg", 0]]]},
            "mid": {"*": [["build_file", "x", [n1, n2], cmp_, "leaf", [v1], {}], ["ask", "l", "list_dir", [n1]],
                          ["ask", "w", "walk", [n1], True], ["write", ["digest", ["x", "l"]]], ["ret", ["var", "x"]]]},
            "top": {"*": [["build_file", "y", [n3], cmp_, "mid", [], {"k": v2}],
                          ["build_file", "z", [n1, "bad"], cmp_, "boom", [], {}],
                          ["ret", ["lit", [v3, {"nested": v1}]]]]},
            "boom": {"*": [["raise", 2]]},
        }
        root = [["subbuild", "t", "top", [v2], {}], ["build_file", "u", [n2], cmp_, "leaf", [v3], {}], ["ret", ["var", "t"]]]
        hist = [["build", {"top": v1}, root], ["build", {"top": v1}, root], ["build", {"top": v1}, root]]
        if rng.random() < 0.3:
            hist.insert(2, ["clean", None])
        cache = rng.choice([["cache"], [n3 + "d", "the cache"]])
        if len(cache) > 1:
            hist.insert(0, ["mutate", [["mkdir", cache[:-1]]]])
        out.append({"cache": cache, "name": "n", "funcs": funcs, "history": hist})
    g = gen.Gen(rng)
    for _ in range((15 if tier == "quick" else 150) * budget):
        out.append(g.case())
    return out


def oracle_served(case, obs, stats):
    """A value served from the cache equals the value originally returned."""
    fails = []
    h = case["history"]
    for i in range(1, len(h)):
        if h[i][0] == "build" and h[i - 1][0] == "build" and h[i][1:] == h[i - 1][1:]:
            if obs[i - 1][0].startswith("ok:") and obs[i][0] != obs[i - 1][0]:
                fails.append({"oracle": "value served from the cache equals the value originally returned", "step": i,
                              "first": obs[i - 1][0][:200], "second": obs[i][0][:200]})
    return fails


seqprop.ORACLES["served"] = oracle_served
def nontrivial(c, o, st):
    return any(m["hits"] > 0 for m in st["meta"])


t2, t3 = seqprop.make_module("C16", ["served", "unchanged"], make_cases, nontrivial)
RULE = ("return values from the JSON grammar (unicode, nesting, floats, big integers) and output names from a legal-name "
        "grammar at three nesting positions, built then served from the cache twice; non-trivial when a value was served from the cache")
TRUSTED = ["text layer of the cache file modelled on values (sanitize + sort keys); gzip/JSON bytes exercised on the implementation only"]
