"""C12 — clean removes exactly what the last build created."""
import copy
from .. import gen
from . import seqprop

GEN = ['JsonUtilGen.v', 'Decisions.v', 'Sites.v', 'BookGen.v', 'CacheGen.v', 'DriverGen.v']
DECISIONS = ['FileBuilder._remove_empty_dirs', 'FileBuilder._try_to_remove_file', 'FileBuilder.clean']
SITES = True
ORDER = False


def make_cases(rng, tier, budget):
    g = gen.Gen(rng, dict(fail=0.2))
    out = []
    n = (40 if tier == "quick" else 400) * budget
    for _ in range(n):
        c = g.case()
        h = c["history"]
        # clean inserted at a random position, doubled sometimes (idempotence), with a planted foreign
        # file inside a created directory or at an output position sometimes
        pos = rng.randint(1, len(h))
        ins = [["clean", rng.choice([None, "n"])]]
        if rng.random() < 0.5:
            ins.append(["clean", None])
        if rng.random() < 0.5 and g.outputs:
            o = list(rng.choice(g.outputs))
            plant = [["write", o[:-1] + ["foreign"], "F"]] if rng.random() < 0.6 else [["write", o, "tampered"]]
            ins = [["mutate", plant]] + ins
        c["history"] = h[:pos] + ins + h[pos:]
        out.append(c)
    # a first build whose cache file lives in directories the build itself has to make, then clean (twice)
    for _ in range((6 if tier == "quick" else 40) * budget):
        c = g.case(nsteps=1)
        b = [s for s in c["history"] if s[0] == "build"][-1]
        c["cache"] = rng.choice([["work", "cache"], ["work", "state", "cache"]])
        c["history"] = [["mutate", [["write", ["keep"], "K"]]], ["build", b[1], b[2]], ["clean", None], ["clean", None]]
        out.append(c)
    return out


def nontrivial(c, o, st):
    for i, s in enumerate(c["history"]):
        if s[0] == "clean" and i > 0 and seqprop.tree_of(o[i]) != seqprop.tree_of(o[i - 1]):
            return True
    return False


def oracle_clean_first(case, obs, stats):
    """clean right after a committed build that started without a cache file: the tree is the tree from
    before that build (minus regular files at target paths) - in particular the directories the build
    made to hold the cache file are gone.  Stated without the reference semantics, so it also covers the
    cache-only directories that the comparison with Spec/Ref.v leaves out."""
    fails = []
    h = case["history"]
    for j in range(1, len(h)):
        if h[j][0] != "clean" or h[j - 1][0] != "build" or not obs[j - 1][0].startswith("ok:") or obs[j][0].startswith("err:"):
            continue
        before = [seqprop.split_line(l) for l in (seqprop.tree_of(obs[j - 2]) if j >= 2 else [])]
        if any(b[1] == "CACHE" for b in before):
            continue
        after = [seqprop.split_line(l) for l in seqprop.tree_of(obs[j])]
        targets = set(stats["meta"][j - 1]["targets"])
        bd, ad = {b[0] for b in before if b[1] == "D"}, {a[0] for a in after if a[1] == "D"}
        bf, af = {b[0] for b in before if b[1] == "F"}, {a[0] for a in after if a[1] != "D"}
        if ad != bd:
            fails.append({"oracle": "clean after a first build leaves exactly the directories that were there before", "step": j,
                          "left_behind": sorted(ad - bd), "missing": sorted(bd - ad)})
        if not (af <= bf) or not (bf - targets <= af):
            fails.append({"oracle": "clean after a first build leaves exactly the foreign files", "step": j,
                          "extra": sorted(af - bf), "missing": sorted(bf - targets - af)})
    return fails


seqprop.ORACLES["clean_first"] = oracle_clean_first
t2, t3 = seqprop.make_module("C12", ["foreign", "clean_first"], make_cases, nontrivial)
RULE = ("generated histories with clean inserted at a random position (after commits, rollbacks, tampering, "
        "a previous clean); non-trivial when a clean step changed the tree")
TRUSTED = ["DSL interpreter and Gallina emitter (harness/dsl.py)", "model of the POSIX calls (Base/Fs.v)"]
