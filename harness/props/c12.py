"""C12 — clean removes exactly what the last build created."""
import copy
from .. import gen
from . import seqprop

GEN = ['JsonUtilGen.v', 'Decisions.v', 'Sites.v']
DECISIONS = ['FileBuilder._remove_empty_dirs', 'FileBuilder._try_to_remove_file', 'FileBuilder.clean']
SITES = True
ORDER = False


def make_cases(rng, tier, budget):
    g = gen.Gen(rng, dict(fail=0.2))
    out = []
    n = (40 if tier == "quick" else 400) * budget
    for _ in range(n):
        c = g.case()
        h = c["history"]
        # clean inserted at a random position, doubled sometimes (idempotence), with a planted foreign
        # file inside a created directory or at an output position sometimes
        pos = rng.randint(1, len(h))
        ins = [["clean", rng.choice([None, "n"])]]
        if rng.random() < 0.5:
            ins.append(["clean", None])
        if rng.random() < 0.5 and g.outputs:
            o = list(rng.choice(g.outputs))
            plant = [["write", o[:-1] + ["foreign"], "F"]] if rng.random() < 0.6 else [["write", o, "tampered"]]
            ins = [["mutate", plant]] + ins
        c["history"] = h[:pos] + ins + h[pos:]
        out.append(c)
    return out


def nontrivial(c, o, st):
    for i, s in enumerate(c["history"]):
        if s[0] == "clean" and i > 0 and seqprop.tree_of(o[i]) != seqprop.tree_of(o[i - 1]):
            return True
    return False


t2, t3 = seqprop.make_module("C12", ["foreign"], make_cases, nontrivial)
RULE = ("generated histories with clean inserted at a random position (after commits, rollbacks, tampering, "
        "a previous clean); non-trivial when a clean step changed the tree")
TRUSTED = ["DSL interpreter and Gallina emitter (harness/dsl.py)", "model of the POSIX calls (Base/Fs.v)"]
