"""C10 — build_file contract: output appears atomically, failure leaves nothing."""
import json
from .. import gen
from . import seqprop

GEN = ['JsonUtilGen.v', 'Sites.v', 'Decisions.v', 'BookGen.v', 'OpsGen.v', 'DriverGen.v']
DECISIONS = ['FileBuilder._apply_cached_suboperations', 'FileBuilder._assert_build_file_call_valid', 'FileBuilder._build_file', 'FileBuilder._dirs_to_make', 'FileBuilder._handle_error_building_file', 'FileBuilder._make_dirs', 'FileBuilder._make_room', 'FileBuilder._prepare_file_creation', 'FileBuilder._rebuild_file', 'FileBuilder._subbuild', 'FileBuilder.build_file_with_comparison', 'FileBuilder.subbuild']
SITES = True
ORDER = False
PRIOR = ["absent", "foreign_file", "stale_output", "stale_dir", "dir_with_foreign", "overlong", "parent_is_file"]
MODES = ["ok", "raise_before", "raise_after", "nocreate", "obj", "raise_type", "raise_os"]


def make_cases(rng, tier, budget):
    out = []
    reps = (1 if tier == "quick" else 4) * budget
    for _ in range(reps):
        for depth in (1, 2, 3):
            for prior in PRIOR:
                for mode in MODES:
                    names = [rng.choice(gen.NAMES[:4]) + str(i) for i in range(depth)]
                    target = list(names)
                    if prior == "overlong":
                        target = names[:-1] + ["L" * 300] if rng.random() < 0.5 or depth == 1 else names[:-2] + ["L" * 300, names[-1]]
                    body = {"ok": [["write", ["lit", "x"]], ["ret", ["lit", [1, {"k": (2,)}]]]],
                            "raise_before": [["raise", 1]],
                            "raise_after": [["write", ["lit", "x"]], ["raise", 2]],
                            "nocreate": [["ret", ["lit", 0]]],
                            "obj": [["write", ["lit", "x"]], ["ret", ["obj"]]],
                            # user code raising exception classes the library raises itself (same object must come out)
                            "raise_type": [["write", ["lit", "x"]], ["raise", "TypeError"]],
                            "raise_os": [["raise", "OSError"]]}[mode]
                    body = [["ask", "e", "exists", target], ["ask", "pd", "is_dir", target[:-1]]] + body
                    funcs = {"f": {"*": body}, "old": {"*": [["write", ["lit", "old"]], ["ret", ["lit", 0]]]}}
                    root = [["build_file", "x", target, rng.choice(["HASH", "METADATA"]), "f", [], {}],
                            ["ask", "a1", "exists", target], ["ask", "a2", "list_dir", target[:-1]],
                            ["ask", "a3", "exists", target[:1]], ["ret", ["digest", ["x", "a1", "a2", "a3"]]]]
                    pre = []
                    if prior == "foreign_file":
                        pre = [["mutate", [["write", target, "foreign"]]]]
                    elif prior == "stale_output":
                        pre = [["build", {}, [["build_file", "o", target, "METADATA", "old", [], {}], ["ret", ["lit", 0]]]]]
                    elif prior == "stale_dir":
                        pre = [["build", {}, [["build_file", "o", target + ["inner"], "METADATA", "old", [], {}], ["ret", ["lit", 0]]]]]
                    elif prior == "dir_with_foreign":
                        pre = [["build", {}, [["build_file", "o", target + ["inner"], "METADATA", "old", [], {}], ["ret", ["lit", 0]]]],
                               ["mutate", [["write", target + ["foreign"], "F"]]]]
                    elif prior == "parent_is_file":
                        if depth == 1:
                            continue
                        pre = [["mutate", [["write", target[:-1], "file-in-the-way"]]]]
                    hist = pre + [["build", {}, root], ["build", {}, root], ["clean", None]]
                    out.append({"cache": ["cache"], "name": "n", "funcs": funcs, "history": hist,
                                "tag": {"depth": depth, "prior": prior, "mode": mode}})
    # creating the parent directories fails part-way below stale ancestors (left by the previous build,
    # or by a failed call earlier in the same build)
    for depth_stale in (1, 2):
        for where in ("previous_build", "same_build"):
            stale = ["S%d" % i for i in range(depth_stale)]
            target = stale + ["fresh", "L" * 300, "o"]
            funcs = {"f": {"*": [["write", ["lit", "x"]], ["ret", ["lit", 1]]]},
                     "old": {"*": [["write", ["lit", "old"]], ["ret", ["lit", 0]]]},
                     "boom": {"*": [["raise", 3]]}}
            root = [["build_file", "x", target, "METADATA", "f", [], {}],
                    ["ask", "e1", "exists", stale + ["fresh"]], ["ask", "e2", "is_dir", stale],
                    ["ret", ["digest", ["x", "e1", "e2"]]]]
            if where == "previous_build":
                hist = [["build", {}, [["build_file", "o", stale + ["inner"], "METADATA", "old", [], {}], ["ret", ["lit", 0]]]],
                        ["build", {}, root], ["build", {}, root], ["clean", None]]
            else:
                root = [["build_file", "b", stale + ["inner"], "METADATA", "boom", [], {}]] + root
                hist = [["build", {}, root], ["build", {}, root], ["clean", None]]
            out.append({"cache": ["cache"], "name": "n", "funcs": funcs, "history": hist,
                        "tag": {"depth": depth_stale + 3, "prior": "stale_ancestor_" + where, "mode": "mkdir_fails_part_way"}})
    g = gen.Gen(rng, dict(fail=0.4, malformed=0.1, long=0.05))
    for _ in range((20 if tier == "quick" else 300) * budget):
        out.append(g.case())
    return out


def nontrivial(c, o, st):
    t = c.get("tag")
    if t:
        return t["depth"] > 1 or t["prior"] != "absent"
    return seqprop.has_hit_and_miss(c, o, st)


t2, t3 = seqprop.make_module("C10", ["entry", "foreign"], make_cases, nontrivial)
RULE = ("target depth 1-3 x prior state of the target and its ancestors (absent, foreign file, stale output, stale directory, directory "
        "holding foreign content, over-long component, parent is a file) x failure mode (ok, raise before write, raise after write, no "
        "create, non-JSON return), built twice and cleaned; plus random programs with many failures; non-trivial when the call had to "
        "create a directory or met an existing node")
TRUSTED = ["DSL interpreter/emitter (it also checks, at function entry, that the target is absent, absolute, and its parent exists)"]
