"""C02 — rollback: a build that raises leaves the pre-build state."""
import json
from .. import gen, seq, common
from . import seqprop

GEN = ['JsonUtilGen.v', 'Sites.v', 'Decisions.v', 'BookGen.v', 'CacheGen.v', 'DriverGen.v']
DECISIONS = ['Cache.write', 'FileBackups.back_up_and_remove', 'FileBackups.restore_all', 'FileBuilder._apply_cached_suboperations', 'FileBuilder._assert_build_file_call_valid', 'FileBuilder._build', 'FileBuilder._build_file', 'FileBuilder._commit', 'FileBuilder._create_dirs', 'FileBuilder._dirs_to_make', 'FileBuilder._handle_error_building_file', 'FileBuilder._make_dirs', 'FileBuilder._make_room', 'FileBuilder._prepare_file_creation', 'FileBuilder._rebuild_file', 'FileBuilder._remove_empty_dirs', 'FileBuilder._roll_back', 'FileBuilder._set_created_dirs', 'FileBuilder._subbuild', 'FileBuilder._try_to_remove_file', 'FileBuilder.build_file_with_comparison', 'FileBuilder.subbuild']
SITES = True
ORDER = False


def raise_points(stmts):
    """all positions at which a `raise` can be inserted into a block (before/after each statement)"""
    return list(range(len(stmts) + 1))


def make_cases(rng, tier, budget):
    """Every generated program is made to fail at a chosen raise point (root level: before/after each
    builder call; nested: inside a function body), on top of history prefixes with no cache, a valid
    cache, tampered or deleted outputs and file<->directory swaps; the failed build is followed by the
    same successful build (and the twin history without the failed build is run by the oracle)."""
    g = gen.Gen(rng, dict(fail=0.15, dup=0.03))
    out = []
    n = (30 if tier == "quick" else 350) * budget
    for _ in range(n):
        c = g.case()
        builds = [s for s in c["history"] if s[0] == "build"]
        ok = builds[-1]
        body = [s for s in ok[2] if s[0] not in ("raise",)]
        body = body[:-1] if body and body[-1][0] == "ret" else body
        pts = raise_points(body)
        ks = pts if tier == "thorough" and len(pts) <= 6 else rng.sample(pts, min(len(pts), 2))
        for k in ks:
            c2 = json.loads(json.dumps(c))
            failing = body[:k] + [["raise", 9]]
            c2["history"] = c2["history"] + [["build", ok[1], failing], ["build", ok[1], ok[2]]]
            c2["tag"] = {"raise_point": k, "of": len(body)}
            out.append(c2)
        # a raise inside a nested function: patch one function body
        if c["funcs"] and rng.random() < 0.5:
            c3 = json.loads(json.dumps(c))
            f = rng.choice(sorted(c3["funcs"]))
            b = c3["funcs"][f]["*"]
            k = rng.randint(0, len(b))
            c3["funcs"][f] = {"*": b, "7": b[:k] + [["raise", 8]]}
            vers = dict(ok[1])
            vers[f] = 7
            # the nested failure propagates: reraise everything at root level
            root = []
            for s in ok[2]:
                root.append(s)
                if s[0] in ("build_file", "subbuild"):
                    root.append(["reraise", s[1]])
            c3["history"] = c3["history"] + [["build", vers, root], ["build", ok[1], ok[2]]]
            c3["tag"] = {"nested_raise_in": f, "at": k}
            out.append(c3)
    # a directory the previous build created, replaced by a foreign regular file, overwritten by a
    # build_file of the failing build (the undo must restore the file before it re-creates old directories)
    for i in range((4 if tier == "quick" else 30) * budget):
        D = [rng.choice(gen.NAMES[:4]) + "D"]
        deep = rng.random() < 0.4
        first = D + (["m", "a"] if deep else ["a"])
        funcs = {"w": {"*": [["write", ["lit", "x"]], ["ret", ["lit", 0]]]},
                 "over": {"*": rng.choice([[["write", ["lit", "new"]], ["ret", ["lit", 1]]], [["write", ["lit", "new"]], ["raise", 1]]])}}
        at = D + ["m"] if deep and rng.random() < 0.5 else D
        root1 = [["build_file", "a", first, "METADATA", "w", [], {}], ["ret", ["lit", 0]]]
        bad = [["build_file", "b", at, "METADATA", "over", [], {}], ["reraise", "b"], ["raise", 9]]
        good = [["build_file", "b", at, "METADATA", "w", [], {}], ["ret", ["lit", 0]]]
        hist = [["build", {}, root1], ["mutate", [["rmtree", at], ["write", at, "foreign-where-a-directory-was"]]],
                ["build", {}, bad], ["build", {}, good]]
        out.append({"cache": ["cache"], "name": "n", "funcs": funcs, "history": hist, "tag": {"raise_point": -1, "of": 0, "swap": True}})
    # "... or while the cache file is being written": a fault at the open / write of the cache file of
    # a first build (no previous cache) and of a later build
    import shutil
    from .. import seq, common
    work = common.fresh_workdir("c02gen")
    try:
        for c in [x for x in out if "raise_point" in x.get("tag", {})][: (6 if tier == "quick" else 40)]:
            base = json.loads(json.dumps(c))
            base["history"] = [s for s in base["history"] if not (s[0] == "build" and s[2] and s[2][-1][0] == "raise")]
            c0 = dict(base)
            c0["faults"] = []
            obs, st = seq.impl_run(c0, work)
            cw = [k for k, name, _, _ph in st["mut_log"] if name in ("gzip.open", "gzip.write")]
            for k in sorted(set(cw[:2] + cw[-2:])):
                c2 = json.loads(json.dumps(base))
                c2["faults"] = [k]
                c2["tag"] = {"cache_write_fault": k}
                out.append(c2)
    finally:
        shutil.rmtree(work, ignore_errors=True)
    return out


def oracle_twin(case, obs, stats):
    """A subsequent build behaves exactly as if the failed build had never run: compare with the
    history without the failed build (results, logs, trees up to modification times)."""
    return []     # filled in by t3 (needs extra implementation runs)


def nontrivial(c, o, st):
    for i, s in enumerate(c["history"]):
        if s[0] == "build" and o[i][0].startswith("err:") and i > 0:
            m = st["meta"][i]
            if m["misses"] > 0 or m["hits"] > 0:
                return True
    return False


_t2, _t3 = seqprop.make_module("C02", ["rollback", "foreign", "entry"], make_cases, nontrivial, use_spec=True)


def t2(rep, tier, workdir):
    t2.workdir = workdir
    t2.tier = tier
    return _t2(rep, tier, workdir)


def strip(obs_step):
    out = []
    for l in obs_step:
        if "|F|" in l:
            head, mt, cls = l.rsplit("|", 2)
            l = head
        out.append(l)
    return out


def t3(rep, tier, budget=1):
    fails = _t3(rep, tier, budget)
    # twin histories on a sample of the cases
    import random
    rng = random.Random(common.seed() + 2)
    res = seqprop._CACHE.get(("C02", tier, budget))
    cases = seqprop.corpus_cases("C02") + make_cases(random.Random(common.seed() * 1000003 + sum(map(ord, "C02"))), tier, budget)
    sample = rng.sample(cases, min(len(cases), 25 if tier == "quick" else 200))
    for c in sample:
        h = c["history"]
        idx = [i for i, s in enumerate(h) if s[0] == "build"]
        if len(idx) < 2:
            continue
        fail_i = idx[-2]
        full, _ = seq.impl_run(c, t2.workdir)
        if not full[fail_i][0].startswith("err:"):
            continue
        twin = dict(c)
        twin["history"] = h[:fail_i] + h[fail_i + 1:]
        tw, _ = seq.impl_run(twin, t2.workdir)
        rep.evaluations += 1
        a, b = strip(full[-1]), strip(tw[-1])
        if a != b:
            # directories that the previous committed build recorded may reappear empty after the
            # failed build: they are removed again by the next build, so the final observation must agree
            fails.append({"oracle": "the build after a failed build behaves as if the failed build had never run",
                          "case": c, "with_failed_build": a, "twin": b})
    return fails


RULE = ("generated programs made to raise at chosen positions (root level before/after each builder call, inside nested functions) on "
        "histories with no cache / valid cache / tampered or deleted outputs / swaps, followed by the successful build; twin histories "
        "without the failed build; non-trivial when the failing build had run a body or served a call from the cache before raising")
TRUSTED = ["DSL interpreter/emitter", "snapshot comparison: bytes, mtime_ns, inode (hard links keep inode numbers from being recycled)"]
