"""C15 — refused calls have no side effects."""
import os
import random
import shutil
import tempfile

from .. import common, gen
from . import seqprop

GEN = ['JsonUtilGen.v', 'Decisions.v', 'Order.v', 'CacheGen.v', 'DriverGen.v']
DECISIONS = ['Cache.read_immutable', 'FileBuilder.build_versioned', 'FileBuilder.clean']
SITES = False
ORDER = True
KINDS = ["truncate", "notgzip", "empty", "nonjson", "wrongshape", "othersoftware", "newerversion"]


def make_cases(rng, tier, budget):
    g = gen.Gen(rng, dict(fail=0.1))
    out = []
    n = (40 if tier == "quick" else 300) * budget
    for i in range(n):
        c = g.case(nsteps=2)
        h = c["history"]
        # after a committed build: corrupt the cache / rename the build / make the cache path a directory
        k = rng.choice(KINDS + ["wrongname", "dir"])
        tail = [s for s in h if s[0] == "build"][-1]
        if k == "wrongname":
            c2 = dict(c)
            h.append(["clean", "other"])
            h.append(["build", tail[1], tail[2]])
        elif k == "dir":
            h.append(["mutate", [["rmtree", c["cache"]], ["mkdir", c["cache"]]]])
            h.append(["build", tail[1], tail[2]])
            h.append(["clean", None])
        else:
            h.append(["mutate", [["corrupt", k]]])
            h.append(["build", tail[1], tail[2]])
            h.append(["clean", rng.choice([None, "n", "", "other"])])
        out.append(c)
    return out


def oracle_refused(case, obs, stats):
    fails = []
    for i, st in enumerate(case["history"]):
        if i == 0 or st[0] == "mutate":
            continue
        log = seqprop.log_of(obs[i])
        refused = obs[i][0].startswith("err:") and not any(l.startswith("invoke <root>") for l in log) and st[0] == "build"
        refused = refused or (st[0] == "clean" and obs[i][0].startswith("err:"))
        if not refused:
            continue
        before, after = seqprop.tree_of(obs[i - 1]), seqprop.tree_of(obs[i])
        b = [l.rsplit("|", 1)[0] if "|F|" in l else l for l in before]
        a = [l.rsplit("|", 1)[0] if "|F|" in l else l for l in after]
        if a != b or any(l.endswith("|new") for l in after):
            fails.append({"oracle": "refused call leaves the tree bit-identical", "step": i, "before": before, "after": after})
        if stats["meta"][i].get("temp_left"):
            fails.append({"oracle": "refused call leaves no temporary directory", "step": i})
    return fails


seqprop.ORACLES["refused"] = oracle_refused


def nontrivial(c, o, st):
    for i, s in enumerate(c["history"]):
        if s[0] != "mutate" and i > 0 and o[i][0].startswith("err:") and any("|F|" in l for l in seqprop.tree_of(o[i - 1])):
            if not any(l.startswith("invoke <root>") for l in seqprop.log_of(o[i])):
                return True
    return False


_t2, _t3 = seqprop.make_module("C15", ["refused", "entry"], make_cases, nontrivial)


def t2(rep, tier, workdir):
    return _t2(rep, tier, workdir)


def typed_calls(rep):
    """Wrong-typed arguments at every position, on top of a tree with outputs (real API only)."""
    common.import_repo()
    import logging
    logging.disable(logging.CRITICAL)
    from file_builder import FileBuilder
    fails = []
    base = tempfile.mkdtemp(prefix="c15_", dir=common.WORK)
    tmp = os.path.join(base, "tmp")
    os.makedirs(tmp)
    old_tmp = tempfile.tempdir
    tempfile.tempdir = tmp
    try:
        root = os.path.join(base, "sb")
        os.makedirs(root)
        cache = os.path.join(root, "cache")

        def w(b, p):
            open(p, "w").write("x")

        def main(b):
            b.build_file(os.path.join(root, "D", "o"), "w", w)
            return 1
        FileBuilder.build(cache, "n", main)

        def snap():
            out = []
            for d, ds, fs in os.walk(root):
                for n in ds:
                    out.append((os.path.join(d, n), "D"))
                for n in fs:
                    p = os.path.join(d, n)
                    s = os.stat(p)
                    out.append((p, open(p, "rb").read(), s.st_mtime_ns, s.st_ino))
            return sorted(out, key=repr)
        calls = [
            ("build name int", lambda: FileBuilder.build(cache, 3, main)),
            ("build func not callable", lambda: FileBuilder.build(cache, "n", 5)),
            ("build cache filename int", lambda: FileBuilder.build(7, "n", main)),
            ("build_versioned versions list", lambda: FileBuilder.build_versioned(cache, "n", [], main)),
            ("build_versioned versions non-JSON", lambda: FileBuilder.build_versioned(cache, "n", {"f": object()}, main)),
            ("clean name int", lambda: FileBuilder.clean(cache, 5)),
            # falsy values are not "no name given": None is
            ("clean name empty string", lambda: FileBuilder.clean(cache, "")),
            ("clean name 0", lambda: FileBuilder.clean(cache, 0)),
            ("clean name False", lambda: FileBuilder.clean(cache, False)),
            ("clean name 0.0", lambda: FileBuilder.clean(cache, 0.0)),
            ("clean name empty bytes", lambda: FileBuilder.clean(cache, b"")),
            ("clean name empty list", lambda: FileBuilder.clean(cache, [])),
            ("clean name empty dict", lambda: FileBuilder.clean(cache, {})),
            ("build name empty string", lambda: FileBuilder.build(cache, "", main)),
            ("build name None", lambda: FileBuilder.build(cache, None, main)),
            ("build name False", lambda: FileBuilder.build(cache, False, main)),
            ("build_versioned versions None", lambda: FileBuilder.build_versioned(cache, "n", None, main)),
            ("build_versioned versions 0", lambda: FileBuilder.build_versioned(cache, "n", 0, main)),
            ("clean cache filename None", lambda: FileBuilder.clean(None, "n")),
            ("build other name", lambda: FileBuilder.build(cache, "other", main)),
            ("clean other name", lambda: FileBuilder.clean(cache, "other")),
        ]
        called = []

        def spy(b):
            called.append(1)
            return main(b)
        calls.append(("build other name with spy", lambda: FileBuilder.build(cache, "zzz", spy)))
        # second round: the directories the previous build created have been removed by somebody else in
        # the meantime - a refused call must not bring them back (nor touch anything else)
        for variant in ("intact", "created-dirs-removed"):
            if variant == "created-dirs-removed":
                shutil.rmtree(os.path.join(root, "D"), ignore_errors=True)
            for name, f in calls:
                name = name + " [" + variant + "]"
                s0 = snap()
                try:
                    f()
                    fails.append({"oracle": "wrong call is rejected", "call": name})
                except (TypeError, RuntimeError):
                    pass
                except Exception as e:       # noqa
                    fails.append({"oracle": "wrong call raises TypeError/RuntimeError", "call": name, "got": repr(e)})
                if snap() != s0:
                    fails.append({"oracle": "refused call leaves the tree bit-identical", "call": name})
                if os.listdir(tmp):
                    fails.append({"oracle": "refused call leaves no temporary directory", "call": name})
                rep.case(key=("typed", name), nontrivial=True)
        if called:
            fails.append({"oracle": "no user function is called by a refused call"})
    finally:
        tempfile.tempdir = old_tmp
        shutil.rmtree(base, ignore_errors=True)
        logging.disable(logging.NOTSET)
    return fails


def t3(rep, tier, budget=1):
    return _t3(rep, tier, budget) + typed_calls(rep)


RULE = ("committed build, then a corruption class of the cache file / other build name / cache path a directory, "
        "then build and clean; plus wrong-typed arguments at every position on the real API; non-trivial when "
        "the tree held outputs when the call was refused")
TRUSTED = ["the byte level (gzip, JSON lexing) is not modelled: content classes are; byte-identical trees are checked on the implementation"]
