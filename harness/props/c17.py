"""C17 — finished builders are fenced off.
T2: DSL programs with calls on finished builders vs the model.
T3: (a) every public method on a finished root / subbuild / build_file builder raises RuntimeError and
changes nothing; (b) all schedules of a straggler thread calling a method while the owner returns:
the call returned normally iff its record is part of the operation's record."""
import gzip
import json
import os
import shutil
import tempfile

from .. import common, shim, gen
from . import seqprop

GEN = ['JsonUtilGen.v', 'Locks.v', 'Decisions.v', 'OpsGen.v']
DECISIONS = ['FileBuilder._append_suboperation', 'FileBuilder._assert_not_finished', 'FileBuilder._exec_simple_operation', 'FileBuilder._rebuild_file', 'FileBuilder._build_file', 'FileBuilder._subbuild', 'FileBuilder.build_file_with_comparison', 'FileBuilder.subbuild', 'FileBuilder._build', 'Cache.finish_building_file', 'Cache.finish_subbuild']
SITES = False
ORDER = False

_t2, _t3 = seqprop.make_module("C17", ["entry"], seqprop.default_cases(dict(stale=0.6), 40, 400),
                               nontrivial=lambda c, o, st: any("stale_ask" in json.dumps(s) for s in c["history"]))


def t2(rep, tier, workdir):
    t2.workdir = workdir
    return _t2(rep, tier, workdir)


def snap(root):
    out = []
    for d, ds, fs in os.walk(root):
        for n in ds:
            out.append((os.path.join(d, n), "D"))
        for n in fs:
            p = os.path.join(d, n)
            st = os.stat(p)
            out.append((p, open(p, "rb").read(), st.st_mtime_ns, st.st_ino))
    return sorted(out, key=repr)


def methods(b, root):
    from file_builder import FileComparison
    x = os.path.join(root, "x")
    return [
        ("build_file", lambda: b.build_file(os.path.join(root, "late"), "w", lambda bb, p: open(p, "w").write("z"))),
        ("build_file_with_comparison", lambda: b.build_file_with_comparison(os.path.join(root, "late2"), FileComparison.HASH, "w", lambda bb, p: open(p, "w").write("z"))),
        ("subbuild", lambda: b.subbuild("late", lambda bb: 1)),
        ("read_text", lambda: b.read_text(x)), ("read_binary", lambda: b.read_binary(x)), ("declare_read", lambda: b.declare_read(x)),
        ("list_dir", lambda: b.list_dir(root)), ("walk", lambda: b.walk(root)), ("is_file", lambda: b.is_file(x)),
        ("is_dir", lambda: b.is_dir(root)), ("exists", lambda: b.exists(x)), ("get_size", lambda: b.get_size(x)),
    ]


def sequential_fence(rep):
    common.import_repo()
    from file_builder import FileBuilder
    fails = []
    base = tempfile.mkdtemp(prefix="c17_", dir=common.WORK)
    try:
        root = os.path.join(base, "sb")
        os.makedirs(root)
        open(os.path.join(root, "x"), "w").write("data")
        cache = os.path.join(root, "cache")
        held = {}

        def wr(b, p):
            held["file"] = b
            open(p, "w").write("o")

        def sub(b):
            held["sub"] = b
            return 1

        def raising(b):
            held["raised"] = b
            raise ValueError("boom")

        def main(b):
            held["root"] = b
            b.build_file(os.path.join(root, "o"), "wr", wr)
            b.subbuild("sub", sub)
            try:
                b.subbuild("raising", raising)
            except ValueError:
                pass
            # inside the build: finished nested builders are fenced while the build goes on
            for who in ("file", "sub", "raised"):
                s0 = snap(root)
                for name, call in methods(held[who], root):
                    try:
                        call()
                        fails.append({"oracle": "finished builder raises RuntimeError", "builder": who, "method": name, "when": "during build"})
                    except RuntimeError:
                        pass
                    except Exception as e:       # noqa
                        fails.append({"oracle": "finished builder raises RuntimeError", "builder": who, "method": name, "got": repr(e)})
                    rep.case(key=("seq", who, name, "during"), nontrivial=True)
                if snap(root) != s0:
                    fails.append({"oracle": "a call on a finished builder has no effect", "builder": who})
            return 0
        FileBuilder.build(cache, "n", main)
        s0 = snap(root)
        for who in ("root", "file", "sub", "raised"):
            for name, call in methods(held[who], root):
                try:
                    call()
                    fails.append({"oracle": "finished builder raises RuntimeError", "builder": who, "method": name, "when": "after build"})
                except RuntimeError:
                    pass
                except Exception as e:       # noqa
                    fails.append({"oracle": "finished builder raises RuntimeError", "builder": who, "method": name, "got": repr(e)})
                rep.case(key=("seq", who, name, "after"), nontrivial=True)
        if snap(root) != s0:
            fails.append({"oracle": "a call on a finished builder has no effect", "when": "after build"})
        # a failed root function also closes the root builder
        def bad(b):
            held["failed_root"] = b
            raise ValueError("x")
        try:
            FileBuilder.build(cache, "n", bad)
        except ValueError:
            pass
        for name, call in methods(held["failed_root"], root):
            try:
                call()
                fails.append({"oracle": "finished builder raises RuntimeError", "builder": "failed_root", "method": name})
            except RuntimeError:
                pass
    finally:
        shutil.rmtree(base, ignore_errors=True)
    return fails


def record_has(cache, fname, opname):
    with gzip.open(cache, "rt") as f:
        j = json.load(f)
    def walk(ops):
        for o in ops:
            if o.get("funcName") == fname:
                return [s.get("type") for s in o["suboperations"]]
            r = walk(o.get("suboperations", []))
            if r is not None:
                return r
        return None
    subs = walk(j["rootOperations"])
    return subs is not None and opname in subs


def straggler_race(rep, tier, budget, workdir):
    """Straggler thread calls a query on the builder of a subbuild / build_file function while the
    owner returns: all schedules up to the pre-emption bound."""
    common.import_repo()
    from file_builder import FileBuilder
    fails = []
    bound = 2 if tier == "quick" else 3
    limit = (300 if tier == "quick" else 4000) * budget
    # order of "record closed" (registered in the new cache) and "observation attached" events, seen from
    # outside by wrapping the three methods (harness-side instrumentation; the source is untouched)
    from file_builder.cache import Cache
    from file_builder.file_builder import FileBuilder as FB
    events = []
    orig = (Cache.finish_building_file, Cache.finish_subbuild, FB._append_suboperation)

    def w_fbf(self, operation):
        events.append(("close", id(operation)))
        return orig[0](self, operation)

    def w_fsb(self, key, operation):
        events.append(("close", id(operation)))
        return orig[1](self, key, operation)

    def w_app(self, sub):
        r = orig[2](self, sub)
        events.append(("append", id(self._operation)))
        return r
    Cache.finish_building_file, Cache.finish_subbuild, FB._append_suboperation = w_fbf, w_fsb, w_app
    try:
        fails += _straggler_race_inner(rep, tier, bound, limit, workdir, events)
    finally:
        Cache.finish_building_file, Cache.finish_subbuild, FB._append_suboperation = orig
    return fails


def _straggler_race_inner(rep, tier, bound, limit, workdir, events):
    from file_builder import FileBuilder
    fails = []
    for kind in ("subbuild", "build_file"):
        seen = set()
        stack = [((), 0)]
        n = 0
        while stack and n < limit:
            prefix, dev = stack.pop()
            if prefix in seen:
                continue
            seen.add(prefix)
            n += 1
            base = tempfile.mkdtemp(prefix="c17r_", dir=workdir)
            root = os.path.join(base, "sb")
            os.makedirs(root)
            cache = os.path.join(root, "cache")
            del events[:]
            sched = shim.Sched(prefix)
            hooks = shim.Hooks(sched=sched)
            shim.install(hooks)
            sched.register_main()
            out = {}
            try:
                def strag(b):
                    try:
                        b.is_file(os.path.join(root, "x"))
                        out["res"] = "ok"
                    except RuntimeError:
                        out["res"] = "raised"
                    except Exception as e:       # noqa
                        out["res"] = repr(e)

                def body(b, *a):
                    out["th"] = sched.spawn(lambda: strag(b), 1)
                    if kind == "build_file":
                        open(a[0], "w").write("o")
                    return 1

                def main(b):
                    if kind == "subbuild":
                        b.subbuild("s", body)
                    else:
                        b.build_file(os.path.join(root, "o"), "s", body)
                    sched.join([1])
                    out["th"].join(timeout=30)
                    return 0
                old_tmp = tempfile.tempdir
                tempfile.tempdir = base
                try:
                    FileBuilder.build(cache, "n", main)
                finally:
                    tempfile.tempdir = old_tmp
                info = {"branching": sched.branching, "taken": sched.taken, "deadlock": sched.deadlock, "pre": sched.preemptions}
            except shim.Deadlock:
                info = {"branching": sched.branching, "taken": sched.taken, "deadlock": True, "pre": sched.preemptions}
            finally:
                shim.uninstall()
            rep.case(key=("race", kind, prefix), nontrivial=info["pre"] > 0)
            oc = rep.extra.setdefault("race_outcomes_" + kind, {})
            oc[out.get("res", "none")] = oc.get(out.get("res", "none"), 0) + 1
            if info["deadlock"]:
                fails.append({"oracle": "straggler race: no deadlock", "kind": kind, "schedule": list(prefix)})
            else:
                closed = set()
                for ev, oid in list(events):
                    if ev == "close":
                        closed.add(oid)
                    elif oid in closed:
                        fails.append({"oracle": "no observation is attached to a record that has been closed", "kind": kind,
                                      "schedule": list(prefix), "straggler": out.get("res")})
                        break
                inrec = record_has(cache, "s", "is_file")
                if out.get("res") not in ("ok", "raised"):
                    fails.append({"oracle": "straggler call returns normally or raises RuntimeError", "kind": kind,
                                  "schedule": list(prefix), "got": out.get("res")})
                elif (out["res"] == "ok") != inrec:
                    fails.append({"oracle": "returned normally iff the observation is part of the record", "kind": kind,
                                  "schedule": list(prefix), "result": out["res"], "in_record": inrec})
            shutil.rmtree(base, ignore_errors=True)
            if dev < bound:
                br, tk = info["branching"], info["taken"]
                for i in range(len(prefix), len(br)):
                    for alt in range(br[i]):
                        if alt != tk[i]:
                            stack.append((tuple(tk[:i]) + (alt,), dev + 1))
        rep.extra["race_schedules_" + kind] = n
    return fails


def t3(rep, tier, budget=1):
    return _t3(rep, tier, budget) + sequential_fence(rep) + straggler_race(rep, tier, budget, t2.workdir)


RULE = ("every public method x {root, subbuild, build_file, raised-function builder} after the function returned (during and after "
        "the build); all schedules with bounded pre-emptions of a straggler query racing with the owner's return for subbuild and "
        "build_file builders; DSL programs with calls on finished builders; non-trivial: any fenced call / a schedule with a pre-emption")
TRUSTED = ["deterministic scheduler harness/shim.py (switch points at lock acquisitions and file-system calls)", "the cache file is read back to see which observations a record holds"]
