"""C01 — cache transparency."""
from . import seqprop
GEN = ["JsonUtilGen.v"]
t2, t3 = seqprop.make_module("C01", ["entry"], seqprop.default_cases(None, 150, 2500))
RULE = ("generated programs (nested subbuild/build_file trees, caught and uncaught failures, data-dependent control flow) x "
        "histories of [external mutation | build | failing build | clean]; a case is non-trivial when some build had at "
        "least one cache hit and one miss")
TRUSTED = ["DSL interpreter and Gallina emitter", "POSIX model Base/Fs.v", "reference semantics Spec/Ref.v is the specification"]
