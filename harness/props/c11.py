"""C11 — values cross the API by value (no aliasing with cache records).
T3 (real API): at every value-carrying edge (arguments in, return out fresh and served from the cache,
query results) user code edits a nested container in place; results, invocations and the cache file are
compared with the twin run without the edits.  T2: the generated edge table (Gen/Edges.v) is what the
Alias model interprets; the check that every edge is Deep is part of the proof obligations."""
import copy
import gzip
import itertools
import json
import os
import shutil
import tempfile

from .. import common

GEN = ['Edges.v']
DECISIONS = []
SITES = False
ORDER = False

EDITS = ["arg_nested", "arg_top", "ret_fresh", "ret_cached", "ret_file_fresh", "ret_file_cached", "list_dir", "walk_prune", "walk_entry", "kwarg", "kwarg_nested", "sub_kwarg_nested", "ret_rootfile_fresh", "ret_rootfile_cached"]


def scenario(root, edits, log):
    from file_builder import FileBuilder
    cache = os.path.join(root, "cache")
    d = os.path.join(root, "in")
    os.makedirs(os.path.join(d, "sub"), exist_ok=True)
    for n in ("a", "b"):
        p = os.path.join(d, n)
        if not os.path.exists(p):
            open(p, "w").write(n)
    E = set(edits)

    def leaf(b, p, arg, opt=None):
        log.append(("leaf", copy.deepcopy(arg), copy.deepcopy(opt)))
        open(p, "w").write(json.dumps(arg))
        if "arg_nested" in E:
            arg[1]["k"].append(99)
        if "kwarg" in E and opt is not None:
            opt["z"] = 1
        if "kwarg_nested" in E and opt is not None:
            opt["y"].append(7)
        return {"file": [1, [2]]}

    def sub(b, arg, sopt=None):
        log.append(("sub", copy.deepcopy(arg), copy.deepcopy(sopt)))
        if "sub_kwarg_nested" in E and sopt is not None:
            sopt["names"].append("END")
            sopt["deep"]["k"]["j"] = 2
        if "arg_top" in E:
            arg.append("edited")
        ls = b.list_dir(d)
        if "list_dir" in E:
            ls.append("zzz")
            ls.sort(reverse=True)
        w = b.walk(d)
        if "walk_prune" in E:
            w[0][1].clear()
        if "walk_entry" in E:
            w.append(("x", [], []))
        r = b.build_file(os.path.join(root, "out", "o"), "leaf", leaf, [1, {"k": [2]}], opt={"y": [0]})
        snap = copy.deepcopy(r)
        if "ret_file_fresh" in E or "ret_file_cached" in E:
            r["file"][1].append("edited")
        return {"v": [1, [2]], "names": sorted(x for x in os.listdir(d)), "file": snap}

    results = []
    for i in range(3):
        def main(b):
            v = b.subbuild("s", sub, ["top", {"k": [5]}], sopt={"names": ["a", "b"], "deep": {"k": {}}})
            # a build_file call made directly by the root function: its return value on a miss and on a hit
            def leaf2(bb, p):
                log.append(("leaf2",))
                open(p, "w").write("two")
                return {"count": 2, "names": ["a", "b"]}
            rf = b.build_file(os.path.join(root, "out", "o2"), "leaf2", leaf2)
            v["rootfile"] = copy.deepcopy(rf)
            if ("ret_rootfile_fresh" in E and i == 0) or ("ret_rootfile_cached" in E and i > 0):
                rf["names"].append("extra%d" % i)
                rf["count"] = 100 + i
            snap = copy.deepcopy(v)
            if ("ret_fresh" in E and i == 0) or ("ret_cached" in E and i > 0):
                v["v"][1].append("edited%d" % i)
                v["new"] = 1
            return snap
        results.append(FileBuilder.build(cache, "n", main))
        log.append(("build-done", i))
    with gzip.open(cache, "rt") as f:
        cj = json.load(f)
    return results, cj


def run(edits):
    import logging
    logging.disable(logging.CRITICAL)
    common.import_repo()
    base = tempfile.mkdtemp(prefix="c11_", dir=common.WORK)
    try:
        root = os.path.join(base, "sb")
        os.makedirs(root)
        log = []
        res, cj = scenario(root, edits, log)
        import re
        txt = re.sub(r'"timeNs": \d+', '"timeNs": 0', json.dumps(cj, sort_keys=True).replace(root, ""))
        return res, [l for l in log], txt
    finally:
        shutil.rmtree(base, ignore_errors=True)
        logging.disable(logging.NOTSET)


def t2(rep, tier, workdir):
    return {"disagreements": []}


def t3(rep, tier, budget=1):
    fails = []
    base_res, base_log, base_cache = run([])
    combos = [[e] for e in EDITS]
    if tier == "thorough":
        combos += [list(c) for c in itertools.combinations(EDITS, 2)]
    else:
        combos += [["arg_nested", "ret_cached"], ["list_dir", "walk_prune"], ["ret_fresh", "ret_file_cached"]]
    for edits in combos:
        res, log, cache = run(edits)
        rep.case(key=tuple(edits), nontrivial=True, sample={"edits": edits} if len(edits) == 1 and edits[0] == "ret_cached" else None)
        def inv(l):
            return [x for x in l if x[0] in ("leaf", "sub", "build-done")]
        if res != base_res:
            fails.append({"oracle": "in-place edits of API values do not change what builds return", "edits": edits,
                          "with_edits": repr(res)[:400], "twin": repr(base_res)[:400]})
        elif inv(log) != inv(base_log):
            fails.append({"oracle": "in-place edits do not change what is re-executed or what functions receive", "edits": edits,
                          "with_edits": repr(inv(log))[:400], "twin": repr(inv(base_log))[:400]})
        elif cache != base_cache:
            fails.append({"oracle": "in-place edits do not change what is written to the cache file", "edits": edits})
    return fails


def signature(sig, payload):
    return False


RULE = ("ten value-carrying API edges (arguments nested/top/keyword, return value fresh and served from the cache for subbuild and "
        "build_file, list_dir result, walk result pruned / extended), each edited in place, singly and in pairs, over three builds; "
        "every case is non-trivial: the edit hits a container that crossed an API edge and later builds consult the record")
TRUSTED = ["copy.deepcopy and JsonUtil.sanitize produce structures that share nothing mutable with their argument (C18 freshness is "
           "checked on the implementation)", "twin-run comparison in the harness"]
