"""C08 — at most one execution per output file and per subbuild key (sequential
placements via the DSL; the thread half via the scheduler)."""
import copy
from .. import gen, common, conc
from . import seqprop

GEN = ['JsonUtilGen.v', 'Decisions.v', 'CacheGen.v', 'OpsGen.v']
DECISIONS = ['Cache._assert_doesnt_have_norm_cased_file', 'Cache._assert_doesnt_have_subbuild', 'Cache._assert_no_repeats', 'Cache._use_cached_operation', 'Cache.abort_building_file', 'Cache.created_file', 'Cache.created_norm_cased_file', 'Cache.finish_building_file', 'Cache.finish_subbuild', 'Cache.start_building_file', 'Cache.start_subbuild', 'Cache.use_cached_operation', 'FileBuilder._apply_cached_suboperations', 'FileBuilder._are_suboperations_cached', 'FileBuilder._assert_build_file_call_valid', 'FileBuilder._build_file', 'FileBuilder._build_file_cache_lookup', 'FileBuilder._dirs_to_make', 'FileBuilder._handle_error_building_file', 'FileBuilder._is_build_file_cached', 'FileBuilder._is_build_file_operation_cached', 'FileBuilder._is_simple_operation_cached', 'FileBuilder._is_subbuild_operation_cached', 'FileBuilder._make_dirs', 'FileBuilder._make_room', 'FileBuilder._noneable_file_comparison_result', 'FileBuilder._prepare_file_creation', 'FileBuilder._rebuild_file', 'FileBuilder._subbuild', 'FileBuilder._subbuild_cache_lookup', 'FileBuilder._try_to_reuse_cached_file', 'FileBuilder.build_file_with_comparison', 'FileBuilder.subbuild']
SITES = False
ORDER = False


def make_cases(rng, tier, budget):
    out = []
    n = (12 if tier == "quick" else 120) * budget
    for i in range(n):
        p = [rng.choice(gen.NAMES[:3]), "o"]
        q = [rng.choice(gen.NAMES[:3]) + "2"]
        first_fails = rng.random() < 0.3
        funcs = {
            "w": {"*": ([["raise", 1]] if first_fails else [["write", ["lit", "x"]], ["ret", ["lit", 1]]])},
            "w2": {"*": [["write", ["lit", "y"]], ["ret", ["lit", 2]]]},
            "leaf": {"*": [["ret", ["arg", 0]]]},
            # duplicate issued from a nested function
            "nest": {"*": [["build_file", "d", p, "METADATA", "w2", [], {}], ["subbuild", "e", "leaf", [1.0], {}],
                           ["write", ["digest", ["d", "e"]]], ["ret", ["digest", ["d", "e"]]]]},
            # a subtree that contains the key; it is cached after the first build
            "tree": {"*": [["build_file", "t1", p, "METADATA", "w", [], {}], ["subbuild", "t2", "leaf", [1], {}],
                           ["ret", ["digest", ["t1", "t2"]]]]},
        }
        placement = rng.choice(["same_level", "nested", "reused_subtree_after", "reused_subtree_before", "catch_rebuild"])
        if placement == "same_level":
            root = [["build_file", "a", p, "METADATA", "w", [], {}], ["build_file", "b", p, "METADATA", "w2", [], {}],
                    ["subbuild", "c", "leaf", [1], {}], ["subbuild", "d", "leaf", [1.0], {}], ["ret", ["digest", ["a", "b", "c", "d"]]]]
        elif placement == "nested":
            root = [["build_file", "a", p, "METADATA", "w", [], {}], ["subbuild", "c", "leaf", [1], {}],
                    ["build_file", "n", q, "METADATA", "nest", [], {}], ["ret", ["digest", ["a", "c", "n"]]]]
        elif placement == "reused_subtree_after":
            root = [["build_file", "a", p, "METADATA", "w2", [], {}], ["subbuild", "t", "tree", [], {}], ["ret", ["digest", ["a", "t"]]]]
        elif placement == "reused_subtree_before":
            root = [["subbuild", "t", "tree", [], {}], ["build_file", "a", p, "METADATA", "w2", [], {}], ["ret", ["digest", ["t", "a"]]]]
        else:
            root = [["subbuild", "t", "tree", [], {}], ["subbuild", "c", "leaf", [1], {}], ["ret", ["digest", ["t", "c"]]]]
        pre = [["build", {}, [["subbuild", "t", "tree", [], {}], ["ret", ["var", "t"]]]]] if placement.startswith("reused") or placement == "catch_rebuild" else []
        out.append({"cache": ["cache"], "name": "n", "funcs": funcs,
                    "history": pre + [["build", {}, root], ["build", {}, root], ["build", {}, root]],
                    "tag": {"placement": placement, "first_fails": first_fails}})
    g = gen.Gen(rng, dict(dup=0.3))
    for _ in range((30 if tier == "quick" else 300) * budget):
        out.append(g.case())
    return out


def nontrivial(c, o, st):
    return any("err:RuntimeError" in l for s in o for l in s[:1]) or any("RuntimeError" in x for s in o for x in s[:1])


_t2, _t3 = seqprop.make_module("C08", ["entry"], make_cases, nontrivial)


def t2(rep, tier, workdir):
    t2.workdir = workdir
    return _t2(rep, tier, workdir)


THREAD_CASES = {
    "subbuild": lambda: {"cache": ["cache"], "name": "n",
                         "funcs": {"s": {"*": [["ask", "q", "exists", ["x"]], ["ret", ["lit", 1]]]}},
                         "history": [["build", {}, [["par", [[["subbuild", "a", "s", [1], {}], ["reraise", "a"], ["ret", ["var", "a"]]],
                                                             [["subbuild", "b", "s", [1.0], {}], ["reraise", "b"], ["ret", ["var", "b"]]]], "r"],
                                                    ["ret", ["var", "r"]]]],
                                     ["clean", None]]},
    "build_file": lambda: {"cache": ["cache"], "name": "n",
                           "funcs": {"w": {"*": [["write", ["lit", "x"]], ["ret", ["lit", 1]]]}},
                           "history": [["build", {}, [["par", [[["build_file", "a", ["N", "a"], "METADATA", "w", [], {}], ["reraise", "a"], ["ret", ["var", "a"]]],
                                                               [["build_file", "b", ["N", "a"], "METADATA", "w", [], {}], ["reraise", "b"], ["ret", ["var", "b"]]]], "r"],
                                                      ["ret", ["var", "r"]]]],
                                       ["build", {}, [["build_file", "a", ["N", "a"], "METADATA", "w", [], {}], ["ret", ["var", "a"]]]],
                                       ["clean", None]]},
}


def thread_half(rep, tier, budget):
    """Two threads issue the same key: exactly one call passes, the other raises RuntimeError, the
    function runs once, and the winner's output is not disturbed."""
    fails = []
    for name, mk in THREAD_CASES.items():
        case = mk()
        limit = (150 if tier == "quick" else 3000) * budget
        # every schedule must be one of the two sequential outcomes (either thread may win)
        seen = set()
        stack = [((), 0)]
        n = 0
        bound = 1 if tier == "quick" else 2
        while stack and n < limit:
            prefix, dev = stack.pop()
            if prefix in seen:
                continue
            seen.add(prefix)
            obs, info, it = conc.run_case(case, t2.workdir, "sched", prefix)
            n += 1
            rep.case(key=("thr", name, prefix), nontrivial=info["preemptions"] > 0)
            problem = None
            if obs is None or info["deadlock"]:
                problem = "deadlock"
            else:
                res = obs[0][0]
                inv = [l for l in obs[0] if l.startswith("invoke ") and not l.startswith("invoke <root>")]
                ok_shapes = ("ok:['ok:1','err:RuntimeError']", "ok:['err:RuntimeError','ok:1']")
                if res not in ok_shapes:
                    problem = "outcome %s: exactly one call must pass and one raise RuntimeError" % res
                elif len(inv) != 1:
                    problem = "the function ran %d times" % len(inv)
                elif name == "build_file":
                    tree = obs[0][obs[0].index("--tree") + 1:]
                    if not any(l.startswith("/N/a|F|x|") for l in tree):
                        problem = "the winner's output is missing after the build: " + repr(tree)
                    elif obs[1][0] != "ok:1" or any(l.startswith("invoke w") for l in obs[1]):
                        problem = "the next build does not find the winner's record and output intact: " + repr(obs[1][:3])
            if problem:
                fails.append({"oracle": "concurrent duplicate", "scenario": name, "schedule": list(prefix), "what": problem,
                              "case": case, "observed": obs, "trace_tail": [list(x) for x in info.get("trace", [])[-25:]]})
            if dev < bound:
                br, tk = info["branching"], info["taken"]
                for i in range(len(prefix), len(br)):
                    for alt in range(br[i]):
                        if alt != tk[i]:
                            stack.append((tuple(tk[:i]) + (alt,), dev + 1))
        rep.extra["schedules_" + name] = n
    return fails


def t3(rep, tier, budget=1):
    return _t3(rep, tier, budget) + thread_half(rep, tier, budget)


def signature(sig, payload):
    if sig == "concurrent-duplicate-build_file-backup-before-claim":
        return (payload.get("oracle") == "concurrent duplicate" and payload.get("scenario") == "build_file"
                and ("winner's output is missing" in payload.get("what", "") or "exactly one call must pass" in payload.get("what", "")
                     or "next build does not find" in payload.get("what", "")))
    return False


RULE = ("placements of a duplicate (same level, nested, inside a reused cached subtree before/after, first occurrence failed) built "
        "three times, random programs with a high duplicate rate, and all schedules with bounded pre-emptions of two threads "
        "issuing the same key; non-trivial when a duplicate was rejected / the schedule pre-empted a thread")
TRUSTED = ["DSL interpreter/emitter", "deterministic scheduler (harness/shim.py): switches only at file-system calls and lock acquisitions of the package"]
