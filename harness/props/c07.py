"""C07 — cache identity is JSON equality of name, path and arguments.
T2: the model's key construction (generated to_hashable) and abspath model vs
the real Cache.subbuild_key / FileBuilder._sanitize_filename.
T3: behaviour of the real API: duplicates within a build, hits in the next
build, and the arguments the function receives."""
import itertools
import json
import os
import random
import shutil
import tempfile

from .. import common
from ..codec import to_coq, coq_str, same

GEN = ['JsonUtilGen.v', 'Decisions.v', 'CacheGen.v']
DECISIONS = ['Cache.subbuild_key', 'FileBuilder._sanitize_filename', 'FileBuilder._sanitize_args', 'FileBuilder._build_file_cache_lookup', 'FileBuilder._subbuild_cache_lookup']
SITES = False
ORDER = False
ARGS = [(), (1,), (1.0,), (True,), ("1",), ([1, 2],), ((1, 2),), ([2, 1],), ({"a": 1, "b": 2},), ({"b": 2, "a": 1},),
        ({1: "x"},), ({"1": "x"},), (None,), (0,), (-0.0,), (False,), (2 ** 63,), (float(2 ** 63),), (float("inf"),),
        ("\U0001f600",), ([[]],), ([()],), (1, 2), ((1,), 2), ({"k": [1, {"z": (1, 2)}]},), ({"k": [1, {"z": [1, 2]}]},)]
KWARGS = [{}, {"k": 1}, {"k": 1.0}, {"k": True}, {"j": 1}, {"k": [1]}, {"k": (1,)}]
SPELLINGS = ["a", "./a", "a/", "a//", "x/../a", "./x/.././a", "d/b", "d//b", "d/./b", "d/c/../b", "d/b/", "../{base}/a"]


def t2(rep, tier, workdir):
    common.import_repo()
    from file_builder.cache import Cache
    from file_builder.file_builder import FileBuilder
    from file_builder.json_util import JsonUtil
    from file_builder.operation import SubbuildOperation
    rng = random.Random(common.seed() * 31 + 7)
    calls = [("f", a, k) for a in ARGS for k in (KWARGS if tier == "thorough" else KWARGS[:3])] + [("g", (), {}), ("f ", (1,), {})]
    if tier == "quick":
        rng.shuffle(calls)
        calls = calls[:45]
    # the same data split differently between positional and keyword arguments is a different call
    calls += [("f", ("k", 1), {}), ("f", (), {"k": 1}), ("f", ("k", [1]), {}), ("f", (), {"k": (1,)}), ("f", (1, "k", 1), {}),
              ("f", (1,), {"k": 1}), ("f", ([], {}), {}), ("f", ([],), {}), ("f", ({},), {}), ("f", ("k",), {}), ("fk", (), {})]
    keys = []
    for f, a, k in calls:
        op = SubbuildOperation(f, JsonUtil.sanitize(a), JsonUtil.sanitize(k), [], None, False, False, False)
        keys.append(Cache.subbuild_key(op))
    lines = ["From Coq Require Import List String ZArith Bool NArith. Import ListNotations.",
             "From FB.Base Require Import PyVal. From FB.Gen Require Import JsonUtilGen.",
             "From FB.Model Require Import Builder PathNorm.",
             "Open Scope string_scope. Open Scope list_scope.",
             "Definition san (v : pyval) := match sanitize v with Some s => s | None => PNone end.",
             "Definition calls : list (string * pyval * pyval) := ["]
    lines.append(";\n".join("(%s, san %s, san %s)" % (coq_str(f), to_coq(a), to_coq(k)) for f, a, k in calls))
    lines.append("].")
    rows = []
    n = len(calls)
    for i in range(n):
        bits = 0
        for j in range(n):
            if keys[i] == keys[j] and hash(keys[i]) == hash(keys[j]):
                bits |= 1 << j
        rows.append(bits)
    lines.append("Definition rows : list N := [%s]%%N." % "; ".join(map(str, rows)))
    lines.append("""
Definition key (c : string * pyval * pyval) := match c with (f, a, k) => subbuild_key f a k end.
Definition chk_keys := map (fun p =>
   forallb (fun q => Bool.eqb (py_eq (key (fst p)) (key (snd q))) (N.testbit (snd p) (N.of_nat (fst q))))
           (combine (seq 0 (List.length calls)) calls)) (combine calls rows).
""")
    # path spellings
    cwd = os.path.join(workdir, "cw d")
    os.makedirs(cwd, exist_ok=True)
    old = os.getcwd()
    os.chdir(cwd)
    try:
        sp = [s.replace("{base}", os.path.basename(cwd)) for s in SPELLINGS]
        sp += ["/abs/x", "//abs/x", "///abs/x", "/abs/../x", "/", ""]
        real = [FileBuilder._sanitize_filename(s) for s in sp]
        real += [FileBuilder._sanitize_filename(s.encode()) for s in sp[:4]]
        import pathlib
        real += [FileBuilder._sanitize_filename(pathlib.PurePosixPath(s)) for s in sp[:4] if s]
        # bytes and PathLike spellings decode to the same text (os.fsdecode is not modelled)
        texts = sp + sp[:4] + [str(pathlib.PurePosixPath(s)) for s in sp[:4] if s]
    finally:
        os.chdir(old)
    lines.append("Definition chk_paths := [%s]." % "; ".join(
        "String.eqb (abspath %s %s) %s" % (coq_str(cwd), coq_str(t), coq_str(r)) for t, r in zip(texts, real)))
    for tag in ["keys", "paths"]:
        lines.append(common.marker(tag))
        lines.append("Eval vm_compute in failing chk_%s." % tag)
    rc, out = common.coq_eval(workdir, "C07cases", "\n".join(lines))
    res = {"disagreements": []}
    if rc != 0:
        res["error"] = out[-1500:]
        return res
    for i in common.parse_nat_list(out, "keys") or []:
        res["disagreements"].append({"what": "subbuild key equality", "call": repr(calls[i])})
    for i in common.parse_nat_list(out, "paths") or []:
        res["disagreements"].append({"what": "abspath", "text": texts[i], "real": real[i]})
    rep.evaluations += n * n + len(texts)
    rep.extra["t2_calls"] = n
    rep.extra["t2_spellings"] = len(texts)
    return res


def t3(rep, tier, budget=1):
    """Behaviour on the real API."""
    common.import_repo()
    import logging
    logging.disable(logging.CRITICAL)
    from file_builder import FileBuilder
    from file_builder.json_util import JsonUtil
    fails = []
    rng = random.Random(common.seed() * 131 + 7)
    base = tempfile.mkdtemp(prefix="c07_", dir=os.path.join(common.WORK))
    try:
        pairs = list(itertools.product(range(len(ARGS)), repeat=2))
        rng.shuffle(pairs)
        pairs = pairs[: (60 if tier == "quick" else 400) * budget]
        quads = []
        for (i, j) in pairs:
            k1 = rng.choice(KWARGS[:4])
            k2 = k1 if rng.random() < 0.7 else rng.choice(KWARGS[:4])
            quads.append((i, j, ARGS[i], k1, ARGS[j], k2))
        # the same data split differently between positional and keyword arguments, or between the
        # function name and the arguments, is a different call
        SPLITS = [(("k", 1), {}, (), {"k": 1}), ((1, "k", 1), {}, (1,), {"k": 1}), (("k", [1]), {}, (), {"k": [1]}),
                  (([], {}), {}, ([],), {}), (({"k": 1},), {}, (), {"k": 1}), (("k", 1), {}, ("k", 1), {})]
        for n, (a1, k1, a2, k2) in enumerate(SPLITS):
            quads.append((1000 + n, 2000 + n, a1, k1, a2, k2))
        for n, (i, j, a1, k1, a2, k2) in enumerate(quads):
            want = JsonUtil.is_equal(json.loads(json.dumps([list(a1), k1])), json.loads(json.dumps([list(a2), k2])))
            root = os.path.join(base, "p%d" % n)
            os.makedirs(root)
            cache = os.path.join(root, "cache")
            seen = []

            def fn(b, *a, **k):
                seen.append((list(a), k))
                return len(seen)

            # same build: the second call is a duplicate iff JSON-equal
            def main_dup(b):
                b.subbuild("f", fn, *a1, **k1)
                try:
                    b.subbuild("f", fn, *a2, **k2)
                    return "two"
                except RuntimeError:
                    return "dup"
            r = FileBuilder.build(cache, "n", main_dup)
            rep.case(key=("dup", i, j, json.dumps(k1, sort_keys=True), json.dumps(k2, sort_keys=True)), nontrivial=(i != j))
            if (r == "dup") != want:
                fails.append({"what": "duplicate within a build iff JSON-equal", "a1": repr(a1), "k1": k1, "a2": repr(a2), "k2": k2, "got": r})
            if not same(seen[0], json.loads(json.dumps([list(a1), k1]))) and not same(list(seen[0]), json.loads(json.dumps([list(a1), k1]))):
                fails.append({"what": "function receives the round-tripped arguments", "a1": repr(a1), "seen": repr(seen[0])})
            # next build: a hit iff JSON-equal
            os.remove(cache)
            seen.clear()
            FileBuilder.build(cache, "n", lambda b: b.subbuild("f", fn, *a1, **k1))
            FileBuilder.build(cache, "n", lambda b: b.subbuild("f", fn, *a2, **k2))
            if (len(seen) == 1) != want:
                fails.append({"what": "cache hit in the next build iff JSON-equal", "a1": repr(a1), "k1": k1, "a2": repr(a2), "k2": k2, "calls": len(seen)})
            shutil.rmtree(root)
        # path spellings address the same build_file entry
        root = os.path.join(base, "paths")
        os.makedirs(os.path.join(root, "d"))
        old = os.getcwd()
        os.chdir(root)
        try:
            cache = os.path.join(root, "cache")
            for s1, s2 in [("a", "./a"), ("a", "x/../a"), ("d/b", "d//b"), ("d/b", "d/./b"), ("d/b", b"d/b"),
                           ("a", __import__("pathlib").Path("a")), ("a", os.path.join(root, "a")), ("d/b", "d/c/../b"),
                           # absolute spellings that are not normalised
                           ("a", root + "//a"), ("d/b", root + "/d/./b"), ("d/b", root + "/d/../d/b"), ("a", root + "/./a"),
                           ("d/b", (root + "/d//b").encode()), ("a", __import__("pathlib").PurePosixPath(root + "/x/../a"))]:
                got = []

                def wr(b, p):
                    got.append(p)
                    with open(p, "w") as f:
                        f.write("x")

                def main(b):
                    b.build_file(s1, "w", wr)
                    try:
                        b.build_file(s2, "w", wr)
                        return "two"
                    except RuntimeError:
                        return "dup"
                if os.path.exists(cache):
                    os.remove(cache)
                r = FileBuilder.build(cache, "n", main)
                rep.case(key=("path", repr(s1), repr(s2)), nontrivial=True)
                if r != "dup":
                    fails.append({"what": "two spellings of one path are the same entry", "s1": repr(s1), "s2": repr(s2)})
                if got and got[0] != os.path.abspath(os.fsdecode(s1)):
                    fails.append({"what": "function receives the absolute normalised path", "s1": repr(s1), "got": got[0]})
                FileBuilder.clean(cache, "n")
        finally:
            os.chdir(old)
    finally:
        shutil.rmtree(base, ignore_errors=True)
        logging.disable(logging.NOTSET)
    rep.samples.append({"args_pair": [repr(ARGS[4]), repr(ARGS[1])], "same_entry": False})
    return fails


RULE = ("pairs of (args, kwargs) from a JSON grammar (ints beyond 2^53, -0.0, inf, non-BMP strings, nested "
        "tuples, non-string keys) and spellings of one path; non-trivial when the two argument structures differ")
TRUSTED = ["translator json_util_tr.py", "model of posixpath.abspath (Model/PathNorm.v); os.fsdecode not modelled"]
