"""C04 — the virtual file-system view seen by build functions is the from-scratch view."""
import json
from .. import gen
from . import seqprop

GEN = ['JsonUtilGen.v', 'Decisions.v', 'BookGen.v', 'ExecGen.v', 'OpsGen.v']
DECISIONS = ['BuildDirs._check_maybe_removed_dir', 'BuildDirs._handle_dir_exists', 'BuildDirs.error_building_file', 'BuildDirs.is_removed_norm_case', 'BuildDirs.started_building_file', 'CreatedFiles._add_to_subfiles', 'CreatedFiles._remove_from_subfiles', 'CreatedFiles.error_building_file', 'CreatedFiles.finished_building_file', 'CreatedFiles.list_dir', 'CreatedFiles.started_building_file', 'SimpleOperationExecutor._append_walk', 'SimpleOperationExecutor._assert_exists', 'SimpleOperationExecutor._assert_is_dir', 'SimpleOperationExecutor._file_hash', 'SimpleOperationExecutor._file_metadata', 'SimpleOperationExecutor._is_file_no_read', 'SimpleOperationExecutor._list_dir_superset', 'SimpleOperationExecutor.exists', 'SimpleOperationExecutor.get_size', 'SimpleOperationExecutor.is_dir', 'SimpleOperationExecutor.is_file', 'SimpleOperationExecutor.list_dir', 'SimpleOperationExecutor.read', 'SimpleOperationExecutor.walk']
SITES = False
ORDER = False
KINDS = ["exists", "is_file", "is_dir", "list_dir", "walk", "get_size", "read"]


def probe(path, tag):
    """every query kind on one path"""
    out = []
    for k in KINDS:
        x = "pr_%s_%s" % (tag, k)
        if k == "walk":
            out.append(["ask", x, k, path, True])
        elif k == "read":
            out.append(["ask", x, k, path, "HASH"])
        else:
            out.append(["ask", x, k, path])
    return out


def insert_probes(stmts, paths, rng, tagbase):
    out = []
    n = 0
    for s in stmts:
        if s[0] in ("build_file", "subbuild") and rng.random() < 0.7:
            out += probe(list(rng.choice(paths)), "%s%d" % (tagbase, n))
            n += 1
        out.append(s)
        if s[0] in ("build_file", "subbuild") and rng.random() < 0.7:
            out += probe(list(rng.choice(paths)), "%s%d" % (tagbase, n))
            n += 1
    return out


def make_cases(rng, tier, budget):
    g = gen.Gen(rng, dict(fail=0.35, long=0.0))
    out = []
    n = (40 if tier == "quick" else 500) * budget
    for _ in range(n):
        c = g.case()
        paths = [p for p in (g.outputs + [o[:-1] for o in g.outputs if len(o) > 1] + g.inputs + [[]])] or [[]]
        # probes before / after nested calls inside function bodies and at root level
        for f, t in c["funcs"].items():
            for k in list(t):
                t[k] = insert_probes(t[k], paths, rng, f + k.replace("*", "s"))
        for st in c["history"]:
            if st[0] == "build":
                st[2] = insert_probes(st[2], paths, rng, "r")
        out.append(c)
    # the path of a previous output turned into a directory, queried before / inside / after (always present)
    for _ in range((6 if tier == "quick" else 40) * budget):
        out.append(g.template_output_becomes_dir())
    return out


def oracle_laws(case, obs, stats):
    """answers given at one program point are mutually consistent"""
    fails = []
    for i, st in enumerate(obs):
        log = seqprop.log_of(st)
        # group consecutive probe answers on the same path
        j = 0
        while j < len(log):
            if log[j].startswith("answer exists("):
                grp = log[j:j + 7]
                path = log[j][len("answer exists("):].split(")")[0]
                if len(grp) == 7 and all(("(" + path) in g for g in grp):
                    ans = {g.split("(")[0].split()[-1]: g.split(") ", 1)[1] for g in grp}
                    if set(ans) != set(KINDS):
                        j += 1
                        continue
                    ex, isf, isd = ans["exists"], ans["is_file"], ans["is_dir"]
                    if (ex == "= T") != (isf == "= T" or isd == "= T"):
                        fails.append({"oracle": "exists = is_file or is_dir", "step": i, "answers": grp})
                    if isf == "= T" and isd == "= T":
                        fails.append({"oracle": "not both file and directory", "step": i, "answers": grp})
                    if (ans["list_dir"].startswith("=")) != (isd == "= T"):
                        fails.append({"oracle": "list_dir succeeds iff is_dir", "step": i, "answers": grp})
                    if isd == "= T" and ans["list_dir"].startswith("=") and ans["walk"].startswith("= ["):
                        # first walk entry lists the same names as list_dir
                        names = ans["list_dir"][2:]
                        w = ans["walk"]
                        import re
                        m = re.match(r"= \[\('[^']*',(\[.*?\]),(\[.*?\])\)", w)
                        if m:
                            sub = sorted(eval(m.group(1)) + eval(m.group(2)))
                            if sorted(eval(names)) != sub:
                                fails.append({"oracle": "walk agrees with list_dir", "step": i, "answers": grp})
                    if (ans["read"].startswith("=")) != (isf == "= T"):
                        fails.append({"oracle": "read succeeds iff is_file", "step": i, "answers": grp})
                    if ans["get_size"].startswith("=") != (ex == "= T"):
                        fails.append({"oracle": "get_size succeeds iff exists", "step": i, "answers": grp})
                    j += 7
                    continue
            j += 1
    return fails


seqprop.ORACLES["laws"] = oracle_laws


def nontrivial(c, o, st):
    # some probe answered differently than the real tree would: a stale output / directory was hidden, or an
    # in-progress output was invisible -> approximated by: the history has a rebuild after outputs existed
    nb = [i for i, s in enumerate(c["history"]) if s[0] == "build"]
    return len(nb) >= 2 and any(m["misses"] > 0 for m in st["meta"][nb[1]:nb[1] + 1]) or any("err:" in x[0] for x in o)


t2, t3 = seqprop.make_module("C04", ["laws"], make_cases, nontrivial)
RULE = ("generated histories with a probe (all seven query kinds on one path) inserted before and after nested calls in function "
        "bodies and at root level; answers compared with the reference tree (Spec/Ref.v) and with each other; non-trivial when a "
        "rebuild ran bodies while stale outputs existed or a call failed")
TRUSTED = ["DSL interpreter/emitter", "latitude: histories in which the directories of the cache file may be created by the build are not compared with the reference"]
