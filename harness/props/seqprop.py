"""Shared machinery of the sequential properties (C01-C06, C08, C10, C12, C13,
C16): run generated histories on the implementation, compare with the Coq model
(T2) and with the reference semantics (T3, Spec/Ref.v via Spec/Oracle.v), and
apply the Python-side oracles that only need snapshots."""
import copy
import glob
import json
import os
import random

from .. import common, seq, gen


class Result:
    def __init__(self):
        self.t2 = {"disagreements": [], "error": None}
        self.fails = []


_CACHE = {}


def tree_of(step):
    k = step.index("--tree")
    return step[k + 1:]


def log_of(step):
    k = step.index("--tree")
    return [l for l in step[1:k] if not l.startswith("TEMP-LEFT")]


def split_line(l):
    """tree line -> (path, kind, content, mtime, cls)"""
    if l.endswith("|D"):
        return (l[:-2], "D", None, None, None)
    if l.endswith("|CACHE"):
        return (l[:-6], "CACHE", None, None, None)
    path, rest = l.split("|F|", 1)
    content, mt, cls = rest.rsplit("|", 2)
    return (path, "F", content, mt, cls)


# ------------------------------------------------------------------ Python-side oracles

def oracle_rollback(case, obs, stats):
    """C02: after a build that raised, every file of the pre-state is there with the same bytes,
    mtime and inode, nothing new remains except (empty) directories the previous build recorded."""
    fails = []
    meta = stats["meta"]
    for i, st in enumerate(case["history"]):
        if st[0] != "build" or not obs[i][0].startswith("err:") or i == 0:
            continue
        before = {split_line(l)[0]: split_line(l) for l in tree_of(obs[i - 1])}
        after = {split_line(l)[0]: split_line(l) for l in tree_of(obs[i])}
        for p, (_, kind, content, mt, _cls) in before.items():
            a = after.get(p)
            if kind in ("F", "CACHE"):
                if a is None or a[1] != kind or (kind == "F" and (a[2], a[3], a[4]) != (content, mt, "same")):
                    fails.append({"oracle": "rollback restores every regular file", "step": i, "path": p,
                                  "before": before[p], "after": a})
            elif kind == "D" and (a is None or a[1] != "D"):
                fails.append({"oracle": "rollback keeps pre-existing directories", "step": i, "path": p})
        allowed = set(meta[i]["old_dirs"])
        for p, a in after.items():
            if p in before:
                continue
            if a[1] == "D" and p in allowed:
                continue
            # parents of an allowed reappearing directory are needed for it to exist
            if a[1] == "D" and any(d.startswith(p + "/") for d in allowed if d in after):
                continue
            fails.append({"oracle": "nothing created by the failed build remains", "step": i, "path": p, "node": a})
        if meta[i]["exc_same"] is False:
            fails.append({"oracle": "the same exception object is re-raised", "step": i})
    return fails


def oracle_foreign(case, obs, stats):
    """C03: regular files other than the cache file, this build's targets and the previous build's
    outputs keep bytes, mtime and inode; directories disappear only if a build created them."""
    fails = []
    meta = stats["meta"]
    made_by_builds = set()
    for i, st in enumerate(case["history"]):
        if i == 0:
            if st[0] == "build":
                made_by_builds |= {split_line(l)[0] for l in tree_of(obs[0]) if l.endswith("|D")}
            continue
        before = {split_line(l)[0]: split_line(l) for l in tree_of(obs[i - 1])}
        after = {split_line(l)[0]: split_line(l) for l in tree_of(obs[i])}
        if st[0] == "mutate":
            continue
        managed = set(meta[i]["targets"]) | set(meta[i]["old_outputs"])
        for p, b in before.items():
            a = after.get(p)
            if b[1] == "F" and p not in managed:
                if a is None or (a[2], a[3], a[4]) != (b[2], b[3], "same"):
                    fails.append({"oracle": "foreign file untouched", "step": i, "path": p, "before": b, "after": a})
            if b[1] == "D" and a is None:
                if p not in meta[i]["old_dirs"] and p not in made_by_builds:
                    fails.append({"oracle": "only builder-created directories are removed", "step": i, "path": p})
        made_by_builds |= {p for p, a in after.items() if a[1] == "D" and p not in before}
    return fails


def oracle_entry(case, obs, stats):
    """C10: function-entry and return conditions recorded by the interpreter."""
    fails = []
    for i, m in enumerate(stats["meta"]):
        for v in m["entry_violations"]:
            fails.append({"oracle": "build_file contract", "step": i, "what": v})
        if m.get("temp_left"):
            fails.append({"oracle": "no temporary directory left behind", "step": i, "count": m["temp_left"]})
    return fails


def oracle_unchanged_rebuild(case, obs, stats):
    """C05: a committed build immediately followed by the same build re-runs only calls that raised
    last time, rewrites no output and returns an equal value."""
    fails = []
    h = case["history"]
    if dir_size_observed(obs):
        return []
    if gen.cache_only_dirs(case):
        # the latitude stated with C04: when a directory that exists only to hold the cache file
        # appears in listings is unspecified, so a recorded listing may legitimately answer differently
        return []
    for i in range(1, len(h)):
        if h[i][0] == "build" and h[i - 1][0] == "build" and h[i][1] == h[i - 1][1] and h[i][2] == h[i - 1][2]:
            if not obs[i - 1][0].startswith("ok:") or not obs[i][0].startswith("ok:"):
                continue
            if i >= 2 and not (h[i - 2][0] == "build" and h[i - 2][1] == h[i][1] and h[i - 2][2] == h[i][2]
                               and obs[i - 2][0].startswith("ok:")):
                # first rebuild after a build that may have overwritten foreign files: outputs may be
                # rewritten once; the value must still be equal
                if obs[i][0] != obs[i - 1][0]:
                    fails.append({"oracle": "unchanged rebuild returns an equal value", "step": i,
                                  "first": obs[i - 1][0], "second": obs[i][0]})
                continue
            if obs[i][0] != obs[i - 1][0]:
                fails.append({"oracle": "unchanged rebuild returns an equal value", "step": i})
            # an output may be rewritten only by a call that legitimately ran again (it raised last time,
            # or a call below it raised or was rejected: such records are never served)
            rerun_targets = {l.split(" ")[2] for l in log_of(obs[i]) if l.startswith("invoke ") and len(l.split(" ")) > 2}
            for l in tree_of(obs[i]):
                p, kind, content, mt, cls = split_line(l)
                if kind == "F" and cls != "same" and not any(l2.startswith("invoke ") and (" " + p + " ") in (l2 + " ") for l2 in log_of(obs[i])):
                    fails.append({"oracle": "second unchanged rebuild rewrites no output", "step": i, "line": l})
            # every call invoked in an unchanged rebuild must be justified by its record: none, a failure,
            # or a rejected attempt somewhere below it (such records are never served)
            common.import_repo()
            from file_builder.json_util import JsonUtil
            for inv in stats["meta"][i]["invoked"]:
                recs = [r for r in stats["meta"][i]["old_records"]
                        if r["fname"] == inv["fname"] and r["target"] == inv["target"]
                        and JsonUtil.is_equal(r["args"], inv["args"]) and JsonUtil.is_equal(r["kwargs"], inv["kwargs"])]
                if recs and all(r["servable"] for r in recs):
                    fails.append({"oracle": "unchanged rebuild re-runs only calls whose record is a failure or contains a rejected attempt",
                                  "step": i, "invoked": inv})
            # bodies that ran in the second unchanged rebuild must have run (and raised or been
            # re-run because of a raise below them) in the one before
            prev_inv = [l for l in log_of(obs[i - 1]) if l.startswith("invoke ") and not l.startswith("invoke <root>")]
            now_inv = [l for l in log_of(obs[i]) if l.startswith("invoke ") and not l.startswith("invoke <root>")]
            if not set(now_inv) <= set(prev_inv):
                fails.append({"oracle": "second unchanged rebuild runs nothing new", "step": i,
                              "extra": sorted(set(now_inv) - set(prev_inv))})
    return fails


def dir_size_observed(obs):
    """get_size of a directory returns whatever the file system reports for the directory inode; it
    changes when entries are added, so re-execution after it is not predictable (DESIGN appendix A)"""
    return any(l.startswith("answer get_size(") and l.endswith("= -1") for st in obs for l in st)


ORACLES = {
    "rollback": oracle_rollback,
    "foreign": oracle_foreign,
    "entry": oracle_entry,
    "unchanged": oracle_unchanged_rebuild,
}


# ------------------------------------------------------------------ runner

def corpus_cases(pid):
    out = []
    for f in sorted(glob.glob(os.path.join(common.VERIF, "corpus", pid, "*.json"))):
        try:
            out.append(json.load(open(f))["case"])
        except Exception:       # noqa
            pass
    return out


def execute(pid, rep, tier, workdir, make_cases, oracles, nontrivial, use_spec=True, budget=1):
    key = (pid, tier, budget)
    if key in _CACHE:
        return _CACHE[key]
    rng = random.Random(common.seed() * 1000003 + sum(map(ord, pid)))
    cases = corpus_cases(pid) + make_cases(rng, tier, budget)
    dis, obss, stats, err = seq.compare(cases, workdir, parallel=8)
    res = Result()
    res.t2["error"] = err
    for d in dis:
        res.t2["disagreements"].append({"case": d["case"], "step": d.get("step"),
                                        "impl": (d["impl"][d["step"]] if d.get("step") is not None else None),
                                        "model": (d["model"][d["step"]] if d.get("step") is not None and isinstance(d.get("model"), list) else d.get("model"))})
    for i in getattr(seq.compare, "corebad", []):
        if dir_size_observed(obss[i]):
            continue    # the recorded size of a directory inode changes with its entries: re-execution is unspecified
        res.t2["disagreements"].append({"case": cases[i], "step": None, "impl": None,
                                        "model": "Core model (Model/Core.v) disagrees with the implementation on this history"})
    sizes, opmix, errkinds = [], {}, {}
    hits = misses = 0
    for c, o, st in zip(cases, obss, stats):
        k = common.digest(c)
        rep.case(key=k, nontrivial=nontrivial(c, o, st),
                 sample={"history": [s[0] for s in c["history"]], "results": [x[0][:60] for x in o]})
        sizes.append(gen.size_of(c))
        for s in c["history"]:
            opmix[s[0]] = opmix.get(s[0], 0) + 1
        for x in o:
            if x[0].startswith("err:"):
                errkinds[x[0]] = errkinds.get(x[0], 0) + 1
        for m in st["meta"]:
            hits += m["hits"]
            misses += m["misses"]
    rep.extra["distribution"] = {"cases": len(cases), "program_sizes": {"min": min(sizes), "max": max(sizes), "mean": round(sum(sizes) / len(sizes), 1)},
                                 "history_steps": opmix, "cache_hits": hits, "bodies_run": misses, "error_kinds": errkinds,
                                 "spec_oracle_skipped_for_cache_only_dirs": getattr(seq.compare, "spec_skipped", 0)}
    if use_spec:
        for i in getattr(seq.compare, "specbad", []):
            req, e = seq.spec_req(cases[i], workdir, "req%d" % i)
            red = seq.reduce_obs(obss[i])
            step = None
            if req:
                for k2, (r, g) in enumerate(zip(req, red)):
                    gg = [g[0]] + g[1] + ["--tree"] + g[2]
                    if r[0] != "mutated" and r != gg and not _req_ok(r, gg):
                        if cases[i].get("faults") and "OSError" in gg[0]:
                            continue    # the injected OSError surfaced in this step; the reference has no faults
                        step = k2
                        break
            if cases[i].get("faults") and req and step is None:
                continue
            res.fails.append({"oracle": "reference semantics (Spec/Ref.v)", "case": cases[i], "step": step,
                              "required": req[step] if req and step is not None else req,
                              "implementation": ([red[step][0]] + red[step][1] + ["--tree"] + red[step][2]) if step is not None else None})
    for name in oracles:
        for c, o, st in zip(cases, obss, stats):
            if (c.get("tag") or {}).get("in_scope") is False:
                continue        # correspondence-only case (e.g. a fault inside the undo itself)
            for f in ORACLES[name](c, o, st):
                f["case"] = c
                res.fails.append(f)
    _CACHE[key] = res
    return res


def _req_ok(req, got):
    """Python twin of Oracle.step_ok (for reporting which step failed)."""
    k1, k2 = req.index("--tree"), got.index("--tree")
    if req[0] != got[0]:
        return False
    it = iter(req[1:k1])
    if not all(any(x == y for y in it) for x in got[1:k2]):
        return False
    return req[k1 + 1:] == ["<unconstrained>"] or req[k1 + 1:] == got[k2 + 1:]


def default_cases(profile=None, quick=120, thorough=1500):
    def make(rng, tier, budget):
        g = gen.Gen(rng, profile)
        n = (quick if tier == "quick" else thorough) * budget
        out = [g.case() for _ in range(n)]
        # a fixed quota of every hand-written shape, so that what they exercise does not depend on luck
        for tpl in (g.template_nested_failures, g.template_output_becomes_dir, g.template_listing_in_failing,
                    g.template_rewrite_after_nested):
            for _ in range((2 if tier == "quick" else 12) * budget):
                g.nvar = 0
                out.append(tpl())
        return out
    return make


def has_hit_and_miss(c, o, st):
    return any(m["hits"] > 0 and m["misses"] > 0 for m in st["meta"])


def make_module(pid, oracles, make_cases=None, nontrivial=has_hit_and_miss, use_spec=True, rule="", gen_files=None):
    """Builds the t2/t3 functions of a property module."""
    make_cases = make_cases or default_cases()
    state = {}

    def t2(rep, tier, workdir):
        state["workdir"] = workdir
        res = execute(pid, rep, tier, workdir, make_cases, oracles, nontrivial, use_spec)
        return res.t2

    def t3(rep, tier, budget=1):
        res = execute(pid, rep, tier, state["workdir"], make_cases, oracles, nontrivial, use_spec, budget)
        out = []
        for f in res.fails:
            out.append(f)
        return out
    return t2, t3
