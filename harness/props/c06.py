"""C06 — version changes invalidate exactly the function and its transitive callers."""
import copy
import json
from .. import gen, common
from . import seqprop

GEN = ['JsonUtilGen.v', 'Decisions.v', 'CacheGen.v', 'OpsGen.v']
DECISIONS = ['Cache._assert_no_repeats', 'Cache._use_cached_operation', 'Cache.created_file', 'Cache.created_norm_cased_file', 'FileBuilder._are_suboperations_cached', 'FileBuilder._build_file_cache_lookup', 'FileBuilder._is_build_file_cached', 'FileBuilder._is_build_file_operation_cached', 'FileBuilder._is_simple_operation_cached', 'FileBuilder._is_subbuild_operation_cached', 'FileBuilder._noneable_file_comparison_result', 'FileBuilder._subbuild_cache_lookup', 'FileBuilder._try_to_reuse_cached_file']
SITES = False
ORDER = False
VERS = [None, 0, 1, 1.0, True, "1", [1], {"a": 1, "b": 2}, {"b": 2, "a": 1}, "ABSENT"]


def json_equal(a, b):
    common.import_repo()
    from file_builder.json_util import JsonUtil
    a = None if a == "ABSENT" else a
    b = None if b == "ABSENT" else b
    return JsonUtil.is_equal(JsonUtil.sanitize(a), JsonUtil.sanitize(b))


def callers_of(case, f):
    """names of functions whose bodies (transitively) call f"""
    calls = {}
    for name, table in case["funcs"].items():
        cs = set()
        def walk(stmts):
            for s in stmts:
                if s[0] == "build_file":
                    cs.add(s[4])
                elif s[0] == "subbuild":
                    cs.add(s[2])
                elif s[0] == "if":
                    walk(s[2]); walk(s[3])
        for b in table.values():
            walk(b)
        calls[name] = cs
    res = {f}
    changed = True
    while changed:
        changed = False
        for n, cs in calls.items():
            if n not in res and cs & res:
                res.add(n)
                changed = True
    return res


def make_cases(rng, tier, budget):
    out = []
    g = gen.Gen(rng, dict(fail=0.1, dup=0.0, malformed=0.0, long=0.0, nest=0.7))
    n = (50 if tier == "quick" else 600) * budget
    for _ in range(n):
        c = g.case(nsteps=1)
        builds = [s for s in c["history"] if s[0] == "build"]
        root = builds[-1][2]
        pre = [s for s in c["history"] if s[0] == "mutate"][:1]
        names = list(c["funcs"].keys())
        f = rng.choice(names)
        # a function body is tied to its version only through the "*" entry: same behaviour for all versions
        for t in c["funcs"].values():
            for k in list(t.keys()):
                if k != "*":
                    del t[k]
        v_old, v_new = rng.choice(VERS), rng.choice(VERS)
        def vm(v):
            return {} if v == "ABSENT" else {f: copy.deepcopy(v)}
        c["history"] = pre + [["build", vm(v_old), root], ["build", vm(v_new), root], ["build", vm(v_new), root]]
        c["tag"] = {"f": f, "old": v_old if v_old != "ABSENT" else "ABSENT", "new": v_new}
        out.append(c)
    # the version of a function that failed last time (caught by a cached caller) is bumped
    for _ in range((12 if tier == "quick" else 120) * budget):
        c = g.template_case()
        names = [n for n in c["funcs"] if n in ("outerfail", "inner", "inner_file", "outer_file", "wrap", "probe")] or sorted(c["funcs"])
        f = rng.choice(names)
        root = [s for s in c["history"] if s[0] == "build"][0][2]
        lead = []
        for s in c["history"]:
            if s[0] != "mutate":
                break
            lead.append(s)
        v_old, v_new = rng.choice(VERS), rng.choice(VERS)
        def vm2(v):
            return {} if v == "ABSENT" else {f: copy.deepcopy(v)}
        c["history"] = lead + [["build", vm2(v_old), root], ["build", vm2(v_new), root], ["build", vm2(v_new), root]]
        c["tag"] = {"f": f, "old": v_old, "new": v_new}
        out.append(c)
    # version flips that only JSON equality tells apart (bool vs number, 1 vs 1.0, nested), for a function nested in
    # another cacheable operation: every combination of the two call kinds
    tricky = [(True, 1), (1, True), (False, 0), (0, False), (True, 1.0), ({"s": True}, {"s": 1}), ([True], [1]), (1, 1.0),
              ({"a": 1, "b": 2}, {"b": 2, "a": 1}), (None, "ABSENT"), ("1", 1)]
    for v_old, v_new in tricky:
        for outer in ("subbuild", "build_file"):
            for inner in ("subbuild", "build_file"):
                funcs = {}
                if inner == "subbuild":
                    funcs["inner"] = {"*": [["ask", "q", "exists", ["src"]], ["ret", ["digest", ["q"]]]]}
                    call_inner = [["subbuild", "i", "inner", [1], {}]]
                else:
                    funcs["inner"] = {"*": [["write", ["lit", "in"]], ["ret", ["lit", 3]]]}
                    call_inner = [["build_file", "i", ["vd", "in"], "METADATA", "inner", [], {}]]
                if outer == "subbuild":
                    funcs["outer"] = {"*": call_inner + [["ret", ["digest", ["i"]]]]}
                    root = [["subbuild", "o", "outer", [], {}], ["ret", ["var", "o"]]]
                else:
                    funcs["outer"] = {"*": call_inner + [["write", ["digest", ["i"]]], ["ret", ["lit", 0]]]}
                    root = [["build_file", "o", ["vd", "out"], "METADATA", "outer", [], {}], ["ret", ["var", "o"]]]
                def vm3(v):
                    return {} if v == "ABSENT" else {"inner": copy.deepcopy(v)}
                out.append({"cache": ["cache"], "name": "n", "funcs": funcs,
                            "history": [["build", vm3(v_old), root], ["build", vm3(v_new), root], ["build", vm3(v_new), root]],
                            "tag": {"f": "inner", "old": v_old, "new": v_new}})
    return out


def oracle_versions(case, obs, stats):
    tag = case.get("tag")
    if not tag:
        return []
    fails = []
    nb = [i for i, s in enumerate(case["history"]) if s[0] == "build"]
    i1, i2 = nb[0], nb[1]
    if not (obs[i1][0].startswith("ok:") and obs[i2][0].startswith("ok:")) or seqprop.dir_size_observed(obs):
        return []
    eq = json_equal(tag["old"], tag["new"])
    m = stats["meta"][i2]
    prev_inv = {l for l in seqprop.log_of(obs[i1]) if l.startswith("invoke ") and not l.startswith("invoke <root>")}
    now_inv = [l for l in seqprop.log_of(obs[i2]) if l.startswith("invoke ") and not l.startswith("invoke <root>")]
    if eq:
        # JSON-equal versions invalidate nothing: behaves like an unchanged rebuild (only calls that raised
        # before, or that sit above such calls, may run again)
        m1 = stats["meta"][i1]
        if now_inv and not any("err:" in x for x in obs[i1]) and m1["misses"] > 0:
            raised_before = any(True for _ in [0]) and False
        # precise check: every invocation now also happened in the first build
        extra = [l for l in now_inv if l not in prev_inv]
        if extra:
            fails.append({"oracle": "JSON-equal versions invalidate nothing", "tag": tag, "extra": extra})
    else:
        bad = set(m["hit_names"]) & callers_of(case, tag["f"])
        if bad:
            fails.append({"oracle": "changed version: the function and its transitive callers are re-executed",
                          "tag": tag, "served_from_cache": sorted(bad)})
    return fails


seqprop.ORACLES["versions"] = oracle_versions


def nontrivial(c, o, st):
    t = c.get("tag")
    if not t:
        return False
    nb = [i for i, s in enumerate(c["history"]) if s[0] == "build"]
    return st["meta"][nb[1]]["hits"] + st["meta"][nb[1]]["misses"] > 0 and st["meta"][nb[0]]["misses"] > 0


t2, t3 = seqprop.make_module("C06", ["versions"], make_cases, nontrivial)
RULE = ("generated call graphs, a pair (old, new) of versions for one function from {absent, None, 0, 1, 1.0, True, '1', [1], "
        "{'a':1,'b':2}, {'b':2,'a':1}}, built with old, new, new; non-trivial when the first build ran bodies and the "
        "second made cache decisions")
TRUSTED = ["DSL interpreter/emitter", "static call graph of the DSL functions computed by the harness"]
