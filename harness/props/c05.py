"""C05 — cache effectiveness: no unjustified re-execution."""
import json
from .. import gen
from . import seqprop

GEN = ['JsonUtilGen.v', 'Decisions.v', 'BookGen.v', 'ExecGen.v', 'CacheGen.v', 'OpsGen.v']
DECISIONS = ['BuildDirs._check_maybe_removed_dir', 'BuildDirs._handle_dir_exists', 'BuildDirs.error_building_file', 'BuildDirs.is_removed_norm_case', 'BuildDirs.started_building_file', 'Cache._assert_no_repeats', 'Cache._use_cached_operation', 'Cache.created_file', 'Cache.created_norm_cased_file', 'CreatedFiles._add_to_subfiles', 'CreatedFiles._remove_from_subfiles', 'CreatedFiles.error_building_file', 'CreatedFiles.finished_building_file', 'CreatedFiles.list_dir', 'CreatedFiles.started_building_file', 'FileBuilder._are_suboperations_cached', 'FileBuilder._build_file_cache_lookup', 'FileBuilder._is_build_file_cached', 'FileBuilder._is_build_file_operation_cached', 'FileBuilder._is_simple_operation_cached', 'FileBuilder._is_subbuild_operation_cached', 'FileBuilder._noneable_file_comparison_result', 'FileBuilder._subbuild_cache_lookup', 'FileBuilder._try_to_reuse_cached_file', 'SimpleOperationExecutor._append_walk', 'SimpleOperationExecutor._assert_exists', 'SimpleOperationExecutor._assert_is_dir', 'SimpleOperationExecutor._file_hash', 'SimpleOperationExecutor._file_metadata', 'SimpleOperationExecutor._is_file_no_read', 'SimpleOperationExecutor._list_dir_superset', 'SimpleOperationExecutor.exists', 'SimpleOperationExecutor.get_size', 'SimpleOperationExecutor.is_dir', 'SimpleOperationExecutor.is_file', 'SimpleOperationExecutor.list_dir', 'SimpleOperationExecutor.read', 'SimpleOperationExecutor.walk']
SITES = False
ORDER = False


def observed_paths(case):
    seen = set()
    def walk(stmts):
        for s in stmts:
            if s[0] == "ask":
                seen.add(tuple(s[3]))
            elif s[0] == "build_file":
                seen.add(tuple(s[2]))
            elif s[0] == "if":
                walk(s[2]); walk(s[3])
    for t in case["funcs"].values():
        for b in t.values():
            walk(b)
    for st in case["history"]:
        if st[0] == "build":
            walk(st[2])
    return seen


def make_cases(rng, tier, budget):
    g = gen.Gen(rng, dict(fail=0.15, dup=0.0, malformed=0.0, long=0.0))
    out = []
    n = (50 if tier == "quick" else 600) * budget
    for _ in range(n):
        c = g.case(nsteps=1)
        b = [s for s in c["history"] if s[0] == "build"][-1]
        pre = [s for s in c["history"] if s[0] == "mutate"][:1]
        obs = observed_paths(c)
        # (a) unchanged rebuilds, (b) a mutation of an unobserved path, then rebuild
        un = ["zz-unobserved"]
        k = 0
        while tuple(un) in obs or any(tuple(un) == o[:1] for o in obs):
            k += 1
            un = ["zz-unobserved%d" % k]
        c["history"] = pre + [["build", b[1], b[2]], ["build", b[1], b[2]], ["build", b[1], b[2]],
                              ["mutate", [["write", un + ["inner"], "U"]]], ["build", b[1], b[2]]]
        c["tag"] = {"unobserved": un}
        out.append(c)
    for _ in range((15 if tier == "quick" else 150) * budget):
        c = g.template_case()
        b = [s for s in c["history"] if s[0] == "build"][0]
        lead = []
        for s in c["history"]:
            if s[0] != "mutate":
                break
            lead.append(s)
        c["history"] = lead + [["build", b[1], b[2]], ["build", b[1], b[2]], ["build", b[1], b[2]]]
        out.append(c)
    return out


def oracle_unobserved(case, obs, stats):
    tag = case.get("tag")
    if not tag:
        return []
    fails = []
    nb = [i for i, s in enumerate(case["history"]) if s[0] == "build"]
    third, last = nb[2], nb[3]
    if not (obs[third][0].startswith("ok:") and obs[last][0].startswith("ok:")) or seqprop.dir_size_observed(obs):
        return []
    # a query that lists an ancestor of the new path legitimately observes it
    listing = any(("list_dir('')" in l or "walk(''" in l) for i in nb for l in seqprop.log_of(obs[i]))
    inv3 = [l for l in seqprop.log_of(obs[third]) if l.startswith("invoke ") and not l.startswith("invoke <root>")]
    invl = [l for l in seqprop.log_of(obs[last]) if l.startswith("invoke ") and not l.startswith("invoke <root>")]
    if not listing and set(invl) - set(inv3):
        fails.append({"oracle": "changing a path no recorded operation observed triggers nothing", "tag": tag,
                      "re-executed": sorted(set(invl) - set(inv3))})
    return fails


seqprop.ORACLES["unobserved"] = oracle_unobserved


def nontrivial(c, o, st):
    nb = [i for i, s in enumerate(c["history"]) if s[0] == "build"]
    return len(nb) >= 2 and st["meta"][nb[1]]["hits"] > 0


t2, t3 = seqprop.make_module("C05", ["unchanged", "unobserved"], make_cases, nontrivial)
RULE = ("every generated program built three times unchanged, then after a mutation of a path no operation observed; "
        "non-trivial when a rebuild skipped at least one body")
TRUSTED = ["DSL interpreter/emitter", "the set of observed paths is computed statically from the DSL program"]
