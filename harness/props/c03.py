"""C03 — foreign files and directories are never modified or deleted."""
import json
from .. import gen
from . import seqprop

GEN = ['JsonUtilGen.v', 'Sites.v', 'Decisions.v', 'BookGen.v', 'DriverGen.v']
DECISIONS = ['Cache.write', 'FileBackups.back_up_and_remove', 'FileBackups.restore_all', 'FileBuilder._apply_cached_suboperations', 'FileBuilder._assert_build_file_call_valid', 'FileBuilder._build', 'FileBuilder._build_file', 'FileBuilder._commit', 'FileBuilder._create_dirs', 'FileBuilder._dirs_to_make', 'FileBuilder._handle_error_building_file', 'FileBuilder._make_dirs', 'FileBuilder._make_room', 'FileBuilder._prepare_file_creation', 'FileBuilder._rebuild_file', 'FileBuilder._remove_empty_dirs', 'FileBuilder._roll_back', 'FileBuilder._set_created_dirs', 'FileBuilder._subbuild', 'FileBuilder._try_to_remove_file', 'FileBuilder.build_file_with_comparison', 'FileBuilder.subbuild']
SITES = True
ORDER = False


def make_cases(rng, tier, budget):
    g = gen.Gen(rng, dict(fail=0.25))
    out = []
    n = (50 if tier == "quick" else 600) * budget
    for _ in range(n):
        c = g.case()
        # plant foreign nodes: inside directories of outputs, at output positions, next to the cache file
        plants = []
        for o in g.outputs[:3]:
            r = rng.random()
            if r < 0.4 and len(o) > 1:
                plants.append(["write", o[:-1] + ["foreign"], "F"])
            elif r < 0.6:
                plants.append(["write", o, "foreign-at-output"])
            elif r < 0.75 and len(o) > 1:
                plants.append(["mkdir", o[:-1] + ["fdir"]])
                plants.append(["write", o[:-1] + ["fdir", "deep"], "D"])
        plants.append(["write", c["cache"][:-1] + ["next-to-cache"], "N"])
        pos = rng.randint(0, len(c["history"]) - 1)
        c["history"] = c["history"][:pos] + [["mutate", plants]] + c["history"][pos:]
        if rng.random() < 0.4:
            c["history"].append(["clean", None])
        out.append(c)
    # a foreign file overwritten by a call that failed, its path then turned into a directory by a later
    # call of the same build, and the build rolled back (or committed)
    for i in range((6 if tier == "quick" else 40) * budget):
        F = [rng.choice(gen.NAMES[:4]) + "F"]
        mode = rng.choice([[["write", ["lit", "new"]], ["raise", 1]], [["raise", 2]], [["write", ["lit", "new"]], ["ret", ["lit", 1]]]])
        funcs = {"over": {"*": mode}, "w": {"*": [["write", ["lit", "x"]], ["ret", ["lit", 0]]]}}
        end = rng.choice([[["raise", 9]], [["ret", ["lit", 0]]]])
        root = [["build_file", "a", F, "METADATA", "over", [], {}], ["build_file", "b", F + ["x"], "METADATA", "w", [], {}]] + end
        hist = [["mutate", [["write", F, "foreign"], ["write", ["neighbour"], "N"]]], ["build", {}, root]]
        if rng.random() < 0.5:
            hist.append(["build", {}, [["ret", ["lit", 0]]]])
        out.append({"cache": ["cache"], "name": "n", "funcs": funcs, "history": hist})
    # a directory the USER made, holding nothing but an output of the previous build that the next build no longer
    # produces: the commit removes the stale output and must leave the (now empty) foreign directory alone
    for i in range((4 if tier == "quick" else 24) * budget):
        D = [rng.choice(gen.NAMES[:4]) + "U"] if rng.random() < 0.5 else [rng.choice(gen.NAMES[:4]) + "N", "usub"]
        funcs = {"w": {"*": [["write", ["lit", "x"]], ["ret", ["lit", 0]]]}}
        keep = [["build_file", "k", ["kept"], "METADATA", "w", [], {}]] if rng.random() < 0.5 else []
        root1 = [["build_file", "a", D + ["o"], "METADATA", "w", [], {}]] + keep + [["ret", ["lit", 0]]]
        root2 = keep + [["ask", "e", "is_dir", D], ["ret", ["var", "e"]]]
        hist = [["mutate", [["mkdir", D]]], ["build", {}, root1], ["build", {}, root2], ["build", {}, root2]]
        if rng.random() < 0.4:
            hist.append(["clean", None])
        out.append({"cache": ["cache"], "name": "n", "funcs": funcs, "history": hist})
    return out


def nontrivial(c, o, st):
    # a foreign file lay inside a builder-created directory or at a former output path while a build or clean ran
    for i, s in enumerate(c["history"]):
        if s[0] in ("build", "clean") and i > 0:
            m = st["meta"][i]
            files = [seqprop.split_line(l) for l in seqprop.tree_of(o[i - 1])]
            for (p, kind, *_r) in files:
                if kind == "F" and p not in m["old_outputs"] and any(p.startswith(d + "/") for d in m["old_dirs"]):
                    return True
                if kind == "F" and p in m["targets"] and p not in m["old_outputs"]:
                    return True
    return False


t2, _t3 = seqprop.make_module("C03", ["foreign", "rollback"], make_cases, nontrivial)


def side_outputs(rep):
    """Real API only (the DSL has no statement for it): user code writes a file of its own - not through
    build_file - into a directory that the previous build created and that the virtual view has
    already looked at; a later build_file for that directory's path must refuse (IsADirectoryError)
    and the file must survive the build, whether it commits or rolls back."""
    import logging
    import os
    import shutil
    import tempfile
    from .. import common
    common.import_repo()
    logging.disable(logging.CRITICAL)
    from file_builder import FileBuilder
    fails = []
    base = tempfile.mkdtemp(prefix="c03s_", dir=common.WORK)
    try:
        for probe in ("list_dir", "is_dir", "exists", "walk", "none"):
            for ending in ("commit", "rollback"):
                root = os.path.join(base, probe + "_" + ending)
                os.makedirs(root)
                cache = os.path.join(root, "cache")
                work, out = os.path.join(root, "work"), os.path.join(root, "work", "out")
                note = os.path.join(out, "notes.txt")

                def w(b, p):
                    open(p, "w").write("x")

                FileBuilder.build(cache, "n", lambda b: b.build_file(os.path.join(out, "a.txt"), "w", w))
                seen = {}

                def main(b):
                    if probe == "list_dir":
                        b.list_dir(root)
                    elif probe == "is_dir":
                        b.is_dir(out)
                    elif probe == "exists":
                        b.exists(out)
                    elif probe == "walk":
                        b.walk(root)
                    os.makedirs(out, exist_ok=True)
                    with open(note, "w") as f:
                        f.write("mine")
                    st = os.stat(note)
                    seen["id"] = (st.st_ino, st.st_mtime_ns)
                    try:
                        b.build_file(out, "w", w)
                        seen["res"] = "built"
                    except OSError as e:
                        seen["res"] = type(e).__name__
                    if ending == "rollback":
                        raise KeyError("stop")
                    return 0
                try:
                    FileBuilder.build(cache, "n", main)
                except KeyError:
                    pass
                ok = os.path.isfile(note) and open(note).read() == "mine" and (os.stat(note).st_ino, os.stat(note).st_mtime_ns) == seen.get("id")
                rep.case(key=("side", probe, ending), nontrivial=True)
                if not ok:
                    fails.append({"oracle": "a file written by user code into a directory of the previous build survives", "probe": probe,
                                  "ending": ending, "build_file_result": seen.get("res"), "exists": os.path.exists(note)})
    finally:
        shutil.rmtree(base, ignore_errors=True)
        logging.disable(logging.NOTSET)
    return fails


def t3(rep, tier, budget=1):
    return _t3(rep, tier, budget) + side_outputs(rep)
RULE = ("generated histories with foreign files and directories planted inside directories of outputs, at output positions and next "
        "to the cache file, across commits, rollbacks, swaps and clean; non-trivial when a foreign file lay inside a builder-created "
        "directory or at a target path while a build or clean ran")
TRUSTED = ["DSL interpreter/emitter", "the set of managed paths is read from the cache file by the harness itself"]
