"""C14 — internal OS errors surface as exceptions and never leave half-done state.
A single OSError is injected at the k-th mutating call the library makes (module shim, no source
hook).  T2: the model with the same fault ordinal (the numbering is the order of `effect` calls in
Model/Monad.v).  T3: if the error leaves build(), the pre-state is back (C02 oracle); if user code
catches it, no directory is leaked, no foreign file is missing, no temp directory is left and the cache
file is usable afterwards."""
import json
import os
import random

from .. import common, seq, gen
from . import seqprop

GEN = ['JsonUtilGen.v', 'Sites.v', 'Decisions.v', 'CacheGen.v', 'DriverGen.v']
DECISIONS = ['Cache.write', 'FileBackups.back_up_and_remove', 'FileBackups.restore_all', 'FileBuilder._apply_cached_suboperations', 'FileBuilder._assert_build_file_call_valid', 'FileBuilder._build', 'FileBuilder._build_file', 'FileBuilder._commit', 'FileBuilder._create_dirs', 'FileBuilder._dirs_to_make', 'FileBuilder._handle_error_building_file', 'FileBuilder._make_dirs', 'FileBuilder._make_room', 'FileBuilder._prepare_file_creation', 'FileBuilder._rebuild_file', 'FileBuilder._remove_empty_dirs', 'FileBuilder._roll_back', 'FileBuilder._set_created_dirs', 'FileBuilder._subbuild', 'FileBuilder._try_to_remove_file', 'FileBuilder.build_file_with_comparison', 'FileBuilder.subbuild']
SITES = True
ORDER = False
IN_SCOPE = ("mkdir", "makedirs", "rename", "gzip.open", "gzip.write")


def make_cases(rng, tier, budget):
    g = gen.Gen(rng, dict(long=0.0, fail=0.2))
    out = []
    n = (25 if tier == "quick" else 300) * budget
    work = common.fresh_workdir("c14gen")
    try:
        for _ in range(n):
            c = g.case()
            c["history"].append(["build", [s for s in c["history"] if s[0] == "build"][-1][1],
                                 [s for s in c["history"] if s[0] == "build"][-1][2]])
            c0 = dict(c)
            c0["faults"] = []
            obs, st = seq.impl_run(c0, work)
            log = st["mut_log"]
            # a failure of the undo itself (restore_all's makedirs/replace inside _roll_back) or of the
            # clean-up after the commit is outside the property: only forward calls are faulted
            scoped = [k for k, name, _, phase in log if name in IN_SCOPE and phase == "forward"]
            picks = rng.sample(scoped, min(len(scoped), 4 if tier == "quick" else 8))
            # the cache-write calls of the first and of the last build always
            cw = [k for k, name, _, _ph in log if name in ("gzip.open", "gzip.write")]
            picks = sorted(set(picks) | set(cw[:2]) | set(cw[-2:]))
            # correspondence only: one call of the undo / clean-up phases
            # (not rmdir/remove: their order among same-length paths is Python set order, which a
            # fault would make observable and the model does not reproduce)
            late = [k for k, name, _, phase in log if phase != "forward" and name in ("makedirs", "replace", "mkdir")]
            if late:
                picks.append(rng.choice(late))
            for k in picks:
                c2 = json.loads(json.dumps(c))
                c2["faults"] = [k]
                c2["tag"] = {"fault": k, "call": [nm for kk, nm, _, _ph in log if kk == k][0], "in_scope": k in scoped or k in cw}
                out.append(c2)
        # three cached levels A > B > C in directories of their own, re-applied by the second build: every
        # forward call of the whole history is faulted in turn, the caller catches (error paths of
        # _apply_cached_suboperations)
        for variant in range(1 if tier == "quick" else 3):
            A, B, C = [["a", "o"], ["b", "o"], ["c", "o"]] if variant == 0 else ([["a", "o"], ["a", "b", "o"], ["a", "b", "c", "o"]] if variant == 1 else [["a", "o"], ["b", "m", "o"], ["c", "o"]])
            funcs = {"fc": {"*": [["write", ["lit", "c"]], ["ret", ["lit", 3]]]},
                     "fb": {"*": [["build_file", "y", C, "METADATA", "fc", [], {}], ["write", ["lit", "b"]], ["ret", ["lit", 2]]]},
                     "fa": {"*": [["build_file", "x", B, "METADATA", "fb", [], {}], ["write", ["lit", "a"]], ["ret", ["lit", 1]]]}}
            root = [["build_file", "z", A, "METADATA", "fa", [], {}], ["ask", "d1", "is_dir", B[:1]], ["ask", "l", "list_dir", []],
                    ["ask", "w", "walk", [], True], ["ret", ["digest", ["z", "d1", "l"]]]]
            c = {"cache": ["cache"], "name": "n", "funcs": funcs, "history": [["build", {}, root], ["build", {}, root], ["build", {}, root]]}
            c0 = dict(c)
            c0["faults"] = []
            obs, st = seq.impl_run(c0, work)
            log = st["mut_log"]
            for k, name, _, phase in log:
                if name in IN_SCOPE and phase == "forward":
                    c2 = json.loads(json.dumps(c))
                    c2["faults"] = [k]
                    c2["tag"] = {"fault": k, "call": name, "in_scope": True}
                    out.append(c2)
    finally:
        import shutil
        shutil.rmtree(work, ignore_errors=True)
    return out


def oracle_faults(case, obs, stats):
    tag = case.get("tag")
    if not tag or not tag["in_scope"]:
        return []
    fails = []
    meta = stats["meta"]
    for i, st in enumerate(case["history"]):
        if st[0] != "build" or i == 0:
            continue
        before = {seqprop.split_line(l)[0]: seqprop.split_line(l) for l in seqprop.tree_of(obs[i - 1])}
        after = {seqprop.split_line(l)[0]: seqprop.split_line(l) for l in seqprop.tree_of(obs[i])}
        if meta[i].get("temp_left"):
            fails.append({"oracle": "no temporary directory is left behind", "step": i})
        if obs[i][0].startswith("ok:"):
            # committed: every new directory leads to a file
            files = [p for p, a in after.items() if a[1] in ("F", "CACHE")]
            for p, a in after.items():
                if a[1] == "D" and p not in before and not any(f.startswith(p + "/") for f in files):
                    fails.append({"oracle": "no leaked directory after a caught internal error", "step": i, "path": p})
            # a directory the previous build had made, empty now: the commit removes those
            for p, a in after.items():
                if a[1] == "D" and p in set(meta[i]["old_dirs"]) and not any(q.startswith(p + "/") for q in after):
                    fails.append({"oracle": "no empty directory of the previous build is left after a commit", "step": i, "path": p})
            if not any(a[1] == "CACHE" for a in after.values()):
                fails.append({"oracle": "cache file written after a successful build", "step": i})
    # the cache stays usable: no later build is refused
    # (a cache file the history itself corrupted or overwrote is refused for that reason: `tainted`
    # until a build commits again)
    tainted = False
    cache_path = list(case.get("cache") or [])
    for i, st in enumerate(case["history"]):
        if st[0] == "mutate":
            for m in st[1]:
                if m[0] == "corrupt" or (len(m) > 1 and isinstance(m[1], list) and m[1] == cache_path[:len(m[1])]):
                    tainted = True
            continue
        if st[0] != "build":
            continue
        refused = obs[i][0] == "err:RuntimeError" and not any(l.startswith("invoke <root>") for l in seqprop.log_of(obs[i]))
        if refused and not tainted:
            fails.append({"oracle": "the cache file stays usable (a later build is refused)", "step": i})
        if obs[i][0].startswith("ok:"):
            tainted = False
    return fails


seqprop.ORACLES["faults"] = oracle_faults


def nontrivial(c, o, st):
    t = c.get("tag")
    return bool(t) and any(x[0].startswith("err:OSError") or "err:OSError" in x[0] for x in o)


t2, t3 = seqprop.make_module("C14", ["faults", "rollback", "foreign"], make_cases, nontrivial, use_spec=False)
RULE = ("generated histories re-run with one injected OSError at the k-th mutating library call (mkdir, makedirs, rename, "
        "open/write of the cache; a few rmdir/remove/replace for the correspondence); non-trivial when the injected error was observed "
        "as an exception by user code or by the caller of build")
TRUSTED = ["module shim harness/shim.py (rebinding of os/gzip inside the package modules)", "single faults only; the numbering of mutating calls is tied to the model by T2"]
