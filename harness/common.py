"""Shared machinery of the checks: translators, Coq build, case evaluation,
evidence, known findings, violation reports.  See DESIGN.md section 5."""
import fcntl
import hashlib
import json
import os
import re
import shutil
import subprocess
import sys
import time

VERIF = os.path.dirname(os.path.dirname(os.path.abspath(__file__)))
REPO = os.environ.get("VERIF_REPO", "/repo")
COQ = os.path.join(VERIF, "coq")
WORK = os.path.join(VERIF, ".work")
PY = "/venv/bin/python"
QFLAGS = []
for d, n in [("Base", "FB.Base"), ("Gen", "FB.Gen"), ("Spec", "FB.Spec"), ("Model", "FB.Model"),
             ("Proofs", "FB.Proofs"), ("Properties", "FB.Properties")]:
    QFLAGS += ["-Q", os.path.join(COQ, d), n]

FORBIDDEN = re.compile(
    r"\b(Admitted|admit|Axiom|Axioms|Parameter|Parameters|Conjecture|Conjectures|Abort All|"
    r"Admit Obligations|bypass_check)\b|Unset\s+Guard|Unset\s+Positivity|Unset\s+Universe|"
    r"type-in-type|impredicative-set|native_compute")


def seed():
    try:
        return int(os.environ.get("VERIF_SEED", "0"))
    except ValueError:
        return 0


def _big_stack():
    """coqc overflows the default 8 MB stack on string literals of several 10 kB (C13 contents)."""
    import resource
    try:
        soft, hard = resource.getrlimit(resource.RLIMIT_STACK)
        resource.setrlimit(resource.RLIMIT_STACK, (hard, hard))
    except (ValueError, OSError):
        pass


def sh(cmd, timeout, cwd=None, env=None):
    try:
        p = subprocess.run(cmd, cwd=cwd, env=env, stdout=subprocess.PIPE, stderr=subprocess.STDOUT,
                           timeout=timeout, text=True, errors="replace", preexec_fn=_big_stack)
        return p.returncode, p.stdout
    except subprocess.TimeoutExpired as e:
        out = e.stdout or ""
        if isinstance(out, bytes):
            out = out.decode("utf-8", "replace")
        return 124, out + "\n[timeout after %ss]" % timeout


class Lock:
    """One build of the Coq tree at a time (checks may run concurrently)."""
    def __enter__(self):
        os.makedirs(WORK, exist_ok=True)
        self.f = open(os.path.join(WORK, "build.lock"), "w")
        fcntl.flock(self.f, fcntl.LOCK_EX)
        return self

    def __exit__(self, *a):
        fcntl.flock(self.f, fcntl.LOCK_UN)
        self.f.close()


# --------------------------------------------------------------------------- translators

TRANSLATORS = [
    # (script, source relative to REPO (or "" for the whole package), output under coq/Gen)
    ("json_util_tr.py", "file_builder/json_util.py", "JsonUtilGen.v"),
    ("locks_tr.py", "file_builder", "Locks.v"),
    ("edges_tr.py", "file_builder", "Edges.v"),
    ("skeleton_tr.py", "file_builder", "Decisions.v"),     # also writes Sites.v and Order.v
    # build_dirs.py + created_files.py as Gallina; Proofs/BookGenLaws.v proves it equal to the hand-written model
    ("bookkeeping_tr.py", "", "BookGen.v"),
    # simple_operation_executor.py (ExecGenLaws.v: equal to Model/SimpleOps.v) and the in-memory half of cache.py
    # (CacheGenLaws.v: equal to the new_* routines of Model/Builder.v / Persist.v)
    ("executor_tr.py", "", "ExecGen.v"),
    ("cache_tr.py", "", "CacheGen.v"),
    # the operations of file_builder.py (build_file*, subbuild, queries, cache validation): OpsGenLaws.v
    ("operations_tr.py", "", "OpsGen.v"),
    # the build driver of file_builder.py (_build, _roll_back, _commit, clean, _make_dirs, _make_room, ...) and file_backups.py
    ("driver_tr.py", "", "DriverGen.v"),
]


def run_translators():
    """Regenerate coq/Gen from the current /repo. Returns {output: (ok, message)}."""
    res = {}
    for script, src, out in TRANSLATORS:
        sp = os.path.join(VERIF, "tools", "translate", script)
        if not os.path.exists(sp):
            continue
        rc, txt = sh([PY, sp, os.path.join(REPO, src), os.path.join(COQ, "Gen", out)], 120)
        res[out] = (rc == 0, txt.strip())
        if script == "skeleton_tr.py":
            res["Sites.v"] = res[out]
            res["Order.v"] = res[out]
    return res


def skeleton_check(workdir, decisions=(), sites=False, order=False):
    """T1b/T1c/T1f: compare the generated control skeleton with the baseline the model was aligned
    with (Model/Skeleton.v). -> dict with lists of mismatching functions / sites, order flag."""
    from .codec import coq_str
    txt = ("From Coq Require Import List String. Import ListNotations. Open Scope string_scope.\n"
           "From FB.Model Require Import Skeleton.\n"
           "Definition nl := String (Ascii.ascii_of_nat 10) \"\".\n"
           "Eval vm_compute in (String.concat nl (decision_mismatches [%s])).\n"
           "Eval vm_compute in (String.concat nl (map (fun s => match s with (f, p, _, _) => (f ++ \" \" ++ p)%%string end) site_mismatches)).\n"
           "Eval vm_compute in order_ok.\n" % "; ".join(coq_str(d) for d in decisions))
    rc, out = coq_eval(workdir, "Skel", txt, timeout=300)
    if rc != 0:
        return {"error": out[-800:]}
    parts = re.findall(r'=\s*"(.*?)"\s*:\s*string', out, re.S)
    ok = re.search(r"=\s*(true|false)\s*:\s*bool", out)
    res = {"decisions": [x for x in (parts[0].split("\n") if parts else []) if x],
           "sites": [x for x in (parts[1].split("\n") if len(parts) > 1 else []) if x],
           "order_ok": bool(ok and ok.group(1) == "true")}
    if not decisions:
        res["decisions"] = []
    if not sites:
        res["sites"] = []
    if not order:
        res["order_ok"] = True
    return res


def gen_diff(out):
    """Diff of a generated file against the committed copy (for replays)."""
    rc, txt = sh(["git", "-C", VERIF, "diff", "--no-color", "--", os.path.join("coq", "Gen", out)], 60)
    return txt


# --------------------------------------------------------------------------- Coq build

def coq_build(timeout=3000):
    """Full .vo build (make -k). Returns (ok, log, failed_files)."""
    with Lock():
        if not os.path.exists(os.path.join(COQ, "Makefile")) or (
                os.path.getmtime(os.path.join(COQ, "Makefile")) < os.path.getmtime(os.path.join(COQ, "_CoqProject"))):
            rc, txt = sh(["coq_makefile", "-f", "_CoqProject", "-o", "Makefile"], 120, cwd=COQ)
            if rc != 0:
                return False, txt, ["_CoqProject"]
        # every coqc under a shell timeout: a proof that loops on a changed definition must fail, not hang
        rc, txt = sh(["make", "-k", "-j16", "COQC=timeout 900 coqc"], timeout, cwd=COQ)
    failed = sorted(set(re.findall(r'File "\./([^"]+\.v)", line \d+, characters [\d-]+:\s*\n(?:Error|.*\n?Error)', txt)))
    if rc != 0 and not failed:
        failed = sorted(set(re.findall(r"\[([^\]]+\.vo)\] Error", txt)))
    return rc == 0, txt, failed


def first_error(log, fname):
    m = re.search(r'File "\./%s", line (\d+), characters ([\d-]+):\s*\n((?:.*\n){1,12})' % re.escape(fname), log)
    return m.group(0) if m else ""


def vo_ok(rel):
    """rel like Properties/C18.v : compiled and up to date w.r.t. everything it depends on
    (`make -q`: exit status 0 iff nothing would have to be rebuilt)."""
    vo = os.path.join(COQ, rel) + "o"
    if not os.path.exists(vo):
        return False
    with Lock():
        rc, _ = sh(["make", "-q", rel + "o"], 300, cwd=COQ)
    return rc == 0


def theorems_of(rel):
    txt = open(os.path.join(COQ, rel)).read()
    return re.findall(r"^\s*(?:Theorem|Corollary)\s+([A-Za-z0-9_']+)", txt, re.M)


def print_assumptions(prop_id, workdir):
    """Run Print Assumptions for every theorem of Properties/<id>.v.
    Returns {theorem: text}."""
    names = theorems_of("Properties/%s.v" % prop_id)
    lines = ["Require FB.Properties.%s." % prop_id]
    for n in names:
        lines.append('Goal True. idtac "@@%s". Abort.' % n)
        lines.append("Print Assumptions FB.Properties.%s.%s." % (prop_id, n))
    path = os.path.join(workdir, "Assump_%s.v" % prop_id)
    with open(path, "w") as f:
        f.write("\n".join(lines) + "\n")
    rc, out = sh(["coqc"] + QFLAGS + [path], 600, cwd=workdir)
    res = {}
    if rc != 0:
        return {n: "ERROR: " + out[-400:] for n in names} or {"?": "ERROR: " + out[-400:]}
    parts = re.split(r"^@@(\S+)\s*$", out, flags=re.M)
    for i in range(1, len(parts) - 1, 2):
        res[parts[i]] = " ".join(parts[i + 1].split())
    return res


ALLOWED_AXIOMS = set()   # none: every property theorem must be closed


def assumptions_ok(assump):
    bad = {}
    for n, t in assump.items():
        if "Closed under the global context" in t:
            continue
        bad[n] = t
    return bad


def project_files():
    """the .v files that make up the development: those listed in _CoqProject (a file lying in coq/ that is
    not listed is not compiled and cannot contribute to any theorem, e.g. work in progress)"""
    out = []
    for line in open(os.path.join(COQ, "_CoqProject")):
        line = line.strip()
        if line.endswith(".v"):
            out.append(os.path.normpath(os.path.join(COQ, line)))
    return set(out)


def forbidden_scan():
    hits = []
    listed = project_files()
    for root, _, files in os.walk(COQ):
        for fn in files:
            if fn.endswith(".v") or fn == "_CoqProject" or fn.startswith("Makefile"):
                if fn.startswith("Makefile") and fn != "Makefile.local":
                    continue
                p = os.path.join(root, fn)
                if fn.endswith(".v") and os.path.normpath(p) not in listed:
                    continue
                txt = open(p, errors="replace").read()
                # strip comments (non-nested is enough for a scan that only needs to be conservative)
                for m in FORBIDDEN.finditer(re.sub(r"\(\*.*?\*\)", " ", txt, flags=re.S)):
                    hits.append("%s: %s" % (os.path.relpath(p, COQ), m.group(0)))
    return hits


# --------------------------------------------------------------------------- evaluating cases in Coq

def coq_eval(workdir, name, text, timeout=900):
    """Compile a generated .v file; return (rc, output)."""
    path = os.path.join(workdir, name + ".v")
    with open(path, "w") as f:
        f.write(text)
    return sh(["coqc"] + QFLAGS + [path], timeout, cwd=workdir)


def parse_nat_list(out, tag):
    """Find `@@tag` marker followed by an Eval result `= [..] : list nat`."""
    m = re.search(r"@@%s\s*\n\s*=\s*(.*?)\s*:\s*list nat" % re.escape(tag), out, re.S)
    if not m:
        return None
    return [int(x) for x in re.findall(r"\d+", m.group(1))]


def marker(tag):
    return 'Goal True. idtac "@@%s". Abort.\n' % tag


# --------------------------------------------------------------------------- findings / violations / evidence

def known_findings():
    res = []
    p = os.path.join(VERIF, "KNOWN_FINDINGS.txt")
    if not os.path.exists(p):
        return res
    for line in open(p):
        line = line.strip()
        m = re.match(r"finding:\s+property=(\S+)\s+signature=(\S+)\s+(.*)", line)
        if m:
            res.append({"property": m.group(1), "signature": m.group(2), "text": m.group(3)})
    return res


def digest(obj):
    return hashlib.sha256(json.dumps(obj, sort_keys=True, default=repr).encode()).hexdigest()[:12]


def write_replay(prop_id, payload):
    d = os.path.join(VERIF, "replays")
    os.makedirs(d, exist_ok=True)
    path = os.path.join(d, "%s-%s.json" % (prop_id, digest(payload)))
    with open(path, "w") as f:
        json.dump(payload, f, indent=1, sort_keys=True, default=repr)
    return path


class Report:
    """Collects what one check run did; prints VIOLATION / KNOWN-FINDING lines;
    writes the evidence file."""
    def __init__(self, prop_id, tier):
        self.id, self.tier = prop_id, tier
        self.t0 = time.time()
        self.obligations = 0
        self.discharged = 0
        self.obligation_list = []
        self.evaluations = 0
        self.nontrivial = set()
        self.samples = []
        self.violations = []      # (replay path, suffix)
        self.known_hits = []
        self.notes = []
        self.trusted = []
        self.extra = {}
        self.rule = ""
        self.broken = []          # names of theorems / ties that no longer check

    def obligation(self, name, ok, detail=""):
        self.obligations += 1
        if ok:
            self.discharged += 1
        else:
            self.broken.append(name + ((": " + detail[:300]) if detail else ""))
        self.obligation_list.append({"name": name, "ok": bool(ok)})

    def case(self, key=None, nontrivial=False, sample=None):
        self.evaluations += 1
        if nontrivial and key is not None:
            self.nontrivial.add(key)
        if sample is not None and len(self.samples) < 5:
            self.samples.append(sample)

    def violation(self, payload, signature_fn=None, no_input=False):
        """payload: dict describing the failing case (or the broken tie)."""
        payload = dict(payload)
        payload["property"] = self.id
        if signature_fn is not None and not no_input:
            for kf in known_findings():
                if kf["property"] == self.id and signature_fn(kf["signature"], payload):
                    if kf["signature"] not in [k["signature"] for k in self.known_hits]:
                        self.known_hits.append(kf)
                        print("KNOWN-FINDING: property=%s %s" % (self.id, kf["text"]))
                    return
        path = write_replay(self.id, payload)
        self.violations.append(path)
        print("VIOLATION property=%s replay=%s%s" % (self.id, path, " no-failing-input-found" if no_input else ""))

    def finish(self, level="proof", checker_cmd="", assumptions=None):
        ev = {
            "property_id": self.id,
            "tier": self.tier,
            "seed": seed(),
            "level": level,
            "coverage": {
                "obligations": self.obligations,
                "discharged": self.discharged,
                "checker_cmd": checker_cmd,
                "trusted_base": self.trusted,
                "obligation_list": self.obligation_list,
                "evaluations": self.evaluations,
                "distinct_nontrivial": len(self.nontrivial),
                "rule": self.rule,
                "samples": self.samples,
                "broken": self.broken,
                "known_findings_hit": [k["signature"] for k in self.known_hits],
            },
            "assumptions": assumptions or [],
            "wall_s": round(time.time() - self.t0, 2),
            "violations": len(self.violations),
        }
        ev["coverage"].update(self.extra)
        os.makedirs(os.path.join(VERIF, "evidence"), exist_ok=True)
        with open(os.path.join(VERIF, "evidence", self.id + ".json"), "w") as f:
            json.dump(ev, f, indent=1, sort_keys=True, default=repr)
        for n in self.notes:
            print("note:", n)
        print("%s %s: obligations %d/%d, cases %d (%d distinct non-trivial), violations %d, known findings %d, %.1fs" % (
            self.id, self.tier, self.discharged, self.obligations, self.evaluations, len(self.nontrivial),
            len(self.violations), len(self.known_hits), time.time() - self.t0))
        return 1 if self.violations else 0


def fresh_workdir(tag):
    d = os.path.join(WORK, "%s-%d" % (tag, os.getpid()))
    shutil.rmtree(d, ignore_errors=True)
    os.makedirs(d)
    return d


def import_repo(force=False):
    """Import file_builder from the current /repo working tree (once per process)."""
    if REPO not in sys.path:
        sys.path.insert(0, REPO)
    m = sys.modules.get("file_builder")
    if m is not None and not force and os.path.dirname(os.path.dirname(os.path.abspath(m.__file__))) == os.path.abspath(REPO):
        return m
    for n in [n for n in sys.modules if n == "file_builder" or n.startswith("file_builder.")]:
        del sys.modules[n]
    import file_builder  # noqa
    return file_builder
