"""Instrumentation without source hooks: the names `os`, `threading`, `gzip`
inside the package's own modules are rebound to proxy objects, so that
 * every file-system call and lock acquisition of the package is a yield point
   of a deterministic scheduler (T2c: C08 thread half, C09, C17), and
 * the k-th mutating call can be made to fail with OSError (C14).
Nothing global is patched; `uninstall()` restores the modules."""
import os as real_os
import gzip as real_gzip
import sys
import threading as real_threading

PKG_MODULES = ["file_builder.file_builder", "file_builder.build_dirs", "file_builder.cache",
               "file_builder.created_files", "file_builder.file_backups",
               "file_builder.simple_operation_executor"]

MUTATING = {"mkdir", "makedirs", "rmdir", "remove", "rename", "replace"}
OBSERVING = {"listdir", "stat"}
PATH_OBSERVING = {"isfile", "isdir", "exists", "lexists", "getsize", "islink"}


class Deadlock(Exception):
    pass


class Hooks:
    """What the proxies call.  `sched` may be None (no scheduling), `faults` a set of
    ordinals of mutating calls that must fail, `fault_mode` for the cache write."""
    def __init__(self, sched=None, faults=(), write_fault=None):
        self.sched = sched
        self.faults = set(faults)
        self.write_fault = write_fault      # None | ("open", ordinal) | ("write", ordinal)
        self.n_mut = 0
        self.mut_log = []
        self.sorted_listdir = True

    def before(self, kind, name, args):
        if self.sched is not None:
            self.sched.yield_point("%s:%s" % (name, _short(args)))
        if kind == "mut":
            k = self.n_mut
            self.n_mut += 1
            self.mut_log.append((k, name, _short(args), _phase()))
            if k in self.faults:
                raise OSError(5, "injected fault at mutating call %d (%s)" % (k, name))


def _phase():
    """Which part of a build makes the call: "rollback" (inside FileBuilder._roll_back, i.e. while
    undoing a build that has already failed), "commit" (inside _commit / clean) or "forward"."""
    f = sys._getframe(1)
    while f is not None:
        n = f.f_code.co_name
        if n == "_roll_back":
            return "rollback"
        if n in ("_commit", "clean"):
            return "commit"
        f = f.f_back
    return "forward"


def _short(args):
    if args and isinstance(args[0], (str, bytes)):
        a = args[0] if isinstance(args[0], str) else args[0].decode("utf-8", "replace")
        return real_os.path.basename(a.rstrip("/")) or "/"
    return ""


class PathProxy:
    def __init__(self, hooks):
        self._h = hooks

    def __getattr__(self, name):
        attr = getattr(real_os.path, name)
        if name in PATH_OBSERVING:
            h = self._h

            def wrapped(*a, **k):
                h.before("obs", "path." + name, a)
                return attr(*a, **k)
            return wrapped
        return attr


class OsProxy:
    def __init__(self, hooks):
        self._h = hooks
        self.path = PathProxy(hooks)

    def __getattr__(self, name):
        attr = getattr(real_os, name)
        h = self._h
        if name in MUTATING:
            def wrapped(*a, **k):
                h.before("mut", name, a)
                return attr(*a, **k)
            return wrapped
        if name in OBSERVING:
            def wrapped(*a, **k):
                h.before("obs", name, a)
                r = attr(*a, **k)
                if name == "listdir" and h.sorted_listdir:
                    r = sorted(r)
                return r
            return wrapped
        return attr


class FileProxy:
    """A file opened for reading by the package: a scheduling point AFTER every read, so that another
    thread can run between reading a chunk and using it."""
    def __init__(self, f, hooks, name):
        self._f, self._h, self._n = f, hooks, name

    def read(self, *a):
        r = self._f.read(*a)
        self._h.before("obs", "file.read", (self._n,))
        return r

    def readinto(self, b):
        r = self._f.readinto(b)
        self._h.before("obs", "file.readinto", (self._n,))
        return r

    def __enter__(self):
        self._f.__enter__()
        return self

    def __exit__(self, *a):
        return self._f.__exit__(*a)

    def __iter__(self):
        return iter(self._f)

    def __getattr__(self, name):
        return getattr(self._f, name)


def open_proxy(hooks):
    import builtins
    real_open = builtins.open

    def _open(file, mode="r", *a, **k):
        f = real_open(file, mode, *a, **k)
        if "r" in mode and "b" in mode and hooks.sched is not None:
            return FileProxy(f, hooks, file if isinstance(file, str) else "")
        return f
    return _open


class FailingWriter:
    def __init__(self, f):
        self._f = f

    def write(self, data):
        raise OSError(28, "injected fault while writing the cache file")

    def __enter__(self):
        return self

    def __exit__(self, *a):
        self._f.close()
        return False


class GzipProxy:
    def __init__(self, hooks):
        self._h = hooks

    def __getattr__(self, name):
        return getattr(real_gzip, name)

    def open(self, filename, mode="rb", *a, **k):
        h = self._h
        if "w" in mode:
            # two consecutive mutating calls: creating the file, then writing the text
            k0 = h.n_mut
            h.before("mut", "gzip.open", (filename,))
            f = real_gzip.open(filename, mode, *a, **k)
            k1 = h.n_mut
            h.n_mut += 1
            h.mut_log.append((k1, "gzip.write", _short((filename,)), _phase()))
            if k1 in h.faults:
                return FailingWriter(f)
            return f
        return real_gzip.open(filename, mode, *a, **k)


class ShimLock:
    def __init__(self, hooks, name):
        self._h = hooks
        self.name = name
        self.owner = None
        self._real = real_threading.Lock()

    def acquire(self):
        s = self._h.sched
        if s is None or not s.controls_current():
            self._real.acquire()
            return True
        s.acquire(self)
        return True

    def release(self):
        s = self._h.sched
        if s is None or not s.controls_current():
            self._real.release()
            return
        s.release(self)

    def __enter__(self):
        self.acquire()
        return self

    def __exit__(self, *a):
        self.release()
        return False


class ThreadingProxy:
    def __init__(self, hooks):
        self._h = hooks
        self._n = 0

    def __getattr__(self, name):
        return getattr(real_threading, name)

    def Lock(self):
        self._n += 1
        return ShimLock(self._h, "L%d" % self._n)


_saved = {}


_ABSENT = object()


def install(hooks):
    for mn in PKG_MODULES:
        m = sys.modules.get(mn)
        if m is None:
            __import__(mn)
            m = sys.modules[mn]
        _saved[mn] = {n: getattr(m, n) for n in ("os", "threading", "gzip") if hasattr(m, n)}
        _saved[mn]["open"] = m.__dict__.get("open", _ABSENT)
        m.open = open_proxy(hooks)
        if hasattr(m, "os"):
            m.os = OsProxy(hooks)
        if hasattr(m, "threading"):
            m.threading = ThreadingProxy(hooks)
        if hasattr(m, "gzip"):
            m.gzip = GzipProxy(hooks)


def uninstall():
    for mn, names in _saved.items():
        m = sys.modules.get(mn)
        if m is None:
            continue
        for n, v in names.items():
            if v is _ABSENT:
                if n in m.__dict__:
                    delattr(m, n)
            else:
                setattr(m, n, v)
    _saved.clear()


# ------------------------------------------------------------------ deterministic scheduler

class Sched:
    """Real threads hand a baton to each other following `choices` (one int per
    decision point with more than one enabled thread); afterwards the running
    thread continues while it can (no further pre-emption)."""
    def __init__(self, choices=(), max_steps=20000):
        self.choices = list(choices)
        self.pos = 0
        self.cv = real_threading.Condition()
        self.state = {}          # tid -> "ready" | ("lock", lock) | ("join", set) | "done"
        self.current = None
        self.tids = {}           # real thread ident -> tid
        self.trace = []          # (tid, label)
        self.branching = []      # number of enabled threads at each decision point
        self.taken = []          # index chosen at each decision point
        self.preemptions = 0
        self.deadlock = False
        self.steps = 0
        self.max_steps = max_steps
        self.errors = {}

    # -- bookkeeping
    def me(self):
        return self.tids.get(real_threading.get_ident())

    def controls_current(self):
        return real_threading.get_ident() in self.tids

    def enabled(self):
        return sorted(t for t, s in self.state.items() if s == "ready")

    def register_main(self):
        self.tids[real_threading.get_ident()] = 0
        self.state[0] = "ready"
        self.current = 0

    def _choose(self, me_enabled):
        en = self.enabled()
        if not en:
            return None
        if len(en) == 1:
            return en[0]
        if self.pos < len(self.choices):
            idx = self.choices[self.pos] % len(en)
            self.pos += 1
        else:
            me = self.me()
            idx = en.index(me) if (me_enabled and me in en) else 0
        self.branching.append(len(en))
        self.taken.append(idx)
        return en[idx]

    def _switch(self, me_enabled=True):
        """called with cv held: pick the next thread and wait until it is our turn again"""
        me = self.me()
        nxt = self._choose(me_enabled)
        if nxt is None:
            self.deadlock = True
            self.cv.notify_all()
            raise Deadlock("no enabled thread")
        if nxt != me:
            if me_enabled and self.state.get(me) == "ready":
                self.preemptions += 1
            self.current = nxt
            self.cv.notify_all()
            while self.current != me and not self.deadlock:
                self.cv.wait(timeout=20)
            if self.deadlock:
                raise Deadlock("deadlock elsewhere")

    def yield_point(self, label):
        if not self.controls_current():
            return
        with self.cv:
            self.steps += 1
            if self.steps > self.max_steps:
                self.deadlock = True
                self.cv.notify_all()
                raise Deadlock("step limit")
            self.trace.append((self.me(), label))
            self._switch(True)

    def acquire(self, lock):
        me = self.me()
        with self.cv:
            self.trace.append((me, "acquire:" + lock.name))
            self._switch(True)
            while lock.owner is not None:
                self.state[me] = ("lock", lock)
                self._switch(False)
            lock.owner = me
            self.state[me] = "ready"

    def release(self, lock):
        with self.cv:
            lock.owner = None
            for t, s in self.state.items():
                if isinstance(s, tuple) and s[0] == "lock" and s[1] is lock:
                    self.state[t] = "ready"

    # -- threads of user code
    def spawn(self, fn, tid):
        self.state[tid] = "ready"

        def run():
            with self.cv:
                self.tids[real_threading.get_ident()] = tid
                while self.current != tid and not self.deadlock:
                    self.cv.wait(timeout=20)
            try:
                if not self.deadlock:
                    fn()
            except Deadlock:
                pass
            except BaseException as e:       # noqa
                self.errors[tid] = e
            finally:
                with self.cv:
                    self.state[tid] = "done"
                    for t, s in list(self.state.items()):
                        if isinstance(s, tuple) and s[0] == "join":
                            s[1].discard(tid)
                            if not s[1]:
                                self.state[t] = "ready"
                    if not self.deadlock:
                        nxt = self._choose(False)
                        if nxt is None:
                            if any(s != "done" for s in self.state.values()):
                                self.deadlock = True
                        else:
                            self.current = nxt
                    self.cv.notify_all()
        th = real_threading.Thread(target=run, daemon=True)
        th.start()
        return th

    def join(self, tids):
        me = self.me()
        with self.cv:
            waiting = {t for t in tids if self.state.get(t) != "done"}
            if waiting:
                self.state[me] = ("join", waiting)
                self._switch(False)
            self.state[me] = "ready"
