"""Python value <-> Coq `pyval` term text (Base/PyVal.v)."""
import math


class Opaque:
    """A non-JSON object (POther n)."""
    def __init__(self, n):
        self.n = n

    def __repr__(self):
        return "Opaque(%d)" % self.n


def coq_str(s):
    """Coq term of type string for a Python str (UTF-8 bytes) or bytes."""
    b = s.encode("utf-8", "surrogatepass") if isinstance(s, str) else bytes(s)
    if all(32 <= c < 127 and c != 34 for c in b):
        return '"%s"' % b.decode("ascii")
    return "(bytes_str [%s])" % "; ".join(str(c) for c in b)


def coq_float(x):
    if x != x:
        raise ValueError("NaN is outside the universe")
    if x == 0.0:
        return "(FZero %s)" % ("true" if math.copysign(1.0, x) < 0 else "false")
    if math.isinf(x):
        return "(FInf %s)" % ("true" if x < 0 else "false")
    neg = x < 0
    num, den = abs(x).as_integer_ratio()   # den is a power of two
    e = 0
    while num % 2 == 0:
        num //= 2
        e += 1
    e -= den.bit_length() - 1
    return "(FFin %s %d%%positive (%d)%%Z)" % ("true" if neg else "false", num, e)


def to_coq(v):
    if v is None:
        return "PNone"
    if v is True:
        return "(PBool true)"
    if v is False:
        return "(PBool false)"
    cls = v.__class__
    if cls is int:
        return "(PInt (%d)%%Z)" % v
    if cls is float:
        return "(PFloat %s)" % coq_float(v)
    if cls is str:
        return "(PStr %s)" % coq_str(v)
    if cls is list:
        return "(PList [%s])" % "; ".join(to_coq(x) for x in v)
    if cls is tuple:
        return "(PTuple [%s])" % "; ".join(to_coq(x) for x in v)
    if cls is dict:
        return "(PDict [%s])" % "; ".join("(%s, %s)" % (to_coq(k), to_coq(x)) for k, x in v.items())
    if cls is Opaque:
        return "(POther %d)" % v.n
    raise ValueError("value outside the universe: %r" % (v,))


def to_coq_opt(v, ok):
    return "(Some %s)" % to_coq(v) if ok else "None"


def same(a, b):
    """Structural equality with exact types and sign of zero (pyval_same)."""
    if a.__class__ is not b.__class__:
        return False
    if isinstance(a, float):
        return a == b and math.copysign(1.0, a) == math.copysign(1.0, b)
    if isinstance(a, (list, tuple)):
        return len(a) == len(b) and all(same(x, y) for x, y in zip(a, b))
    if isinstance(a, dict):
        return (len(a) == len(b) and
                all(same(k1, k2) and same(v1, v2)
                    for (k1, v1), (k2, v2) in zip(a.items(), b.items())))
    if isinstance(a, Opaque):
        return a.n == b.n
    return a == b
