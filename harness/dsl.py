"""The case DSL (DESIGN.md appendix B): one JSON-able case description is
(a) interpreted against the real file_builder API in a fresh sandbox and
(b) emitted as Gallina text (a `prog` per build step, a `list hstep` per case)
that Model/Dsl.v evaluates.  Both produce the same canonical observation text.

case  = {"cache": [comp..], "name": str, "funcs": {fname: {vkey|"*": [stmt..]}}, "history": [step..]}
step  = ["mutate", [fsop..]] | ["build", {fname: version}, [stmt..]] | ["clean", name|None]
fsop  = ["write", path, text] | ["touch", path] | ["rewrite", path, text] | ["rm", path]
      | ["mkdir", path] | ["rmtree", path] | ["corrupt", kind]
stmt  = ["ask", x, kind, path, extra?]            kind in exists is_file is_dir list_dir walk get_size read
      | ["build_file", x, path, cmp, fname, args, kwargs] | ["subbuild", x, fname, args, kwargs]
      | ["write", cexpr] | ["ret", vexpr] | ["raise", n] | ["reraise", x]
      | ["if", cond, [stmt..], [stmt..]]
      | ["stale_ask", x, kind, path]               (query on the most recently finished builder)
cexpr = ["lit", text] | ["digest", [x..]] | ["arg", i]
vexpr = ["lit", json] | ["var", x] | ["digest", [x..]] | ["obj"] | ["arg", i]
cond  = ["ok", x] | ["true", x] | ["contains", x, name] | ["eq", x, json]
paths are lists of components, outermost first, relative to the sandbox root.
"""
import json
import math
import os
import shutil
import sys

from . import common
from .codec import Opaque, coq_str, to_coq

CLOCK_BASE = 1_600_000_000_000_000_000
CLOCK_STEP = 1          # one nanosecond per tick: a comparison that loses the low digits of st_mtime_ns is visible


class UserError(Exception):
    def __init__(self, n):
        super().__init__("user exception %d" % n)
        self.n = n


# ------------------------------------------------------------------ canonical text (twins of Model/Dsl.v)

def float_repr(x):
    if x == 0:
        return "-0.0" if math.copysign(1, x) < 0 else "0.0"
    if math.isinf(x):
        return "inf" if x > 0 else "-inf"
    return repr(x)


def show_val(v):
    if v is None:
        return "N"
    if v is True:
        return "T"
    if v is False:
        return "F"
    if isinstance(v, int):
        return str(v)
    if isinstance(v, float):
        return "f" + float_repr(v)
    if isinstance(v, str):
        return "'" + v + "'"
    if isinstance(v, list):
        return "[" + ",".join(show_val(x) for x in v) + "]"
    if isinstance(v, tuple):
        return "(" + ",".join(show_val(x) for x in v) + ")"
    if isinstance(v, dict):
        # dictionaries are compared with ==: the order of the keys is not an observation
        items = sorted(((show_val(k), show_val(x)) for k, x in v.items()), key=lambda kv: kv[0].encode("utf-8"))
        return "{" + ",".join(k + ":" + x for k, x in items) + "}"
    return "<obj>"


def exn_class(e):
    if isinstance(e, UserError):
        return "User%d" % e.n
    for c in (FileNotFoundError, NotADirectoryError, IsADirectoryError, FileExistsError):
        if type(e) is c:
            return c.__name__
    if isinstance(e, OSError):
        return "OSError"
    if isinstance(e, RuntimeError):
        return "RuntimeError"
    if isinstance(e, TypeError):
        return "TypeError"
    return "Crash"


class Out:
    """outcome of a call as the DSL sees it"""
    def __init__(self, val=None, exc=None):
        self.val, self.exc = val, exc

    def show(self):
        return "err:" + exn_class(self.exc) if self.exc is not None else "ok:" + show_val(self.val)


def pstr(path):
    return "".join("/" + c for c in path)


# ------------------------------------------------------------------ interpreter against the real API

class Sandbox:
    def __init__(self, workdir):
        self.base = os.path.join(workdir, "case")
        shutil.rmtree(self.base, ignore_errors=True)
        self.root = os.path.join(self.base, "sb")
        self.links = os.path.join(self.base, "links")
        self.tmp = os.path.join(self.base, "tmp")
        os.makedirs(self.root)
        os.makedirs(self.links)
        os.makedirs(self.tmp)
        self.clock = 0
        self.prev = {}          # relpath text -> inode of the previous snapshot
        self.nlink = 0

    def abs(self, path):
        return os.path.join(self.root, *path)

    def rel(self, abspath):
        r = os.path.relpath(abspath, self.root)
        return "" if r == "." else "/" + r

    def tick(self):
        self.clock += 1
        return CLOCK_BASE + self.clock * CLOCK_STEP

    def stamp(self, p):
        t = self.tick()
        os.utime(p, ns=(t, t))

    def snapshot(self, cachefile):
        """canonical tree lines + remember inodes (hard links keep them from being recycled)"""
        lines = []
        cur = {}
        shutil.rmtree(self.links, ignore_errors=True)
        os.makedirs(self.links)
        for d, dirs, files in os.walk(self.root):
            for n in dirs:
                lines.append(self.rel(os.path.join(d, n)) + "|D")
            for n in files:
                p = os.path.join(d, n)
                r = self.rel(p)
                st = os.stat(p)
                cur[r] = st.st_ino
                self.nlink += 1
                os.link(p, os.path.join(self.links, "l%d" % self.nlink))
                if p == cachefile:
                    lines.append(r + "|CACHE")
                    continue
                with open(p, "rb") as f:
                    content = f.read().decode("utf-8", "replace")
                mt = (st.st_mtime_ns - CLOCK_BASE) // CLOCK_STEP if st.st_mtime_ns >= CLOCK_BASE else -1
                cls = "same" if self.prev.get(r) == st.st_ino else "new"
                lines.append("%s|F|%s|%d|%s" % (r, content, mt, cls))
        self.prev = cur
        return sorted(lines, key=lambda s: s.encode("utf-8"))

    def close(self):
        shutil.rmtree(self.base, ignore_errors=True)


class Interp:
    """Runs one case against file_builder; collects one observation per step."""
    def __init__(self, case, workdir, hooks=None, par_mode="seq", sched=None):
        self.case = case
        self.par_mode = par_mode      # "seq": blocks one after another (the sequential reference);
        self.sched = sched            # "sched": under the deterministic scheduler; "free": real threads
        self.next_tid = 1
        self.sb = Sandbox(workdir)
        self.log = []
        self.hooks = hooks or {}
        self.cachefile = self.sb.abs(case["cache"])
        self.last_finished = None
        self.vers = {}
        self.stats = {"invocations": 0, "cached_calls": 0, "asks": 0, "errors": {}}
        self.meta = []           # one dict per history step
        self.cur = None
        self.raised_objs = {}

    # -- bodies
    def body_for(self, fname):
        table = self.case["funcs"][fname]
        key = json.dumps(self.vers.get(fname), sort_keys=True)
        return table.get(key, table.get("*"))

    def make_func(self, fname, is_file):
        interp = self

        def fn(builder, *rest, **kwargs):
            if is_file:
                target, args = rest[0], list(rest[1:])
            else:
                target, args = None, list(rest)
            interp.stats["invocations"] += 1
            if interp.cur is not None:
                interp.cur["misses"] += 1
                interp.cur["invoked"].append({"fname": fname, "target": interp.sb.rel(target) if target is not None else None,
                                              "args": json.loads(json.dumps(args)), "kwargs": json.loads(json.dumps(kwargs))})
                if target is not None:
                    # C10: the function starts with the target absent, an absolute normalised path,
                    # and every parent directory present
                    if os.path.lexists(target):
                        interp.cur["entry_violations"].append("target exists at function entry: " + interp.sb.rel(target))
                    if target != os.path.abspath(target) or not os.path.isabs(target):
                        interp.cur["entry_violations"].append("path not absolute/normalised: " + target)
                    if not os.path.isdir(os.path.dirname(target)):
                        interp.cur["entry_violations"].append("parent missing at function entry: " + interp.sb.rel(target))
            interp.log.append("invoke %s %s %s %s" % (
                fname, interp.sb.rel(target) if target is not None else "-", show_val(args), show_val(kwargs)))
            try:
                r = interp.block(interp.body_for(fname), builder, target, args, kwargs, {})
                interp.exit_exc = None
                return r
            except BaseException as e:      # noqa
                interp.exit_exc = e
                raise
            finally:
                interp.last_finished = builder
        return fn

    def cexpr(self, e, env, args):
        if e[0] == "lit":
            return e[1]
        if e[0] == "digest":
            return "|".join(env[x].show() for x in e[1])
        if e[0] == "arg":
            return show_val(args[e[1]] if e[1] < len(args) else None)
        raise ValueError(e)

    def vexpr(self, e, env, args):
        if e[0] == "lit":
            return e[1]
        if e[0] == "var":
            o = env[e[1]]
            return o.val if o.exc is None else None
        if e[0] == "digest":
            return "|".join(env[x].show() for x in e[1])
        if e[0] == "obj":
            return object()
        if e[0] == "arg":
            return args[e[1]] if e[1] < len(args) else None
        raise ValueError(e)

    def cond(self, c, env):
        o = env[c[1]]
        if c[0] == "ok":
            return o.exc is None
        if c[0] == "true":
            return o.exc is None and o.val is True
        if c[0] == "contains":
            return o.exc is None and isinstance(o.val, list) and c[2] in o.val
        if c[0] == "eq":
            from .codec import same
            return o.exc is None and same(o.val, c[2])
        raise ValueError(c)

    def ask(self, builder, kind, path, extra):
        from file_builder import FileComparison
        p = self.sb.abs(path)
        shown_args = [pstr(path)]
        try:
            if kind == "exists":
                v = builder.exists(p)
            elif kind == "is_file":
                v = builder.is_file(p)
            elif kind == "is_dir":
                v = builder.is_dir(p)
            elif kind == "list_dir":
                v = builder.list_dir(p)
            elif kind == "walk":
                shown_args.append(bool(extra))
                v = [(self.sb.rel(d), list(sd), list(sf)) for d, sd, sf in builder.walk(p, bool(extra))]
            elif kind == "get_size":
                v = builder.get_size(p)
                if os.path.isdir(p):
                    v = -1
            elif kind == "read":
                shown_args.append(extra or "METADATA")
                with builder.read_text(p, FileComparison[extra or "METADATA"]) as f:
                    v = f.read()
            else:
                raise ValueError(kind)
            out = Out(val=v)
        except Exception as e:       # noqa
            if isinstance(e, OSError) and any(len(c.encode("utf-8")) > 255 for c in path):
                e = OSError("unspecified class for an over-long component")
            out = Out(exc=e)
        q = "%s(%s)" % (kind, ",".join(show_val(a) for a in shown_args))
        self.stats["asks"] += 1
        if out.exc is None:
            # the model logs the recorded return value; for `read` that is the comparison result, which
            # user code never sees: log the content instead on both sides
            self.log.append("answer %s = %s" % (q, show_val(out.val)))
        elif isinstance(out.exc, OSError):
            self.log.append("answer %s ! %s" % (q, exn_class(out.exc)))
            self.stats["errors"][exn_class(out.exc)] = self.stats["errors"].get(exn_class(out.exc), 0) + 1
        return out

    def same_object(self, e, fname):
        """C10/C08: an exception that left the user function is the object the call raises"""
        ex = getattr(self, "exit_exc", None)
        if ex is not None and e is not ex and self.cur is not None:
            self.cur["entry_violations"].append("the exception raised by %s was replaced by another object (%s -> %s)"
                                                % (fname, type(ex).__name__, type(e).__name__))
        self.exit_exc = None

    def block(self, stmts, builder, target, args, kwargs, env):
        """Run a function body: the value of its `ret`, or None when it falls off the end."""
        returned, v = self.stmts(stmts, builder, target, args, kwargs, dict(env))
        return v if returned else None

    def stmts(self, stmts, builder, target, args, kwargs, env):
        """-> (returned?, value).  Variables bound in an if-branch stay local to it."""
        from file_builder import FileComparison
        for s in stmts:
            k = s[0]
            if k == "ask":
                env[s[1]] = self.ask(builder, s[2], s[3], s[4] if len(s) > 4 else None)
            elif k == "stale_ask":
                b = self.last_finished
                env[s[1]] = self.ask(b, s[2], s[3], None) if b is not None else Out(exc=RuntimeError("no stale builder"))
            elif k == "build_file":
                _, x, path, cmp_, fname, a, kw = s
                before = self.stats["invocations"]
                self.exit_exc = None
                try:
                    v = builder.build_file_with_comparison(
                        self.sb.abs(path), FileComparison[cmp_], fname, self.make_func(fname, True), *a, **kw)
                    env[x] = Out(val=v)
                    if self.stats["invocations"] == before:
                        self.stats["cached_calls"] += 1
                        if self.cur is not None:
                            self.cur["hits"] += 1
                            self.cur["hit_names"].append(fname)
                    if self.cur is not None:
                        tp = self.sb.abs(path)
                        if not os.path.isfile(tp):
                            self.cur["entry_violations"].append("build_file returned but target is not a regular file: " + pstr(path))
                except Exception as e:       # noqa
                    env[x] = Out(exc=e)
                    self.same_object(e, fname)
                    if self.cur is not None and not isinstance(e, TypeError):
                        tp = self.sb.abs(path)
                        # C10: after a failure the target does not exist (unless the failure was a refusal
                        # that never touched it: duplicate / directory / cache file)
                        self.cur["failed_targets"].append(pstr(path))
                if self.cur is not None:
                    self.cur["targets"].append(pstr(path))
            elif k == "subbuild":
                _, x, fname, a, kw = s
                before = self.stats["invocations"]
                self.exit_exc = None
                try:
                    v = builder.subbuild(fname, self.make_func(fname, False), *a, **kw)
                    env[x] = Out(val=v)
                    if self.stats["invocations"] == before:
                        self.stats["cached_calls"] += 1
                        if self.cur is not None:
                            self.cur["hits"] += 1
                            self.cur["hit_names"].append(fname)
                except Exception as e:       # noqa
                    env[x] = Out(exc=e)
                    self.same_object(e, fname)
            elif k == "write":
                if target is not None:
                    with open(target, "w", encoding="utf-8") as f:
                        f.write(self.cexpr(s[1], env, args))
                    self.sb.stamp(target)
            elif k == "ret":
                return True, self.vexpr(s[1], env, args)
            elif k == "raise" and s[1] in ("TypeError", "OSError"):
                # user code raising a class the library raises itself: it must still come out as this very object
                ue = TypeError("raised by user code") if s[1] == "TypeError" else OSError(5, "raised by user code")
                if self.cur is not None:
                    self.cur["raised_ids"].append(id(ue))
                    self.raised_objs[id(ue)] = ue
                raise ue
            elif k == "raise":
                ue = UserError(s[1])
                if self.cur is not None:
                    self.cur["raised_ids"].append(id(ue))
                    self.raised_objs[id(ue)] = ue
                raise ue
            elif k == "reraise":
                if env[s[1]].exc is not None:
                    raise env[s[1]].exc
            elif k == "if":
                branch = s[2] if self.cond(s[1], env) else s[3]
                returned, v = self.stmts(branch, builder, target, args, kwargs, dict(env))
                if returned:
                    return True, v
            elif k == "par":
                env[s[2]] = self.par(s[1], builder, target, args, kwargs, env)
            else:
                raise ValueError(s)
        return False, None

    def par(self, blocks, builder, target, args, kwargs, env):
        """Run the blocks on the same builder in several threads and join them."""
        import threading
        results = [None] * len(blocks)

        def mk(i, blk):
            def run():
                try:
                    returned, v = self.stmts(blk, builder, target, args, kwargs, dict(env))
                    results[i] = Out(val=v if returned else None)
                except Exception as e:       # noqa
                    results[i] = Out(exc=e)
            return run
        runs = [mk(i, b) for i, b in enumerate(blocks)]
        if self.par_mode == "seq":
            for r in runs:
                r()
        elif self.par_mode == "sched":
            tids = []
            ths = []
            for r in runs:
                tid = self.next_tid
                self.next_tid += 1
                tids.append(tid)
                ths.append(self.sched.spawn(r, tid))
            self.sched.join(tids)
            for th in ths:
                th.join(timeout=30)
            for i, tid in enumerate(tids):
                if results[i] is None:
                    results[i] = Out(exc=self.sched.errors.get(tid, RuntimeError("thread did not finish")))
        else:
            ths = [threading.Thread(target=r) for r in runs]
            for th in ths:
                th.start()
            for th in ths:
                th.join(timeout=60)
        return Out(val=[r.show() if r is not None else "unfinished" for r in results])

    # -- history
    def fsop(self, op):
        k = op[0]
        if k == "write":
            p = self.sb.abs(op[1])
            try:
                os.makedirs(os.path.dirname(p), exist_ok=True)
                if os.path.isdir(p):
                    self.sb.tick()
                    return
                with open(p, "w", encoding="utf-8") as f:
                    f.write(op[2])
                self.sb.stamp(p)
            except OSError:
                self.sb.tick()
        elif k == "touch":
            p = self.sb.abs(op[1])
            if os.path.isfile(p):
                self.sb.stamp(p)
            else:
                self.sb.tick()
        elif k == "rewrite":
            p = self.sb.abs(op[1])
            if os.path.isfile(p):
                st = os.stat(p)
                with open(p, "w", encoding="utf-8") as f:
                    f.write(op[2])
                os.utime(p, ns=(st.st_mtime_ns, st.st_mtime_ns))
        elif k == "rm":
            p = self.sb.abs(op[1])
            if os.path.isfile(p):
                os.remove(p)
        elif k == "mkdir":
            try:
                os.makedirs(self.sb.abs(op[1]), exist_ok=True)
            except OSError:
                pass
        elif k == "rmtree":
            p = self.sb.abs(op[1])
            if os.path.isdir(p):
                shutil.rmtree(p)
            elif os.path.isfile(p):
                os.remove(p)
        elif k == "corrupt":
            corrupt_cache(self.cachefile, op[1])
        else:
            raise ValueError(op)

    def run(self):
        import tempfile
        common.import_repo()
        from file_builder import FileBuilder
        obs = []
        old_tmp = tempfile.tempdir
        tempfile.tempdir = self.sb.tmp
        try:
            self.sb.snapshot(self.cachefile)
            for step in self.case["history"]:
                self.log = []
                self.cur = {"kind": step[0], "targets": [], "entry_violations": [], "hits": 0, "misses": 0,
                            "raised_ids": [], "failed_targets": [], "exc_same": None, "hit_names": [], "invoked": []}
                self.cur.update(read_cache_info(self.cachefile, self.sb))
                self.meta.append(self.cur)
                if step[0] == "mutate":
                    for op in step[1]:
                        self.fsop(op)
                    obs.append(["mutated", "--tree"] + self.sb.snapshot(self.cachefile))
                elif step[0] == "build":
                    self.vers = step[1]
                    body = step[2]
                    interp = self

                    def root(builder):
                        interp.log.append("invoke <root> - N N")
                        try:
                            return interp.block(body, builder, None, [], {}, {})
                        finally:
                            interp.last_finished = builder
                    try:
                        v = FileBuilder.build_versioned(self.cachefile, self.case["name"], dict(self.vers), root)
                        res = "ok:" + show_val(v)
                    except Exception as e:       # noqa
                        res = "err:" + exn_class(e)
                        if isinstance(e, UserError):
                            self.cur["exc_same"] = id(e) in self.cur["raised_ids"]
                    leftover = os.listdir(self.sb.tmp)
                    self.cur["temp_left"] = len(leftover)
                    obs.append([res] + self.log + (["TEMP-LEFT %d" % len(leftover)] if leftover else []) +
                               ["--tree"] + self.sb.snapshot(self.cachefile))
                elif step[0] == "clean":
                    try:
                        FileBuilder.clean(self.cachefile, step[1])
                        res = "ok:N"
                    except Exception as e:       # noqa
                        res = "err:" + exn_class(e)
                    obs.append([res, "--tree"] + self.sb.snapshot(self.cachefile))
                else:
                    raise ValueError(step)
        finally:
            tempfile.tempdir = old_tmp
            self.sb.close()
        return obs


def read_cache_info(cachefile, sb):
    """What the previous committed build recorded (read independently of the package)."""
    import gzip
    info = {"old_outputs": [], "old_dirs": [], "cache_readable": False, "old_records": []}
    try:
        with gzip.open(cachefile, "rt") as f:
            j = json.load(f)
        def has_sf(o):
            return bool(o.get("setupFailed")) or any(has_sf(x) for x in o.get("suboperations", []))

        def walk(ops):
            for o in ops:
                if o.get("type") == "build_file" and not o.get("raised") and not o.get("setupFailed"):
                    info["old_outputs"].append(sb.rel(o["filename"]))
                if o.get("type") in ("build_file", "subbuild") and not o.get("setupFailed"):
                    info["old_records"].append({"type": o["type"], "fname": o["funcName"], "args": o["args"], "kwargs": o["kwargs"],
                                                "target": sb.rel(o["filename"]) if o["type"] == "build_file" else None,
                                                "servable": not o.get("raised") and not has_sf(o)})
                if "suboperations" in o:
                    walk(o["suboperations"])
        walk(j["rootOperations"])
        info["old_dirs"] = [sb.rel(d) for d in j["createdDirs"]]
        info["cache_readable"] = True
    except Exception:       # noqa
        pass
    return info


def corrupt_cache(path, kind):
    import gzip
    if not os.path.isfile(path):
        return
    st = os.stat(path)
    data = open(path, "rb").read()
    if kind == "truncate":
        new = data[: max(1, len(data) // 2)]
    elif kind == "notgzip":
        new = b"this is not gzip"
    elif kind == "empty":
        new = b""
    elif kind == "nonjson":
        new = gzip.compress(b"{not json")
    elif kind == "wrongshape":
        new = gzip.compress(b"[1,2,3]")
    elif kind == "othersoftware":
        new = gzip.compress(b'{"software":"other"}')
    elif kind == "newerversion":
        try:
            j = json.loads(gzip.decompress(data))
        except Exception:       # noqa: an already corrupted cache stays as it is (as in Dsl.v FNewerVersion)
            return
        if not isinstance(j, dict):
            return
        j["cacheFileVersion"] = 2
        new = gzip.compress(json.dumps(j).encode())
    else:
        raise ValueError(kind)
    with open(path, "wb") as f:
        f.write(new)
    os.utime(path, ns=(st.st_mtime_ns, st.st_mtime_ns))


# ------------------------------------------------------------------ Gallina emitter

def cpath(path):
    return "[" + "; ".join(coq_str(c) for c in reversed(path)) + "]"


def ident(x):
    return "v_" + "".join(ch if ch.isalnum() else "_" for ch in x)


class Emit:
    def __init__(self, case):
        self.case = case

    def body_for(self, fname, vers):
        table = self.case["funcs"][fname]
        key = json.dumps(vers.get(fname), sort_keys=True)
        return table.get(key, table.get("*"))

    def query(self, kind, path, extra):
        p = cpath(path)
        if kind == "walk":
            return "(QWalk %s %s)" % (p, "true" if extra else "false")
        if kind == "read":
            return "(QRead %s %s)" % (p, extra or "METADATA")
        return "(%s %s)" % ({"exists": "QExists", "is_file": "QIsFile", "is_dir": "QIsDir",
                             "list_dir": "QListDir", "get_size": "QGetSize"}[kind], p)

    def cexpr(self, e):
        if e[0] == "lit":
            return coq_str(e[1])
        if e[0] == "digest":
            return "(join \"|\" [%s])" % "; ".join("show_outcome %s" % ident(x) for x in e[1])
        if e[0] == "arg":
            return "(show_val (arg_n a_ %d))" % e[1]
        raise ValueError(e)

    def vexpr(self, e):
        if e[0] == "lit":
            return to_coq(e[1])
        if e[0] == "var":
            return "(val_of %s)" % ident(e[1])
        if e[0] == "digest":
            return "(PStr %s)" % self.cexpr(e)
        if e[0] == "obj":
            return "(POther 0)"
        if e[0] == "arg":
            return "(arg_n a_ %d)" % e[1]
        raise ValueError(e)

    def cond(self, c):
        x = ident(c[1])
        if c[0] == "ok":
            return "(is_ok %s)" % x
        if c[0] == "true":
            return "(is_true_o %s)" % x
        if c[0] == "contains":
            return "(contains_o %s %s)" % (x, coq_str(c[2]))
        if c[0] == "eq":
            return "(eq_o %s %s)" % (x, to_coq(c[2]))
        raise ValueError(c)

    def block(self, stmts, vers, depth=0):
        if depth > 12:
            raise ValueError("call depth")
        if not stmts:
            return "(Ret PNone)"
        s, rest = stmts[0], stmts[1:]
        k = s[0]
        R = lambda: self.block(rest, vers, depth)      # noqa
        if k == "ask":
            q = self.query(s[2], s[3], s[4] if len(s) > 4 else None)
            return "(Ask false %s (fun %s => %s))" % (q, ident(s[1]), R())
        if k == "stale_ask":
            q = self.query(s[2], s[3], None)
            return "(Ask true %s (fun %s => %s))" % (q, ident(s[1]), R())
        if k == "build_file":
            _, x, path, cmp_, fname, a, kw = s
            body = self.block(self.body_for(fname, vers), vers, depth + 1)
            return "(BuildFile false %s %s %s %s %s (fun p_ a_ kw_ => %s) (fun %s => %s))" % (
                cpath(path), cmp_, coq_str(fname), to_coq(tuple(a)), to_coq(kw), body, ident(x), R())
        if k == "subbuild":
            _, x, fname, a, kw = s
            body = self.block(self.body_for(fname, vers), vers, depth + 1)
            return "(Subbuild false %s %s %s (fun a_ kw_ => %s) (fun %s => %s))" % (
                coq_str(fname), to_coq(tuple(a)), to_coq(kw), body, ident(x), R())
        if k == "write":
            return "(Write %s %s)" % (self.cexpr(s[1]), R())
        if k == "ret":
            return "(Ret %s)" % self.vexpr(s[1])
        if k == "raise" and s[1] == "TypeError":
            return "(Raise XType)"
        if k == "raise" and s[1] == "OSError":
            return "(Raise (XOS XOSError))"
        if k == "raise":
            return "(Raise (XUser %d))" % s[1]
        if k == "reraise":
            return "(match %s with inr e_ => Raise e_ | inl _ => %s end)" % (ident(s[1]), R())
        if k == "if":
            # branches that end in ret/raise do not continue; others continue with the rest
            def br(b):
                ends = bool(b) and b[-1][0] in ("ret", "raise")
                return self.block(b if ends else b + rest, vers, depth)
            return "(if %s then %s else %s)" % (self.cond(s[1]), br(s[2]), br(s[3]))
        raise ValueError(s)

    def fsop(self, op):
        k = op[0]
        if k == "write":
            return "FWrite %s %s" % (cpath(op[1]), coq_str(op[2]))
        if k == "touch":
            return "FTouch %s" % cpath(op[1])
        if k == "rewrite":
            return "FRewriteSameMeta %s %s" % (cpath(op[1]), coq_str(op[2]))
        if k == "rm":
            return "FRm %s" % cpath(op[1])
        if k == "mkdir":
            return "FMkdir %s" % cpath(op[1])
        if k == "rmtree":
            return "FRmtree %s" % cpath(op[1])
        if k == "corrupt":
            j = {"wrongshape": "(Some (PList [PInt 1%Z; PInt 2%Z; PInt 3%Z]))",
                 "othersoftware": '(Some (PDict [(PStr "software", PStr "other")]))'}.get(op[1], "None")
            if op[1] == "newerversion":
                return "FNewerVersion %s" % cpath(self.case["cache"])
            return "FCorruptCache %s %s" % (cpath(self.case["cache"]), j)
        raise ValueError(op)

    def history(self):
        steps = []
        for st in self.case["history"]:
            if st[0] == "mutate":
                steps.append("HMutate [%s]" % "; ".join(self.fsop(o) for o in st[1]))
            elif st[0] == "build":
                steps.append("HBuild %s %s" % (to_coq(st[1]), self.block(st[2], st[1])))
            elif st[0] == "clean":
                steps.append("HClean %s" % ("None" if st[1] is None else "(Some %s)" % coq_str(st[1])))
        return "[" + ";\n  ".join(steps) + "]"


def coq_obs(obs):
    return "[" + ";\n ".join("[" + "; ".join(coq_str(l) for l in step) + "]" for step in obs) + "]"


COQ_HEADER = """From Coq Require Import List String ZArith NArith Bool. Import ListNotations.
From FB.Base Require Import PyVal Fs. From FB.Spec Require Import Prog.
From FB.Model Require Import Types Monad Builder Persist Build Run Dsl. From FB.Spec Require Import Ref Oracle. From FB.Model Require Import Core CoreOracle.
Open Scope string_scope. Open Scope list_scope.
"""
