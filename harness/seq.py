"""Running DSL cases on the implementation and on the Coq model (T2 for the
sequential properties), with model observations printed for disagreements."""
import json
import os
import re
import subprocess

from . import common
from .dsl import Interp, Emit, COQ_HEADER, coq_obs, cpath
from .codec import coq_str

SHARD = 60


def impl_run(case, workdir):
    """Run the case on the implementation; `case["faults"]` (ordinals of mutating library calls
    that must fail, counted over the whole history) are injected through the module shim."""
    from . import shim
    faults = case.get("faults")
    hooks = None
    if faults is not None:
        common.import_repo()
        hooks = shim.Hooks(faults=faults)
        shim.install(hooks)
    try:
        it = Interp(case, workdir)
        obs = it.run()
    finally:
        if hooks is not None:
            shim.uninstall()
    it.stats["meta"] = it.meta
    if hooks is not None:
        it.stats["mut_log"] = hooks.mut_log
    return obs, it.stats


def world0(case):
    f = case.get("faults")
    return "init_world" if not f else "(with_faults [%s] init_world)" % "; ".join("%d" % k for k in f)


def reduce_obs(obs):
    """(result, log lines, reduced tree lines) per step, for the spec oracle"""
    out = []
    for step in obs:
        k = step.index("--tree")
        log = [l for l in step[1:k] if not l.startswith("TEMP-LEFT")]
        tree = []
        for l in step[k + 1:]:
            if "|F|" in l:
                l = l.rsplit("|", 2)[0]
            tree.append(l)
        out.append((step[0], log, sorted(tree, key=lambda x: x.encode("utf-8"))))
    return out


def coq_got(red):
    return "[" + ";\n ".join("(%s, [%s], [%s])" % (coq_str(r), "; ".join(coq_str(l) for l in lg), "; ".join(coq_str(l) for l in tr))
                             for r, lg, tr in red) + "]"


def coq_case_defs(cases, obss, prefix="c"):
    out = []
    for i, (case, obs) in enumerate(zip(cases, obss)):
        em = Emit(case)
        out.append("Definition %s%d_h : list hstep :=\n  %s." % (prefix, i, em.history()))
        out.append("Definition %s%d_got : list (string * list string * list string) :=\n %s." % (prefix, i, coq_got(reduce_obs(obs))))
        out.append("Definition %s%d_core : bool := match first_bad_exact (core_history %s %s %s%d_h %s) %s%d_got with None => true | Some _ => false end." % (
            prefix, i, cpath(case["cache"]), coq_str(case["name"]), prefix, i, world0(case), prefix, i))
        out.append("Definition %s%d_spec : bool := match first_bad (ref_history %s %s %s%d_h %s) %s%d_got with None => true | Some _ => false end." % (
            prefix, i, cpath(case["cache"]), coq_str(case["name"]), prefix, i, world0(case), prefix, i))
        out.append("Definition %s%d_want : list (list string) :=\n %s." % (prefix, i, coq_obs(obs)))
        out.append("Definition %s%d_chk : bool := match first_diff (run_history %s %s %s%d_h %s) %s%d_want with None => true | Some _ => false end." % (
            prefix, i, cpath(case["cache"]), coq_str(case["name"]), prefix, i, world0(case), prefix, i))
    return "\n".join(out)


def model_obs(case, workdir, tag="dbg"):
    """The model's observation of one case, as list of list of lines."""
    em = Emit(case)
    txt = COQ_HEADER + "Definition h : list hstep :=\n  %s.\n" % em.history()
    txt += ('Definition nl := String (Ascii.ascii_of_nat 10) "".\n'
            'Eval vm_compute in join (nl ++ "@@STEP" ++ nl) (map (join nl) (run_history %s %s h %s)).\n'
            % (cpath(case["cache"]), coq_str(case["name"]), world0(case)))
    rc, out = common.coq_eval(workdir, tag, txt, timeout=600)
    if rc != 0:
        return None, out[-2000:]
    m = re.search(r'=\s*"(.*)"\s*:\s*string', out, re.S)
    if not m:
        return None, out[-2000:]
    body = m.group(1).replace('""', '"')
    return [st.split("\n") for st in body.split("\n@@STEP\n")], None


def run_shard(args):
    idx, cases, obss, workdir = args
    txt = COQ_HEADER + coq_case_defs(cases, obss) + "\n"
    txt += common.marker("res") + "Eval vm_compute in failing [%s].\n" % "; ".join("c%d_chk" % i for i in range(len(cases)))
    txt += common.marker("spec") + "Eval vm_compute in failing [%s].\n" % "; ".join("c%d_spec" % i for i in range(len(cases)))
    txt += common.marker("core") + "Eval vm_compute in failing [%s].\n" % "; ".join("c%d_core" % i for i in range(len(cases)))
    rc, out = common.coq_eval(workdir, "shard%d" % idx, txt, timeout=1200)
    if rc != 0:
        return idx, None, None, None, out[-3000:]
    return idx, common.parse_nat_list(out, "res"), common.parse_nat_list(out, "spec"), common.parse_nat_list(out, "core"), None


def compare(cases, workdir, parallel=8):
    """-> (disagreements, stats). disagreement = {case, impl, model, step}"""
    from concurrent.futures import ThreadPoolExecutor
    obss, stats = [], []
    for c in cases:
        o, st = impl_run(c, workdir)
        obss.append(o)
        stats.append(st)
    shards = []
    for k in range(0, len(cases), SHARD):
        shards.append((k // SHARD, cases[k:k + SHARD], obss[k:k + SHARD], workdir))
    dis = []
    specbad = []
    corebad = []
    err = None
    with ThreadPoolExecutor(max_workers=parallel) as ex:
        for idx, bad, sbad, cbad, e in ex.map(run_shard, shards):
            if e is not None:
                err = e
                continue
            for b in bad or []:
                dis.append(idx * SHARD + b)
            for b in sbad or []:
                specbad.append(idx * SHARD + b)
            for b in cbad or []:
                corebad.append(idx * SHARD + b)
    compare.corebad_raw = corebad
    from .gen import cache_only_dirs, target_below_own, targets_nest
    compare.corebad = [i for i in corebad if not cases[i].get("faults") and not cache_only_dirs(cases[i]) and not target_below_own(cases[i])
                       and not targets_nest(cases[i])]
    compare.specbad = [i for i in specbad if not cache_only_dirs(cases[i]) and not target_below_own(cases[i])]
    compare.spec_skipped = sum(1 for c in cases if cache_only_dirs(c) or target_below_own(c))
    out = []
    for i in dis[:5]:
        mo, e = model_obs(cases[i], workdir, "dbg%d" % i)
        step = None
        if mo is not None:
            for k, (a, b) in enumerate(zip(obss[i], mo)):
                if a != b:
                    step = k
                    break
        out.append({"case": cases[i], "impl": obss[i], "model": mo if mo is not None else e, "step": step})
    for i in dis[5:]:
        out.append({"case": cases[i], "impl": obss[i]})
    return out, obss, stats, err


def spec_req(case, workdir, tag="spec"):
    """What the reference semantics requires of each step (for reports)."""
    em = Emit(case)
    txt = COQ_HEADER + "Definition h : list hstep :=\n  %s.\n" % em.history()
    txt += ('Definition nl := String (Ascii.ascii_of_nat 10) "".\n'
            'Definition show_req (r : step_req) := join nl ([sq_result r] ++ sq_log r ++ ["--tree"] ++ match sq_tree r with Some t => t | None => ["<unconstrained>"] end).\n'
            'Eval vm_compute in join (nl ++ "@@STEP" ++ nl) (map show_req (ref_history %s %s h %s)).\n'
            % (cpath(case["cache"]), coq_str(case["name"]), world0(case)))
    rc, out = common.coq_eval(workdir, tag, txt, timeout=600)
    m = re.search(r'=\s*"(.*)"\s*:\s*string', out, re.S)
    if rc != 0 or not m:
        return None, out[-2000:]
    body = m.group(1).replace('""', '"')
    return [st.split("\n") for st in body.split("\n@@STEP\n")], None


def core_req(case, workdir, tag="corereq"):
    """What the Core model does at each step (for reports)."""
    em = Emit(case)
    txt = COQ_HEADER + "Definition h : list hstep :=\n  %s.\n" % em.history()
    txt += ('Definition nl := String (Ascii.ascii_of_nat 10) "".\n'
            'Definition show_req (r : step_req) := join nl ([sq_result r] ++ sq_log r ++ ["--tree"] ++ match sq_tree r with Some t => t | None => ["<unconstrained>"] end).\n'
            'Eval vm_compute in join (nl ++ "@@STEP" ++ nl) (map show_req (core_history %s %s h %s)).\n'
            % (cpath(case["cache"]), coq_str(case["name"]), world0(case)))
    rc, out = common.coq_eval(workdir, tag, txt, timeout=600)
    m = re.search(r'=\s*"(.*)"\s*:\s*string', out, re.S)
    if rc != 0 or not m:
        return None, out[-2000:]
    body = m.group(1).replace('""', '"')
    return [st.split("\n") for st in body.split("\n@@STEP\n")], None
