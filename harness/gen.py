"""Structured, mostly-valid generation of DSL cases (DESIGN.md section 7).
Every random choice comes from the one `random.Random` passed in."""
import copy

NAMES = ["a", "b", "c", "d e", "é", ".h"]
CONTENTS = ["x", "yy", "zz", "hello"]
JSONS = [None, True, 0, 1, 1.0, "s", [1, 2], {"k": 1}, [], {}, -0.0, 2 ** 63]
VERSIONS = [None, 0, 1, 1.0, True, "1", [1], {"a": 1, "b": 2}, {"b": 2, "a": 1}]
QKINDS = ["exists", "is_file", "is_dir", "list_dir", "walk", "get_size", "read"]


class Gen:
    def __init__(self, rng, profile=None):
        self.r = rng
        self.p = dict(fail=0.25, dup=0.06, malformed=0.04, hash=0.3, nest=0.45, long=0.02, stale=0.03)
        if profile:
            self.p.update(profile)
        self.nvar = 0

    def var(self):
        self.nvar += 1
        return "x%d" % self.nvar

    def flip(self, k):
        return self.r.random() < self.p[k]

    # ---- paths
    def name(self):
        if self.flip("long"):
            return "L" * 300
        return self.r.choice(NAMES[:4] if self.r.random() < 0.8 else NAMES)

    def path(self, maxdepth=3):
        d = self.r.choice([1, 1, 2, 2, 3][:maxdepth + 2])
        return [self.name() for _ in range(min(d, maxdepth))]

    def some_path(self):
        """a path likely to matter: an input, an output, a parent, or random"""
        pool = self.inputs + self.outputs + [p[:-1] for p in self.outputs if len(p) > 1] + [[]]
        if pool and self.r.random() < 0.8:
            return list(self.r.choice(pool))
        return self.path()

    # ---- expressions
    def ask(self):
        k = self.r.choice(QKINDS)
        x = self.var()
        p = self.some_path()
        if k == "walk":
            return ["ask", x, k, p, self.r.random() < 0.7], x
        if k == "read":
            return ["ask", x, k, p, "HASH" if self.flip("hash") else "METADATA"], x
        return ["ask", x, k, p], x

    def vexpr(self, vars_):
        r = self.r.random()
        if vars_ and r < 0.4:
            return ["digest", self.r.sample(vars_, min(len(vars_), self.r.randint(1, 2)))]
        if vars_ and r < 0.5:
            return ["var", self.r.choice(vars_)]
        return ["lit", copy.deepcopy(self.r.choice(JSONS))]

    def args(self):
        n = self.r.choice([0, 0, 1, 2])
        return [copy.deepcopy(self.r.choice(JSONS)) for _ in range(n)], ({"k": copy.deepcopy(self.r.choice(JSONS))} if self.r.random() < 0.2 else {})

    # ---- function bodies (function i may call only functions j > i)
    def call(self, level, vars_, catch_prob=0.75):
        """a nested build_file or subbuild call + optional reraise"""
        stmts = []
        x = self.var()
        if self.r.random() < 0.6 and self.ffuncs_from(level):
            f = self.r.choice(self.ffuncs_from(level))
            p = self.out_path()
            a, kw = self.args()
            stmts.append(["build_file", x, p, "HASH" if self.flip("hash") else "METADATA", f, a, kw])
        elif self.sfuncs_from(level):
            f = self.r.choice(self.sfuncs_from(level))
            a, kw = self.args()
            stmts.append(["subbuild", x, f, a, kw])
        else:
            return [], None
        if self.r.random() > catch_prob:
            stmts.append(["reraise", x])
        return stmts, x

    def ffuncs_from(self, level):
        return [f for f in self.ffuncs if self.level[f] > level]

    def sfuncs_from(self, level):
        return [f for f in self.sfuncs if self.level[f] > level]

    def out_path(self):
        if self.outputs and self.flip("dup"):
            return list(self.r.choice(self.outputs))
        if self.outputs and self.flip("malformed"):
            base = self.r.choice(self.outputs)
            return base + [self.name()] if self.r.random() < 0.5 else (base[:-1] or base)
        if self.flip("malformed"):
            return list(self.cache)
        for _ in range(10):
            p = self.path()
            # avoid accidental ancestor conflicts with other outputs and the cache file
            bad = any(p[:len(o)] == o or o[:len(p)] == p for o in self.outputs + [self.cache])
            if not bad:
                self.outputs.append(p)
                return p
        p = ["o%d" % len(self.outputs)]
        self.outputs.append(p)
        return p

    def body(self, fname, is_file):
        level = self.level[fname]
        stmts, vars_ = [], []
        for _ in range(self.r.choice([0, 1, 1, 2])):
            s, x = self.ask()
            stmts.append(s)
            vars_.append(x)
        fail = self.r.choice(["raise_before", "raise_after", "nocreate", "obj"]) if self.flip("fail") else None
        if fail == "raise_before":
            stmts.append(["raise", self.r.randint(1, 3)])
            return stmts
        # a nested call; functions that fail later get one more often (a successful output nested in a
        # failed one is a legitimate, easily forgotten shape)
        if self.flip("nest") or (fail in ("raise_after", "nocreate", "obj") and self.r.random() < 0.6):
            s, x = self.call(level, vars_)
            stmts += s
            if x:
                vars_.append(x)
        if is_file and fail != "nocreate":
            r = self.r.random()
            if r < 0.5 and vars_:
                stmts.append(["write", ["digest", self.r.sample(vars_, min(len(vars_), 2))]])
            elif r < 0.6:
                stmts.append(["write", ["arg", 0]])
            else:
                stmts.append(["write", ["lit", self.r.choice(CONTENTS)]])
        if self.r.random() < 0.25:
            s, x = self.ask()
            stmts.append(s)
            vars_.append(x)
        if fail == "raise_after":
            stmts.append(["raise", self.r.randint(1, 3)])
        elif fail == "obj":
            stmts.append(["ret", ["obj"]])
        else:
            stmts.append(["ret", self.vexpr(vars_)])
        return stmts

    def root(self, ncalls):
        stmts, vars_ = [], []
        for _ in range(ncalls):
            if self.r.random() < 0.3:
                s, x = self.ask()
                stmts.append(s)
                vars_.append(x)
            s, x = self.call(-1, vars_, catch_prob=0.8)
            stmts += s
            if x:
                vars_.append(x)
            if self.flip("stale") and x:
                y = self.var()
                stmts.append(["stale_ask", y, "is_file", self.some_path()])
                vars_.append(y)
        if self.r.random() < 0.3:
            s, x = self.ask()
            stmts.append(s)
            vars_.append(x)
        return stmts, vars_

    # ---- hand-written shapes that random generation reaches too rarely
    def template_case(self):
        """a successful output nested inside a failed one, inside a cacheable parent; built, reused,
        inspected, cleaned"""
        self.nvar = 0
        r = self.r
        t = r.random()
        if t < 0.3:
            return self.template_nested_failures()
        if t < 0.45:
            return self.template_output_becomes_dir()
        if t < 0.6:
            return self.template_listing_in_failing()
        if t < 0.72:
            return self.template_rewrite_after_nested()
        d1, d2 = r.sample(NAMES[:4], 2)
        deep = [d1, d2, "in"] if r.random() < 0.6 else [d1, "in"]
        outer = [d1, "out"] if r.random() < 0.7 else [d2 + "x", "out"]
        cmp_ = "HASH" if self.flip("hash") else "METADATA"
        failmode = r.choice([[["write", ["lit", "x"]], ["raise", 2]], [["raise", 1]], [["ret", ["lit", 0]]], [["write", ["lit", "x"]], ["ret", ["obj"]]]])
        funcs = {
            "inner": {"*": [["write", ["lit", "hello"]], ["ret", ["lit", 1]]]},
            "outerfail": {"*": [["build_file", "i", deep, cmp_, "inner", [], {}], ["ask", "q", "is_dir", deep[:-1]]] + failmode},
            "wrap": {"*": [["build_file", "o", outer, cmp_, "outerfail", [], {}], ["ask", "l", "exists", deep], ["ret", ["digest", ["o", "l"]]]]},
        }
        parent = r.choice(["subbuild", "build_file"])
        if parent == "subbuild":
            call = [["subbuild", "w", "wrap", [], {}]]
        else:
            funcs["wrapf"] = {"*": funcs["wrap"]["*"][:-1] + [["write", ["digest", ["o", "l"]]], ["ret", ["lit", 2]]]}
            call = [["build_file", "w", [d2 + "w"], cmp_, "wrapf", [], {}]]
        probes = [["ask", "p1", "is_dir", deep[:-1]], ["ask", "p2", "list_dir", deep[:1]], ["ask", "p3", "walk", [], True], ["ask", "p4", "is_file", deep]]
        r.shuffle(probes)
        root = call + [["ret", ["var", "w"]]]
        root_probe = probes[:2] + call + probes[2:] + [["ret", ["var", "w"]]]
        hist = [["build", {}, root], ["build", {}, root_probe]]
        tail = r.random()
        if tail < 0.4:
            hist.append(["clean", None])
        elif tail < 0.7:
            hist.append(["build", {}, [["ask", "z", "exists", deep[:1]], ["ret", ["var", "z"]]]])     # a build that no longer makes them
            hist.append(["clean", None])
        else:
            hist.append(["build", {}, root + []])
            hist.append(["build", {}, call + [["raise", 9]]])
        self.outputs = [deep, outer]
        self.inputs = []
        return {"cache": ["cache"], "name": "n", "funcs": funcs, "history": hist}

    def template_nested_failures(self):
        """a failed output whose function caught the failure of another output in a sibling directory,
        below a common new ancestor that the caller then looks at; built, rebuilt unchanged twice"""
        r = self.r
        top = r.choice(NAMES[:3])
        a, b = r.sample(["a", "b", "c", "d e"], 2)
        f1, f2 = [top, a, "f1"], [top, b, "f2"]
        cmp_ = "HASH" if self.flip("hash") else "METADATA"
        funcs = {
            "inner_file": {"*": [["raise", 1]] if r.random() < 0.6 else [["ret", ["lit", 0]]]},
            "outer_file": {"*": [["build_file", "n", f2, cmp_, "inner_file", [], {}], ["write", ["lit", "x"]], ["raise", 2]]},
            "probe": {"*": [["build_file", "o", f1, cmp_, "outer_file", [], {}],
                            ["ask", "q1", r.choice(["exists", "is_dir", "list_dir"]), [top]],
                            ["ask", "q2", "walk", [], True], ["ret", ["digest", ["o", "q1"]]]]},
        }
        root = [["subbuild", "s", "probe", [], {}], ["ret", ["var", "s"]]]
        hist = [["build", {}, root], ["build", {}, root], ["build", {}, root]]
        if r.random() < 0.5:
            hist.append(["clean", None])
        self.outputs = [f1, f2]
        self.inputs = []
        return {"cache": ["cache"], "name": "n", "funcs": funcs, "history": hist}

    def template_output_becomes_dir(self):
        """the path of a previous output (a regular file) is a directory now: an output is built below
        it by the next build (or it was swapped externally); queried before, inside and after"""
        r = self.r
        d = r.choice(NAMES[:3])
        P = [d, "o"] if r.random() < 0.7 else ["o" + d]
        kinds = ["read", "is_dir", "exists", "list_dir", "is_file", "get_size", "walk"]

        def probes(prefix):
            out = []
            for i, k in enumerate(r.sample(kinds, 3) + ["read"]):
                st = ["ask", "%s%d" % (prefix, i), k, P]
                if k == "read":
                    st.append("HASH" if r.random() < 0.5 else "METADATA")
                if k == "walk":
                    st.append(True)
                out.append(st)
            return out
        cmp_ = "HASH" if self.flip("hash") else "METADATA"
        inside = probes("i")
        tailmode = r.choice([[["write", ["lit", "y"]], ["ret", ["digest", [x[1] for x in inside]]]]] * 3 + [[["write", ["lit", "y"]], ["raise", 3]], [["raise", 4]]])
        funcs = {"w": {"*": [["write", ["lit", "x"]], ["ret", ["lit", 1]]]}, "below": {"*": inside + tailmode}}
        root1 = [["build_file", "a", P, cmp_, "w", [], {}], ["ret", ["var", "a"]]]
        before, after = probes("b"), probes("c")
        root2 = before + [["build_file", "n", P + ["x"], cmp_, "below", [], {}]] + after + [["ret", ["digest", [x[1] for x in before + after] + ["n"]]]]
        if r.random() < 0.7:
            hist = [["build", {}, root1], ["build", {}, root2], ["build", {}, root2]]
        else:
            root3 = before + after + [["ret", ["digest", [x[1] for x in before + after]]]]
            hist = [["build", {}, root1], ["mutate", [["rm", P], ["mkdir", P]] + ([["write", P + ["z"], "Z"]] if r.random() < 0.5 else [])],
                    ["build", {}, root3], ["build", {}, root3]]
        if r.random() < 0.4:
            hist.append(["clean", None])
        self.outputs = [P, P + ["x"]]
        self.inputs = []
        return {"cache": ["cache"], "name": "n", "funcs": funcs, "history": hist}

    def template_rewrite_after_nested(self):
        """a function writes its target, makes a nested call whose cached record mentions that target, and
        rewrites the target afterwards; a reader depends on the target; the history flips two flags
        (the shape of defect D15: nothing may be remembered about a target that is still being built)"""
        r = self.r
        cmp_ = "HASH" if r.random() < 0.7 else "METADATA"
        P, Q, R = ["p"], [r.choice(["q", "s"])], ["r"]
        if r.random() < 0.3:
            P, Q, R = ["o", "p"], ["o", "q"], ["r"]
        F1, F2 = ["flag1"], ["flag2"]
        first, second = r.choice([("X", "B"), ("same", "same2"), ("ab", "ba")])
        reader = r.choice([["ask", "c", "read", P, cmp_], ["ask", "c", "read", P, "HASH"], ["ask", "c", "get_size", P]])
        nested_kind = r.choice(["build_file", "subbuild"])
        funcs = {
            "fp": {"*": [["write", ["lit", "A"]], ["ret", ["lit", 0]]]},
            "fq": {"*": [["build_file", "x", P, cmp_, "fp", [], {}], ["write", ["lit", "Q"]], ["ret", ["lit", 0]]]},
            "sq": {"*": [["build_file", "x", P, cmp_, "fp", [], {}], ["ask", "z", "exists", P], ["ret", ["digest", ["z"]]]]},
            "fr": {"*": [reader, ["write", ["digest", ["c"]]], ["ret", ["lit", 0]]]},
        }
        nested = [["build_file", "y", Q, cmp_, "fq", [], {}]] if nested_kind == "build_file" else [["subbuild", "y", "sq", [], {}]]
        funcs["fp3"] = {"*": [["write", ["lit", first]]] + nested + [["ask", "e", "exists", F2],
                              ["if", ["true", "e"], [["write", ["lit", second]]], []], ["ret", ["lit", 0]]]}
        main = [["ask", "f1", "exists", F1],
                ["if", ["true", "f1"], nested, [["build_file", "b", P, cmp_, "fp3", [], {}], ["build_file", "rr", R, cmp_, "fr", [], {}]]],
                ["ret", ["lit", 0]]]
        hist = [["mutate", [["write", F1, ""], ["write", F2, ""]]], ["build", {}, main], ["mutate", [["rm", F1]]], ["build", {}, main],
                ["mutate", [["rm", F2]]], ["build", {}, main], ["build", {}, main]]
        self.outputs = [P, Q, R]
        self.inputs = []
        return {"cache": ["cache"], "name": "n", "funcs": funcs, "history": hist}

    def template_listing_in_failing(self):
        """a failing output in a directory the library creates for it lists that directory's parent, which
        holds real entries sorting before and after; the caller catches; rebuilt unchanged twice"""
        r = self.r
        top = r.choice(NAMES[:3])
        x = r.choice(["a", "h", "z"])
        cmp_ = "HASH" if self.flip("hash") else "METADATA"
        target = [top, x, "out"]
        ask = [["ask", "l1", "list_dir", [top]], ["ask", "l2", "walk", [top], r.random() < 0.5]]
        r.shuffle(ask)
        funcs = {
            "lister": {"*": ask + r.choice([[["raise", 1]], [["write", ["lit", "x"]], ["raise", 2]], [["ret", ["lit", 0]]]])},
            "outer": {"*": [["build_file", "f", target, cmp_, "lister", [], {}], ["ask", "e", "exists", [top, x]], ["ret", ["digest", ["f", "e"]]]]},
        }
        root = [["subbuild", "s", "outer", [], {}], ["ret", ["var", "s"]]]
        hist = [["mutate", [["write", [top, "m"], "M"], ["write", [top, "b"], "B"]]], ["build", {}, root], ["build", {}, root], ["build", {}, root]]
        self.outputs = [target]
        self.inputs = []
        return {"cache": ["cache"], "name": "n", "funcs": funcs, "history": hist}

    # ---- whole case
    def case(self, nsteps=None):
        if nsteps is None and self.r.random() < self.p.get("template", 0.12):
            return self.template_case()
        self.nvar = 0
        self.cache = self.r.choice([["cache"], ["cache"], ["k", "cache"], ["k", "m", "cache"]])
        nin = self.r.choice([0, 1, 2])
        self.inputs = []
        for _ in range(nin):
            p = self.path(2)
            if p != self.cache and p[:1] != self.cache[:1]:
                self.inputs.append(p)
        self.outputs = []
        nf = self.r.choice([1, 2, 3])
        ns = self.r.choice([0, 1, 2])
        self.ffuncs = ["f%d" % i for i in range(nf)]
        self.sfuncs = ["s%d" % i for i in range(ns)]
        allf = self.ffuncs + self.sfuncs
        self.r.shuffle(allf)
        self.level = {f: i for i, f in enumerate(allf)}
        funcs = {}
        # deepest first so that out paths of callees exist when callers are generated
        for f in sorted(allf, key=lambda f: -self.level[f]):
            funcs[f] = {"*": self.body(f, f in self.ffuncs)}
        root, rvars = self.root(self.r.choice([1, 2, 2, 3]))
        ok_root = root + [["ret", self.vexpr(rvars)]]
        fail_root = root + [["raise", 9]]
        # alternative behaviours under another version
        changed = None
        if self.r.random() < 0.5:
            changed = self.r.choice(allf)
            funcs[changed]['2'] = self.body(changed, changed in self.ffuncs)
        history = []
        first = [["write", p, self.r.choice(CONTENTS)] for p in self.inputs]
        if len(self.cache) > 1 and self.r.random() < 0.8:
            # make the directory of the cache file a foreign directory (otherwise it is a
            # "cache-only" directory, which queries may or may not see: latitude of C04)
            first.append(["mkdir", self.cache[:-1]])
        if first:
            history.append(["mutate", first])
        n = nsteps or self.r.choice([2, 3, 3, 4, 5])
        vers = {}
        for i in range(n):
            r = self.r.random()
            if i == 0 or r < 0.5:
                if changed and self.r.random() < 0.3:
                    vers = {changed: 2} if vers.get(changed) != 2 else {}
                elif self.r.random() < 0.1 and allf:
                    f = self.r.choice(allf)
                    if f != changed:
                        vers = dict(vers)
                        vers[f] = copy.deepcopy(self.r.choice(VERSIONS))
                body = fail_root if self.r.random() < 0.2 else ok_root
                history.append(["build", dict(vers), body])
            elif r < 0.9:
                history.append(["mutate", self.mutation()])
            else:
                history.append(["clean", self.r.choice([None, "n", "n", "other"])])
        if history[-1][0] != "build":
            history.append(["build", dict(vers), ok_root])
        tail = self.r.random()
        if tail < 0.35:
            # reuse the whole cache once more, look at the directories, then clean
            probe = [["ask", self.var(), "is_dir", p[:-1]] for p in self.outputs if len(p) > 1][:3]
            history.append(["build", dict(vers), ok_root[:-1] + probe + ok_root[-1:]])
            if self.r.random() < 0.7:
                history.append(["clean", None])
        return {"cache": self.cache, "name": "n", "funcs": funcs, "history": history}

    def mutation(self):
        ops = []
        for _ in range(self.r.choice([1, 1, 2])):
            k = self.r.choice(["write", "write", "touch"] + (["rewrite"] if self.p.get("rewrite") else []) + ["rm", "mkdir", "rmtree", "plant", "swap_dir", "swap_file", "corrupt"])
            pool = self.inputs + self.outputs
            p = list(self.r.choice(pool)) if pool and self.r.random() < 0.85 else self.path()
            if p == self.cache and k != "corrupt":
                continue
            if k == "write":
                ops.append(["write", p, self.r.choice(CONTENTS)])
            elif k == "touch":
                ops.append(["touch", p])
            elif k == "rewrite":
                ops.append(["rewrite", p, self.r.choice(["ab", "ba", "x", "yy", "zz"])])
            elif k == "rm":
                ops.append(["rm", p])
            elif k == "mkdir":
                ops.append(["mkdir", p[:-1] + [self.name()] if self.r.random() < 0.5 else p])
            elif k == "rmtree":
                ops.append(["rmtree", p[:self.r.randint(1, len(p))]])
            elif k == "plant":
                parent = p[:-1]
                ops.append(["write", parent + ["foreign"], "F"])
            elif k == "swap_dir":
                ops.append(["rmtree", p])
                ops.append(["mkdir", p])
                if self.r.random() < 0.5:
                    ops.append(["write", p + ["inner"], "I"])
            elif k == "swap_file":
                q = p[:self.r.randint(1, len(p))]
                ops.append(["rmtree", q])
                ops.append(["write", q, "was-dir"])
            elif k == "corrupt" and self.r.random() < 0.3:
                ops.append(["corrupt", self.r.choice(["truncate", "notgzip", "empty", "nonjson", "wrongshape", "othersoftware", "newerversion"])])
        return ops


def size_of(case):
    n = 0
    def walk(stmts):
        nonlocal n
        for s in stmts:
            n += 1
            if s[0] == "if":
                walk(s[2])
                walk(s[3])
    for f in case["funcs"].values():
        for b in f.values():
            walk(b)
    for st in case["history"]:
        if st[0] == "build":
            walk(st[2])
    return n


def _stmts(block):
    for s in block:
        yield s
        if s[0] == "if":
            yield from _stmts(s[2])
            yield from _stmts(s[3])
        elif s[0] == "par":
            for b in s[1]:
                yield from _stmts(b)


def target_below_own(case):
    """True when some build_file function can issue a build_file (directly or through the functions it
    calls) for a path strictly below its own target.  If that nested call fails, the directory made for it
    at the enclosing target's path is gone from the virtual view at once but stays on disk until the end
    of the build (C10: "at once in the virtual view and on disk by the end of the build"), so the enclosing
    function's own physical write meets a directory.  The reference semantics (Spec/Ref.v, Model/Core.v)
    removes such directories at once; those programs are outside the universe compared with it."""
    funcs = case["funcs"]
    memo = {}

    def targets(fname, depth=0):
        if fname in memo or depth > 8:
            return memo.get(fname, set())
        memo[fname] = set()
        out = set()
        for body in funcs.get(fname, {}).values():
            for s in _stmts(body):
                if s[0] == "build_file":
                    out.add(tuple(s[2]))
                    out |= targets(s[4], depth + 1)
                elif s[0] == "subbuild":
                    out |= targets(s[2], depth + 1)
        memo[fname] = out
        return out
    blocks = [st[2] for st in case["history"] if st[0] == "build"] + [b for f in funcs.values() for b in f.values()]
    for blk in blocks:
        for s in _stmts(blk):
            if s[0] == "build_file":
                P = tuple(s[2])
                if any(len(q) > len(P) and q[:len(P)] == P for q in targets(s[4])):
                    return True
    return False


def targets_nest(case):
    """True when the path of one build_file target of the case is a proper ancestor of another's.  Such a
    program is only possible because one of the two calls fails; the failing one still needs the other's
    path as a directory for a while, so the implementation has to move a reusable old output at that path
    out of the way and re-runs its function, while Model/Core.v (an idealisation: the stale store is not
    a place on disk) serves it.  Results and trees agree with the reference either way; only the
    exact-agreement comparison with Core is skipped."""
    ts = set()
    blocks = [st[2] for st in case["history"] if st[0] == "build"] + [b for f in case["funcs"].values() for b in f.values()]
    for blk in blocks:
        for s in _stmts(blk):
            if s[0] == "build_file":
                ts.add(tuple(s[2]))
    return any(len(q) > len(p) and q[:len(p)] == p for p in ts for q in ts)


def cache_only_dirs(case):
    """True when the directories holding the cache file may be created by the build
    itself (the latitude of C04: such directories are not observed consistently)."""
    if len(case["cache"]) <= 1:
        return False
    parent = case["cache"][:-1]
    made = False
    for st in case["history"]:
        if st[0] == "mutate":
            for op in st[1]:
                if op[0] == "mkdir" and op[1][:len(parent)] == parent:
                    made = True
                if op[0] == "write" and op[1][:len(parent)] == parent and len(op[1]) > len(parent):
                    made = True
                if op[0] == "rmtree" and parent[:len(op[1])] == op[1]:
                    return True          # removed again later: may be re-created by a build
        elif st[0] == "build":
            if not made:
                return True
    return False
