"""Schedule exploration on the implementation (T2c / T3 for C08 threads, C09, C17)."""
import logging
import os
import sys

from . import common, shim
from .dsl import Interp


def run_case(case, workdir, mode="seq", choices=(), max_steps=20000):
    """-> (obs, info). mode: seq | sched | free"""
    common.import_repo()
    info = {"deadlock": False, "branching": [], "taken": [], "preemptions": 0, "trace_len": 0}
    if mode == "sched":
        sched = shim.Sched(choices, max_steps=max_steps)
        hooks = shim.Hooks(sched=sched)
        shim.install(hooks)
        sched.register_main()
        try:
            it = Interp(case, workdir, par_mode="sched", sched=sched)
            try:
                obs = it.run()
            except shim.Deadlock:
                obs = None
            info.update(deadlock=sched.deadlock, branching=sched.branching, taken=sched.taken,
                        preemptions=sched.preemptions, trace_len=len(sched.trace), trace=sched.trace[-400:])
        finally:
            shim.uninstall()
        return obs, info, it
    it = Interp(case, workdir, par_mode=mode)
    return it.run(), info, it


def canon(obs, par_steps):
    """observations with the log of steps that run threads compared as a multiset"""
    out = []
    first = min(par_steps) if par_steps else len(obs)
    for i, st in enumerate(obs):
        k = st.index("--tree")
        log = st[1:k]
        tree = st[k + 1:]
        if i in par_steps:
            log = sorted(log)
        if i >= first:
            # the logical clock ticks in thread order: modification times are not comparable
            tree = [_strip_mtime(l) for l in tree]
        out.append([st[0]] + log + ["--tree"] + tree)
    return out


def _strip_mtime(l):
    if "|F|" not in l:
        return l
    head, mt, cls = l.rsplit("|", 2)
    return head + "|" + cls


def explore(case, workdir, bound=1, limit=400, par_steps=None):
    """All schedules with at most `bound` deviations from the no-pre-emption run (DFS, replay from
    scratch).  -> (reference obs, list of (choices, obs, info)) for runs that differ or deadlock,
    number of schedules run."""
    par_steps = par_steps if par_steps is not None else [i for i, s in enumerate(case["history"]) if s[0] == "build" and _has_par(s[2], case)]
    ref, _, _ = run_case(case, workdir, "seq")
    refc = canon(ref, par_steps)
    bad = []
    seen = set()
    stack = [((), 0)]
    n = 0
    while stack and n < limit:
        prefix, dev = stack.pop()
        if prefix in seen:
            continue
        seen.add(prefix)
        obs, info, _ = run_case(case, workdir, "sched", prefix)
        n += 1
        if obs is None or info["deadlock"]:
            bad.append((list(prefix), obs, info))
        elif canon(obs, par_steps) != refc:
            bad.append((list(prefix), obs, info))
        if dev < bound:
            br, tk = info["branching"], info["taken"]
            for i in range(len(prefix), len(br)):
                for alt in range(br[i]):
                    if alt != tk[i]:
                        stack.append((tuple(tk[:i]) + (alt,), dev + 1))
    return ref, bad, n


def _has_par(stmts, case, depth=0):
    for s in stmts:
        if s[0] == "par":
            return True
        if s[0] == "if" and (_has_par(s[2], case) or _has_par(s[3], case)):
            return True
        if s[0] in ("build_file", "subbuild") and depth < 6:
            f = s[4] if s[0] == "build_file" else s[2]
            for b in case["funcs"].get(f, {}).values():
                if _has_par(b, case, depth + 1):
                    return True
    return False
