"""Minimal reproductions of the defects D1, D2, D3, D8, D9 of the pinned tree
(DESIGN.md section 9).  Usage: repro.py <Dn>  -> exit 0 if the defect is absent
(the property holds on this history), 1 if it shows."""
import os, shutil, sys, tempfile
sys.path.insert(0, os.environ.get("VERIF_REPO", "/repo"))
from file_builder import FileBuilder

def w(p, s):
    with open(p, "w") as f:
        f.write(s)

class Boom(Exception):
    pass

def d1(root):
    # subbuild catches failing build_file(D/E/b) whose body caught failing build_file(D/a); build twice
    cache = os.path.join(root, "cache")
    def fa(b, p):
        raise Boom()
    def fb(b, p):
        try:
            b.build_file(os.path.join(root, "D", "a"), "fa", fa)
        except Boom:
            pass
        raise Boom()
    def sub(b):
        try:
            b.build_file(os.path.join(root, "D", "E", "b"), "fb", fb)
        except Boom:
            pass
        return 1
    def main(b):
        return b.subbuild("sub", sub)
    FileBuilder.build(cache, "n", main)
    try:
        FileBuilder.build(cache, "n", main)
    except KeyError as e:
        return "second build crashed with KeyError %s" % e
    return None

def d2(root):
    cache = os.path.join(root, "cache")
    def fo(b, p):
        w(p, "x")
    def main1(b):
        b.build_file(os.path.join(root, "D", "o"), "fo", fo)
    def main2(b):
        try:
            b.declare_read(os.path.join(root, "D"))
        except OSError as e:
            return type(e).__name__
        return "no error"
    FileBuilder.build(cache, "n", main1)
    r = FileBuilder.build(cache, "n", main2)
    return None if r == "FileNotFoundError" else "declare_read(stale dir) gave %s, from scratch FileNotFoundError" % r

def d3(root):
    cache = os.path.join(root, "cache")
    def fo(b, p):
        w(p, "x")
    def main1(b):
        b.build_file(os.path.join(root, "D", "o"), "fo", fo)
    def main2(b):
        b.build_file(os.path.join(root, "D", "o"), "fo", fo)
        raise Boom()
    FileBuilder.build(cache, "n", main1)
    os.remove(os.path.join(root, "D", "o"))
    try:
        FileBuilder.build(cache, "n", main2)
    except Boom:
        pass
    return "file created by the failed build survives rollback" if os.path.exists(os.path.join(root, "D", "o")) else None

def d8(root):
    cache = os.path.join(root, "cache")
    o = os.path.join(root, "c", "o")
    def nocreate(b, p):
        return 1
    def parent(b):
        try:
            b.build_file(o, "nocreate", nocreate)
        except RuntimeError:
            return "caught"
        return "ok"
    def main(b):
        return b.subbuild("parent", parent)
    FileBuilder.build(cache, "n", main)
    os.makedirs(os.path.dirname(o), exist_ok=True)
    w(o, "foreign")
    FileBuilder.build(cache, "n", main)
    # from scratch build_file moves the foreign file aside before calling the function
    return "foreign file at the target of a raised record survives the incremental build" if os.path.exists(o) else None

def d9(root):
    cache = os.path.join(root, "cache")
    o = os.path.join(root, "b", "c", "o")
    def fo(b, p):
        w(p, "x")
    def parent(b):
        b.build_file(o, "fo", fo)
        return 1
    def main(b):
        return b.subbuild("parent", parent)
    FileBuilder.build(cache, "n", main)
    shutil.rmtree(os.path.join(root, "b"))
    w(os.path.join(root, "b"), "file")
    try:
        FileBuilder.build(cache, "n", main)
    except NotADirectoryError as e:
        # from scratch: build_file raises NotADirectoryError from its own setup; here it must too,
        # but it must come from build_file, not escape from the subbuild lookup. Distinguish by record.
        import traceback
        tb = traceback.extract_tb(e.__traceback__)
        if any(fr.name == "_subbuild_cache_lookup" for fr in tb):
            return "NotADirectoryError escaped from the cache lookup of the enclosing subbuild"
    def main2(b):
        try:
            b.declare_read(os.path.join(root, "b", "x"))
        except OSError as e2:
            return type(e2).__name__
    shutil.rmtree(root); os.makedirs(root); w(os.path.join(root, "b"), "file")
    r = FileBuilder.build(cache, "n", main2)
    return None if r == "FileNotFoundError" else "declare_read below a regular file gave %s" % r

def _main():
    which = sys.argv[1].lower()
    root = tempfile.mkdtemp(prefix="fbrepro_", dir=os.environ.get("VERIF_TMP"))
    try:
        msg = globals()[which](os.path.join(root, "sb")) if os.makedirs(os.path.join(root, "sb")) is None else None
    finally:
        shutil.rmtree(root, ignore_errors=True)
    if msg:
        print("DEFECT %s: %s" % (which.upper(), msg))
        sys.exit(1)
    print("ok", which.upper())


def d13(root):
    """a directory the previous build created was replaced by a foreign regular file; the next build
    overwrites that file and rolls back: the foreign file must be back"""
    cache = os.path.join(root, "cache")
    def wr(b, p):
        w(p, "x")
    def main1(b):
        b.build_file(os.path.join(root, "D", "o"), "wr", wr)
    FileBuilder.build(cache, "n", main1)
    shutil.rmtree(os.path.join(root, "D"))
    w(os.path.join(root, "D"), "foreign")
    def main2(b):
        b.build_file(os.path.join(root, "D"), "wr", wr)
        raise Boom()
    try:
        FileBuilder.build(cache, "n", main2)
    except Boom:
        pass
    p = os.path.join(root, "D")
    if not os.path.isfile(p) or open(p).read() != "foreign":
        return "overwritten foreign file at the path of a previously created directory is not restored by rollback (now: %s)" % (
            "directory" if os.path.isdir(p) else "missing" if not os.path.exists(p) else repr(open(p).read()))
    return None


if __name__ == "__main__":
    _main()
