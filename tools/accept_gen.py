#!/usr/bin/env python3
"""Copies the current generated control skeleton (coq/Gen/Decisions.v, Sites.v) into the committed
baselines coq/Model/DecisionsModel.v / SitesModel.v: the skeleton the hand-written model was last
brought in line with.  Run by hand after the model has been updated for a source change."""
import os, re
V = os.path.dirname(os.path.dirname(os.path.abspath(__file__)))
g = open(os.path.join(V, "coq/Gen/Decisions.v")).read()
body = g[g.index("Definition decisions"):].replace("Definition decisions ", "Definition decisions_model ")
open(os.path.join(V, "coq/Model/DecisionsModel.v"), "w").write(
    "(* Baseline of Gen/Decisions.v the model was last aligned with (tools/accept_gen.py). *)\n"
    "From Coq Require Import List String.\nFrom FB.Gen Require Import Decisions.\nImport ListNotations.\nOpen Scope string_scope.\n\n" + body)
g = open(os.path.join(V, "coq/Gen/Sites.v")).read()
body = g[g.index("Definition sites"):].replace("Definition sites ", "Definition sites_model ")
open(os.path.join(V, "coq/Model/SitesModel.v"), "w").write(
    "(* Baseline of Gen/Sites.v the model was last aligned with (tools/accept_gen.py). *)\n"
    "From Coq Require Import List String.\nImport ListNotations.\nOpen Scope string_scope.\n\n" + body)
print("accepted")
