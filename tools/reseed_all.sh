#!/bin/bash
# tools/reseed_all.sh — re-validate every stored seed against the current checks (apply, check, undo)
cd /verif
for d in seeded/*/; do
  id=$(basename $d); prop=${id%%-*}
  if ! git -C /repo apply --check /verif/$d/patch.diff 2>/dev/null; then echo "$id: PATCH-DOES-NOT-APPLY"; continue; fi
  git -C /repo apply /verif/$d/patch.diff
  out=$(bin/check $prop --tier quick 2>&1 | grep -E "^(VIOLATION|C[0-9]+ quick)" )
  git -C /repo checkout -- .
  n=$(echo "$out" | grep -c "^VIOLATION"); ni=$(echo "$out" | grep "^VIOLATION" | grep -vc "no-failing-input-found")
  echo "$id: violations=$n with_input=$ni | $(echo "$out" | tail -1)"
done
git checkout -- evidence coq/Gen 2>/dev/null
/venv/bin/python -c "import sys; sys.path.insert(0,'/verif'); from harness import common; common.run_translators()"
