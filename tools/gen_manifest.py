#!/usr/bin/env python3
"""Writes MANIFEST.json from the table below (kept in one place so that the
manifest stays consistent with what is built)."""
import json, os
V = os.path.dirname(os.path.dirname(os.path.abspath(__file__)))
props = [json.loads(l) for l in open(os.path.join(V, "properties.jsonl"))]
CLAIMS = json.load(open(os.path.join(V, "tools", "claims.json")))
checks, na = [], []
for p in props:
    c = CLAIMS.get(p["id"])
    if not c or not c.get("claimed"):
        na.append({"property_id": p["id"], "reason": (c or {}).get("reason", "check not built yet")})
        continue
    checks.append({
        "property_id": p["id"],
        "quick_cmd": "bin/check %s --tier quick" % p["id"],
        "thorough_cmd": "bin/check %s --tier thorough" % p["id"],
        "evidence_file": "/verif/evidence/%s.json" % p["id"],
        "replay_cmd_template": "bin/check %s --replay {path}" % p["id"],
        "engine": "coq-proof+correspondence",
        "level_claimed": {"category": "proof", "text": c["text"], "design_ref": c.get("design_ref", "DESIGN.md section 6")},
        "level_note": c["note"],
        "technique": c["technique"],
    })
m = {
    "version": 1,
    "setup_cmd": "cd /verif && bin/setup",
    "hooks": {"guard": "FILE_BUILDER_VERIF", "enable": "none needed: all instrumentation wraps library entry points from the harness process; the guard is unused",
              "baseline_off_cmd": "cd /repo && /venv/bin/python -m pytest -ra -q -p no:cacheprovider --timeout=900 --continue-on-collection-errors",
              "source_commits": [], "add_only": True},
    "engines": [{"name": "coq-proof+correspondence", "path": "/verif/bin/check",
                 "serves_properties": [c["property_id"] for c in checks],
                 "kind_free_text": "Coq 8.16 theorems about a model regenerated (translators) and differentially tied (correspondence) to /repo on every run; spec-oracle search for a failing input when a tie breaks"}],
    "checks": checks,
    "not_applicable": na,
    "notes": "See DESIGN.md. KNOWN_FINDINGS.txt lists recorded findings and fixed defects.",
}
json.dump(m, open(os.path.join(V, "MANIFEST.json"), "w"), indent=1)
print("claimed:", [c["property_id"] for c in checks])
